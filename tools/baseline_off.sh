#!/bin/sh
# baseline_off.sh — MANIFEST.hooks.baseline_off_cmd: the repository's own test suite with the
# verification guard (MICM_VERIF_HOOKS) NOT defined, built from /repo's working tree in a
# scratch directory outside /repo and /verif, which is removed afterwards.
set -e
B=$(mktemp -d /tmp/micm-baseline-XXXXXX)
trap 'rm -rf "$B"' EXIT
cmake -G Ninja -S /repo -B "$B" -DCMAKE_BUILD_TYPE=RelWithDebInfo -DMICM_ENABLE_TESTS=ON \
  -DFETCHCONTENT_SOURCE_DIR_GOOGLETEST=/usr/src/googletest -DFETCHCONTENT_SOURCE_DIR_GTEST=/usr/src/googletest \
  -DFETCHCONTENT_TRY_FIND_PACKAGE_MODE=ALWAYS -DFETCHCONTENT_UPDATES_DISCONNECTED=ON >"$B/configure.log" 2>&1 \
  || { tail -30 "$B/configure.log"; exit 1; }
cmake --build "$B" -j16 >"$B/build.log" 2>&1 || { tail -40 "$B/build.log"; exit 1; }
ctest --test-dir "$B" -j8 --timeout 900 2>&1 | tail -15
