#!/usr/bin/env python3
"""seedtable.py — rewrites the part of DESIGN.md between <!-- STATUS-BEGIN --> and <!-- STATUS-END --> from
tools/_status_section.md plus a table of /verif/seeded/*/meta.json."""
import glob, json, os, re
V = os.path.dirname(os.path.dirname(os.path.abspath(__file__)))
rows = []
for d in sorted(glob.glob(os.path.join(V, "seeded", "*"))):
    mp = os.path.join(d, "meta.json")
    if not os.path.exists(mp):
        continue
    m = json.load(open(mp))
    c = m.get("check", {})
    summ = re.sub(r"\s+", " ", m.get("summary", ""))[:230].replace("|", "\\|")
    first = c.get("replay_first_line", "")
    toks = sorted(set(re.findall(r"(ORACLE_[A-Za-z0-9_]+|UB:[a-z:-]+|TIE-DISAGREEMENT|coqc rejected [A-Za-z0-9_.]+)", first)))
    how = ("concrete input: " + ", ".join(toks)[:140]) if c.get("concrete_failing_input") else \
          ("broken tie / proof, no failing input found" if c.get("detected") else "**missed**")
    ok = m.get("confirmed_in_scratch_worktree", {}).get("applies_builds_and_existing_tests_pass")
    rows.append("| %s | %s | %s | %s | %s |" % (os.path.basename(d), m.get("property", ""), summ, "yes" if ok else "no", how))
table = "### 0.7 Which check catches which seeded change\n\n| change | property | what it does | existing tests pass | `./check <id> quick` |\n|---|---|---|---|---|\n" + "\n".join(rows) + "\n"
status = open(os.path.join(V, "tools", "_status_section.md")).read()
status = status.replace("<!-- SEEDTABLE -->", table) if "<!-- SEEDTABLE -->" in status else status + table
dp = os.path.join(V, "DESIGN.md")
s = open(dp).read()
b, e = "<!-- STATUS-BEGIN -->", "<!-- STATUS-END -->"
if b not in s:
    marker = "---------------------------------------------------------------------------------\n\n## 1. What is being verified"
    s = s.replace(marker, "---------------------------------------------------------------------------------\n\n" + b + "\n" + e + "\n\n" + marker, 1)
i, j = s.index(b), s.index(e)
s = s[:i + len(b)] + "\n" + status + "\n" + s[j:]
open(dp, "w").write(s)
print("DESIGN.md status section: %d seeded changes" % len(rows))
