"""vcore.py — shared machinery of the checks: building (Coq, extracted driver, C++ harness
drivers from /repo's working tree), running case files through model and implementation,
comparison, violation search bookkeeping, evidence writing."""
import fcntl
import hashlib
import json
import os
import re
import subprocess
import sys
import time

VERIF = os.path.dirname(os.path.dirname(os.path.abspath(__file__)))
REPO = os.environ.get("VERIF_REPO", "/repo")
COQ = os.path.join(VERIF, "coq")
EXTRACT = os.path.join(VERIF, "extract")
HARNESS = os.path.join(VERIF, "harness")
CACHE = os.path.join(VERIF, ".cache")
EVIDENCE = os.path.join(VERIF, "evidence")
REPLAYS = os.path.join(VERIF, "replays")
CORPUS = os.path.join(VERIF, "corpus")
KNOWN = os.path.join(VERIF, "KNOWN_FINDINGS.txt")
GUARD = "MICM_VERIF_HOOKS"

os.makedirs(CACHE, exist_ok=True)
os.makedirs(EVIDENCE, exist_ok=True)
os.makedirs(REPLAYS, exist_ok=True)


def log(*a):
    print(*a, file=sys.stderr, flush=True)


class Lock:
    def __init__(self, name):
        self.path = os.path.join(CACHE, name + ".lock")

    def __enter__(self):
        self.f = open(self.path, "w")
        fcntl.flock(self.f, fcntl.LOCK_EX)
        return self

    def __exit__(self, *a):
        fcntl.flock(self.f, fcntl.LOCK_UN)
        self.f.close()


def sh(cmd, timeout=None, cwd=None, inp=None, env=None):
    """run a command, return (rc, stdout, stderr); rc = 124 on timeout"""
    try:
        p = subprocess.run(cmd, shell=isinstance(cmd, str), cwd=cwd, input=inp, capture_output=True,
                           text=True, errors="replace", timeout=timeout, env=env)
        return p.returncode, p.stdout, p.stderr
    except subprocess.TimeoutExpired as e:
        so = e.stdout.decode(errors="replace") if isinstance(e.stdout, bytes) else (e.stdout or "")
        se = e.stderr.decode(errors="replace") if isinstance(e.stderr, bytes) else (e.stderr or "")
        return 124, so, se


# ----------------------------------------------------------------------------------------
# Coq
# ----------------------------------------------------------------------------------------
def coq_files():
    fs = []
    for line in open(os.path.join(COQ, "_CoqProject")):
        line = line.strip()
        if line.endswith(".v"):
            fs.append(line)
    return fs


def coq_make(targets=None, timeout=1500):
    """(re)build .vo files that are out of date; returns (ok, output)"""
    with Lock("coq"):
        if not os.path.exists(os.path.join(COQ, "Makefile")) or \
           os.path.getmtime(os.path.join(COQ, "Makefile")) < os.path.getmtime(os.path.join(COQ, "_CoqProject")):
            rc, so, se = sh("coq_makefile -f _CoqProject -o Makefile", cwd=COQ, timeout=120)
            if rc != 0:
                return False, so + se
        tgt = " ".join(targets) if targets else ""
        rc, so, se = sh("timeout %d make -j16 %s" % (timeout, tgt), cwd=COQ, timeout=timeout + 30)
        return rc == 0, so + se


GATE_RE = re.compile(r"\b(Admitted|admit|Axiom|Axioms|Parameter|Parameters|Conjecture|Conjectures|Admit Obligations|"
                     r"Unset Guard Checking|Unset Positivity Checking|Unset Universe Checking|bypass_check|"
                     r"native_compute|type-in-type|impredicative-set)\b")


def strip_coq_comments(s):
    out = []
    depth = 0
    i = 0
    while i < len(s):
        if s.startswith("(*", i):
            depth += 1
            i += 2
        elif s.startswith("*)", i) and depth > 0:
            depth -= 1
            i += 2
        else:
            if depth == 0:
                out.append(s[i])
            i += 1
    return "".join(out)


def coq_gate():
    """the grep gate: no axioms, admits or disabled kernel checks anywhere in the development"""
    bad = []
    for root, _, files in os.walk(COQ):
        for f in files:
            if f.endswith(".v"):
                p = os.path.join(root, f)
                body = strip_coq_comments(open(p).read())
                for m in GATE_RE.finditer(body):
                    bad.append("%s: %s" % (os.path.relpath(p, VERIF), m.group(0)))
                # Variable / Hypothesis outside a section
                depth = 0
                for line in body.split("\n"):
                    t = line.strip()
                    if re.match(r"^Section\b", t):
                        depth += 1
                    elif re.match(r"^End\b", t) and depth > 0:
                        depth -= 1
                    elif depth == 0 and re.match(r"^(Variable|Variables|Hypothesis|Hypotheses|Context)\b", t):
                        bad.append("%s: top-level %s" % (os.path.relpath(p, VERIF), t.split()[0]))
    for f in ("_CoqProject",):
        body = open(os.path.join(COQ, f)).read()
        if "-type-in-type" in body or "-impredicative-set" in body:
            bad.append("_CoqProject: forbidden flag")
    return bad


def coq_check_property(pid, extra_files=()):
    """compile Properties_<pid>.v (after its dependencies) and collect the theorems stated,
    the theorems accepted and the Print Assumptions output.
    returns dict(ok, theorems, accepted, assumptions, output, cmd)"""
    fname = "Properties_%s.v" % pid
    res = dict(ok=False, theorems=[], accepted=[], assumptions=[], output="", cmd="", failed=[])
    path = os.path.join(COQ, fname)
    if not os.path.exists(path):
        res["output"] = "missing " + fname
        return res
    src = strip_coq_comments(open(path).read())
    res["theorems"] = re.findall(r"^\s*(?:Theorem|Corollary)\s+([A-Za-z0-9_']+)", src, re.M)
    ok, out = coq_make([f[:-2] + ".vo" for f in coq_files() if not f.startswith("Properties_") and f != "Extract.v"] +
                       [f[:-2] + ".vo" for f in extra_files])
    if not ok:
        res["output"] = out[-4000:]
        res["failed"] = ["dependencies of " + fname]
        return res
    cmd = "timeout 900 coqc -Q . Model %s" % fname
    res["cmd"] = "cd coq && " + cmd
    with Lock("coq"):
        rc, so, se = sh(cmd, cwd=COQ, timeout=930)
    res["output"] = (so + se)[-6000:]
    if rc != 0:
        m = re.search(r'File "[^"]*", line (\d+)', se)
        failing = None
        if m:
            ln = int(m.group(1))
            lines = open(path).read().split("\n")[:ln]
            for l in reversed(lines):
                mm = re.match(r"\s*(?:Theorem|Corollary|Lemma|Example)\s+([A-Za-z0-9_']+)", l)
                if mm:
                    failing = mm.group(1)
                    break
        res["failed"] = [failing or "unknown"]
        return res
    res["accepted"] = list(res["theorems"])
    # Print Assumptions output: "Closed under the global context" or "Axioms:" blocks
    axioms = set()
    for blk in re.finditer(r"Axioms:\n((?:.+\n?)+?)(?=\n|\Z|Closed|Axioms:)", so):
        for l in blk.group(1).split("\n"):
            mm = re.match(r"^([A-Za-z0-9_.']+)\s*:", l)
            if mm:
                axioms.add(mm.group(1))
    res["assumptions"] = sorted(axioms)
    res["closed"] = so.count("Closed under the global context")
    res["ok"] = True
    return res


def ensure_model_driver():
    """build extract/modeldrv from the extracted model + hand-written drivers"""
    with Lock("extract"):
        ok, out = coq_make(["Extract.vo"])
        if not ok:
            return False, out
        exe = os.path.join(EXTRACT, "modeldrv")
        srcs = [os.path.join(COQ, "model.ml"), os.path.join(COQ, "model.mli")] + \
               [os.path.join(EXTRACT, f) for f in sorted(os.listdir(EXTRACT)) if f.endswith(".ml") and f != "model.ml"]
        if os.path.exists(exe) and all(os.path.getmtime(exe) >= os.path.getmtime(s) for s in srcs):
            return True, ""
        sh("cp %s/model.ml %s/model.mli %s/" % (COQ, COQ, EXTRACT))
        mls = [f for f in sorted(os.listdir(EXTRACT)) if f.startswith("driver") and f.endswith(".ml")]
        cmd = "ocamlfind ocamlopt -O2 -w -a model.mli model.ml %s main.ml -o modeldrv" % " ".join(mls)
        rc, so, se = sh(cmd, cwd=EXTRACT, timeout=300)
        return rc == 0, so + se


# ----------------------------------------------------------------------------------------
# C++ harness drivers, rebuilt from /repo's working tree (content-keyed cache)
# ----------------------------------------------------------------------------------------
_tree_hash = None


def repo_tree_hash():
    global _tree_hash
    if _tree_hash is None:
        h = hashlib.sha256()
        for base in (os.path.join(REPO, "include"),):
            for root, dirs, files in os.walk(base):
                dirs.sort()
                for f in sorted(files):
                    p = os.path.join(root, f)
                    h.update(os.path.relpath(p, REPO).encode())
                    h.update(b"\0")
                    with open(p, "rb") as fh:
                        h.update(fh.read())
        _tree_hash = h.hexdigest()
    return _tree_hash


BASE_FLAGS = "-std=c++20 -O1 -ffp-contract=off -D%s -I%s/include -I%s" % (GUARD, REPO, HARNESS)
FLAVOURS = {
    "plain": ("g++", BASE_FLAGS, ""),
    "asan": ("g++", BASE_FLAGS + " -g -fsanitize=address,undefined -fno-sanitize-recover=all -fno-omit-frame-pointer", ""),
    "tsan": ("g++", BASE_FLAGS + " -g -fsanitize=thread -pthread", "-pthread"),
}


def build_driver(name, flavour="plain", extra_flags="", extra_link=""):
    """returns (path or None, compiler output)"""
    src = os.path.join(HARNESS, name + ".cpp")
    cc, flags, link = FLAVOURS[flavour]
    h = hashlib.sha256()
    h.update(repo_tree_hash().encode())
    for root, dirs, files in os.walk(os.path.join(HARNESS, "common")):
        for f in sorted(files):
            h.update(open(os.path.join(root, f), "rb").read())
    h.update(open(src, "rb").read())
    h.update((cc + flags + link + extra_flags + extra_link).encode())
    key = h.hexdigest()[:20]
    exe = os.path.join(CACHE, "%s-%s-%s" % (name, flavour, key))
    with Lock("build-" + name + "-" + flavour):
        if os.path.exists(exe):
            return exe, ""
        # drop stale binaries of this driver/flavour
        for f in os.listdir(CACHE):
            if f.startswith("%s-%s-" % (name, flavour)) and not f.endswith(".lock"):
                try:
                    os.remove(os.path.join(CACHE, f))
                except OSError:
                    pass
        tmp = exe + ".tmp%d" % os.getpid()
        cmd = "%s %s %s %s -o %s %s %s" % (cc, flags, extra_flags, src, tmp, link, extra_link)
        rc, so, se = sh(cmd, timeout=900)
        if rc != 0:
            return None, (so + se)[-6000:]
        os.rename(tmp, exe)
        return exe, ""


def build_drivers(specs):
    """specs: list of (name, flavour[, extra_flags, extra_link]); builds in parallel.
    returns ({(name,flavour): exe}, errors)"""
    import concurrent.futures as cf
    repo_tree_hash()
    exes, errs = {}, []
    with cf.ThreadPoolExecutor(max_workers=8) as ex:
        futs = {ex.submit(build_driver, *s): s for s in specs}
        for f in cf.as_completed(futs):
            s = futs[f]
            exe, out = f.result()
            if exe is None:
                errs.append("%s/%s: %s" % (s[0], s[1], out))
            else:
                exes[(s[0], s[1])] = exe
    return exes, errs


def run_cases(exe, lines, timeout=600, env=None, shards=8):
    """feeds the case lines to exe (sharded over processes); returns list of result lines.
    A shard that crashes yields CRASH:<rc> for the case it died on (located by bisection)."""
    import concurrent.futures as cf
    if not lines:
        return []
    n = len(lines)
    shards = max(1, min(shards, n // 50 + 1))
    chunks = [lines[i * n // shards:(i + 1) * n // shards] for i in range(shards)]

    def run_chunk(chunk):
        rc, so, se = sh([exe], inp="\n".join(chunk) + "\n", timeout=timeout, env=env)
        outl = so.split("\n")
        if outl and outl[-1] == "":
            outl.pop()
        if rc == 0 and len(outl) == len(chunk):
            return outl
        # crashed / timed out: the first len(outl) cases may have completed; re-run one by one from there
        res = outl[:max(0, min(len(outl), len(chunk)) - 0)]
        if len(res) > len(chunk):
            res = res[:len(chunk)]
        k = len(res)
        # the case at index k is the suspect
        while k < len(chunk):
            rc1, so1, se1 = sh([exe], inp=chunk[k] + "\n", timeout=min(timeout, 60), env=env)
            l1 = so1.split("\n")[0] if so1 else ""
            if rc1 == 0 and so1.strip() != "" or (rc1 == 0):
                res.append(l1)
            else:
                kind = "TIMEOUT" if rc1 == 124 else classify_crash(rc1, se1)
                res.append((l1 + " " if l1 else "") + kind)
            k += 1
        return res

    with cf.ThreadPoolExecutor(max_workers=shards) as ex:
        outs = list(ex.map(run_chunk, chunks))
    return [l for o in outs for l in o]


def classify_crash(rc, stderr):
    if "AddressSanitizer" in stderr:
        m = re.search(r"AddressSanitizer: ([a-zA-Z-]+)", stderr)
        return "UB:asan:" + (m.group(1) if m else "?")
    if "runtime error" in stderr:
        m = re.search(r"runtime error: ([^\n]{0,60})", stderr)
        kind = m.group(1) if m else "?"
        kind = re.sub(r"0x[0-9a-f]+", "ADDR", kind)
        kind = re.sub(r"[^A-Za-z0-9_]+", "_", kind)[:40]
        return "UB:ubsan:" + kind
    if "ThreadSanitizer" in stderr:
        return "UB:tsan:data-race"
    if "terminate called" in stderr:
        m = re.search(r"what\(\):\s*([^\n]{0,60})", stderr)
        return "CRASH:terminate:" + re.sub(r"[^A-Za-z0-9_]+", "_", m.group(1) if m else "")
    return "CRASH:rc%d" % rc


# ----------------------------------------------------------------------------------------
# known findings
# ----------------------------------------------------------------------------------------
def known_findings(pid):
    """entries 'finding: property=<id> key=<token> <text>' of KNOWN_FINDINGS.txt for pid"""
    out = []
    if os.path.exists(KNOWN):
        for line in open(KNOWN):
            line = line.strip()
            m = re.match(r"^finding:\s+property=(\S+)\s+key=(\S+)\s+(.*)$", line)
            if m and m.group(1) == pid:
                out.append((m.group(2), m.group(3)))
    return out


ORACLE_RE = re.compile(r"\b(ORACLE_[A-Za-z0-9_:.<>=+-]+|UNCAUGHT_[A-Za-z0-9_:. -]+|UB:[A-Za-z0-9_:-]+|CRASH:[A-Za-z0-9_:-]+|TIMEOUT)")


def oracle_tokens(line):
    return ORACLE_RE.findall(line)


# ----------------------------------------------------------------------------------------
# evidence
# ----------------------------------------------------------------------------------------
def write_evidence(pid, tier, seed, coverage, assumptions, wall, violations):
    ev = dict(property_id=pid, tier=tier, seed=seed, level="proof", coverage=coverage,
              assumptions=assumptions, wall_s=round(wall, 2), violations=violations)
    p = os.path.join(EVIDENCE, pid + ".json")
    tmp = p + ".tmp%d" % os.getpid()
    with open(tmp, "w") as f:
        json.dump(ev, f, indent=1)
    os.rename(tmp, p)
    return p


def write_replay(pid, seed, body):
    p = os.path.join(REPLAYS, "%s-seed%d-%d.txt" % (pid, seed, int(time.time())))
    with open(p, "w") as f:
        f.write(body)
    return p
