#!/usr/bin/env python3
"""seedrecheck.py [id-k ...] — re-run the quick check of every kept seeded change in /verif/seeded (apply to /repo, check, undo)
and refresh meta.json.check: a change of the generators or of a harness must not lose a change that was caught before.
Never run concurrently with other checks."""
import json, os, re, subprocess, sys
root = "/verif/seeded"
names = sys.argv[1:] or sorted(d for d in os.listdir(root) if re.match(r"C\d\d-", d))
lost = []
for d in names:
    pid = d.split("-")[0]
    patch = os.path.join(root, d, "patch.diff")
    if not os.path.exists(patch):
        continue
    r = subprocess.run(["/verif/tools/seedrun.sh", patch, pid, "quick"], capture_output=True, text=True)
    outl = (r.stdout + r.stderr).strip().split("\n")
    viol = [l for l in outl if l.startswith("VIOLATION")]
    detected = bool(viol)
    concrete = detected and not viol[0].rstrip().endswith("no-failing-input-found")
    first = ""
    if detected:
        m = re.search(r"replay=(\S+)", viol[0])
        if m and os.path.exists(m.group(1)):
            first = open(m.group(1)).readline().strip()[:300]
    mp = os.path.join(root, d, "meta.json")
    try:
        meta = json.load(open(mp))
    except Exception:
        meta = {"property": pid}
    meta["check"] = {"command": "./check %s quick" % pid, "detected": detected, "concrete_failing_input": concrete,
                     "verdict_line": viol[0] if viol else (outl[-2] if len(outl) > 1 else ""), "replay_first_line": first}
    json.dump(meta, open(mp, "w"), indent=1)
    print(d, "detected=%s concrete=%s %s" % (detected, concrete, first[:110]), flush=True)
    if not concrete:
        lost.append(d)
print("NOT-CAUGHT-WITH-A-CONCRETE-INPUT:", " ".join(lost) if lost else "none")
