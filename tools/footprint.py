#!/usr/bin/env python3
"""footprint.py — translator for C16: scans /repo/include/micm (CPU part) on every run and writes
coq/gen/Footprint.v:

  reached  : every function definition of the classes a Solver owns (integrators, ProcessSet, linear solvers,
             LU decompositions, Process, rate constants, System/Phase/Species, parameters) that is reachable
             - by callee name - from the three entry points Solver::GetState(), Solver::CalculateRateConstants(state),
             Solver::Solve(time_step, state), with: const-ness, the data members of its own class it assigns or
             mutates (direct access, not through another object), its non-const function-local statics;
  hazards  : `mutable` data members, const_cast, non-const static / namespace-scope variables and shared_ptr
             anywhere under include/micm outside jit/, cuda/ and profiler/ (the profiler is compiled out unless
             MICM_PROFILE is defined);
  entries_found : how many of the three entry points were located (must be 3).

The scan is lexical (comments, strings and preprocessor lines removed; braces matched; function headers
parsed); it over-approximates reachability (any definition with a called name counts) and knows writes by
syntax (assignment and compound assignment, ++/--, element / sub-member assignment, mutating container and
matrix member calls, std::swap / std::move on a member).  It is part of the trusted base of C16."""
import os
import re
import sys

sys.path.insert(0, os.path.dirname(os.path.abspath(__file__)))
import vcore as V

SHARED_DIRS = ("solver", "process", "system")
# State-side classes living in those directories: their members belong to the caller's State
STATE_SIDE_FILES = ("state.hpp", "state.inl", "temporary_variables.hpp", "rosenbrock_temporary_variables.hpp",
                    "backward_euler_temporary_variables.hpp", "solver_builder.hpp", "solver_builder.inl",
                    "solver_result.hpp")
EXCLUDED_DIRS = ("jit", "cuda", "profiler")
MUTATORS = ("push_back|emplace_back|emplace|insert|erase|clear|resize|reserve|assign|swap|reset|pop_back|fill|"
            "Fill|Copy|Swap|Axpy|Max|Min|ForEach|AddToDiagonal|release|shrink_to_fit|merge|splice|sort")
ASSIGN = r"(?:=(?!=)|\+=|-=|\*=|/=|%=|\|=|&=|\^=|<<=|>>=|\+\+|--)"
KEYWORDS = {"if", "for", "while", "switch", "catch", "return", "sizeof", "decltype", "static_assert", "requires",
            "noexcept", "alignof", "throw", "new", "delete", "else", "do", "try", "static_cast", "const_cast",
            "dynamic_cast", "reinterpret_cast", "typeid", "assert", "defined"}


GUARD_RE = re.compile(r"^[ \t]*#[ \t]*ifdef[ \t]+MICM_VERIF_HOOKS\b.*?^[ \t]*#[ \t]*endif[^\n]*$", re.S | re.M)


def strip(src):
    """comments, string / char literals and preprocessor lines -> blanks (newlines kept).
    Code under `#ifdef MICM_VERIF_HOOKS` (verification instrumentation, compiled out of the library as shipped) is
    dropped: the footprint is that of the code with the guard off."""
    src = GUARD_RE.sub(lambda m: "\n" * m.group(0).count("\n"), src)
    out = []
    i, n = 0, len(src)
    while i < n:
        c = src[i]
        if src.startswith("//", i):
            j = src.find("\n", i)
            j = n if j < 0 else j
            i = j
        elif src.startswith("/*", i):
            j = src.find("*/", i + 2)
            j = n if j < 0 else j + 2
            out.append("".join(ch if ch == "\n" else " " for ch in src[i:j]))
            i = j
        elif c == '"' or (c == "'" and not (i > 0 and src[i - 1].isalnum())):
            q = c
            j = i + 1
            while j < n and src[j] != q:
                j += 2 if src[j] == "\\" else 1
            out.append(q + q)
            i = j + 1
        elif c == "#" and (not out or "".join(out[-1:]).endswith("\n") or src[:i].rstrip(" \t").endswith("\n") or i == 0):
            j = i
            while True:
                k = src.find("\n", j)
                if k < 0:
                    k = n
                    break
                if src[k - 1] == "\\":
                    out.append("\n")
                    j = k + 1
                    continue
                break
            i = k
        else:
            out.append(c)
            i += 1
    return "".join(out)


def match_close(s, i, open_c, close_c):
    depth = 0
    n = len(s)
    while i < n:
        if s[i] == open_c:
            depth += 1
        elif s[i] == close_c:
            depth -= 1
            if depth == 0:
                return i
        i += 1
    return n - 1


def strip_requires(h):
    """remove requires-clauses: requires(...) and requires Concept<...>"""
    while True:
        m = re.search(r"\brequires\s*\(", h)
        if m:
            j = match_close(h, m.end() - 1, "(", ")")
            h = h[:m.start()] + " " + h[j + 1:]
            continue
        m = re.search(r"\brequires\s+!?\s*[A-Za-z_]\w*\s*<", h)
        if m:
            j = match_close(h, m.end() - 1, "<", ">")
            h = h[:m.start()] + " " + h[j + 1:]
            continue
        return h


def strip_templates(h):
    """remove leading template<...> clauses and template argument lists inside qualified names"""
    h = h.strip()
    while True:
        m = re.match(r"template\s*<", h)
        if not m:
            break
        j = match_close(h, m.end() - 1, "<", ">")
        h = h[j + 1:].strip()
    return h


def top_level_args(argtext):
    if argtext.strip() == "" or argtext.strip() == "void":
        return 0
    depth, cnt = 0, 1
    for ch in argtext:
        if ch in "(<[{":
            depth += 1
        elif ch in ")>]}":
            depth -= 1
        elif ch == "," and depth == 0:
            cnt += 1
    return cnt


def parse_header(h, cls_ctx):
    """h: text before the body's '{'.  returns dict or None"""
    h = strip_templates(strip_requires(h))
    h = strip_templates(h)
    p = h.find("(")
    while p >= 0:
        pre = h[:p].rstrip()
        m = re.search(r"((?:[A-Za-z_]\w*(?:<[^()]*>)?\s*::\s*)*)(~?[A-Za-z_]\w*|operator\s*(?:\(\)|\[\]|[^\s(]+))$", pre)
        if m and m.group(2) not in KEYWORDS:
            break
        p = h.find("(", p + 1)
    if p < 0 or not m:
        return None
    name = re.sub(r"\s+", "", m.group(2))
    qual = m.group(1)
    cls = cls_ctx
    if qual:
        qm = re.findall(r"([A-Za-z_]\w*)(?:<[^()]*>)?\s*::", qual)
        if qm:
            cls = qm[-1]
    q = match_close(h, p, "(", ")")
    args = h[p + 1:q]
    tail = h[q + 1:]
    tail_sig = tail.split(":")[0] if not tail.strip().startswith("->") else tail
    before = h[:m.start()]
    is_const = bool(re.search(r"\bconst\b", tail_sig)) or bool(re.search(r"\bstatic\b", before)) or cls is None
    kind = "ctor" if (cls is not None and name == cls) else "dtor" if name.startswith("~") else "assign" if name == "operator=" else "fn"
    amax = top_level_args(args)
    amin = amax - len(re.findall(r"=", re.sub(r"[=!<>]=", "", args)))
    return dict(name=name, cls=cls, const=is_const, kind=kind, amin=max(0, amin), amax=amax)


def scan_file(path, rel):
    """returns (functions, classes) ; functions: list of dict(header info, body, line) ; classes: name -> set(members)"""
    src = strip(open(path).read())
    funcs, classes = [], {}
    n = len(src)
    stack = []   # (kind, name)
    seg_start = 0
    i = 0

    def current_class():
        for k, nm in reversed(stack):
            if k == "class":
                return nm
            if k == "fn":
                return None
        return None

    while i < n:
        c = src[i]
        if c == ";" :
            if stack and stack[-1][0] == "class":
                stmt = src[seg_start:i]
                for mm in re.finditer(r"\b([A-Za-z]\w*_)\b\s*(?:=[^;]*|\{[^;]*\})?$", stmt.strip()):
                    classes.setdefault(stack[-1][1], set()).add(mm.group(1))
            seg_start = i + 1
            i += 1
        elif c == "{":
            header = src[seg_start:i].strip()
            hs = strip_templates(strip_requires(header)).strip()
            hs = strip_templates(hs)
            mclass = re.match(r"(?:class|struct)\s+(?:\[\[[^\]]*\]\]\s*)?([A-Za-z_]\w*)[^;(]*$", hs)
            if re.match(r"namespace\b", hs) or hs.startswith('extern ""'):
                stack.append(("ns", hs))
                seg_start = i + 1
                i += 1
            elif mclass and "(" not in hs:
                stack.append(("class", mclass.group(1)))
                classes.setdefault(mclass.group(1), set())
                seg_start = i + 1
                i += 1
            elif re.match(r"(?:enum|union)\b", hs):
                j = match_close(src, i, "{", "}")
                i = j + 1
            elif re.search(r"\)\s*(?:const\s*)?(?:noexcept\s*)?(?:override\s*)?(?:->[^{;]*)?$", hs) or \
                    (re.search(r"\)\s*:\s*", hs) and re.search(r"[)}]\s*$", hs)) or re.search(r"\b(?:const|override|noexcept)\s*$", hs):
                # function body
                info = parse_header(header, current_class())
                j = match_close(src, i, "{", "}")
                if info is not None:
                    info["body"] = src[i:j + 1]
                    info["init"] = hs
                    info["line"] = src.count("\n", 0, i) + 1
                    info["file"] = rel
                    funcs.append(info)
                i = j + 1
                seg_start = i
            elif re.search(r"\)\s*:\s*[^:]", hs) and re.search(r"[\w>]\s*$", hs):
                # brace initialiser inside a constructor's member-initialiser list: skip it, keep the header
                j = match_close(src, i, "{", "}")
                i = j + 1
            elif re.search(r"=\s*$", hs) or re.search(r"[\w>\]]\s*$", hs):
                # aggregate / variable brace initialiser at class or namespace scope
                j = match_close(src, i, "{", "}")
                i = j + 1
            else:
                j = match_close(src, i, "{", "}")
                i = j + 1
                seg_start = i
        elif c == "}":
            if stack:
                stack.pop()
            seg_start = i + 1
            i += 1
        else:
            i += 1
    return funcs, classes


def member_writes(body, members):
    found = set()
    for m in members:
        if m not in body:
            continue
        me = re.escape(m)
        pre = r"(?<![\w.>])(?:this\s*->\s*)?"
        chain = r"(?:\s*\[[^\]]*\]|\s*\.\s*\w+|\s*->\s*\w+|\s*\([^()]*\))*"
        pats = [pre + me + r"\b" + chain + r"\s*" + ASSIGN,
                r"(?:\+\+|--)\s*(?:this\s*->\s*)?" + me + r"\b",
                pre + me + r"\b(?:\s*\[[^\]]*\])*\s*(?:\.|->)\s*(?:" + MUTATORS + r")\s*\(",
                r"std::(?:swap|move|exchange)\s*\(\s*(?:this\s*->\s*)?" + me + r"\b",
                r"std::swap\s*\([^,()]*,\s*(?:this\s*->\s*)?" + me + r"\b"]
        for p in pats:
            for mm in re.finditer(p, body):
                # `->` before the member (other than this->) or `.` means another object's member
                s = mm.start()
                prefix = body[max(0, s - 12):s]
                if re.search(r"(?:\.|->)\s*$", prefix) and not re.search(r"this\s*->\s*$", prefix):
                    continue
                found.add(m)
    return sorted(found)


def static_locals(body):
    out = []
    for mm in re.finditer(r"\bstatic\b([^;(){}=]*)[;={(]", body):
        decl = mm.group(1)
        if re.search(r"\b(?:const|constexpr)\b", decl) or "_cast" in body[mm.start():mm.start() + 12] or decl.strip() == "":
            continue
        if body[mm.start():mm.start() + 13].startswith("static_assert"):
            continue
        out.append(re.sub(r"\s+", " ", decl.strip()))
    return out


def called_names(body):
    names = set()
    for mm in re.finditer(r"\b([A-Za-z_]\w*)\s*(?:<[^;(){}]*>)?\s*\(", body):
        if mm.group(1) not in KEYWORDS:
            names.add(mm.group(1))
    return names


def hazards_of(src_stripped, rel):
    hz = []
    for mm in re.finditer(r"\bmutable\b", src_stripped):
        before = src_stripped[:mm.start()].rstrip()
        if before.endswith(")") or before.endswith("]"):
            continue   # lambda
        hz.append("%s:%d: mutable member" % (rel, src_stripped.count("\n", 0, mm.start()) + 1))
    for kw in ("const_cast", "shared_ptr"):
        for mm in re.finditer(r"\b%s\b" % kw, src_stripped):
            hz.append("%s:%d: %s" % (rel, src_stripped.count("\n", 0, mm.start()) + 1, kw))
    # non-const variables with static storage (class-static, namespace-scope `inline`/`extern`/`static`)
    for mm in re.finditer(r"(?<![\w])(static|inline|extern)\b(?!_)([^;(){}=]*)[;={]", src_stripped):
        decl = mm.group(2)
        nxt = src_stripped[mm.end() - 1]
        if re.search(r"\b(?:const|constexpr|namespace|class|struct|template|typename|operator)\b", decl) or decl.strip() == "":
            continue
        if not re.search(r"[A-Za-z_]\w*\s*$", decl):
            continue
        if nxt == "{" and re.search(r"\)\s*$", decl):
            continue
        hz.append("%s:%d: non-const %s variable %s" % (rel, src_stripped.count("\n", 0, mm.start()) + 1, mm.group(1),
                                                      re.sub(r"\s+", " ", decl.strip())))
    return hz


def analyse():
    inc = os.path.join(V.REPO, "include", "micm")
    funcs, classes, hazards = [], {}, []
    for root, dirs, files in os.walk(inc):
        dirs[:] = sorted(d for d in dirs if d not in EXCLUDED_DIRS)
        for f in sorted(files):
            if not (f.endswith(".hpp") or f.endswith(".inl")):
                continue
            p = os.path.join(root, f)
            rel = os.path.relpath(p, os.path.join(V.REPO, "include"))
            hazards += hazards_of(strip(open(p).read()), rel)
            sub = os.path.relpath(root, inc).split(os.sep)[0]
            if sub in SHARED_DIRS and f not in STATE_SIDE_FILES:
                fs, cs = scan_file(p, rel)
                funcs += fs
                for k, v in cs.items():
                    classes.setdefault(k, set()).update(v)
    # entry points
    entries = [f for f in funcs if f["cls"] == "Solver" and
               ((f["name"] == "GetState" and f["amax"] == 0) or
                (f["name"] == "CalculateRateConstants" and f["amax"] == 1) or
                (f["name"] == "Solve" and f["amax"] == 2))]
    by_name = {}
    for f in funcs:
        if f["cls"] == "Solver":
            continue     # the facade's other methods are not called by the entry points' callees
        if f["kind"] != "fn":
            continue     # constructors / destructors / assignment act on a new or a caller-owned object
        by_name.setdefault(f["name"], []).append(f)
    reached, seen, work = [], set(), list(entries)
    while work:
        f = work.pop()
        key = (f["file"], f["line"])
        if key in seen:
            continue
        seen.add(key)
        reached.append(f)
        for nm in called_names(f["body"]):
            for g in by_name.get(nm, []):
                work.append(g)
    reached.sort(key=lambda f: (f["file"], f["line"]))
    for f in reached:
        f["writes"] = member_writes(f["body"], classes.get(f["cls"], set())) if f["cls"] else []
        f["statics"] = static_locals(f["body"])
    # how many of the three entry points were located: further overloads of one of them (all of which are walked
    # above) do not count twice
    return reached, sorted(set(hazards)), len(set(f["name"] for f in entries))


def coq_str(s):
    return '"' + s.replace('"', "'") + '"'


def generate():
    reached, hazards, nent = analyse()
    lines = ["(* GENERATED by tools/footprint.py from /repo/include on every run — do not edit. *)",
             "From Coq Require Import String List.", "From Model Require Import Conc.", "Import ListNotations.",
             "Local Open Scope string_scope.", "", "Definition reached : list fn_entry :=", "  ["]
    lines.append(";\n".join(
        "   {| fe_where := %s; fe_class := %s; fe_name := %s; fe_arity := %d; fe_const := %s;\n"
        "      fe_member_writes := [%s]; fe_static_locals := [%s] |}" % (
            coq_str("%s:%d" % (f["file"], f["line"])), coq_str(f["cls"] or ""), coq_str(f["name"]), f["amax"],
            "true" if f["const"] else "false", "; ".join(coq_str(w) for w in f["writes"]),
            "; ".join(coq_str(w) for w in f["statics"])) for f in reached))
    lines += ["  ].", "", "Definition hazards : list string :=", "  [" + ";\n   ".join(coq_str(h) for h in hazards) + "].", "",
              "Definition entries_found : nat := %d." % nent, ""]
    body = "\n".join(lines) + "\n"
    path = os.path.join(V.COQ, "gen", "Footprint.v")
    old = open(path).read() if os.path.exists(path) else None
    if old != body:
        with open(path, "w") as fh:
            fh.write(body)
    return path


if __name__ == "__main__":
    reached, hazards, nent = analyse()
    for f in reached:
        print("%-55s %-28s %-28s/%d const=%s writes=%s statics=%s" % (
            "%s:%d" % (f["file"], f["line"]), f["cls"], f["name"], f["amax"], f["const"], f["writes"], f["statics"]))
    print("hazards:", hazards)
    print("entries:", nent)
    print(generate())
