#!/usr/bin/env python3
"""regen.py — run every translator (gen/RosParams.v, gen/ErrCodes.v, gen/Footprint.v) against /repo's current tree."""
import os, sys
sys.path.insert(0, os.path.dirname(os.path.abspath(__file__)))
import params2coq, errcodes2coq, footprint
for t in (params2coq.generate, errcodes2coq.generate, footprint.generate):
    print(t())
