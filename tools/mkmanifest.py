#!/usr/bin/env python3
"""mkmanifest.py — writes MANIFEST.json from the table below (kept in one place so the
manifest is always valid and in step with tools/props.py)."""
import json
import os
import sys

sys.path.insert(0, os.path.dirname(os.path.abspath(__file__)))
V = os.path.dirname(os.path.dirname(os.path.abspath(__file__)))

CHECKS = {
    "C01": dict(
        text="Coq theorems over the executable model of ProcessSet: for every commutative ring, mechanism, index map, "
             "layout (row-major / grouped any L>0) and cell count the logical output is the mass-action sum "
             "(C01_forcing_is_mass_action); with uninterpreted arithmetic each slot is one operation sequence on its own "
             "cell's inputs, identical in every layout (C01_slot_value_any_arithmetic). The model is tied to the code by "
             "running the extracted model and the real ProcessSet::AddForcingTerms on the same generated mechanisms in an "
             "exact regime (integer states, dyadic yields) and comparing every storage slot for equality, plus a dense "
             "stoichiometric oracle inside the harness.",
        note="Trusted: Coq kernel; extraction (ExtrOcamlBasic) + OCaml driver; the C++ harness and generators; the model is "
             "hand-written (C++ modelled, not verified). Theorems are axiom-free (Print Assumptions: closed).",
        technique="Coq proof (ring + layout-generic slot lemma) + extracted-model differential tie",
        ref="6 C01"),
    "C02": dict(
        text="Coq theorems: for every commutative ring, mechanism, well-formed index map, sparse ordering (CSR/CSC x "
             "standard/vector L>0), pattern containing the declared elements and the diagonal, cell count and pattern "
             "element, SubtractJacobianTerms leaves J0 - d f_row/d y_col with the product-rule derivative of each monomial "
             "(C02_jacobian_is_minus_derivative, through the proved model of the real sparse index tables); the declared "
             "pattern is complete (C02_pattern_complete) and SetJacobianFlatIds only asks for declared or diagonal "
             "elements; with uninterpreted arithmetic every stored element is one operation sequence on its own cell's "
             "inputs in every layout. Tie: extracted model vs real ProcessSet (NonZeroJacobianElements, flat ids, every "
             "storage slot of the Jacobian) on generated mechanisms in an exact regime x 2 compressions x 6 layouts, "
             "plus an exact-derivative oracle in the harness.",
        note="Trusted: Coq kernel; extraction + OCaml driver; harness and generators; model hand-written. Theorems axiom-free. "
             "Premises of the ring theorem: names and indices of the map distinct, parameterised reactants do not reuse a state name.",
        technique="Coq proof (ring + scatter-kernel slot lemma + sparse table proofs) + extracted-model differential tie",
        ref="6 C02"),
    "C03": dict(
        text="Coq: all four decompositions are proved end to end, each with its symbolic phase (the fill-in loops as coded "
             "return a pattern closed under that algorithm's fill-in rule) and its numeric phase (Initialize's stream "
             "construction fused with Decompose's replay, as coded): for every field, size, sparsity pattern, matrix on that "
             "pattern and - for the algorithms with separate storage - EVERY previous content of L and U, the factors are "
             "unit-lower L and upper U with L*U = A entry by entry, provided no pivot is zero: C03_doolittle_factors_reproduce_A "
             "and C03_doolittle_in_place_factors_reproduce_A (left-looking: nested loop invariants over rows of U / columns of L), "
             "C03_mozart_factors_reproduce_A and C03_mozart_in_place_factors_reproduce_A (right-looking: Schur-complement "
             "invariant), all through the field identity C03_defining_equations_give_LU_eq_A. The in-place algorithms are proved "
             "under their documented contract that fill-in slots hold zero on entry; the Mozart ones for patterns containing the "
             "diagonal (they reject others). Tie: the library's own templates instantiated over the prime field Z_p (exact) vs "
             "the extracted model over Z_p: patterns and every L/U value per block, all patterns n<=3 (quick) / n<=4 (thorough) "
             "x 4 algorithms + random n<=8, CSR/CSC x standard/vector L<=4, partial groups, large block counts, garbage prior "
             "L/U. Oracle on the decompositions created from a matrix of the same structure with another block count; systems of 130-370 unknowns (oracle only); implementation: L unit lower, U upper, L*U == A over Z_p, independence from prior contents.",
        note="The model is at the level of logical matrix elements: the encoding of the index streams as parallel arrays with "
             "counts and the storage offsets (C19) are not part of these theorems; the tie compares every stored value. "
             "Trusted: Coq kernel, extraction, harness, Zp class.",
        technique="Coq proof (loop invariants over the four factorisations, any field) + exact-field differential tie of the real templates",
        ref="6 C03"),
    "C04": dict(
        text="Coq: for every field, size, triangular patterns and L, U with non-zero diagonal and L*U = A, the modelled "
             "forward/backward substitution of LinearSolver and LinearSolverInPlace returns x with A x = b "
             "(C04_solve_gives_Ax_eq_b, C04_solve_in_place_gives_Ax_eq_b; induction over rows); for all four factorisations "
             "the premise is discharged: factor-then-solve gives A x = b with no hypothesis on the factors, whatever the "
             "L/U storage held before (C04_doolittle_in_place_factor_then_solve, C04_mozart_in_place_factor_then_solve, "
             "C04_doolittle_factor_then_solve, C04_mozart_factor_then_solve: the symbolic patterns are triangular and L's "
             "diagonal is stored as 1). Tie: real "
             "LinearSolver/LinearSolverInPlace templates over Z_p vs extracted model, x per block, same case space as C03 "
             "with random right-hand sides, row-major and grouped dense vectors, padding rows holding garbage; the same "
             "solver object factors a second matrix between Factor and Solve; large systems (n up to 370, 10^5 stored "
             "elements) by the implementation oracle alone. Oracle: A*x == b over Z_p on the implementation.",
        note="Premise L*U = A comes from C03, proved there for all four decompositions. "
             "Trusted: Coq kernel, extraction, harness, Zp class.",
        technique="Coq proof (induction over substitution rows, any field) + exact-field differential tie",
        ref="6 C04"),
    "C05": dict(
        text="Coq theorems over the model of the integrator templates (policies as parameters, induction over every "
             "accept/reject history): at every Rosenbrock attempt, first or retry, separate-L/U or in-place, the matrix "
             "handed to Factor is I/(gamma H) - J(y) (C05_rosenbrock_matrix_every_attempt); the stage loop, which keeps function "
             "values in the not-yet-computed stage slots and hands them from stage to stage, computes exactly the stages of the "
             "declared method written without that sharing, F_i = f(Y + sum a_ij K_j) or F_(i-1), K_i = Solve(F_i + sum (c_ij/H) K_j), "
             "for every table, stage count, flag vector and previous slot contents "
             "(C05_rosenbrock_stages_are_the_declared_method); every backward-Euler iteration "
             "is a Newton iteration with matrix I/H - J(y) and residual f(y) - (y - y_n)/H. Tie: the real "
             "AbstractRosenbrockSolver / BackwardEuler templates driven by scripted recording policies, every "
             "accept/reject word up to length 4 (6 thorough), custom dyadic tables, exact equality of the complete call "
             "trace (arguments of every forcing / Jacobian / Factor / Solve / error-norm call, result, counters). "
             "Implementation oracle: diagonal shift recovered from the factored matrix vs the H recovered from the stage "
             "formulas. The check found and the repository now fixes (fix: e318cbe) the wrong re-basing after two rejections.",
        note="The combination of the stages into the new state and the error estimate (sums with m_ and e_) is the model's "
             "definition, tied by the exact trace comparison. Trusted: Coq kernel, extraction, scripted policies on both sides, harness.",
        technique="Coq proof (loop invariants over accept/reject histories) + scripted-policy exact trace tie",
        ref="6 C05"),
    "C06": dict(
        text="Coq: the seven counters equal the numbers of operations in the trace for every policy set and history, both "
             "integrators (C06_rosenbrock_counters_equal_operations, be_ok); final_time_ is exactly the ordered sum of the step "
             "sizes of the accepted attempts, however the Solve ends (C06_rosenbrock_final_time_is_sum_of_accepted_steps); the "
             "status returned is the one whose condition occurred - Converged: the loop guard on t failed; "
             "ConvergenceExceededMaxSteps: the step count passed the limit; StepSizeTooSmall: H absorbed or below round_off; "
             "NaNDetected / InfDetected: an attempt of the run had such an error norm; nothing else is ever returned "
             "(C06_rosenbrock_status_is_truthful, C06_backward_euler_converged_means_interval_covered); 0 <= final_time_ <= "
             "time_step for both integrators in every scalar structure that embeds into the ordered rationals - the rationals "
             "the tie computes with, and binary64 whenever no operation rounds - for every policy set, history and exit "
             "(C06_rosenbrock_final_time_within_the_interval[_over_Q], C06_backward_euler_final_time_within_the_interval; "
             "premises: non-negative controls, factor_min and rejection_factor_decrease <= 1, a raw factor <= 1 for an "
             "error norm >= 1). The clause 'Converged only if the whole "
             "interval was integrated' is REFUTED on the faithful model (C06_converged_without_progress_refuted, witness by "
             "vm_compute) and replayed on the implementation: recorded as known findings. Tie and oracle as C05 with time "
             "steps down to 2^-60 and continuation remainders; the oracle checks counters against the calls the policies "
             "saw, 0 <= final_time <= time_step, Converged => interval covered, final_time = sum of accepted steps. A "
             "backward-Euler overshoot (h_start > time_step) found by the oracle is fixed in the repository (fix: bba10e6).",
        note="PARTIAL: the time bounds up to rounding in binary64, termination and 'the State holds the solution at final_time' "
             "are checked by the oracles and the tie, not theorems. Known findings in "
             "KNOWN_FINDINGS.txt (absolute round_off in the loop guard).",
        technique="Coq proof (counter invariants; refutation witness by vm_compute) + scripted-policy tie + oracle",
        ref="6 C06"),
    "C07": dict(
        text="Coq: (1) an attempt is accepted iff error < 1 or H < h_min, never on a NaN/Inf norm, for every policy set and "
             "history (C07_accept_iff...); (2) the storage slots NormalizedError and IsConverged visit, as coded (whole groups "
             "with tolerance index (i/L) mod n, then the trailing partial group), are exactly the real (cell, species) "
             "elements, each once, each with its species' tolerance, for every L, cell count and species count "
             "(C07_error_norm_visits_every_element_once), hence the norm is the documented RMS (C07_error_norm_is_rms) and "
             "IsConverged tests every element (C07_is_converged_tests_every_element); (3) at most max_number_of_steps_ attempts "
             "precede every step start; (4) in exact arithmetic (any scalar structure embedding into ordered Q, instance at the "
             "Q of the tie) every step start EvStep t H has 0 <= t and 0 <= H <= time_step - t, and every attempt is at most as "
             "large as the step start or attempt before it, after any number of rejections - so no attempt exceeds the "
             "remaining interval (C07_no_attempt_exceeds_the_remaining_interval, ..._step_start_..., "
             "..._attempt_never_larger_than_the_one_before; sizes_ok is shown to discriminate); no step start or attempt exceeds any bound that lies above h_min, "
             "h_max' = min(time_step, h_max_) and the first step size (C07_no_step_exceeds_h_max); backward Euler: every time-advancing "
             "step has 0 <= H <= time_step - t (C07_backward_euler_steps_within_the_remaining_interval). Controller formulas (first H, growth "
             "clamp, no growth after rejection, fixed cut after repeated rejections, max-steps guard, BE reductions/doubling) "
             "are the model's definitions, compared exactly with the real templates over every accept/reject word; "
             "NormalizedError and IsConverged are compared with the real functions on every shape incl. partial groups. "
             "Assembled solvers with h_start = time step: one accepted attempt (the builder hands h_start on). The norm is evaluated twice on one State with different tolerances. Oracles: controller formula, h_max / remaining interval, repeated-rejection cut, BE step-size bookkeeping.",
        note="PARTIAL proof: the remaining-interval bound and the no-growth-within-a-step rule are theorems in exact arithmetic; "
             "the exact controller formula and rounding in binary64 are validated (tie + oracle), not theorems. "
             "Known finding: h_max <= 10*round_off is overridden by the DELTA_MIN guard.",
        technique="Coq proof (accept-rule and step-size loop invariants; permutation of visited slots; RMS) + scripted-policy exact tie + oracles",
        ref="6 C07"),
    "C08": dict(
        text="Coq theorems by vm_compute over exact rationals on the five coefficient tables regenerated from /repo's "
             "headers on every run (translator): conversion from implementation form (a_, c_, m_, e_) back to "
             "(alpha_ij, gamma_ij, b, bhat), all Hairer-Wanner order conditions up to the documented order (2,3,4,3,4) "
             "within 2^-40, the next order violated by > 1e-3 (so the order is exactly the documented one), embedded "
             "order one lower, tabulated alpha_/gamma_ row sums consistent, |R(inf)| <= 2^-40 (2e-5 for the 4-stage set), "
             "packed indices in range, default controls legal. The domain is finite, so this is a proof about the "
             "tables the code contains now.",
        note="PARTIAL: the sentence about global accuracy of Converged results is an empirical floating-point statement; it is "
             "measured by the implementation oracle of the `acc` scenario, not proved: the chain A->B->C on 1..3L+1 cells, all "
             "layouts and parameter sets, Rosenbrock against the Bateman solution (error <= (10 + accepted steps)(atol + rtol|y|)), "
             "backward Euler against the composition of closed-form implicit-Euler maps for the step sizes its controller "
             "prescribes. The same chain fed by an emission from an empty state. A table that stops passing is diagnosed to the failing clause and residual (RosDiag). Trusted: translator (dump_tables.cpp + params2coq.py), Coq kernel + vm_compute, the harness.",
        technique="Coq proof by computation (vm_compute over Q) on tables regenerated from the source by a translator + accuracy oracle on the assembled solvers",
        ref="6 C08"),
    "C09": dict(
        text="Coq: (1) over every commutative ring the forcing of a mechanism is annihilated by every conservation law w of its "
             "stoichiometry, for every state and rate constants (C09_forcing_conserves_linear_invariants); (2) the Rosenbrock "
             "integrator propagates every linear functional w. with w.f = 0 through every stage, attempt (accepted or rejected) "
             "and exit, for any coefficient table and history, given exact conservative linear solves "
             "(C09_rosenbrock_propagates_linear_invariants: stage invariant w.K_i = 0, loop invariant w.Y = const); (3) backward "
             "Euler does the same through every Newton iteration, accepted, rejected and unconverged exit, for every run in "
             "whose iterations the clamp at zero left w.y alone, read off the run's trace "
             "(C09_backward_euler_propagates_linear_invariants: loop invariant w.Yn1 = w.Yn = const). "
             "Implementation: assembled solvers (both integrators, all configurations, the non-clipping overload of Solve) on "
             "random mechanisms conserving a positive weighted sum by construction (incl. reactions switched off by a zero rate "
             "constant, absent species, Troe and third-body reactions, per-cell air density): drift <= 1e-9 relative; runs in "
             "which backward Euler clipped an iterate are excluded, as the property states (add-only clip hook).",
        note="PARTIAL: the premise 'exact conservative solve' holds in exact arithmetic (C03/C04 + w^T J = 0) and up to rounding in "
             "binary64: the oracle's tolerance covers the rounding.",
        technique="Coq proof (ring identity; stage and loop invariants of the integrator) + conservation oracle on the assembled solvers",
        ref="6 C09"),
    "C10": dict(
        text="Coq: the clamp of Solver::Solve leaves no value below zero for any arithmetic (NaN included); a Rosenbrock run "
             "whose error norm is NaN/Inf at any attempt is never Converged (any policies, any history). The clause "
             "'Converged implies finite' fails on the implementation for an unread +Inf species (Rosenbrock) and for "
             "non-finite inputs (backward Euler): recorded as known findings with discriminating keys. Tie: scripted "
             "Rosenbrock runs with NaN/Inf error norms (exact trace equality); oracle: assembled solvers on inputs with "
             "NaN/Inf/negative/1e300/unset conditions: no negative value after Solve, Converged => finite, non-finite "
             "input never Converged.",
        note="PARTIAL: 'Converged implies finite' is refuted (known findings), not proved. Trusted as C05/C06.",
        technique="Coq proof (clamp lemma, loop invariant) + scripted-policy tie + special-value oracle",
        ref="6 C10"),
    "C11": dict(
        text="Coq: for both integrators, any policies for which Fill(0) forgets and Factor overwrites L/U: Solve's status, "
             "final time, statistics, every policy call and the resulting concentrations are the same for two States "
             "agreeing on the concentrations, whatever their Jacobian / L / U / Yn(ew) / forcing / stage vectors / error vector "
             "held (C11_backward_euler_ignores_scratch, C11_rosenbrock_ignores_scratch: bisimulation over every accept/reject "
             "history; for Rosenbrock every stage vector is shown to be written before it is read, for any number of stages and "
             "any new-function pattern). Implementation: sequences of problems on one State with every scratch member "
             "overwritten by NaN/1e300 before every Solve vs fresh States, bit-for-bit comparison of results, statistics "
             "and rate constants, both integrators, 32 configurations; absolute and relative tolerances, air density and the sign of the "
             "temperature change from problem to problem, every third problem arrives by copy assignment of a prepared State.",
        note="The premises (Fill(0) forgets, Factor overwrites) are properties of the containers and of the LU decomposition "
             "(C19, C03); the assembled solver's rate constants / conditions are inputs, not scratch.",
        technique="Coq proof (bisimulation invariant, both integrators) + poisoned-scratch bitwise oracle on the assembled solvers",
        ref="6 C11"),
    "C12": dict(
        text="Coq (any arithmetic): forcing and Jacobian do not depend on the dense layout / vector length "
             "(C12_*_does_not_depend_on_layout); with C05 the factored matrix is the same expression for the separate "
             "and in-place linear solvers; the linear solution is the same for the four LU algorithms and both linear "
             "solvers in any field (C12_linear_solution_does_not_depend_on_lu_algorithm: C04's four factor-then-solve "
             "theorems plus uniqueness of the solution of a system with an LU factorisation). Implementation: each problem solved with 3-6 configurations of the cross "
             "product {row-major, L=2,3,4} x {CSR, CSC} x 4 LU x reorder, concentrations by name compared at 1e-7. The "
             "separate-vs-in-place disagreement after two rejections found earlier is fixed (fix: e318cbe).",
        note="PARTIAL: exact-arithmetic independence is proved per ingredient (forcing, Jacobian, factored matrix, linear "
             "solution); in floating point the algorithms round differently, and that rounding-level agreement over a whole "
             "Solve is measured on the implementation, not proved.",
        technique="Coq proof (layout-independence corollaries) + cross-configuration oracle on the assembled solvers",
        ref="6 C12"),
    "C13": dict(
        text="Coq (any arithmetic, any layout, any cell count incl. partial groups): forcing and Jacobian of cell c are "
             "functions of cell c's inputs only (C13_*_depends_on_that_cell_only). Implementation: N in 1..3L+1 identical "
             "cells are bit-identical to each other and agree with a single cell; rate constants of a cell are "
             "bit-identical whatever the other cells hold.",
        note="LU / linear-solve cell locality is tied by C03/C04's exact Z_p comparison over partial groups, not proved here.",
        technique="Coq proof (cell-locality corollaries of the slot theorems) + identical-cells oracle",
        ref="6 C13"),
    "C14": dict(
        text="Coq: the reordering routine's schema returns a permutation for EVERY pivot heuristic and every n "
             "(C14_reordering_returns_a_permutation); with duplicate-free names and any permutation the name->index map "
             "is a bijection agreeing with the variable names, reorder on or off (C14_species_map_is_a_bijection); the "
             "heuristic the code uses (Markowitz counts in size_t arithmetic with wrap-around, partial swaps, fill-in) is "
             "one such instance (C14_real_reordering_returns_a_permutation) and SolverBuilder::GetSpeciesMap composed from "
             "its parts yields a bijective map and exactly the listed variable names for every mechanism "
             "(C14_builder_map_is_a_bijection). Tie: the real DiagonalMarkowitzReorder against the model instance on every "
             "0/1 pattern n<=3 (4 thorough) and random n<=8; variable_map_ / variable_names_ of solvers built by the real "
             "SolverBuilder against the composed model for random mechanisms, listing orders, reorder on/off. "
             "Implementation oracles: built solvers for random listing permutations x reorder x layouts (builders and "
             "States re-used across systems): map bijective and consistent with variable_names_, tolerances by name "
             "(other phases included), results by name equal.",
        note="The by-name equivariance of the solution relies on C12 (partial). Non-gas-phase tolerance lookup: see C20.",
        technique="Coq proof (permutation invariants, composed builder map) + exact tie of reordering and species map + by-name oracle",
        ref="6 C14"),
    "C15": dict(
        text="Coq (any arithmetic, any formulas as oracles): for both layouts and every cell count, the rate constant stored "
             "for reaction r of cell c is r's formula at c's conditions and r's own custom-parameter columns (offset = sum "
             "of the sizes before r) times r's parameterised reactants (C15_rate_constant_association_*). Tie: the real "
             "builder / State setters / CalculateRateConstants with probe rate constants of 0-3 parameters mixed with "
             "built-in kinds vs the extracted model, whole storage compared exactly; oracle recomputes every value from the inputs; the probe conditions include the air density (neighbouring cells share T and P), "
             "and the solver is move-assigned onto a solver for another reaction list first.",
        note="PARTIAL: that each built-in formula equals its documented expression involves libm (exp/pow/log10): it is opaque in "
             "the theorem and validated by the `ratef` family - every built-in type against a long-double transcription of its "
             "formula at random parameters (negative exponents included) and conditions, 1e-11 relative.",
        technique="Coq proof (offset walking, both layouts) + extracted-model differential tie with probe rate constants + formula oracle",
        ref="6 C15"),
    "C17": dict(
        text="Coq: over every sequence of GetState / copy / move / set / solve / solve-with-another-parameter-set operations "
             "(any length, any number of States, any stage counts) no operation reaches undefined behaviour and a solve reads "
             "its own State's data (C17_no_sequence_of_copies_moves_and_solves_is_undefined, invariant by induction over the "
             "sequence); the two pre-repair behaviours are refuted by witnesses (C17_sliced_copy_refuted; "
             "C17_more_stages_than_stage_vectors_refuted: a State of a three-stage solver solved with the six-stage set "
             "overran its stage-vector list, fix: 49f2335). Tie: the same "
             "sequences on the real State/Solver classes under ASan+UBSan: per-operation outcome tokens equal the "
             "model's (a crash is the token UB:<kind>); oracle: every solve bit-identical to a fresh State, other States "
             "untouched. The defect found (copy sliced the scratch object) is fixed in the repository (fix: c55c0fb).",
        note="The model tracks the dynamic type of the scratch object and the data identity, not the matrices' contents; "
             "those are covered by the bitwise oracle. Trusted: sanitizers, harness.",
        technique="Coq proof (invariant over operation sequences) + sanitizer-backed operation-sequence tie",
        ref="6 C17"),
    "C16": dict(
        text="Coq (partial): in an interleaving model with arbitrary atomic actions, if every call of thread t writes only "
             "t's own State and reads only that and the shared solver, then for any number of threads and ANY schedule each "
             "State holds bit for bit what the thread's own calls leave there when run alone, at every point of the schedule, "
             "and the solver is unchanged (C16_every_thread_gets_its_serial_result, C16_interleaving_equals_serial_prefix, "
             "C16_shared_solver_unchanged; induction over the schedule). The premise is discharged on the current source by a "
             "footprint table regenerated on every run (tools/footprint.py -> gen/Footprint.v): no function reachable from "
             "GetState / CalculateRateConstants / Solve(time_step, state) assigns a member of its own object or has a "
             "non-const local static, and the CPU headers contain no mutable member, const_cast, shared_ptr or non-const "
             "static-storage variable (C16_footprint_ok, by vm_compute). Tie: 2..16 real threads on one real solver under "
             "ThreadSanitizer, bitwise comparison with the serial run.",
        note="Partial: the memory model, allocator and libm are not modelled; TSan sees only the schedules that ran. The "
             "translator is lexical and trusted. The Solve overload that takes parameters writes solver_parameters_ and is "
             "outside the property's three entry points.",
        technique="Coq proof (interleaving non-interference, induction over schedules) + footprint table regenerated by a "
                  "translator and checked by computation + ThreadSanitizer differential runs",
        ref="6 C16"),
    "C18": dict(
        text="Coq (partial): the programs the JIT generators emit (model of the generators in JitModel.v: one instruction per "
             "kind of lane loop, constants baked in) perform exactly the operations of the vectorised C++ kernels, for every "
             "mechanism / pattern, every vector length L and every input: forcing and Jacobian functions for any arithmetic "
             "with a commutative product (C18_forcing_function, C18_jacobian_function), LU decomposition for any arithmetic "
             "at all (C18_lu_decomposition), linear solve (C18_linear_solve), diagonal shift (C18_diagonal_shift); a cell "
             "count different from L is rejected by the builder and by every diagonal shift (C18_cell_count_guard) with "
             "MicmJitErrc::InvalidMatrix as in the regenerated code table. Tie: the real LLVM-compiled functions and JIT-built "
             "solvers against the model (exact) and against the CPU classes (bit for bit).",
        note="Partial: LLVM is trusted, not modelled; that a JIT-built solver equals the CPU solver end to end is checked by "
             "the tie (bitwise), not proved.",
        technique="Coq proof (generated program = CPU kernel, induction over the tables) + differential tie of the real JIT "
                  "against the extracted model and the CPU backend",
        ref="6 C18"),
    "C20": dict(
        text="Coq: every condition named by the property has its documented (category, code) in the error tables "
             "regenerated from util/error.hpp and the enum/category definitions on this run "
             "(C20_every_condition_has_its_documented_code, by vm_compute on the generated data); the builder reports the "
             "first failing check in its order, an empty species list included (C20_builder_check_order). Tie: each "
             "condition injected at every position of a valid build/set/solve history on the real classes under "
             "ASan+UBSan: the observed exception (type, category string, code) equals the model's prediction; oracle: the "
             "State is unchanged by a rejected call and the history's result is bit-identical to the fault-free one. "
             "Found and fixed in the repository: empty species list hung Build() (fix: 93d1584); a tolerance on an "
             "other-phase or parameterised species raised std::out_of_range (fix: 35acb25).",
        note="The setters' validate-before-write is checked on the implementation (state compared around the call), the model "
             "has it by construction. Trusted: translator regexes, sanitizers, harness.",
        technique="Coq proof by computation on tables regenerated by a translator + fault-injection tie under sanitizers",
        ref="6 C20"),
    "C19": dict(
        text="Coq theorems: every logical element of a dense matrix has its own in-range slot in every layout "
             "(injectivity + range for row-major and grouped, any L>0, any shape); the Axpy/ForEach loops visit exactly the "
             "logical slots once and leave padding untouched; specifications of the whole-matrix operations on logical "
             "elements are layout independent. Sparse index tables are modelled as coded for the four orderings and tied "
             "to the real containers by write-one-read-all probes (every (block,row,col) including one past the range, all "
             "patterns n<=2 quick / n<=3 thorough) under ASan/UBSan, with an injectivity/range/IsZero oracle in the harness.",
        note="Trusted: Coq kernel; extraction + OCaml driver; harness. Sparse injectivity is proved for the model tables "
             "(see DESIGN 6 C19 for what is proved vs validated). Block size 0 excluded.",
        technique="Coq proof (address arithmetic, visiting orders) + extracted-model differential tie under ASan/UBSan",
        ref="6 C19"),
}

NOT_YET = {
}


def main():
    import props
    checks = []
    for pid in sorted(CHECKS):
        if pid not in props.PROPS:
            continue
        c = CHECKS[pid]
        checks.append(dict(
            property_id=pid,
            quick_cmd="./check %s quick" % pid,
            thorough_cmd="./check %s thorough" % pid,
            evidence_file="evidence/%s.json" % pid,
            replay_cmd_template="./check %s --replay {path}" % pid,
            engine="coq-model-tie",
            level_claimed=dict(category="proof", text=c["text"], design_ref="DESIGN.md section " + c["ref"]),
            level_note=c["note"],
            technique=c["technique"]))
    all_ids = ["C%02d" % i for i in range(1, 21)]
    na = []
    for pid in all_ids:
        if pid not in [c["property_id"] for c in checks]:
            na.append(dict(property_id=pid, reason=NOT_YET.get(pid, "check not built yet in this round (in progress; see DESIGN.md section 9 build order) — not a claim that the technique cannot apply")))
    man = dict(
        version=1,
        setup_cmd="./setup.sh",
        hooks=dict(guard="MICM_VERIF_HOOKS",
                   enable="harness drivers are compiled with -DMICM_VERIF_HOOKS against /repo/include (header-only library)",
                   baseline_off_cmd="/verif/tools/baseline_off.sh",
                   source_commits=["6a748b8"], add_only=True),
        engines=[dict(name="coq-model-tie", path="tools/check.py",
                      serves_properties=[c["property_id"] for c in checks],
                      kind_free_text="Coq 8.16 theorems over a hand-written executable Gallina model; model extracted to OCaml "
                                     "and run against C++ harness drivers rebuilt from /repo on every run (correspondence check); "
                                     "implementation-level oracles for the failing-input search")],
        checks=checks,
        notes="See DESIGN.md. KNOWN_FINDINGS.txt lists recorded findings and fixes.",
        not_applicable=na)
    with open(os.path.join(V, "MANIFEST.json"), "w") as f:
        json.dump(man, f, indent=1)
    print("MANIFEST.json: %d checks, %d not yet claimed" % (len(checks), len(na)))


if __name__ == "__main__":
    main()
