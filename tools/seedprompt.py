#!/usr/bin/env python3
"""prints the brief handed to a fresh sub-agent for seeded-change testing of one property (nothing from /verif but the property text)"""
import json, sys
pid = sys.argv[1]
rnd = sys.argv[2] if len(sys.argv) > 2 else "1"
round2 = rnd in ("2", "3", "4")
wt = {"1": "/tmp/wt-", "2": "/tmp/wt2-", "3": "/tmp/wt3-", "4": "/tmp/wt4-"}[rnd] + pid
prop = None
for l in open("/verif/properties.jsonl"):
    d = json.loads(l)
    if d["id"] == pid:
        prop = d
text = json.dumps({k: prop[k] for k in ("title", "statement", "quantifier", "why_tests_cant", "anchors")}, indent=1)
print(f"""You are testing how robust a C++ library's guarantees are against realistic regressions. You have your own scratch git worktree of the NCAR/micm library (header-only C++20, atmospheric chemistry ODE solver) at {wt}. Work ONLY inside {wt}; never read or write /repo or /verif or any other /tmp/wt-* directory.

Here is a semantic property users of the library rely on:

{text}

Your job: make a code change under {wt}/include/micm that BREAKS this property, in the way a real regression would (an optimisation, refactor, off-by-one, wrong index, reordered statements, stale cache, missing reset, wrong comparison ... something a maintainer could plausibly commit), such that:
 1. the library still compiles and the repository's existing test suite still passes, unedited. Build and run it with:
      cmake -G Ninja -S {wt} -B {wt}/_b -DCMAKE_BUILD_TYPE=RelWithDebInfo -DMICM_ENABLE_TESTS=ON -DFETCHCONTENT_SOURCE_DIR_GOOGLETEST=/usr/src/googletest -DFETCHCONTENT_TRY_FIND_PACKAGE_MODE=ALWAYS -DFETCHCONTENT_UPDATES_DISCONNECTED=ON && cmake --build {wt}/_b -j8 && ctest --test-dir {wt}/_b -j8 --timeout 900
    (no network is available; 281 tests pass on the unchanged tree; JIT/CUDA/OpenMP/MPI options stay off unless the property is about them). You may build only the test binaries that include the files you touched while iterating, but run the full suite once at the end.
 2. the breakage needs something specific to manifest (a particular shape, size, ordering, parameter value, sequence of calls, number of grid cells, vector length ...) - it must NOT show on the inputs the existing tests use, which is why they still pass.
 3. you demonstrate it: a small standalone program using the library's public API (compile with: g++ -std=c++20 -O1 -I{wt}/include demo.cpp -o demo) whose output shows the property violated on your changed tree and holding on the unchanged tree (git stash / git diff to switch).

{"Produce up to THREE different such changes, each in a DIFFERENT function or file, and look beyond the first place that comes to mind: rarely used overloads and option combinations, layout-specific code paths (row-major vs vector-grouped, CSR vs CSC, in-place vs separate factors), builders and setters, the interaction of several calls on the same object (calling something twice, in another order, after an error, with another parameter set), boundary sizes (0, 1, exactly L, L+1, many cells), special values (exact zeros, equal values, negative exponents)." + (" This time, make each change one of these kinds of commit, a different kind for each change: (a) a performance optimisation that caches, memoises, hoists or skips work; (b) a change of an integer or floating type, width or signedness, or of a container type; (c) sharing code between two paths that were separate (row-major / vector-grouped, separate / in-place factors, the two Solve overloads, the two integrators, CSR / CSC) through a new helper; (d) added or moved validation, error handling or early returns; (e) a change to copy / move / assignment / construction order or to what a builder or setter remembers between calls." if rnd == "3" else (" This time, make each change one of these kinds of commit, a different kind for each change: (f) a loop restructured, unrolled, fused, split or re-ordered for speed or vectorisation (bounds, strides, remainders, first or last iteration); (g) a change to how defaults and special parameter values are handled (a parameter where 0 or an empty list means 'not set', a default changed, a value clamped or normalised on entry, units); (h) an arithmetic expression rewritten into a form that is mathematically equivalent except at the edges (zero or negative operands, division by zero, overflow or underflow, cancellation, NaN comparisons, integer division or modulo, unsigned subtraction); (i) an added overload, convenience wrapper or forwarding function, or a changed signature (by value / by reference, argument order, defaulted arguments), that drops or mis-forwards something; (j) an aliasing or in-place change (reading a value after it has been overwritten, self-assignment, the same object passed for two arguments, swapped source and destination, a reference kept to something that moves)." if rnd == "4" else "")) if round2 else "Produce up to TWO different such changes (different mechanism of failure, preferably in different functions)."} For each change k in 1,2{',3' if round2 else ''} write into {wt}/out/k/ :
   patch.diff  - `git -C {wt} diff -- include` for that change alone (against the unchanged HEAD; it must apply with `git apply` on a clean checkout)
   demo.cpp    - the demonstration program
   demo.txt    - the commands you ran and the program's output on the unchanged tree and on the changed tree
   meta.json   - {{"property": "{pid}", "summary": "...", "files": [...], "trigger": "what specific input/shape/sequence makes it manifest", "tests_pass": true}}
Leave the worktree's include/ directory UNCHANGED at the end (git checkout -- include) and remove {wt}/_b when you are done to save disk space. Spend at most about 45 minutes. In your final message list the changes you kept, one line each; if you could not produce a change that passes the existing tests, say so.""")
