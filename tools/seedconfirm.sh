#!/bin/sh
# seedconfirm.sh <property-id> <k> — confirm a sub-agent's seeded change /tmp/wt-<id>/out/<k> in a scratch worktree of its own (/tmp/wtc-<id>-<k>, removed afterwards):
# the patch applies on a clean checkout, the library builds, the repository's own test suite passes, and the
# demonstration behaves differently on the changed and the unchanged tree.  Writes <out>/confirm.txt.
ID=$1; K=$2; OUT=${SEEDROOT:-/tmp/wt}-$ID/out/$K; WT=/tmp/wtc-$ID-$K
test -f "$OUT/patch.diff" || exit 2
git -C /repo worktree remove --force "$WT" >/dev/null 2>&1
git -C /repo worktree add --detach "$WT" HEAD >/dev/null 2>&1 || exit 2
cd "$WT" || exit 2
{
echo "== apply"; git apply --check "$OUT/patch.diff" && git apply "$OUT/patch.diff" && echo applied || { echo APPLY-FAILED; exit 0; }
git diff --stat -- include
EXTRA=""
grep -q "jit/" "$OUT/patch.diff" && EXTRA=""
echo "== build + ctest (changed tree)"
rm -rf "$WT/_b"
cmake -G Ninja -S "$WT" -B "$WT/_b" -DCMAKE_BUILD_TYPE=RelWithDebInfo -DMICM_ENABLE_TESTS=ON \
  -DFETCHCONTENT_SOURCE_DIR_GOOGLETEST=/usr/src/googletest -DFETCHCONTENT_TRY_FIND_PACKAGE_MODE=ALWAYS \
  -DFETCHCONTENT_UPDATES_DISCONNECTED=ON >"$WT/_cfg.log" 2>&1 || { echo CONFIGURE-FAILED; tail -5 "$WT/_cfg.log"; }
cmake --build "$WT/_b" -j8 >"$WT/_build.log" 2>&1 && echo BUILD-OK || { echo BUILD-FAILED; tail -20 "$WT/_build.log"; }
ctest --test-dir "$WT/_b" -j8 --timeout 900 2>&1 | tail -4
LLVMC=""; LLVML=""
if grep -q "micm/jit" "$OUT/demo.cpp"; then
  LLVMC=$(llvm-config --cxxflags | sed 's/-std=[^ ]*//;s/-fno-exceptions//;s/-fno-rtti//')
  LLVML=$(llvm-config --ldflags --system-libs --libs support core orcjit native irreader)
fi
echo "== demo on the changed tree"
g++ -std=c++20 -O1 -I"$WT/include" $LLVMC "$OUT/demo.cpp" -o "$WT/_demo_changed" -pthread $LLVML 2>&1 | tail -5
( cd "$OUT" && timeout 300 "$WT/_demo_changed" 2>&1 | tail -25; echo "exit=$?" )
git checkout -q -- include
echo "== demo on the unchanged tree"
g++ -std=c++20 -O1 -I"$WT/include" $LLVMC "$OUT/demo.cpp" -o "$WT/_demo_clean" -pthread $LLVML 2>&1 | tail -5
( cd "$OUT" && timeout 300 "$WT/_demo_clean" 2>&1 | tail -25; echo "exit=$?" )
} > "$OUT/confirm.txt" 2>&1
cd /; git -C /repo worktree remove --force "$WT" >/dev/null 2>&1; rm -rf "$WT"
grep -E "tests passed|tests failed|APPLY-FAILED|BUILD-FAILED|BUILD-OK" "$OUT/confirm.txt"
