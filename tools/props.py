"""props.py — the per-property tables: which harness drivers serve which case families,
which families the extracted model evaluates, and the case generators."""
import itertools
import os
import sys

sys.path.insert(0, os.path.dirname(os.path.abspath(__file__)))
import gens as G


class Prop:
    def __init__(self, pid, family_driver, model_families, generate, rule, trusted=None, assumptions=None,
                 nontrivial=None, histogram=None, translators=(), extra_vo=(), case_timeout=900,
                 driver_env=None, driver_flags=None, oracle_tokens=None):
        self.id = pid
        self.family_driver = family_driver          # family -> (driver name, flavour)
        self.model_families = set(model_families)
        self.generate = generate                    # (rng, tier) -> [case lines]
        self.rule = rule
        self.trusted = trusted or []
        self.assumptions = assumptions or []
        self.nontrivial = nontrivial or (lambda l: True)
        self.histogram = histogram or G.default_histogram
        self.translators = translators
        self.extra_vo = extra_vo
        self.case_timeout = case_timeout
        self.driver_env = driver_env or {}
        self.driver_flags = driver_flags or {}
        # oracle verdict tokens that belong to this property (None = all); crashes and sanitizer reports always count
        self.oracle_tokens = oracle_tokens

    def relevant(self, tok):
        if not tok.startswith("ORACLE_") or self.oracle_tokens is None:
            return True
        return any(tok == t or tok.startswith(t + ":") or tok.startswith(t) for t in self.oracle_tokens)

    def driver_spec(self, drv):
        name, flavour = drv
        ef = self.driver_flags.get(drv, ("", ""))
        return (name, flavour, ef[0], ef[1])


COMMON_TRUST = [
    "extraction: ExtrOcamlBasic only (bool, option, unit, list, prod, sumbool, sumor mapped to OCaml's; "
    "nat, positive, Z, Q stay inductive); OCaml 4.13.1; hand-written extract/driver*.ml",
    "correspondence check: C++ harness drivers compiled against /repo/include on this run "
    "(g++ 12, -O1 -ffp-contract=off), case generators tools/gens.py, canonical printing",
    "the model is hand-written: the C++ is modelled, not verified; the tie is differential",
]

PROPS = {}

PROPS["C19"] = Prop(
    "C19",
    family_driver={"dense": ("drv_containers", "asan"), "sparse": ("drv_containers", "asan")},
    model_families={"dense", "sparse"},
    generate=lambda rng, tier: G.gen_dense(rng, tier) + G.gen_sparse(rng, tier),
    rule="dense: every shape rows 0..3L+1 x cols 0..6 for row-major and L=1..5 (complete), each probing the "
         "address map (write-one-read-all), Axpy, ForEach/2,3, Max, Min, row assign (3 lengths), row extract, "
         "construction from rows (rectangular and ragged), Copy, Swap, Fill; sparse: all patterns n<=2 (quick) / n<=3 "
         "(thorough) plus random n<=6, four orderings x L=1..4, blocks 0..2L+1, every (block,row,col) incl. one past the "
         "range; non-trivial = shape with at least one element; distinct = distinct case lines",
    trusted=COMMON_TRUST + ["sanitizers: ASan+UBSan build of the container driver"],
    assumptions=["block size 0 is excluded (Row/ColumnStartVector writes starts[1] of a 1-element table there; see DESIGN 8-7)",
                 "std::find on an inverted range is given the meaning 'empty' (libstdc++ behaviour)"],
    nontrivial=lambda l: not (l.startswith("dense") and (l.split()[2] == "0" or l.split()[3] == "0")),
)

_mech_rule = ("random mechanisms: 1-8 reactions, 0-4 reactants with repeats, 0-4 products, species on both sides, "
              "parameterised reactants/products, dyadic yields k/8, random bijective index maps over <=7 species, "
              "row-major and grouped L=1..5, cells 1..3L+1, integer states |v|<=7, non-zero initial output, padding "
              "lanes filled with a non-zero value; a separate malformed stream (unknown reactant / product names); "
              "non-trivial = at least one reaction with a state reactant")

PROPS["C01"] = Prop(
    "C01",
    family_driver={"forcing": ("drv_process", "plain")},
    model_families={"forcing"},
    generate=lambda rng, tier: G.gen_forcing(rng, tier),
    rule=_mech_rule,
    trusted=COMMON_TRUST,
    assumptions=["exact regime: small-integer concentrations and rate constants, yields k/8: every double operation is exact"],
    nontrivial=G.mech_nontrivial,
)

PROPS["C02"] = Prop(
    "C02",
    family_driver={"jacobian": ("drv_process", "plain")},
    model_families={"jacobian"},
    generate=lambda rng, tier: G.gen_jacobian(rng, tier),
    rule=_mech_rule + "; x {CSR, CSC} x {standard, vector L}; extra structural non-zeros (supersets of the declared pattern)",
    trusted=COMMON_TRUST,
    assumptions=["exact regime as C01"],
    nontrivial=G.mech_nontrivial,
)

_lu_rule = ("decompositions created from a matrix of the same structure with another block count; family lubig (oracle L*U = A only): n = 130..370; all patterns with full diagonal for n<=3 (quick) / n<=4 (thorough) x 4 algorithms, plus random n<=8 with "
            "fill-in; CSR/CSC x standard/vector L=1..4 chosen per case, blocks 1..2L+1 (partial groups), values uniform in "
            "Z_p (p=2^31-1) or small; previous L/U contents non-zero garbage (two variants compared by the oracle); "
            "non-trivial = n>=2")

PROPS["C03"] = Prop(
    "C03",
    family_driver={"lu": ("drv_linalg", "plain"), "lubig": ("drv_linalg", "plain")},
    model_families={"lu"},
    generate=lambda rng, tier: G.gen_lu(rng, tier) + G.gen_lubig(rng, tier),
    rule=_lu_rule,
    trusted=COMMON_TRUST + ["Zp element type (harness/common/zp.hpp) in place of double: the library's own templates compute in exact arithmetic"],
    assumptions=["non-zero pivots (cases with a zero pivot are reported as ZERO_PIVOT by both sides and skipped by the oracle)"],
    nontrivial=lambda l: int(l.split()[5]) >= 2,
    histogram=G.lu_histogram,
)

PROPS["C04"] = Prop(
    "C04",
    family_driver={"linsolve": ("drv_linalg", "plain"), "linbig": ("drv_linalg", "plain"), "linscale": ("drv_linalg", "plain")},
    model_families={"linsolve"},
    generate=lambda rng, tier: G.gen_linsolve(rng, tier) + G.gen_linbig(rng, tier) + G.gen_linscale(rng, tier),
    rule=_lu_rule + "; right-hand sides uniform in Z_p, dense layout matched to the sparse ordering, padding rows hold garbage; "
         "between Factor and Solve the same solver object factors a second matrix into other storage; family linbig "
         "(implementation oracle A x = b only): n = 130..370 with up to 10^5 stored elements per block; decompositions and "
         "solvers are created from a matrix of the same structure with another block count; family linscale: the real "
         "double instantiation on (A, b) and (2^-70 A, 2^-70 b): bit-identical solutions, the tiny system not refused",
    trusted=COMMON_TRUST + ["Zp element type in place of double"],
    assumptions=["non-zero pivots"],
    nontrivial=lambda l: int(l.split()[5]) >= 2,
    histogram=G.lu_histogram,
)

import params2coq

PROPS["C08"] = Prop(
    "C08",
    family_driver={},
    model_families=set(),
    generate=lambda rng, tier: ["table two_stage", "table three_stage", "table four_stage", "table four_stage_da",
                                "table six_stage_da"],
    rule="the five built-in coefficient tables, regenerated from the headers by the translator on this run (complete, "
         "finite domain); every order condition up to the documented order, the next order's violation, embedded order, "
         "row sums, R(inf), packed index range, default controls",
    trusted=["translator: harness/dump_tables.cpp (prints the factory results as hex floats) + tools/params2coq.py "
             "(hex float -> exact Q literal)", "Coq 8.16.1 vm_compute over Q"],
    assumptions=["order conditions of Hairer-Wanner IV.7 for constant diagonal gamma, tolerance 2^-40 on residuals"],
    translators=(params2coq.generate,),
    extra_vo=("gen/RosParams.v",),
)


_int_trust = COMMON_TRUST + [
    "scripted policies (harness/common/mocks.hpp and extract/driver3.ml implement the same pure functions); "
    "pow / sqrt / the absorption test are oracles evaluated with binary64 on both sides",
    "exact regime: every attempted H a power of two and every recorded value a binary64 number; cases that leave it "
    "are reported by the model side (NOTE_OUT_OF_REGIME), counted and not compared (the implementation oracle still runs on them)"]
_int_rule = ("rosmock: every accept/reject word up to length 4 (quick) / 6 (thorough) x separate / in-place linear solver, "
             "plus random words up to length 8; custom dyadic coefficient tables (stages 1-6, all flag vectors), gamma, "
             "order 1 or 2, controls (factor_min/max, safety, rejection_factor_decrease, h_min <= h_max, h_start incl. 0, "
             "max steps 0..12, round_off), time steps 2^-60..2^3, row-major and grouped L=1..4, 1..2L+1 cells, 1-3 species; "
             "bemock: scripted solve multipliers driving convergence / failure / reductions / doubling; "
             "non-trivial = the run makes at least one attempt")

PROPS["C05"] = Prop(
    "C05",
    family_driver={"rosmock": ("drv_integrators", "plain"), "bemock": ("drv_integrators", "plain")},
    model_families={"rosmock", "bemock"},
    generate=lambda rng, tier: G.gen_rosmock(rng, tier) + G.gen_bemock(rng, tier),
    rule=_int_rule,
    trusted=_int_trust,
    oracle_tokens=["ORACLE_BE_STEP_SIZE_IN_MATRIX_NOT_AS_CONFIGURED", "ORACLE_BE_TIME_ADVANCE_NOT_THE_H_IN_THE_MATRIX",
                   "ORACLE_MATRIX_NOT_ALPHA_I_MINUS_J", "ORACLE_DIAGONAL_SHIFT_NOT_1_OVER_GAMMA_H",
                   "ORACLE_FACTOR_BEFORE_JACOBIAN", "ORACLE_BE_MATRIX_NOT_I_OVER_H_MINUS_J"],
)
PROPS["C06"] = Prop(
    "C06",
    family_driver={"rosmock": ("drv_integrators", "plain"), "bemock": ("drv_integrators", "plain")},
    model_families={"rosmock", "bemock"},
    generate=lambda rng, tier: G.gen_rosmock(rng, tier) + G.gen_bemock(rng, tier),
    rule=_int_rule,
    trusted=_int_trust,
    oracle_tokens=["ORACLE_COUNTERS_DO_NOT_MATCH_OPERATIONS", "ORACLE_REJECTED_EXCEEDS_UNACCEPTED_ATTEMPTS",
                   "ORACLE_FINAL_TIME_OUT_OF_RANGE", "ORACLE_CONVERGED_WITHOUT_PROGRESS",
                   "ORACLE_CONVERGED_BEFORE_END_OF_INTERVAL", "ORACLE_FINAL_TIME_NOT_SUM_OF_ACCEPTED_STEPS",
                   "ORACLE_STATE_NOT_THE_SOLUTION_AT_FINAL_TIME", "ORACLE_BE_TIME_ADVANCE_NOT_THE_H_IN_THE_MATRIX",
                   "ORACLE_NO_PROGRESS_ON_A_POSITIVE_TIME_STEP"],
)
PROPS["C07"] = Prop(
    "C07",
    family_driver={"rosmock": ("drv_integrators", "plain"), "bemock": ("drv_integrators", "plain"),
                   "nerr": ("drv_integrators", "plain"), "isconv": ("drv_integrators", "plain")},
    model_families={"rosmock", "bemock", "nerr", "isconv"},
    generate=lambda rng, tier: G.gen_rosmock(rng, tier) + G.gen_bemock(rng, tier) + G.gen_nerr(rng, tier) + G.gen_isconv(rng, tier),
    rule=_int_rule + "; nerr / isconv: the real NormalizedError and IsConverged on every shape cells 1..3L+1 x species 1..3 x "
         "L=0..4 with per-species tolerances and garbage in the padding lanes",
    trusted=_int_trust,
    oracle_tokens=["ORACLE_STEP_", "ORACLE_GROWTH_", "ORACLE_REPEATED_REJECTION_CUT", "ORACLE_ACCEPT_IFF",
                   "ORACLE_BE_STEP_SIZE_IN_MATRIX_NOT_AS_CONFIGURED",
                   "ORACLE_ERROR_NORM_NOT_RMS", "ORACLE_ISCONVERGED"],
)

_slv_trust = COMMON_TRUST + [
    "assembled-solver drivers (harness/common/solver_impl.hpp): the public builder / State / Solver API over "
    "{Matrix, VectorMatrix<2,3,4>} x {CSR, CSC} x {Doolittle, Mozart, DoolittleInPlace, MozartInPlace} x reorder on/off x "
    "species listing order, both integrators; these runs are in binary64 and are judged by the implementation oracle, "
    "not compared with the model"]
_slv_drv = {"slvr": ("drv_solver_ros", "plain"), "slvb": ("drv_solver_be", "plain")}


def _slv_hist(lines):
    h = {}
    for l in lines:
        t = l.split()
        if t and t[0] in ("slvr", "slvb"):
            key = t[0] + ":" + t[1]
            h[key] = h.get(key, 0) + 1
        elif t:
            h[t[0]] = h.get(t[0], 0) + 1
    return h


PROPS["C09"] = Prop(
    "C09", family_driver=_slv_drv, model_families=set(),
    generate=lambda rng, tier: G.gen_slv_cfg(rng, tier, "c09", 1500, 30000),
    rule="random mechanisms (2-5 species, 1-6 reactions, repeated reactants, third bodies) that conserve a positive weighted "
         "sum by construction (checked exactly on the stoichiometry by the harness), random states / rate constants / "
         "time steps 1e-2..1e2 x 1-3 calls / tolerances / five parameter sets and backward Euler, two random configurations "
         "each; the overload of Solve that does not clip; non-trivial = every case",
    trusted=_slv_trust, histogram=_slv_hist,
    oracle_tokens=["ORACLE_LINEAR_INVARIANT_NOT_CONSERVED"],
    assumptions=["drift tolerance 1e-9 relative to sum |w_i y_i| for |y|, k <= 1e3 (rounding drift scales with stiffness)"])
PROPS["C12"] = Prop(
    "C12", family_driver=_slv_drv, model_families=set(),
    generate=lambda rng, tier: G.gen_slv_cfg(rng, tier, "c12", 1000, 20000),
    rule="random mechanisms and problems as C09, each solved with 3-6 configurations drawn from the cross product "
         "{row-major, grouped L=2,3,4} x {CSR, CSC} x 4 LU algorithms x reorder on/off; concentrations by species name "
         "compared at 1e-7 relative, rate constants exactly",
    trusted=_slv_trust, histogram=_slv_hist,
    oracle_tokens=["ORACLE_CONFIGS_DISAGREE"])
PROPS["C13"] = Prop(
    "C13", family_driver=dict(_slv_drv, forcing=("drv_process", "plain"), jacobian=("drv_process", "plain")),
    model_families={"forcing", "jacobian"},
    generate=lambda rng, tier: (G.gen_slv_cells(rng, tier) + G.gen_forcing(rng, tier, 400 if tier == "quick" else 6000)
                                + G.gen_jacobian(rng, tier, 400 if tier == "quick" else 6000)),
    rule="N in 1..3L+1 identical cells vs one cell (all cells bit-identical to each other, equal to the single cell up to "
         "the shared error norm), and the same cell among N-1 cells holding other data (rate constants bit-identical), "
         "for L in {row-major,2,3,4}, both integrators, random configuration; forcing and Jacobian of cells holding "
         "unrelated data (zeros included) against the per-cell model of the two theorems (families of C01/C02)",
    trusted=_slv_trust, histogram=_slv_hist,
    oracle_tokens=["ORACLE_IDENTICAL_CELLS_DIFFER", "ORACLE_RATE_CONSTANT_DEPENDS", "ORACLE_N_IDENTICAL_CELLS",
                   "ORACLE_CELL_COUNT_CHANGES_ERROR", "ORACLE_CELL_DEPENDS_ON_OTHER_CELLS"])
PROPS["C11"] = Prop(
    "C11", family_driver=_slv_drv, model_families=set(),
    generate=lambda rng, tier: G.gen_slv_reuse(rng, tier),
    rule="sequences of 2-6 (quick) / 2-12 (thorough) problems on one State whose Jacobian, L/U, stage vectors and other "
         "scratch members are overwritten with NaN / 1e300 before every Solve, vs a fresh State per problem: results, "
         "statistics and rate constants compared bit for bit; a quarter of the problems carry NaN/Inf/huge inputs so that "
         "the next problem starts after a NaN or rejection-heavy exit; 32 configurations x both integrators",
    trusted=_slv_trust, histogram=_slv_hist,
    oracle_tokens=["ORACLE_REUSED_STATE"])
PROPS["C10"] = Prop(
    "C10", family_driver=dict(_slv_drv, **{"rosmock": ("drv_integrators", "plain")}), model_families={"rosmock"},
    generate=lambda rng, tier: G.gen_slv_cfg(rng, tier, "c10", 2000, 40000) + G.gen_rosmock_special(rng, tier),
    rule="assembled solvers (both integrators, random configuration) on inputs with NaN, +Inf, negative, 1e300 values in a "
         "random concentration or rate constant, or unset conditions (T = 0), 1-5 cells; scripted-policy Rosenbrock runs "
         "whose error norm is NaN or Inf at a random attempt; non-trivial = every case",
    trusted=_slv_trust + _int_trust, histogram=_slv_hist,
    oracle_tokens=["ORACLE_NEGATIVE_AFTER_SOLVE", "ORACLE_CONVERGED_WITH_NONFINITE", "ORACLE_NONFINITE_INPUT_REPORTED_CONVERGED",
                   "ORACLE_NEGATIVE_CONCENTRATION"])
PROPS["C14"] = Prop(
    "C14", family_driver=dict(_slv_drv, markowitz=("drv_linalg", "plain"), spmap=("drv_builder", "plain")),
    model_families={"markowitz", "spmap"},
    generate=lambda rng, tier: G.gen_slv_cfg(rng, tier, "c14", 800, 15000) + G.gen_markowitz(rng, tier) + G.gen_spmap(rng, tier),
    rule="random mechanisms whose species carry (or not) an 'absolute tolerance' property, solved for 3-6 random "
         "permutations of the species listing x reorder on/off x layouts: the name->index map must be a bijection agreeing "
         "with variable_names_, tolerances land at the named species, results by name agree; the real "
         "DiagonalMarkowitzReorder on every 0/1 pattern n<=3 (quick) / n<=4 (thorough) and random n<=8, row-major and "
         "grouped int matrices: the result must be a permutation, and the permutation the model's instance of the heuristic "
         "computes; spmap: solvers built by the real SolverBuilder for random mechanisms, random listing orders, reordering "
         "on/off: variable_map_ and variable_names_ equal to the composed model BuilderMap.builder_species_map",
    trusted=_slv_trust, histogram=_slv_hist,
    oracle_tokens=["ORACLE_SPECIES_MAP_NOT_A_BIJECTION", "ORACLE_TOLERANCE_NOT_BY_NAME", "ORACLE_CONFIGS_DISAGREE",
                   "ORACLE_REORDERING_NOT_A_PERMUTATION"])

PROPS["C15"] = Prop(
    "C15",
    family_driver={"ratec": ("drv_rateconst", "plain"), "ratef": ("drv_rateconst", "plain")},
    model_families={"ratec"},
    generate=lambda rng, tier: G.gen_ratec(rng, tier) + G.gen_ratef(rng, tier),
    rule="built solvers with 1-6 reactions mixing probe rate constants (0-3 custom parameters, encoding their id, the "
         "cell's temperature and pressure and their own parameters), user-defined and Arrhenius constants, 0-2 parameterised "
         "reactants each; row-major and grouped L=1..5, every cell count 1..3L+1; parameters set by label (reverse order) or "
         "positionally; distinct integer values per (cell, column); the whole rate-constant storage compared incl. padding",
    trusted=COMMON_TRUST + ["probe RateConstant subclass (harness only)"],
    assumptions=["built-in formulas (exp/pow/log10) are opaque in the theorem; family ratef compares every built-in type "
                 "(Arrhenius, Troe, ternary chemical activation, tunneling, branched, user defined, surface) with a long-double "
                 "transcription of its documented formula at random parameters (negative exponents included) and conditions "
                 "T 150-350 K, P 1-1.1e5 Pa, 1e-11 relative: validation, not proof"],
    oracle_tokens=["ORACLE_RATE_CONSTANT_"],
)

PROPS["C17"] = Prop(
    "C17",
    family_driver={"vsem": ("drv_valsem", "asan")},
    model_families={"vsem"},
    generate=lambda rng, tier: G.gen_vsem(rng, tier),
    rule="random sequences of 3-12 (quick) / 3-30 (thorough) operations GetState / copy-construct / copy-assign / "
         "move-construct / move-assign / set / solve / solve with another parameter set (fewer / more stages) / solver move "
         "over 4 State variables, Rosenbrock and backward Euler, "
         "row-major + separate LU and grouped L=3 + in-place LU, under ASan+UBSan; every solve is compared bit for bit with "
         "the same problem on a fresh State and the other States are checked unchanged; non-trivial = contains a solve "
         "after a copy or move",
    trusted=COMMON_TRUST + ["ASan + UBSan (vptr) build: undefined behaviour aborts the case and is reported as UB:<kind>"],
    nontrivial=lambda l: " 6 " in l,
    oracle_tokens=["ORACLE_COPY_OR_MOVE_CHANGES_RESULT", "ORACLE_SOLVE_AFFECTS_ANOTHER_STATE"],
)

import errcodes2coq

PROPS["C20"] = Prop(
    "C20",
    family_driver={"err": ("drv_errors", "asan")},
    model_families={"err"},
    generate=lambda rng, tier: G.gen_err(rng, tier),
    rule="each of the 28 conditions (26 documented errors: builder x7 incl. a re-used builder, State setters x9 incl. a ragged table, surface reaction, species "
         "property, dense / grouped / sparse matrix x8; 2 valid-but-formerly-rejected configurations: tolerance on an "
         "other-phase / parameterised species) injected before each of the 9 positions (quick: first, last and two random) "
         "of a valid set / calculate / solve history, Rosenbrock and backward Euler, row-major + separate LU and grouped "
         "L=3 + in-place LU, under ASan+UBSan; the State is compared before/after the rejected call and the history's "
         "final result with the fault-free history bit for bit",
    trusted=COMMON_TRUST + ["translator tools/errcodes2coq.py (regex over util/error.hpp and the enum / category blocks)",
                            "ASan + UBSan build"],
    translators=(errcodes2coq.generate,),
    extra_vo=("gen/ErrCodes.v",),
    oracle_tokens=["ORACLE_OBJECTS_NOT_USABLE_AFTER_ERROR", "ORACLE_NOT_THE_DOCUMENTED_ERROR"],
    case_timeout=600,
)

import footprint

PROPS["C16"] = Prop(
    "C16",
    family_driver={"thr": ("drv_threads", "tsan")},
    model_families=set(),
    generate=lambda rng, tier: G.gen_thr(rng, tier),
    rule="one solver shared by 2..16 threads (quick: 2, 3, 5, 8, 16), each performing 2-6 rounds of GetState (every other "
         "round) / set / CalculateRateConstants / Solve on its own States, Rosenbrock and backward Euler, row-major + "
         "separate LU (2 cells) and grouped L=3 + in-place LU (4 cells), under ThreadSanitizer with halt_on_error; every "
         "thread's concentrations, rate constants, solver state and statistics compared bit for bit with the same calls run "
         "serially on the same solver",
    trusted=COMMON_TRUST + ["translator tools/footprint.py (lexical scan: reachability by callee name, writes by syntax)",
                            "ThreadSanitizer (g++ 12): races are detected on the schedules that ran, by happens-before analysis",
                            "the C++ memory model, the allocator and libm are not modelled"],
    translators=(footprint.generate,),
    extra_vo=("Conc.v", "ConcProofs.v", "gen/Footprint.v"),
    oracle_tokens=["ORACLE_THREAD_RESULT_DIFFERS_FROM_SERIAL"],
    case_timeout=900,
)

import subprocess as _sp


def _llvm_flags():
    try:
        cx = _sp.run("llvm-config --cxxflags", shell=True, capture_output=True, text=True).stdout.strip()
        ld = _sp.run("llvm-config --ldflags --system-libs --libs support core orcjit native irreader", shell=True,
                     capture_output=True, text=True).stdout.strip().replace("\n", " ")
        import re as _re
        cx = _re.sub(r"-std=\S+|-fno-exceptions|-fno-rtti", "", cx)
        return (cx, ld)
    except Exception:
        return ("", "")


PROPS["C18"] = Prop(
    "C18",
    family_driver={f: ("drv_jit", "plain") for f in ("jitforcing", "jitjacobian", "jitlu", "jitsolver")},
    model_families={"jitforcing", "jitjacobian", "jitlu", "jitsolver"},
    generate=lambda rng, tier: G.gen_jit(rng, tier),
    rule="JitProcessSet forcing and Jacobian functions on random mechanisms (as C01/C02) for L = 1..4 and 1..L cells; "
         "JitLuDecompositionDoolittle and JitLinearSolver on random patterns n <= 6 with A = L0*U0 (exact in binary64) for "
         "L = 1..4 and block counts below, at and above L; JitSolverBuilder solvers on random mechanisms, five parameter "
         "sets, cell counts below, at and above L: every JIT output is compared exactly with the model of the generated "
         "program and bit for bit with the CPU class on the same input; a cell count the JIT cannot serve must raise "
         "MicmJitErrc::InvalidMatrix",
    trusted=COMMON_TRUST + ["LLVM 14 (IR semantics, optimiser, ORC JIT, x86-64 code generator) is not modelled",
                            "translator tools/errcodes2coq.py for the error code table"],
    translators=(errcodes2coq.generate,),
    extra_vo=("gen/ErrCodes.v", "JitModel.v", "JitProofs.v"),
    driver_flags={("drv_jit", "plain"): _llvm_flags()},
    oracle_tokens=["ORACLE_JIT_"],
    case_timeout=900,
)

# C08, second clause: accuracy on problems with known solutions (assembled solvers, scenario "acc")
_c08_tables = PROPS["C08"].generate
PROPS["C08"].family_driver = dict(_slv_drv)
PROPS["C08"].generate = lambda rng, tier: _c08_tables(rng, tier) + G.gen_slv_acc(rng, tier)
PROPS["C08"].oracle_tokens = ["ORACLE_ERROR_EXCEEDS_TOLERANCE_PER_ACCEPTED_STEP", "ORACLE_BACKWARD_EULER_NOT_THE_IMPLICIT_EULER_MAP"]
PROPS["C08"].histogram = _slv_hist
PROPS["C08"].rule += ("; accuracy: the chain A -> B -> C with per-cell rate constants (0.05..5 /s, ratios 0.2..6) on 1..3L+1 (and 9) "
                      "cells, L in {row-major, 2, 3, 4}, five parameter sets, rtol 1e-4..1e-8, atol 1e-13, time steps 0.5..10 s: "
                      "Rosenbrock against the Bateman solution (error <= (10 + accepted steps) (atol + rtol |y|); largest observed on the unchanged tree: 0.4 of that); backward "
                      "Euler against the composition of closed-form implicit-Euler maps for the step sizes its controller "
                      "prescribes (h_start 0 / fractions of the interval), 1e-12 relative")
PROPS["C08"].trusted = PROPS["C08"].trusted + _slv_trust


# C12: "the same step history unless an accept/reject decision was within rounding of its threshold".  One differing
# history can be such a decision; a defect confined to one configuration shows as many.  Differing pairs are counted
# per family over the run (0 of ~3000 on the unchanged tree for every seed tried): at least 8 pairs and more than 1%
# of the compared pairs is reported, with the first such case as the failing input.
def _history_aggregate(lines, impl):
    cnt = {}
    first = {}
    for k, (l, i) in enumerate(zip(lines, impl)):
        if i is None:
            continue
        fam = l.split(" ", 1)[0]
        toks = i.split()
        d = toks.count("NOTE_HISTORY_DIFFERS")
        n = d + toks.count("NOTE_HISTORY_SAME")
        if n:
            c = cnt.setdefault(fam, [0, 0])
            c[0] += d
            c[1] += n
            if d and fam not in first:
                first[fam] = k
    out = []
    for fam, (d, n) in sorted(cnt.items()):
        if d >= 8 and d > 0.01 * n:
            out.append((first[fam], ["ORACLE_STEP_HISTORY_DEPENDS_ON_CONFIGURATION:%d_of_%d_pairs_in_family_%s" % (d, n, fam)]))
    return out


PROPS["C12"].aggregate = _history_aggregate
PROPS["C12"].oracle_tokens = PROPS["C12"].oracle_tokens + ["ORACLE_STEP_HISTORY_DEPENDS_ON_CONFIGURATION"]
PROPS["C12"].rule += ("; step histories (steps, accepted) of the configurations of one problem are counted over the run: "
                      ">= 8 differing pairs and > 1% of the pairs of a family is a violation")


# C08: when a table theorem no longer checks, which clause of which table fails and by how much (coq/RosDiag.v,
# evaluated on the tables regenerated from the headers on this run): the failing configuration is the replay.
_C08_TABLES = [("two_stage", 2, "tol40"), ("three_stage", 3, "tol40"), ("four_stage", 4, "(1 # 50000)"),
               ("four_stage_da", 3, "tol40"), ("six_stage_da", 4, "tol40")]
_C08_CODES = {0: "order condition 1 (sum b_i = 1)", 1: "order condition 2", 2: "order condition 3a", 3: "order condition 3b",
              4: "order condition 4a", 5: "order condition 4b", 6: "order condition 4c", 7: "order condition 4d"}


def _c08_diagnose():
    import re, subprocess
    os.makedirs(V.CACHE, exist_ok=True)
    f = os.path.join(V.CACHE, "C08DiagRun.v")
    with open(f, "w") as fh:
        fh.write("From Coq Require Import QArith List.\nFrom Model Require Import RosOrder RosParams RosDiag.\n")
        for name, p, tol in _C08_TABLES:
            fh.write("Eval vm_compute in (diagnose %s %d %s).\n" % (name, p, tol))
    rc, so, se = V.sh("timeout 300 coqc -Q %s Model %s" % (V.COQ, f), cwd=V.CACHE, timeout=330)
    if rc != 0:
        return []
    blocks = re.split(r"\n\s*=\s", "\n" + so)[1:]
    out = []
    for (name, p, tol), blk in zip(_C08_TABLES, blocks):
        for code, num, den in re.findall(r"\((\d+)%nat,\s*(-?\d+)(?:\s*#\s*(\d+))?\)", blk.replace("\n", " ")):
            code = int(code)
            val = float(int(num)) / float(int(den or 1))
            grp, idx = divmod(code, 100)
            what = {1: "main weights: " + _C08_CODES.get(idx, "also satisfies order %d (documented order too low)" % (p + 1)),
                    2: "embedded weights: " + _C08_CODES.get(idx, "also satisfy order %d" % p),
                    3: "alpha_[%d] differs from its row sum" % idx, 4: "gamma_[%d] differs from its row sum" % idx,
                    5: "|R(inf)| above the bound", 6: "packed a_/c_ index leaves the 15-slot arrays",
                    7: "estimator_of_local_order_ is not the documented order"}.get(grp, "clause %d" % code)
            out.append("table %s: %s, residual %.6g (exact %s/%s; allowed %s)" % (name, what, val, num, den or "1", tol))
    return out


import vcore as V  # noqa: E402
PROPS["C08"].diagnose = _c08_diagnose


# The theorems of C09, C11 and C12 are about model functions whose tie to the code is the business of other properties'
# families (forcing / jacobian: C01, C02; lu / linsolve: C03, C04; rosmock / bemock: C05-C07).  Each check runs the tie
# of the functions its own theorems mention on a sample of those families, so that no theorem is reported as holding
# on a run that has not compared its model with the current source.
def _sample(gen, n_quick, n_thorough):
    def g(rng, tier):
        lines = gen(rng, "quick")
        k = n_quick if tier == "quick" else n_thorough
        return lines if len(lines) <= k else rng.sample(lines, k)
    return g


def _add_tie(pid, fams):
    prop = PROPS[pid]
    old_gen = prop.generate
    extra = [(_sample(gen, 150, 600)) for (_, _, gen) in fams]
    prop.family_driver = dict(prop.family_driver, **{f: d for (f, d, _) in fams})
    prop.model_families = set(prop.model_families) | {f for (f, _, _) in fams}
    prop.generate = lambda rng, tier: old_gen(rng, tier) + [l for g in extra for l in g(rng, tier)]
    prop.rule += "; tie of the model functions of this property's theorems: samples of the families " + ", ".join(f for (f, _, _) in fams)


_F = ("forcing", ("drv_process", "plain"), G.gen_forcing)
_J = ("jacobian", ("drv_process", "plain"), G.gen_jacobian)
_LU = ("lu", ("drv_linalg", "plain"), G.gen_lu)
_LS = ("linsolve", ("drv_linalg", "plain"), G.gen_linsolve)
_RM = ("rosmock", ("drv_integrators", "plain"), G.gen_rosmock)
_BM = ("bemock", ("drv_integrators", "plain"), G.gen_bemock)
_add_tie("C09", [_F, _RM, _BM])
_add_tie("C11", [_RM, _BM])
_add_tie("C12", [_F, _J, _LU, _LS])


# C07: the configured h_start reaches the integrator through the builder (assembled solvers, scenario "hstart")
_c07_gen = PROPS["C07"].generate
PROPS["C07"].family_driver = dict(PROPS["C07"].family_driver, **_slv_drv)
PROPS["C07"].generate = lambda rng, tier: _c07_gen(rng, tier) + G.gen_slv_hstart(rng, tier)
PROPS["C07"].rule += "; assembled solvers with h_start = time step on a slow reaction: one attempt, accepted"


# no scenario of the assembled-solver families passes an invalid mechanism, listing or configuration: an exception is
# a refusal of valid input, whatever the property under check
for _pid in ("C08", "C09", "C10", "C11", "C12", "C13", "C14"):
    if PROPS[_pid].oracle_tokens is not None:
        PROPS[_pid].oracle_tokens = PROPS[_pid].oracle_tokens + ["ORACLE_VALID_INPUT_REFUSED"]


# C06: the scripted runs whose error norm is NaN / Inf belong to "a truthful outcome" too (the status must say so)
_c06_gen = PROPS["C06"].generate
PROPS["C06"].generate = lambda rng, tier: _c06_gen(rng, tier) + G.gen_rosmock_special(rng, tier)[:(90 if tier == "quick" else 900)]
PROPS["C06"].oracle_tokens = PROPS["C06"].oracle_tokens + ["ORACLE_CONVERGED_WITH_NONFINITE:error_norm_not_reported"]

PROPS["C06"].family_driver = dict(PROPS["C06"].family_driver, nerr=("drv_integrators", "plain"))
PROPS["C06"].model_families = set(PROPS["C06"].model_families) | {"nerr"}
_c06_gen2 = PROPS["C06"].generate
PROPS["C06"].generate = lambda rng, tier: _c06_gen2(rng, tier) + G.gen_nerr(rng, "quick")
PROPS["C06"].oracle_tokens = PROPS["C06"].oracle_tokens + ["ORACLE_ERROR_NORM_HIDES_NAN"]
for _pid in ("C07", "C10"):
    if PROPS[_pid].oracle_tokens is not None:
        PROPS[_pid].oracle_tokens = PROPS[_pid].oracle_tokens + ["ORACLE_ERROR_NORM_HIDES_NAN"]


# C03 / C04: exactly factorisable systems with subnormal pivots (family linsub, implementation oracle)
for _pid in ("C03", "C04"):
    _g = PROPS[_pid].generate
    PROPS[_pid].family_driver = dict(PROPS[_pid].family_driver, linsub=("drv_linalg", "plain"))
    PROPS[_pid].generate = (lambda g: (lambda rng, tier: g(rng, tier) + G.gen_linsub(rng, tier)))(_g)
    PROPS[_pid].rule += "; family linsub: integer systems A = L0*U0 scaled by 2^-1040 (subnormal pivots, every operation exact): x = x0 exactly"
