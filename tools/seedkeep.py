#!/usr/bin/env python3
"""seedkeep.py <property-id> [k ...] — for the sub-agent changes /tmp/wt-<id>/out/<k>/ that have a confirm.txt
(tools/seedconfirm.sh): run the property's quick check against each (apply to /repo, check, undo) and store the
change as /verif/seeded/<id>-<k>/ with what the check reported.  Never run concurrently with other checks."""
import json, os, re, shutil, subprocess, sys

pid = sys.argv[1]
ks = sys.argv[2:] or ["1", "2"]
for k in ks:
    src = "%s-%s/out/%s" % (os.environ.get("SEEDROOT", "/tmp/wt"), pid, k)
    if not os.path.exists(os.path.join(src, "patch.diff")):
        print(pid, k, "no patch"); continue
    conf = os.path.join(src, "confirm.txt")
    if not os.path.exists(conf):
        print(pid, k, "not confirmed yet"); continue
    ctext = open(conf).read()
    tests_ok = "100% tests passed" in ctext and "BUILD-OK" in ctext and "APPLY-FAILED" not in ctext
    r = subprocess.run(["/verif/tools/seedrun.sh", os.path.join(src, "patch.diff"), pid, "quick"], capture_output=True, text=True)
    outl = (r.stdout + r.stderr).strip().split("\n")
    viol = [l for l in outl if l.startswith("VIOLATION")]
    detected = bool(viol)
    concrete = detected and not viol[0].rstrip().endswith("no-failing-input-found")
    first = ""
    if detected:
        m = re.search(r"replay=(\S+)", viol[0])
        if m and os.path.exists(m.group(1)):
            first = open(m.group(1)).readline().strip()[:300]
    dst = "/verif/seeded/%s-%s%s" % (pid, os.environ.get("SEEDTAG", ""), k)
    os.makedirs(dst, exist_ok=True)
    for f in ("patch.diff", "demo.cpp", "demo.txt", "meta.json", "confirm.txt"):
        if os.path.exists(os.path.join(src, f)):
            shutil.copy(os.path.join(src, f), os.path.join(dst, f))
    try:
        meta = json.load(open(os.path.join(dst, "meta.json")))
    except Exception:
        meta = {"property": pid}
    meta["confirmed_in_scratch_worktree"] = {"applies_builds_and_existing_tests_pass": tests_ok, "see": "confirm.txt"}
    meta["check"] = {"command": "./check %s quick" % pid, "detected": detected, "concrete_failing_input": concrete,
                     "verdict_line": viol[0] if viol else outl[-2] if len(outl) > 1 else "", "replay_first_line": first}
    json.dump(meta, open(os.path.join(dst, "meta.json"), "w"), indent=1)
    print(pid, k, "tests_ok=%s detected=%s concrete=%s %s" % (tests_ok, detected, concrete, first[:120]))
