"""gens.py — case generators.  Every random choice derives from the rng passed in (seeded
from VERIF_SEED by check.py), so a run replays exactly.  One case = one line of integers
after the family name; the layouts are documented next to each generator and parsed by
extract/driver*.ml and harness/drv_*.cpp."""
import itertools


def default_histogram(lines):
    h = {}
    for l in lines:
        t = l.split()
        key = t[0]
        h[key] = h.get(key, 0) + 1
    return h


def vol(tier, quick, thorough, search=None):
    if tier == "thorough":
        return thorough
    if tier == "search":
        return search if search is not None else quick * 3
    return quick


# ---------------------------------------------------------------------------------------
# dense L nrow ncol r0 v alpha          (L = 0: row-major)
# ---------------------------------------------------------------------------------------
def gen_dense(rng, tier):
    out = []
    for L in range(0, 9):
        max_rows = 6 if L == 0 else 3 * L + 1
        for nrow in range(0, max_rows + 1):
            for ncol in range(0, 7):
                r0 = rng.randrange(0, max(1, nrow))
                size = (nrow * ncol) if L == 0 else (-(-nrow // L) * L * ncol)
                v = rng.randrange(0, size + 2)
                alpha = rng.randrange(-3, 6)
                out.append("dense %d %d %d %d %d %d" % (L, nrow, ncol, r0, v, alpha))
        for nrow in rng.sample(BIG_COUNTS, 3):
            ncol = rng.randrange(1, 7)
            size = (nrow * ncol) if L == 0 else (-(-nrow // L) * L * ncol)
            out.append("dense %d %d %d %d %d %d" % (L, nrow, ncol, rng.randrange(0, nrow), rng.randrange(0, size + 2),
                                                    rng.randrange(-3, 6)))
    return out


# ---------------------------------------------------------------------------------------
# sparse csc L n nblocks npairs (r c)*
# ---------------------------------------------------------------------------------------
def _pattern_line(rng, csc, L, n, nb, pairs):
    pairs = list(pairs)
    rng.shuffle(pairs)
    # duplicates exercise the set semantics of the builder
    if pairs and rng.random() < 0.3:
        pairs.append(rng.choice(pairs))
    return "sparse %d %d %d %d %d %s" % (csc, L, n, nb, len(pairs), " ".join("%d %d" % p for p in pairs))


def all_patterns(n):
    cells = [(r, c) for r in range(n) for c in range(n)]
    for mask in range(1 << len(cells)):
        yield [cells[i] for i in range(len(cells)) if (mask >> i) & 1]


def gen_sparse(rng, tier):
    out = []
    exhaustive_n = 3 if tier == "thorough" else 2
    if tier != "thorough":
        # every 3x3 pattern (empty rows / columns between non-empty ones, missing diagonals ...) once, in a random configuration
        for pat in all_patterns(3):
            L = rng.randrange(0, 5)
            nb = rng.choice([1, 2] if L == 0 else [1, L, L + 1, 2 * L + 1])
            out.append(_pattern_line(rng, rng.randrange(2), L, 3, nb, pat))
    for n in range(1, exhaustive_n + 1):
        for pat in all_patterns(n):
            for csc in (0, 1):
                for L in range(0, 5):
                    nbs = [1, 2] if L == 0 else [1, L, L + 1, 2 * L + 1]
                    if n <= 2:
                        nbs = [0] + nbs
                    if n == 3:
                        nbs = [rng.choice(nbs)]
                    for nb in sorted(set(nbs)):
                        out.append(_pattern_line(rng, csc, L, n, nb, pat))
    for _ in range(vol(tier, 150, 4000)):
        n = rng.choice([3, 3, 4, 4, 5, 6])
        dens = rng.choice([0.15, 0.3, 0.5, 0.8])
        pat = [(r, c) for r in range(n) for c in range(n) if rng.random() < dens or (r == c and rng.random() < 0.7)]
        L = rng.randrange(0, 5)
        nb = rng.randrange(1, (2 * L + 2) if L else 4)
        if rng.random() < 0.1:
            nb = rng.choice(BIG_COUNTS)
        out.append(_pattern_line(rng, rng.randrange(2), L, n, nb, pat))
    return out


# ---------------------------------------------------------------------------------------
# mechanisms
#   <mech> := nmap (name idx)*  nrxn { nreact (name param)*  nprod (name param ynum)* }*
# forcing  L ncells nspec pad <mech> rc[ncells*nrxn] y[ncells*nspec] f[ncells*nspec]
# jacobian L csc ncells nspec pad <mech> rc y  nextra (r c)*
# ---------------------------------------------------------------------------------------
def rand_mech(rng, nspec=None, malformed=False, max_rxn=8):
    nspec = nspec if nspec is not None else rng.randrange(1, 8)
    names = rng.sample(range(10, 40), nspec)
    idx = list(range(nspec))
    rng.shuffle(idx)
    vmap = list(zip(names, idx))
    rng.shuffle(vmap)
    params = [50, 51, 52]
    nrxn = rng.randrange(1, max_rxn + 1)
    rxns = []
    bad_at = rng.randrange(nrxn) if malformed else -1
    for r in range(nrxn):
        nr = rng.choice([0, 1, 1, 2, 2, 2, 3, 3, 4])
        reactants = []
        for _ in range(nr):
            if rng.random() < 0.15:
                reactants.append((rng.choice(params), 1))
            elif reactants and rng.random() < 0.3:
                reactants.append(rng.choice(reactants))  # repeated reactant (A + A)
            else:
                reactants.append((rng.choice(names), 0))
        np_ = rng.choice([0, 1, 1, 2, 2, 3, 4])
        products = []
        for _ in range(np_):
            if rng.random() < 0.1:
                products.append((rng.choice(params), 1, rng.randrange(1, 17)))
            elif reactants and rng.random() < 0.3:
                q = rng.choice(reactants)
                products.append((q[0], q[1], rng.randrange(0, 17)))  # species on both sides (a zero yield now and then)
            else:
                products.append((rng.choice(names), 0, rng.choice([8, 8, 4, 2, 1, 3, 12, 16, 5, 0])))
        if r == bad_at:
            if rng.random() < 0.5 or not products:
                reactants.insert(rng.randrange(len(reactants) + 1), (99, 0))
            else:
                products.insert(rng.randrange(len(products) + 1), (98, 0, 8))
        rxns.append((reactants, products))
    return nspec, vmap, rxns


def mech_tokens(vmap, rxns):
    t = [len(vmap)]
    for k, v in vmap:
        t += [k, v]
    t.append(len(rxns))
    for reactants, products in rxns:
        t.append(len(reactants))
        for n, p in reactants:
            t += [n, p]
        t.append(len(products))
        for n, p, y in products:
            t += [n, p, y]
    return t


BIG_COUNTS = [8, 9, 15, 16, 17, 24, 31, 32, 33, 40]


def _cells(rng, L):
    # mostly small counts (every residue modulo L); one case in ten uses a count beyond any small batch size
    if rng.random() < 0.1:
        return rng.choice(BIG_COUNTS)
    if L == 0:
        return rng.randrange(1, 5)
    return rng.choice(list(range(1, 3 * L + 2)))


def wide_mech(rng, nspec, nrxn):
    """more than 255 species and reactions (ids, counts and offsets that do not fit one byte), every species used"""
    names = list(range(1000, 1000 + nspec))
    idx = list(range(nspec))
    rng.shuffle(idx)
    vmap = list(zip(names, idx))
    rxns = []
    for r in range(nrxn):
        reactants = [(names[(r * 7 + j * 13) % nspec], 0) for j in range(rng.choice([1, 2, 2, 3]))]
        products = [(names[(r * 11 + 5 + j * 17) % nspec], 0, rng.choice([8, 4, 2, 12, 16])) for j in range(rng.choice([1, 2]))]
        rxns.append((reactants, products))
    return nspec, vmap, rxns


def gen_forcing(rng, tier, count=None):
    out = []
    if count is None:
        for L in (0, 4):
            ncells = 3 if L == 0 else 5
            nspec, vmap, rxns = wide_mech(rng, 300, 320)
            rc = [rng.randrange(0, 4) for _ in range(ncells * len(rxns))]
            y = [rng.randrange(-1, 4) for _ in range(ncells * nspec)]
            f = [rng.randrange(-2, 3) for _ in range(ncells * nspec)]
            t = [L, ncells, nspec, 9] + mech_tokens(vmap, rxns) + rc + y + f
            out.append("forcing " + " ".join(map(str, t)))
    for k in range(count or vol(tier, 1500, 40000)):
        L = rng.choice([0, 1, 2, 3, 4, 5, 0, 1, 2, 3, 4, 5, 6, 7, 8])
        ncells = _cells(rng, L)
        nspec, vmap, rxns = rand_mech(rng, malformed=(k % 25 == 7))
        nrxn = len(rxns)
        rc = [rng.randrange(0, 6) for _ in range(ncells * nrxn)]
        y = [rng.randrange(-2, 8) for _ in range(ncells * nspec)]
        f = [rng.randrange(-5, 6) for _ in range(ncells * nspec)]
        t = [L, ncells, nspec, rng.choice([9, 0, -3])] + mech_tokens(vmap, rxns) + rc + y + f
        out.append("forcing " + " ".join(map(str, t)))
    return out


def gen_jacobian(rng, tier, count=None):
    out = []
    if count is None:
        for L, csc in ((0, 0), (4, 1)):
            ncells = 2 if L == 0 else 5
            nspec, vmap, rxns = wide_mech(rng, 300, 320)
            rc = [rng.randrange(0, 4) for _ in range(ncells * len(rxns))]
            y = [rng.randrange(-1, 4) for _ in range(ncells * nspec)]
            t = [L, csc, ncells, nspec, 9] + mech_tokens(vmap, rxns) + rc + y + [0]
            out.append("jacobian " + " ".join(map(str, t)))
    for k in range(count or vol(tier, 1500, 40000)):
        L = rng.choice([0, 1, 2, 3, 4, 5, 0, 1, 2, 3, 4, 5, 6, 7, 8])
        csc = rng.randrange(2)
        ncells = _cells(rng, L)
        nspec, vmap, rxns = rand_mech(rng, malformed=(k % 25 == 7))
        nrxn = len(rxns)
        rc = [rng.randrange(0, 6) for _ in range(ncells * nrxn)]
        y = [rng.randrange(-2, 8) for _ in range(ncells * nspec)]
        extra = []
        if rng.random() < 0.4:
            extra = [(rng.randrange(nspec), rng.randrange(nspec)) for _ in range(rng.randrange(1, 4))]
        t = [L, csc, ncells, nspec, rng.choice([9, 0, -3])] + mech_tokens(vmap, rxns) + rc + y + [len(extra)]
        for r, c in extra:
            t += [r, c]
        out.append("jacobian " + " ".join(map(str, t)))
    return out


def mech_nontrivial(line):
    # at least one reaction with a non-parameterised reactant: crude but measured on the line
    t = line.split()
    try:
        off = 5 if t[0] == "forcing" else 6
        nmap = int(t[off])
        p = off + 1 + 2 * nmap
        nrxn = int(t[p])
        p += 1
        for _ in range(nrxn):
            nr = int(t[p])
            p += 1
            for _ in range(nr):
                if t[p + 1] == "0":
                    return True
                p += 2
            np_ = int(t[p])
            p += 1 + 3 * np_
    except Exception:
        return False
    return False


# ---------------------------------------------------------------------------------------
# lu       alg csc L nblocks n npairs (r c)* values[nblocks*npairs]
# linsolve alg csc L nblocks n npairs (r c)* values[nblocks*npairs] rhs[nblocks*n]
#   alg: 0 Doolittle, 1 Mozart, 2 DoolittleInPlace, 3 MozartInPlace ; patterns have a full diagonal
# ---------------------------------------------------------------------------------------
P31 = 2147483647


def offdiag_patterns(n):
    cells = [(r, c) for r in range(n) for c in range(n) if r != c]
    for mask in range(1 << len(cells)):
        yield [cells[i] for i in range(len(cells)) if (mask >> i) & 1]


def _lu_line(rng, fam, alg, n, offdiag, solve):
    csc = rng.randrange(2)
    L = rng.randrange(0, 5)
    nb = rng.randrange(1, (2 * L + 2) if L else 4)
    if rng.random() < 0.1:
        nb = rng.choice(BIG_COUNTS)
    pairs = sorted(set([(i, i) for i in range(n)] + list(offdiag)))
    small = rng.random() < 0.2
    vals = [rng.randrange(1, 10 if small else P31) for _ in range(nb * len(pairs))]
    t = [alg, csc, L, nb, n, len(pairs)]
    for r, c in pairs:
        t += [r, c]
    t += vals
    if solve:
        t += [rng.randrange(0, P31) for _ in range(nb * n)]
    return fam + " " + " ".join(map(str, t))


def _gen_linalg(rng, tier, fam, solve):
    out = []
    nmax = 4 if tier == "thorough" else 3
    for n in range(1, nmax + 1):
        for off in offdiag_patterns(n):
            for alg in range(4):
                out.append(_lu_line(rng, fam, alg, n, off, solve))
    for _ in range(vol(tier, 400, 6000)):
        n = rng.choice([4, 5, 5, 6, 7, 8])
        dens = rng.choice([0.1, 0.2, 0.35, 0.6])
        off = [(r, c) for r in range(n) for c in range(n) if r != c and rng.random() < dens]
        out.append(_lu_line(rng, fam, rng.randrange(4), n, off, solve))
    # wider groups (5, 6, 8 cells): whole groups, partial groups of more than four cells, several groups
    for L in (5, 6, 8):
        for alg in range(4):
            for nb in (L, L - 2, 2 * L - 1, L + 6):
                n = rng.choice([3, 4, 5])
                off = [(r, c) for r in range(n) for c in range(n) if r != c and rng.random() < 0.4]
                line = _lu_line(rng, fam, alg, n, off, solve).split()
                # _lu_line drew its own L and block count: generate the values for the wanted ones instead
                csc = line[2]
                pairs = sorted(set([(i, i) for i in range(n)] + list(off)))
                vals = [rng.randrange(1, P31) for _ in range(nb * len(pairs))]
                t = [alg, csc, L, nb, n, len(pairs)]
                for r, c in pairs:
                    t += [r, c]
                t += vals
                if solve:
                    t += [rng.randrange(0, P31) for _ in range(nb * n)]
                out.append(fam + " " + " ".join(map(str, t)))
    return out


def gen_lu(rng, tier):
    return _gen_linalg(rng, tier, "lu", False)


def gen_linsolve(rng, tier):
    return _gen_linalg(rng, tier, "linsolve", True)


# linbig alg csc L nb n density% seed : a large system generated inside the driver from the seed (implementation oracle
# A x = b only; the extracted model does not run it).  Sizes chosen so that the number of stored elements times the
# group width passes 2^16 and 2^17: index tables narrower than size_t would wrap there.
def gen_linbig(rng, tier):
    out = []
    shapes = [(130, 100, 4), (140, 100, 4), (260, 100, 0), (200, 60, 3)]
    if tier != "quick":
        shapes += [(370, 100, 0), (190, 100, 4), (300, 30, 2), (150, 100, 3)]
    for (n, dens, L) in shapes:
        # the Mozart constructors take minutes at this size (their symbolic phase is far slower than Doolittle's):
        # Doolittle and DoolittleInPlace everywhere, the Mozart pair once in the thorough tier
        algs = [0, 2] + ([1, 3] if tier != "quick" and (n, L) == (130, 4) else [])
        for alg in algs:
            nb = 1 if L == 0 else rng.choice([1, L + 1])
            out.append("linbig %d %d %d %d %d %d %d" % (alg, rng.randrange(2), L, nb, n, dens, rng.randrange(1, 10**6)))
    return out


def gen_lubig(rng, tier):
    return ["lubig" + l[len("linbig"):] for l in gen_linbig(rng, tier)]


# linscale: the cases of linsolve run by the real double instantiation at two scales (1 and 2^-70)
def gen_linscale(rng, tier):
    lines = gen_linsolve(rng, "quick")
    k = 200 if tier == "quick" else 2000
    lines = lines if len(lines) <= k else rng.sample(lines, k)
    return ["linscale" + l[len("linsolve"):] for l in lines]


# linsub alg csc L nb n np (r c)* vals x0 : exactly factorisable integer systems (A = L0*U0), scaled by 2^-1040 in the driver
def gen_linsub(rng, tier):
    out = []
    for _ in range(60 if tier == "quick" else 600):
        n = rng.choice([2, 3, 3, 4, 5])
        L = rng.choice([0, 1, 2, 3, 4])
        nb = rng.randrange(1, (2 * L + 2) if L else 4)
        dens = rng.choice([0.3, 0.5, 0.8])
        lmask = [[r > c and rng.random() < dens for c in range(n)] for r in range(n)]
        umask = [[r < c and rng.random() < dens for c in range(n)] for r in range(n)]
        blocks = []
        for b in range(nb):
            L0 = [[(1 if r == c else (rng.choice([-2, -1, 1, 2, 3]) if lmask[r][c] else 0)) for c in range(n)] for r in range(n)]
            U0 = [[(rng.choice([1, -1, 2, -2, 4]) if r == c else (rng.choice([-3, -2, -1, 1, 2, 3]) if umask[r][c] else 0))
                   for c in range(n)] for r in range(n)]
            A = [[sum(L0[r][k] * U0[k][c] for k in range(n)) for c in range(n)] for r in range(n)]
            blocks.append((A, [rng.randrange(-4, 5) for _ in range(n)]))
        # the pattern: everything the factors touch (A's non-zeros and the positions of L0 and U0)
        pairs = sorted(set((r, c) for r in range(n) for c in range(n)
                           if r == c or lmask[r][c] or umask[r][c] or any(blk[0][r][c] != 0 for blk in blocks)))
        # the two Doolittle decompositions divide by the pivot; the Mozart pair multiplies by its reciprocal by design
        # (which overflows for a subnormal pivot) and is left out
        t = [rng.choice([0, 2]), rng.randrange(2), L, nb, n, len(pairs)]
        for r, c in pairs:
            t += [r, c]
        for A, _ in blocks:
            t += [A[r][c] for r, c in pairs]
        for _, x0 in blocks:
            t += x0
        out.append("linsub " + " ".join(map(str, t)))
    return out


def lu_histogram(lines):
    h = {"alg": {}, "n": {}, "L": {}, "order": {}, "partial_group": 0}
    for l in lines:
        t = l.split()
        if t[0] not in ("lu", "linsolve", "linbig", "lubig", "linscale", "linsub"):
            continue
        alg, csc, L, nb, n = map(int, t[1:6])
        h["alg"][str(alg)] = h["alg"].get(str(alg), 0) + 1
        h["n"][str(n)] = h["n"].get(str(n), 0) + 1
        h["L"][str(L)] = h["L"].get(str(L), 0) + 1
        h["order"]["csc" if csc else "csr"] = h["order"].get("csc" if csc else "csr", 0) + 1
        if L and nb % L:
            h["partial_group"] += 1
    return h


# ---------------------------------------------------------------------------------------
# integrators with scripted policies.  A dyadic value is two tokens  m e  (= m * 2^e).
# rosmock inplace L ncells nspec stages newf[6] a[15] c[15] m[6] e[6] gamma0 elo max_steps round_off_k
#         factor_min factor_max rej_dec safety h_min h_max h_start time_step P[n*n] q[n] y0[c*n] nerrs errs[]
# ---------------------------------------------------------------------------------------
def d(m, e=0):
    return "%d %d" % (m, e)


def _ros_line(rng, word, tier, inplace=None, L=None, stages=None):
    inplace = rng.randrange(2) if inplace is None else inplace
    L = rng.randrange(0, 5) if L is None else L
    ncells = rng.randrange(1, (2 * L + 2) if L else 4)
    if rng.random() < 0.05:
        ncells = rng.choice(BIG_COUNTS[:6])
    nspec = rng.randrange(1, 4)
    stages = rng.choice([1, 2, 2, 2, 3, 3, 4, 6]) if stages is None else stages
    newf = [1] + [rng.randrange(2) for _ in range(5)]
    coef = lambda: d(rng.choice([-2, -1, 1, 2]), -2)
    a = [coef() for _ in range(15)]
    c = [coef() for _ in range(15)]
    m = [coef() for _ in range(6)]
    e = [coef() for _ in range(6)]
    gamma0 = rng.choice([d(1, -1), d(1, -2), d(1, 0)])
    elo2 = rng.random() < 0.25
    elo = d(2) if elo2 else d(1)
    max_steps = rng.choice([5, 4, 4, 3, 2, 1, 0])
    rk = rng.choice([52, 52, 52, 30, 8])
    fmin = rng.choice([d(1, -2), d(1, -3)])
    fmax = rng.choice([d(2), d(4), d(8)])
    rej = rng.choice([d(1, -1), d(1, -2), d(1, -3)])
    safety = rng.choice([d(1), d(1, -1)])
    ts = rng.choice([-3, -2, -1, 0, 0, 1, 2, 3])
    if rng.random() < 0.08:
        ts = rng.choice([-60, -53, -52, -51, -40])       # time steps around / below round_off
    time_step = d(1, ts)
    if rk == 30 and ts > -40:
        # a time step with a 25-bit mantissa: exact in binary64, not representable in binary32 (chosen by a value
        # already drawn, so that the random stream of the other cases is unchanged)
        time_step = d(16777217, ts - 24)
    # legal controls: h_min <= h_max' = min(time_step, h_max), all powers of two (exact regime)
    hmax_e = rng.choice([None, None, ts - 1, ts + 2, ts - 3])
    hmaxp = ts if hmax_e is None else min(ts, hmax_e)
    hmax = d(0) if hmax_e is None else d(1, hmax_e)
    hmin_e = rng.choice([None, None, hmaxp - 10, hmaxp - 4, hmaxp - 2, hmaxp])
    hmin = d(0) if hmin_e is None else d(1, hmin_e)
    hstart = rng.choice([d(1, hmaxp - 3), d(1, hmaxp - 6), d(1, hmaxp + 1), d(1, hmaxp - 1), d(1, hmaxp), d(1, hmaxp - 3),
                         d(1, hmaxp - 2), d(1, hmaxp - 1), d(1, hmaxp - 4), d(1, hmaxp), d(0)])
    if hstart == d(0) and hmax_e is not None and max_steps % 2 == 0 and ts > -40:
        # default h_start with an h_max below DELTA_MIN = 1e-6 s (and below the time step): the start value
        # max(h_min, DELTA_MIN) is then limited by h_max alone.  The whole problem is moved down by 2^-24, decided by
        # values already drawn, so that the random stream of the other cases is unchanged.
        sh = -24
        time_step = d(16777217, ts - 24 + sh) if rk == 30 else d(1, ts + sh)
        hmax = d(1, hmax_e + sh)
        if hmin_e is not None:
            hmin = d(1, hmin_e + sh)
    P = [d(rng.randrange(-2, 3), -2) for _ in range(nspec * nspec)]
    q = [d(rng.randrange(-2, 3), -1) for _ in range(nspec)]
    y0 = [d(rng.randrange(0, 5)) for _ in range(ncells * nspec)]
    # error script from the accept/reject word; perfect squares of two when the order is 2
    errs = []
    for ch in word:
        if ch == "A":
            errs.append(rng.choice([d(1, -2), d(1, -4)]) if elo2 else rng.choice([d(1, -1), d(1, -2), d(1, -4)]))
        else:
            errs.append(rng.choice([d(4), d(16)]) if elo2 else rng.choice([d(1), d(2), d(4), d(16)]))
    errs.append(d(1, -2))   # everything after the word is accepted
    t = [str(inplace), str(L), str(ncells), str(nspec), str(stages)] + list(map(str, newf)) + a + c + m + e + \
        [gamma0, elo, str(max_steps), str(rk), fmin, fmax, rej, safety, hmin, hmax, hstart, time_step] + P + q + y0 + \
        [str(len(errs))] + errs
    return "rosmock " + " ".join(t)


def accept_reject_words(maxlen):
    for n in range(0, maxlen + 1):
        for w in itertools.product("AR", repeat=n):
            yield "".join(w)


def gen_rosmock(rng, tier):
    out = []
    maxlen = 6 if tier == "thorough" else 4
    reps = 6 if tier == "thorough" else 3
    for w in accept_reject_words(maxlen):
        for inplace in (0, 1):
            for _ in range(reps):
                out.append(_ros_line(rng, w, tier, inplace=inplace))
    for _ in range(vol(tier, 300, 6000)):
        n = rng.randrange(0, 9)
        w = "".join(rng.choice("AARR") for _ in range(n))
        out.append(_ros_line(rng, w, tier))
    return out


# bemock inplace L ncells nspec h_start max_iter nred reductions[] time_step P q y0 atol[n] rtol small nw w[]
def gen_bemock(rng, tier):
    out = []
    for _ in range(vol(tier, 800, 15000)):
        inplace = rng.randrange(2)
        L = rng.randrange(0, 5)
        ncells = rng.randrange(1, (2 * L + 2) if L else 4)
        nspec = rng.randrange(1, 4)
        hstart = rng.choice([d(0), d(0), d(1, -2), d(1, -1)])
        max_iter = rng.choice([1, 2, 3, 4, 11])
        reds = [rng.choice([d(1, -1), d(1, -2)]) for _ in range(5)]
        time_step = d(1, rng.choice([-2, -1, 0, 1, 2]))
        P = [d(rng.randrange(-4, 5), -2) for _ in range(nspec * nspec)]
        q = [d(rng.randrange(-2, 3), -1) for _ in range(nspec)]
        y0 = [d(rng.randrange(0, 5)) for _ in range(ncells * nspec)]
        atol = [rng.choice([d(1, -4), d(1, -2), d(1)]) for _ in range(nspec)]
        rtol = rng.choice([d(1, -4), d(1, -8), d(0)])
        small = rng.choice([d(1, -20), d(1, -6)])
        nw = rng.randrange(1, 30)
        if nw == 7:
            time_step = d(1, -60 if max_iter > 2 else -53)   # far below / at the machine epsilon: still a step to integrate
        elif nw == 11:
            time_step = d(16777217, -24)                     # 25-bit mantissa: not a binary32 number
        # scripted multiplier of the linear solve: 0 = converge at once, 1 = keep the full residual, small = converge
        ws = [rng.choice([d(0), d(0), d(1), d(1), d(1, -1), d(1, -12), d(-1)]) for _ in range(nw)]
        t = [str(inplace), str(L), str(ncells), str(nspec), hstart, str(max_iter), "5"] + reds + [time_step] + P + q + y0 + \
            atol + [rtol, small, str(nw)] + ws
        out.append("bemock " + " ".join(t))
    return out


# nerr   L ncells nspec pad atol[n] rtol y[] ynew[] err[]        isconv L ncells nspec pad atol[n] rtol small resid[] yn1[]
def gen_nerr(rng, tier):
    out = []
    for L in range(0, 5):
        for ncells in range(1, (3 * L + 2) if L else 5):
            for nspec in range(1, 4):
                for _ in range(vol(tier, 2, 12)):
                    atol = [rng.choice([(1, -1), (1, 0), (1, -2), (3, -2)]) for _ in range(nspec)]
                    rtol = rng.choice([(1, -1), (1, -2), (0, 0)])
                    v = rng.choice([(1, -3), (1, 0), (1, 2), (3, 0), (1, -40)])   # every term equals v: the norm is |v|
                    y, yn, er = [], [], []
                    for c in range(ncells):
                        for s in range(nspec):
                            a = rng.randrange(-4, 5)
                            b = rng.randrange(-4, 5)
                            ymax = max(abs(a), abs(b))
                            # scale = atol + rtol * ymax (dyadic) ; err = v * scale * (+-1)
                            from fractions import Fraction
                            sc = Fraction(atol[s][0]) * Fraction(2) ** atol[s][1] + Fraction(rtol[0]) * Fraction(2) ** rtol[1] * ymax
                            ev = Fraction(v[0]) * Fraction(2) ** v[1] * sc * rng.choice([1, -1])
                            if rng.random() < 0.1:
                                ev = ev * 2        # a non-uniform entry (the oracle still applies, the tie may leave the regime)
                            den = ev.denominator
                            k = den.bit_length() - 1
                            y.append(d(a)); yn.append(d(b)); er.append(d(ev.numerator, -k))
                    pad = rng.choice([d(977), d(0), d(-5)])
                    t = [str(L), str(ncells), str(nspec), pad] + [d(*x) for x in atol] + [d(*rtol)] + y + yn + er
                    out.append("nerr " + " ".join(t))
    return out


def gen_isconv(rng, tier):
    out = []
    for L in range(0, 5):
        for ncells in range(1, (3 * L + 2) if L else 5):
            for nspec in range(1, 4):
                for _ in range(vol(tier, 3, 15)):
                    atol = [rng.choice([d(1, -1), d(1), d(1, -3)]) for _ in range(nspec)]
                    rtol = rng.choice([d(1, -1), d(1, -3), d(0)])
                    small = rng.choice([d(1, -10), d(1, -2)])
                    n = ncells * nspec
                    rs = [d(0)] * n if rng.random() < 0.5 else [rng.choice([d(0), d(1, -12), d(1, -4)]) for _ in range(n)]
                    rs = list(rs)
                    if rng.random() < 0.6:   # one offending element at a random logical position
                        rs[rng.randrange(n)] = rng.choice([d(8), d(-8), d(1, -1), d(1, 1)])
                    yn1 = [d(rng.randrange(0, 6)) for _ in range(n)]
                    pad = rng.choice([d(977), d(0), d(-64)])
                    t = [str(L), str(ncells), str(nspec), pad] + atol + [rtol, small] + rs + yn1
                    out.append("isconv " + " ".join(t))
    return out


# ---------------------------------------------------------------------------------------
# the assembled solver.   slvr / slvb  <scenario> ...
#   <mech>    := ns {name atol}*  nr { kind a {name param}* b {name param yield}* }*      (atol < 0: no property)
#   <problem> := ncells table T P dt nsteps rtol h_start clamp y0[ncells*ns] k[ncells*nr]
#   <config>  := L csc lu reorder order[ns]
#   cfg   <mech> <problem> w[ns] nconfigs <config>*
#   cells <mech> <problem(1 cell)> N <config> other_y0[ns] other_k[nr]
#   reuse <mech> <config> nproblems <problem>*
# ---------------------------------------------------------------------------------------
def fnum(x):
    return repr(float(x))


def rand_solver_mech(rng, conservative=True, with_atol=False, max_spec=5):
    ns = rng.randrange(2, max_spec + 1)
    names = rng.sample(range(10, 60), ns)
    w = [rng.choice([1, 1, 2, 4]) for _ in range(ns)] if conservative else [1] * ns
    atol = [(rng.choice([1e-6, 1e-9, 1e-3, 1e-12]) if (with_atol and rng.random() < 0.6) else -1.0) for _ in range(ns)]
    nr = rng.randrange(1, 7)
    rxns = []
    for _ in range(nr):
        a = rng.choice([1, 1, 1, 2, 2, 3])
        reactants = [(rng.randrange(ns), 0) for _ in range(a)]
        if rng.random() < 0.15:
            reactants.append((70, 1))    # parameterised third body
        wr = sum(w[i] for i, p in reactants if not p)
        b = rng.choice([1, 1, 2, 2, 3])
        prods = [rng.randrange(ns) for _ in range(b)]
        if conservative:
            # yields in quarters; the last product balances the law exactly
            ys = []
            left = wr
            for j, pi in enumerate(prods[:-1]):
                y = rng.choice([0.25, 0.5, 1.0])
                if y * w[pi] > left:
                    y = 0.0
                ys.append(y)
                left -= y * w[pi]
            ys.append(left / w[prods[-1]])
        else:
            ys = [rng.choice([0.25, 0.5, 1.0, 1.5, 2.0]) for _ in prods]
        pl = list(zip(prods, ys))
        if any(p for _, p in reactants) and rng.random() < 0.6:
            # the third body comes out again (A + M -> B + M): a parameterised product, not part of the state
            pl.insert(rng.randrange(len(pl)), (None, 1.0))
        rxns.append((rng.choice([0, 0, 0, 0, 1, 2]), reactants, pl))
    return names, atol, w, rxns


def solver_mech_tokens(names, atol, rxns):
    t = [str(len(names))]
    for n, a in zip(names, atol):
        t += [str(n), fnum(a)]
    t.append(str(len(rxns)))
    for kind, reactants, prods in rxns:
        t += [str(kind), str(len(reactants))]
        for i, p in reactants:
            t += [str(names[i]) if not p else str(i), str(p)]
        t.append(str(len(prods)))
        for pi, y in prods:
            t += [str(names[pi]), "0", fnum(y)] if pi is not None else ["70", "1", fnum(y)]
    return t


def solver_problem_tokens(rng, ns, rxns, ncells, kind, special=False, clamp=1, single_values=None):
    table = rng.randrange(5)
    T = rng.choice([300.0, 272.5, 220.0])
    P = 101325.0
    dt = rng.choice([1e-2, 0.1, 1.0, 10.0, 100.0])
    nsteps = rng.choice([1, 1, 2, 3])
    rtol = rng.choice([1e-6, 1e-4, 1e-8])
    h_start = 0.0
    if single_values is not None:
        y0, k = single_values
        y0 = y0 * ncells
        k = k * ncells
    else:
        y0 = [rng.choice([0.0, 1.0, 0.5, 1e-3, 2.0, 10.0]) * rng.random() for _ in range(ncells * ns)]
        k = [10 ** rng.uniform(-3, 1.5) if rx[0] == 0 else 1.0 for _ in range(ncells) for rx in rxns]
        # a reaction switched off (rate constant exactly 0) in some cells, e.g. photolysis at night
        if rng.random() < 0.25:
            ud = [r for r, rx in enumerate(rxns) if rx[0] == 0]
            if ud:
                r = rng.choice(ud)
                for c in range(ncells):
                    if rng.random() < 0.7:
                        k[c * len(rxns) + r] = 0.0
        # and a species absent (concentration exactly 0) in some cells
        if rng.random() < 0.25:
            sp = rng.randrange(ns)
            for c in range(ncells):
                if rng.random() < 0.7:
                    y0[c * ns + sp] = 0.0
    if special:
        what = rng.choice(["nan_y", "inf_y", "neg_y", "huge_y", "nan_k", "inf_k", "neg_k", "T0", "huge_k"])
        i = rng.randrange(len(y0))
        ud = [jj for jj in range(len(k)) if rxns[jj % len(rxns)][0] == 0]
        j = rng.choice(ud) if ud else 0
        if not ud and what.endswith("_k"):
            what = "nan_y"
        if what == "nan_y":
            y0[i] = float("nan")
        elif what == "inf_y":
            y0[i] = float("inf")
        elif what == "neg_y":
            y0[i] = -abs(y0[i]) - 0.5
            if i % 2 == 0:
                dt = 0.0      # a Solve over an empty interval (last pass of a sub-stepping loop) still clamps
        elif what == "huge_y":
            y0[i] = 1e300
        elif what == "nan_k":
            k[j] = float("nan")
        elif what == "inf_k":
            k[j] = float("inf")
        elif what == "neg_k":
            k[j] = -5.0
        elif what == "huge_k":
            k[j] = 1e300
        elif what == "T0":
            T = 0.0
    t = [str(ncells), str(table), fnum(T), fnum(P), fnum(dt), str(nsteps), fnum(rtol), fnum(h_start), str(clamp)]
    t += [fnum(v) for v in y0] + [fnum(v) for v in k]
    return t


def rand_config(rng, ns, L=None, identity_order=False):
    L = rng.choice([0, 2, 3, 4]) if L is None else L
    order = list(range(ns))
    if not identity_order:
        rng.shuffle(order)
    return [str(L), str(rng.randrange(2)), str(rng.randrange(4)), str(rng.randrange(2))] + list(map(str, order))


def gen_slv_cfg(rng, tier, purpose, n_quick, n_thorough):
    out = []
    for kk in range(vol(tier, n_quick, n_thorough)):
        kind = "slvr" if rng.random() < 0.6 else "slvb"
        names, atol, w, rxns = rand_solver_mech(rng, conservative=(purpose != "c10" or rng.random() < 0.5),
                                                with_atol=(purpose == "c14" or rng.random() < 0.4))
        ns = len(names)
        ncells = rng.choice([1, 1, 2, 3, 5, 5, 9, 17])
        clamp = 0 if purpose == "c09" else 1
        pt = solver_problem_tokens(rng, ns, rxns, ncells, kind, special=(purpose == "c10"), clamp=clamp)
        if purpose in ("c12", "c14"):
            ncfg = rng.choice([3, 4, 6])
        else:
            ncfg = 1 if purpose == "c10" else 2
        cfgs = []
        for _ in range(ncfg):
            cfgs += rand_config(rng, ns, identity_order=(purpose not in ("c14",) and rng.random() < 0.7))
        t = [kind, "cfg"] + solver_mech_tokens(names, atol, rxns) + pt + [fnum(x) for x in w] + [str(ncfg)] + cfgs
        out.append(" ".join(t))
    if purpose in ("c09", "c12"):
        out += _hub_cases(rng, purpose)
    if purpose in ("c09", "c12", "c14"):
        out += _many_product_cases(rng, purpose)
    return out


def _many_product_cases(rng, purpose):
    """reactions with four to six products, all yields different, and a species listed twice among the products:
    A -> 0.1 B + 0.2 C + 0.3 D + 0.4 E (+ ...), B + C -> D + D ; the number of molecules is conserved"""
    out = []
    for kind in ("slvr", "slvb"):
        for nprod in (4, 5, 6):
            ns = nprod + 1
            names = list(range(200, 200 + ns))
            atol = [-1.0] * ns
            # dyadic yields, all different, adding up to exactly one molecule
            ys = {4: [1, 2, 5, 8], 5: [1, 2, 3, 4, 6], 6: [1, 2, 3, 4, 6, 16]}[nprod]
            ys = [y / float(sum(ys)) for y in ys]
            rxns = [(0, [(0, 0)], [(j + 1, ys[j]) for j in range(nprod)]),
                    (0, [(1, 0), (2, 0)], [(3, 1.0), (3, 1.0)])]
            w = [1.0] * ns
            ncells = rng.choice([1, 3, 5])
            y0 = [rng.choice([0.5, 1.0, 2.0]) for _ in range(ncells * ns)]
            k = [rng.choice([0.05, 0.5, 2.0]) for _ in range(ncells) for _ in rxns]
            pt = [str(ncells), str(rng.randrange(5)), fnum(300.0), fnum(101325.0), fnum(rng.choice([0.1, 1.0, 10.0])), "2", fnum(1e-6), fnum(0.0),
                  "0" if purpose == "c09" else "1"]
            pt += [fnum(v) for v in y0] + [fnum(v) for v in k]
            ncfg = 1 if purpose == "c09" else 3
            cfgs = []
            for j in range(ncfg):
                cfgs += rand_config(rng, ns, L=(0 if j == 0 else None), identity_order=(purpose != "c14"))
            t = [kind, "cfg"] + solver_mech_tokens(names, atol, rxns) + pt + [fnum(x) for x in w] + [str(ncfg)] + cfgs
            out.append(" ".join(t))
    return out


def _hub_cases(rng, purpose):
    """a mechanism of more than 256 species in which one species (an oxidant) reacts with every other one:
    X0 + Xi -> X0 + X(i+1) conserves the number of molecules; the rows of X0 in the Jacobian and in its factors hold
    more than 255 elements (counters or index tables narrower than size_t wrap there).  Separate and in-place LU."""
    out = []
    for kind, lu in (("slvr", 0), ("slvb", 2)):
        ns = rng.choice([258, 261, 270])
        names = list(range(100, 100 + ns))
        atol = [1.0e-10] * ns      # tight: configurations whose step histories differ are compared at the solver's accuracy
        rxns = [(0, [(0, 0), (i, 0)], [(0, 1.0), ((i % (ns - 1)) + 1, 1.0)]) for i in range(1, ns)]
        w = [1.0] * ns
        y0 = [1.0] + [rng.choice([0.5, 1.0, 2.0]) for _ in range(ns - 1)]
        k = [rng.choice([0.05, 0.1, 0.2]) for _ in rxns]
        pt = ["1", "1", fnum(300.0), fnum(101325.0), fnum(1.0), "1", fnum(1e-6), fnum(0.0), "0" if purpose == "c09" else "1"]
        pt += [fnum(v) for v in y0] + [fnum(v) for v in k]
        cfgs = []
        ncfg = 2 if purpose == "c12" else 1
        for j in range(ncfg):
            # second configuration: four cells per group, the same decomposition, no reordering (the hub species is
            # eliminated first: the factors fill in completely, more than 2^16 stored elements times lanes)
            cfgs += ([str(0), "0", str(lu), "1"] if j == 0 else [str(4), "0", str(lu), "0"]) + list(map(str, range(ns)))
        t = [kind, "cfg"] + solver_mech_tokens(names, atol, rxns) + pt + [fnum(x) for x in w] + [str(ncfg)] + cfgs
        out.append(" ".join(t))
    return out


def gen_slv_cells(rng, tier):
    out = []
    for _ in range(vol(tier, 400, 8000)):
        kind = "slvr" if rng.random() < 0.6 else "slvb"
        names, atol, w, rxns = rand_solver_mech(rng, with_atol=(rng.random() < 0.6))
        ns = len(names)
        pt = solver_problem_tokens(rng, ns, rxns, 1, kind)
        cfg = rand_config(rng, ns)
        L = int(cfg[0])
        N = rng.choice(list(range(1, (3 * L + 2) if L else 5)))
        oy = [fnum(rng.random() * 3) for _ in range(ns)]
        ok = [fnum(10 ** rng.uniform(-3, 1.5)) for _ in rxns]
        t = [kind, "cells"] + solver_mech_tokens(names, atol, rxns) + pt + [str(N)] + cfg + oy + ok
        out.append(" ".join(t))
    return out


def gen_slv_reuse(rng, tier):
    out = []
    for _ in range(vol(tier, 300, 6000)):
        kind = "slvr" if rng.random() < 0.6 else "slvb"
        names, atol, w, rxns = rand_solver_mech(rng, with_atol=(rng.random() < 0.5))
        ns = len(names)
        cfg = rand_config(rng, ns)
        ncells = rng.choice([1, 2, 3, 5, 9])
        npb = rng.randrange(2, 7 if tier != "thorough" else 13)
        t = [kind, "reuse"] + solver_mech_tokens(names, atol, rxns) + cfg + [str(npb)]
        for i in range(npb):
            # some problems end in NaN / rejection-heavy runs so that the next one starts from dirty scratch
            t += solver_problem_tokens(rng, ns, rxns, ncells, kind, special=(rng.random() < 0.25))
        out.append(" ".join(t))
    return out


def gen_rosmock_special(rng, tier):
    """scripted-policy Rosenbrock runs whose error norm becomes NaN / Inf: encoded with huge sentinels the
    drivers map to the special values (m = 0, e = 9999 -> NaN ; m = 1, e = 9999 -> +Inf)"""
    out = []
    for _ in range(vol(tier, 150, 3000)):
        n = rng.randrange(0, 5)
        w = "".join(rng.choice("AR") for _ in range(n))
        line = _ros_line(rng, w, tier)
        t = line.split()
        # the script is the tail:  nerrs m e m e ...
        ne = n + 1
        pos = len(t) - 2 * ne
        k = rng.randrange(ne)
        t[pos + 2 * k] = rng.choice(["0", "1"])
        t[pos + 2 * k + 1] = "9999"
        if len(out) % 3 == 0:
            # h_min above the whole time step: every attempt has H < h_min, which forces acceptance of finite errors -
            # and must not let a NaN / Inf error norm through
            ncells, nspec = int(t[3]), int(t[4])
            ts_pos = pos - 1 - 2 * ncells * nspec - 2 * nspec - 2 * nspec * nspec - 2
            hmin_pos = ts_pos - 6
            m_ts, e_ts = int(t[ts_pos]), int(t[ts_pos + 1])
            t[hmin_pos], t[hmin_pos + 1] = "1", str(e_ts + (1 if m_ts == 1 else 25))
        out.append(" ".join(t))
    return out


# markowitz n L bits[n*n]
def gen_markowitz(rng, tier):
    out = []
    nmax = 4 if tier == "thorough" else 3
    for n in range(1, nmax + 1):
        for mask in range(1 << (n * n)):
            bits = [(mask >> i) & 1 for i in range(n * n)]
            out.append("markowitz %d %d %s" % (n, rng.choice([0, 0, 2, 3]), " ".join(map(str, bits))))
    for _ in range(vol(tier, 200, 5000)):
        n = rng.randrange(4, 9)
        dens = rng.choice([0.1, 0.3, 0.6])
        bits = [1 if (rng.random() < dens or i // n == i % n and rng.random() < 0.8) else 0 for i in range(n * n)]
        out.append("markowitz %d %d %s" % (n, rng.choice([0, 2, 4]), " ".join(map(str, bits))))
    return out


# ratec L ncells nproc {kind size nthird}* by_label T[ncells] P[ncells] vals[ncells*nparams]
def gen_ratec(rng, tier):
    out = []
    for L in range(0, 9):
        for ncells in range(1, (3 * L + 2) if L else 5):
            for _ in range(vol(tier, 6 if L < 6 else 2, 60 if L < 6 else 20)):
                nproc = rng.randrange(1, 7)
                specs = []
                for r in range(nproc):
                    kind = rng.choice([0, 0, 0, 1, 2])
                    size = rng.randrange(0, 4) if kind == 0 else (1 if kind == 1 else 0)
                    specs.append((kind, size, rng.choice([0, 0, 1, 2])))
                nparams = sum(s for _, s, _ in specs)
                T = [rng.randrange(2, 9) for _ in range(ncells)]
                P = [rng.randrange(1, 6) for _ in range(ncells)]
                vals = [100 * (c + 1) + 2 * col + rng.randrange(0, 2) * 2 for c in range(ncells) for col in range(nparams)]
                t = [L, ncells, nproc]
                for k, s, nt in specs:
                    t += [k, s, nt]
                t += [rng.randrange(2)] + T + P + vals
                out.append("ratec " + " ".join(map(str, t)))
    return out


# vsem kind L nops {op args}*
def gen_vsem(rng, tier):
    out = []
    # corpus-like seeds first: the shortest sequences that reach a Solve on a copy / moved-to State
    seeds = [[(0, 0), (1, 1, 0), (6, 1)], [(0, 0), (2, 2, 0), (6, 2), (6, 0)], [(0, 0), (3, 1, 0), (6, 1)],
             [(0, 0), (4, 1, 0), (6, 1), (1, 2, 1), (6, 2)], [(0, 0), (1, 1, 0), (1, 2, 1), (6, 2)], [(0, 1), (7,), (6, 1)],
             # a parameter set with more stages than the State was created for; an older State after such a change
             [(0, 0), (8, 0, 1)], [(0, 1), (8, 1, 0), (0, 0), (8, 1, 1), (6, 0)], [(0, 0), (8, 0, 0), (0, 1), (1, 2, 1), (8, 2, 1), (6, 1)],
             # assignment onto a State that already owns scratch of other dimensions; a moved-to solver keeps the source's parameters
             [(9, 1), (0, 0), (2, 1, 0), (6, 1)], [(9, 2), (0, 0), (4, 2, 0), (6, 2)], [(0, 0), (9, 1), (2, 0, 1), (0, 2), (2, 0, 2), (6, 0)],
             [(0, 0), (7,), (6, 0)], [(0, 0), (8, 0, 0), (7,), (6, 0)]]
    for kind in (0, 1):
        for L in (0, 3):
            for sq in seeds:
                out.append("vsem %d %d %d %s" % (kind, L, len(sq), " ".join(" ".join(map(str, o)) for o in sq)))
    for _ in range(vol(tier, 150, 3000)):
        kind = rng.randrange(2)
        L = rng.choice([0, 3])
        n = rng.randrange(3, 13 if tier != "thorough" else 31)
        ops = [(0, rng.randrange(4))]
        for _ in range(n):
            o = rng.choice([0, 0, 1, 1, 2, 2, 2, 3, 4, 5, 6, 6, 6, 7, 8, 8, 9])
            if o == 0:
                ops.append((0, rng.randrange(4)))
            elif o in (1, 2, 3, 4):
                ops.append((o, rng.randrange(4), rng.randrange(4)))
            elif o == 5:
                ops.append((5, rng.randrange(4), rng.randrange(6)))
            elif o == 6:
                ops.append((6, rng.randrange(4)))
            elif o == 8:
                ops.append((8, rng.randrange(4), rng.randrange(2)))
            elif o == 9:
                ops.append((9, rng.randrange(4)))
            else:
                ops.append((7,))
        out.append("vsem %d %d %d %s" % (kind, L, len(ops), " ".join(" ".join(map(str, o)) for o in ops)))
    return out


# err kind L fault pos
def gen_err(rng, tier):
    out = []
    for kind in (0, 1):
        for L in (0, 3):
            for fault in range(1, 29):
                poss = range(0, 9) if tier == "thorough" else sorted(set([0, 8, rng.randrange(1, 8), rng.randrange(1, 8)]))
                for pos in poss:
                    out.append("err %d %d %d %d" % (kind, L, fault, pos))
    return out


# thr kind L nthreads rounds seed
def gen_thr(rng, tier):
    out = []
    if tier == "thorough":
        for kind in (0, 1):
            for L in (0, 3):
                for nt in range(2, 17):
                    for k in range(8):
                        out.append("thr %d %d %d %d %d" % (kind, L, nt, rng.randrange(2, 7), rng.randrange(1, 10**6)))
    else:
        for kind in (0, 1):
            for L in (0, 3):
                for nt in (2, 3, 5, 8, 16):
                    for k in range(2):
                        out.append("thr %d %d %d %d %d" % (kind, L, nt, rng.randrange(2, 5), rng.randrange(1, 10**6)))
    return out


# ---------------------------------------------------------------------------------------
# JIT backend
#   jitforcing  L ncells nspec pad <mech> rc y f        (1 <= ncells <= L)
#   jitjacobian L ncells nspec pad <mech> rc y
#   jitlu       L nb n np (r c)*np vals[nb*np] rhs[nb*n]   A = L0*U0, unit lower L0, power-of-two diagonal U0, b = A*x0
#   jitsolver   L ncells nspec <mech> rc8[ncells*nrxn] y[ncells*nspec] tstep_m tstep_e which
# ---------------------------------------------------------------------------------------
def _jit_lu_line(rng, L, nb, n):
    dens = rng.choice([0.15, 0.3, 0.5, 0.8])
    lmask = [[r > c and rng.random() < dens for c in range(n)] for r in range(n)]
    umask = [[r < c and rng.random() < dens for c in range(n)] for r in range(n)]
    blocks = []
    for b in range(nb):
        L0 = [[(1 if r == c else (rng.choice([-2, -1, 1, 2, 3]) if lmask[r][c] else 0)) for c in range(n)] for r in range(n)]
        U0 = [[(rng.choice([1, -1, 2, -2, 4]) if r == c else (rng.choice([-3, -2, -1, 1, 2, 3]) if umask[r][c] else 0))
               for c in range(n)] for r in range(n)]
        A = [[sum(L0[r][k] * U0[k][c] for k in range(n)) for c in range(n)] for r in range(n)]
        x0 = [rng.randrange(-4, 5) for _ in range(n)]
        bb = [sum(A[r][c] * x0[c] for c in range(n)) for r in range(n)]
        blocks.append((A, bb))
    pairs = sorted(set((r, c) for r in range(n) for c in range(n)
                       if r == c or any(blk[0][r][c] != 0 for blk in blocks) or rng.random() < 0.05))
    t = [L, nb, n, len(pairs)]
    for r, c in pairs:
        t += [r, c]
    for A, _ in blocks:
        t += [A[r][c] for r, c in pairs]
    for _, bb in blocks:
        t += bb
    return "jitlu " + " ".join(map(str, t))


def _plain_mech(rng, nspec):
    """no parameterised species; every reaction has at least one reactant"""
    names = rng.sample(range(10, 40), nspec)
    vmap = list(zip(names, range(nspec)))
    nrxn = rng.randrange(1, 5)
    rxns = []
    for _ in range(nrxn):
        nr = rng.choice([1, 1, 2, 2, 3])
        reactants = []
        for _ in range(nr):
            if reactants and rng.random() < 0.3:
                reactants.append(rng.choice(reactants))
            else:
                reactants.append((rng.choice(names), 0))
        products = [(rng.choice(names), 0, rng.choice([8, 8, 4, 2, 12, 16])) for _ in range(rng.choice([0, 1, 1, 2, 3]))]
        rxns.append((reactants, products))
    return vmap, rxns


def gen_jit(rng, tier):
    out = []
    for k in range(vol(tier, 120, 3000)):
        L = rng.randrange(1, 5)
        ncells = L if rng.random() < 0.7 else rng.randrange(1, L + 1)
        nspec, vmap, rxns = rand_mech(rng, malformed=(k % 25 == 7))
        nrxn = len(rxns)
        rc = [rng.randrange(0, 6) for _ in range(ncells * nrxn)]
        y = [rng.randrange(-2, 8) for _ in range(ncells * nspec)]
        f = [rng.randrange(-5, 6) for _ in range(ncells * nspec)]
        t = [L, ncells, nspec, rng.choice([9, 0, -3])] + mech_tokens(vmap, rxns) + rc + y + f
        out.append("jitforcing " + " ".join(map(str, t)))
    for k in range(vol(tier, 120, 3000)):
        L = rng.randrange(1, 5)
        ncells = L if rng.random() < 0.7 else rng.randrange(1, L + 1)
        nspec, vmap, rxns = rand_mech(rng, malformed=(k % 25 == 7))
        nrxn = len(rxns)
        rc = [rng.randrange(0, 6) for _ in range(ncells * nrxn)]
        y = [rng.randrange(-2, 8) for _ in range(ncells * nspec)]
        t = [L, ncells, nspec, rng.choice([9, 0, -3])] + mech_tokens(vmap, rxns) + rc + y
        out.append("jitjacobian " + " ".join(map(str, t)))
    for k in range(vol(tier, 120, 3000)):
        L = rng.randrange(1, 5)
        r = rng.random()
        nb = L if r < 0.7 else (rng.randrange(1, L + 1) if r < 0.85 else rng.randrange(L + 1, 2 * L + 2))
        out.append(_jit_lu_line(rng, L, nb, rng.choice([1, 2, 3, 3, 4, 4, 5, 6])))
    for k in range(vol(tier, 60, 1500)):
        L = rng.randrange(1, 5)
        r = rng.random()
        ncells = L if r < 0.75 else (rng.randrange(1, L + 1) if r < 0.87 else rng.randrange(L + 1, 2 * L + 2))
        nspec = rng.randrange(2, 5)
        vmap, rxns = _plain_mech(rng, nspec)
        nrxn = len(rxns)
        rc = [rng.randrange(1, 40) for _ in range(ncells * nrxn)]
        y = [rng.randrange(0, 6) for _ in range(ncells * nspec)]
        t = [L, ncells, nspec] + mech_tokens(vmap, rxns) + rc + y + [rng.choice([1, 3, 5]), rng.choice([-4, -2, 0, 2]), rng.randrange(5)]
        out.append("jitsolver " + " ".join(map(str, t)))
    return out


# ratef type T P rho p1..p8 : one built-in rate constant against its documented formula
def gen_ratef(rng, tier):
    out = []
    def f(x):
        return repr(float(x))
    for _ in range(vol(tier, 700, 20000)):
        typ = rng.randrange(7)
        T = rng.uniform(150.0, 350.0)
        P = rng.uniform(1.0, 1.1e5)
        rho = 10 ** rng.uniform(-2, 2)
        sgn = lambda: rng.choice([-1.0, 1.0])
        if typ == 0:
            p = [10 ** rng.uniform(-12, 2), rng.choice([0.0, 0.0, 1.0, 2.0, -1.0, -2.5, 0.5, -0.5, 3.2]),
                 rng.choice([0.0, 0.0, 1.0]) * sgn() * rng.uniform(50, 2500), rng.choice([300.0, 300.0, 298.0, 1.0, 273.15]),
                 rng.choice([0.0, 0.0, 1.0]) * 10 ** rng.uniform(-8, -4), 0, 0, 0]
        elif typ in (1, 2):
            p = [10 ** rng.uniform(-6, 1), rng.choice([0.0, -1.0, -2.6, 1.5, 4.0]), rng.choice([0.0, 1.0]) * sgn() * rng.uniform(10, 900),
                 10 ** rng.uniform(-3, 3), rng.choice([0.0, -0.5, 1.0, -3.1]), rng.choice([0.0, 1.0]) * sgn() * rng.uniform(10, 900),
                 rng.choice([0.6, 0.6, 0.35, 0.9, 0.41]), rng.choice([1.0, 1.0, 0.75, 1.3, 2.0])]
        elif typ == 3:
            p = [10 ** rng.uniform(-12, 2), sgn() * rng.uniform(0, 2500), sgn() * 10 ** rng.uniform(3, 8), 0, 0, 0, 0, 0]
        elif typ == 4:
            p = [10 ** rng.uniform(-12, 2), sgn() * rng.uniform(0, 2500), rng.uniform(0.01, 0.99), rng.randrange(1, 12), rng.randrange(2), 0, 0, 0]
        elif typ == 5:
            p = [sgn() * 10 ** rng.uniform(-3, 3), sgn() * 10 ** rng.uniform(-6, 6), 0, 0, 0, 0, 0, 0]
        else:
            p = [rng.uniform(0.001, 1.0), 10 ** rng.uniform(-6, -3), rng.uniform(0.01, 0.3), 10 ** rng.uniform(-8, -5), 10 ** rng.uniform(4, 10), 0, 0, 0]
        out.append("ratef %d %s %s %s %s" % (typ, f(T), f(P), f(rho), " ".join(f(x) for x in p)))
    return out


# slvr|slvb acc L csc lu ncells table rtol dt h_start k1[n] k2[n] a0[n] : accuracy on the chain A -> B -> C
def gen_slv_acc(rng, tier):
    out = []
    for _ in range(vol(tier, 300, 6000)):
        kind = "slvr" if rng.random() < 0.6 else "slvb"
        L = rng.choice([0, 2, 3, 4])
        ncells = rng.choice(list(range(1, (3 * L + 2) if L else 5)) + [9])
        table = rng.randrange(5)
        rtol = rng.choice([1e-4, 1e-6, 1e-8])
        dt = rng.choice([0.5, 1.0, 3.0, 10.0])
        if kind == "slvb":
            h_start = rng.choice([0.0, 0.0, 0.3, 0.25, 1.0, 0.07]) * (dt if rng.random() < 0.5 else 1.0)
        else:
            h_start = rng.choice([0.0, 0.0, 0.0, 1e-3])
        k1 = [10 ** rng.uniform(-1.3, 0.7) for _ in range(ncells)]
        k2 = [k * rng.choice([0.2, 0.4, 2.5, 6.0]) for k in k1]
        a0 = [rng.uniform(0.5, 2.0) for _ in range(ncells)]
        t = [kind, "acc", str(L), str(rng.randrange(2)), str(rng.randrange(4)), str(ncells), str(table), fnum(rtol), fnum(dt),
             fnum(h_start)] + [fnum(x) for x in k1] + [fnum(x) for x in k2] + [fnum(x) for x in a0]
        out.append(" ".join(t))
    # the same chain starting empty and fed by an emission (a0 < 0): one case in eight, derived from the cases above
    extra = []
    for i, l in enumerate(out):
        if i % 8 == 3:
            t = l.split()
            ncells = int(t[5])
            for j in range(len(t) - ncells, len(t)):
                t[j] = fnum(-float(t[j]))
            extra.append(" ".join(t))
    # variants (tens digit of the table token): per-species tolerances, sub-microsecond time scales, an inert species with
    # absolute tolerance zero - each derived from every seventh case above
    variants = []
    for i, l in enumerate(out):
        if i % 7 in (1, 2, 5):
            t = l.split()
            t[6] = str(int(t[6]) + 10 * {1: 1, 2: 2, 5: 3}[i % 7])
            variants.append(" ".join(t))
    return out + extra + variants


# spmap L reorder <mech>: vmap = (name, position in the species listing), in listing order
def gen_spmap(rng, tier):
    out = []
    for k in range(vol(tier, 400, 8000)):
        nspec, vmap, rxns = rand_mech(rng, malformed=(k % 25 == 7), max_rxn=6)
        names = [nm for nm, _ in vmap]
        rng.shuffle(names)
        listing = [(nm, i) for i, nm in enumerate(names)]
        t = [rng.choice([0, 0, 2, 3]), rng.choice([0, 1, 1])] + mech_tokens(listing, rxns)
        out.append("spmap " + " ".join(map(str, t)))
    return out


# slvr|slvb hstart L csc lu dt : the first attempt of a built solver uses the configured h_start
def gen_slv_hstart(rng, tier):
    out = []
    for kind in ("slvr", "slvb"):
        for dt in (0.25, 2.0, 10.0, 600.0):
            for L in (0, 2):
                out.append("%s hstart %d %d %d %s" % (kind, L, rng.randrange(2), rng.randrange(4), fnum(dt)))
    return out
