#!/usr/bin/env python3
"""check.py — orchestrator.  ./check <id> quick|thorough   |   ./check <id> --replay <path>
For one property: re-check its Coq theorems, rebuild the harness drivers it needs from
/repo's working tree, run generated cases through the extracted model and the
implementation, compare, evaluate the implementation-level oracle, write evidence,
report violations (DESIGN.md section 5)."""
import os
import random
import sys
import time

sys.path.insert(0, os.path.dirname(os.path.abspath(__file__)))
import vcore as V
import props


def split_by_driver(prop, lines):
    """group case indices by the driver that serves their family"""
    groups = {}
    for i, l in enumerate(lines):
        fam = l.split(" ", 1)[0]
        drv = prop.family_driver.get(fam)
        if drv is None:
            continue
        groups.setdefault(drv, []).append(i)
    return groups


def run_impl(prop, exes, lines):
    out = [None] * len(lines)
    for drv, idxs in split_by_driver(prop, lines).items():
        exe = exes[drv]
        env = dict(os.environ)
        env.update(prop.driver_env.get(drv, {}))
        env.setdefault("ASAN_OPTIONS", "detect_leaks=0:abort_on_error=0:exitcode=66")
        env.setdefault("UBSAN_OPTIONS", "print_stacktrace=0:halt_on_error=1")
        env.setdefault("TSAN_OPTIONS", "exitcode=66:halt_on_error=1")
        res = V.run_cases(exe, [lines[i] for i in idxs], timeout=prop.case_timeout, env=env)
        for i, r in zip(idxs, res):
            out[i] = r
    return out


def run_model(prop, lines):
    idxs = [i for i, l in enumerate(lines) if l.split(" ", 1)[0] in prop.model_families]
    out = [None] * len(lines)
    res = V.run_cases(os.path.join(V.EXTRACT, "modeldrv"), [lines[i] for i in idxs], timeout=prop.case_timeout)
    for i, r in zip(idxs, res):
        out[i] = r
    return out


def strip_oracle(line):
    """the part of a result line that is compared with the model: oracle verdict tokens removed"""
    toks = [t for t in line.split(" ") if not (t.startswith("ORACLE_") or t.startswith("NOTE_"))]
    return " ".join(toks)


def load_corpus(pid):
    d = os.path.join(V.CORPUS, pid)
    lines = []
    if os.path.isdir(d):
        for f in sorted(os.listdir(d)):
            for l in open(os.path.join(d, f)):
                l = l.strip()
                if l and not l.startswith("#"):
                    lines.append(l)
    return lines


def known_match(known, tokens):
    """tokens all covered by known-finding keys?  returns (covered, uncovered)"""
    cov, unc = [], []
    for t in tokens:
        hit = None
        for key, text in known:
            if t == key or t.startswith(key + ":"):
                hit = (key, text)
                break
        (cov if hit else unc).append((t, hit))
    return cov, unc


def main():
    if len(sys.argv) < 3:
        print("usage: check <id> quick|thorough | check <id> --replay <path>")
        return 2
    pid = sys.argv[1]
    prop = props.PROPS.get(pid)
    if prop is None:
        print("unknown property", pid)
        return 2
    t0 = time.time()
    replay = None
    if sys.argv[2] == "--replay":
        replay = sys.argv[3]
        tier = "quick"
    else:
        tier = sys.argv[2]
    tier = os.environ.get("VERIF_TIER", tier) if sys.argv[2] != "--replay" else tier
    if tier not in ("quick", "thorough"):
        tier = "quick"
    seed = int(os.environ.get("VERIF_SEED", "1"))
    rng = random.Random(seed * 1000003 + sum(ord(c) for c in pid))

    # ---- 1. proof obligations ----
    gate = V.coq_gate()
    gen_errs = []
    for g in prop.translators:
        try:
            g()
        except Exception as e:  # translator failure = broken tie
            gen_errs.append("translator %s: %s" % (getattr(g, "__name__", "?"), e))
    proof = V.coq_check_property(pid, extra_files=prop.extra_vo)
    proof_broken = []
    if gate:
        proof_broken.append("gate: " + "; ".join(gate[:5]))
    if gen_errs:
        proof_broken += gen_errs
    if not proof["ok"]:
        proof_broken.append("coqc rejected Properties_%s.v at %s" % (pid, ",".join(proof["failed"])))

    # ---- 2. executables ----
    ok, out = V.ensure_model_driver()
    if not ok:
        proof_broken.append("model driver build failed: " + out[-800:])
    specs = sorted(set(prop.family_driver.values()))
    exes, errs = V.build_drivers([prop.driver_spec(s) for s in specs])
    if errs:
        # the harness does not compile against the current tree: the tie is broken
        body = "property %s: harness driver does not build against %s\n\n%s\n" % (pid, V.REPO, "\n".join(errs))
        path = V.write_replay(pid, seed, body)
        cov = dict(obligations=max(1, len(proof["theorems"])), discharged=len(proof["accepted"]),
                   checker_cmd=proof["cmd"] or "coqc", trusted_base=proof["assumptions"],
                   evaluations=0, explanation="harness build failure")
        V.write_evidence(pid, tier, seed, cov, prop.assumptions, time.time() - t0, 1)
        print("VIOLATION property=%s replay=%s no-failing-input-found" % (pid, path))
        return 1

    # ---- 3. cases ----
    if replay:
        lines = [l[5:].rstrip("\n") for l in open(replay) if l.startswith("CASE ")]
    else:
        lines = load_corpus(pid) + prop.generate(rng, tier)
    n_corpus = len(load_corpus(pid)) if not replay else 0
    impl = run_impl(prop, exes, lines)
    model = run_model(prop, lines) if ok else [None] * len(lines)

    if replay:
        for l, m, i in zip(lines, model, impl):
            print("CASE  ", l)
            print("MODEL ", m)
            print("IMPL  ", i)
        if getattr(prop, "diagnose", None):
            for l in prop.diagnose():
                print("DIAGNOSIS ", l)
        return 0

    # ---- 4. compare + oracle ----
    disagreements = []
    oracle_fail = []
    discarded = 0
    for k, (l, m, i) in enumerate(zip(lines, model, impl)):
        if i is None:
            continue
        toks = [t for t in V.oracle_tokens(i) if prop.relevant(t)]
        if toks:
            oracle_fail.append((k, toks))
        if m is not None and "NOTE_OUT_OF_REGIME" in m:
            discarded += 1
            continue
        if m is not None and strip_oracle(i) != strip_oracle(m):
            disagreements.append(k)
    if getattr(prop, "aggregate", None):
        oracle_fail.extend(prop.aggregate(lines, impl))
    known = V.known_findings(pid)
    new_fail = []
    known_hits = {}
    for k, toks in oracle_fail:
        cov, unc = known_match(known, toks)
        for t, hit in cov:
            known_hits.setdefault(hit[0], [hit[1], 0, lines[k]])
            known_hits[hit[0]][1] += 1
        if unc:
            new_fail.append((k, [t for t, _ in unc]))
    # disagreements explained entirely by a known finding token on the implementation side are
    # still disagreements of the tie unless the model predicts the same line (it should).

    # ---- 5. enlarged search when a proof obligation or the tie broke without a failing input ----
    searched = 0
    if (proof_broken or disagreements) and not new_fail:
        rounds = 3 if tier == "quick" else 12
        for r in range(rounds):
            rng2 = random.Random(seed * 7919 + r * 104729 + 17)
            extra = prop.generate(rng2, "search")
            eimpl = run_impl(prop, exes, extra)
            searched += len(extra)
            for k, (l, i) in enumerate(zip(extra, eimpl)):
                if i is None:
                    continue
                toks = [t for t in V.oracle_tokens(i) if prop.relevant(t)]
                cov, unc = known_match(known, toks)
                if unc:
                    lines.append(l)
                    impl.append(i)
                    model.append(None)
                    new_fail.append((len(lines) - 1, [t for t, _ in unc]))
                    break
            if new_fail:
                break

    # ---- 6. evidence ----
    fams = {}
    for l in lines:
        fams[l.split(" ", 1)[0]] = fams.get(l.split(" ", 1)[0], 0) + 1
    distinct = len(set(l for l in lines if prop.nontrivial(l)))
    samples = []
    seen_f = set()
    for l, i in zip(lines, impl):
        f = l.split(" ", 1)[0]
        if f not in seen_f and i is not None:
            seen_f.add(f)
            samples.append(dict(case=l[:600], impl=(i or "")[:400]))
    n_obl = max(1, len(proof["theorems"]))
    n_dis = len(proof["accepted"]) if not gate else 0
    coverage = dict(
        obligations=n_obl, discharged=n_dis,
        checker_cmd=proof["cmd"] or ("cd coq && coqc -Q . Model Properties_%s.v" % pid),
        trusted_base=["Coq 8.16.1 kernel + vm_compute"] +
                     (["axioms: " + ", ".join(proof["assumptions"])] if proof["assumptions"]
                      else ["Print Assumptions: all %d property theorems closed under the global context" % proof.get("closed", 0)]) +
                     prop.trusted,
        theorems=proof["theorems"],
        evaluations=len(lines), distinct_nontrivial=distinct,
        rule=prop.rule,
        samples=samples[:6],
        traces_validated_against_impl=sum(1 for m, i in zip(model, impl) if m is not None and i is not None) - discarded,
        disagreements=len(disagreements),
        oracle_failures_known=sum(v[1] for v in known_hits.values()),
        oracle_failures_new=len(new_fail),
        corpus_cases=n_corpus, families=fams, discarded_out_of_exact_regime=discarded, enlarged_search_cases=searched,
        histogram=prop.histogram(lines),
        exhaustive=False)
    violations = 1 if (new_fail or disagreements or proof_broken) else 0
    V.write_evidence(pid, tier, seed, coverage, prop.assumptions, time.time() - t0, violations)

    for key, (text, count, example) in sorted(known_hits.items()):
        print("KNOWN-FINDING: property=%s %s [%s; %d case(s) this run]" % (pid, text, key, count))

    # ---- 7. verdict ----
    if new_fail:
        k, toks = new_fail[0]
        body = "property %s violated on the implementation: %s\n" % (pid, " ".join(toks))
        body += "CASE %s\nMODEL %s\nIMPL %s\n" % (lines[k], model[k], impl[k])
        if proof_broken:
            body += "\nalso broken: %s\n" % "; ".join(proof_broken)
        body += "\nreplay: ./check %s --replay <this file>\n" % pid
        path = V.write_replay(pid, seed, body)
        print("VIOLATION property=%s replay=%s" % (pid, path))
        return 1
    if proof_broken and not proof["ok"] and getattr(prop, "diagnose", None):
        diag = prop.diagnose()
        if diag:
            body = "property %s violated by the configuration the theorems are about (regenerated from %s on this run):\n" % (pid, V.REPO)
            for c in sorted(set(d.split(":", 1)[0] for d in diag)):
                body += "CASE %s\n" % c
            for d in diag:
                body += "FAILS %s\n" % d
            for pb in proof_broken:
                body += "BROKEN-OBLIGATION %s\n" % pb
            body += "\nreplay: ./check %s --replay <this file>\n" % pid
            path = V.write_replay(pid, seed, body)
            print("VIOLATION property=%s replay=%s" % (pid, path))
            return 1
    if proof_broken or disagreements:
        body = "property %s: no longer shown to hold; no failing input found\n" % pid
        for pb in proof_broken:
            body += "BROKEN-OBLIGATION %s\n" % pb
        if not proof["ok"]:
            body += "coqc output:\n%s\n" % proof["output"][-3000:]
        for k in disagreements[:5]:
            body += "TIE-DISAGREEMENT (model function vs implementation, family %s)\nCASE %s\nMODEL %s\nIMPL %s\n" % (
                lines[k].split(" ", 1)[0], lines[k], model[k], impl[k])
        body += "\ncases searched for an oracle failure: %d\n" % (len(lines) + searched)
        path = V.write_replay(pid, seed, body)
        print("VIOLATION property=%s replay=%s no-failing-input-found" % (pid, path))
        return 1
    print("OK property=%s tier=%s cases=%d theorems=%d wall=%.1fs" % (pid, tier, len(lines), n_obl, time.time() - t0))
    return 0


if __name__ == "__main__":
    sys.exit(main())
