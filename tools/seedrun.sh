#!/bin/sh
# seedrun.sh <patch.diff> <property-id> [tier] — apply a seeded change to /repo, run the property's check, undo the change.
# The evidence file of the property is put back afterwards: evidence describes runs on /repo itself, not on a changed tree.
P=$1; ID=$2; TIER=${3:-quick}
git -C /repo diff --quiet -- include || { echo "/repo has local changes; refusing"; exit 2; }
EV=/verif/evidence/$ID.json
SAVE=/verif/.cache/evidence-$ID.saved
mkdir -p /verif/.cache
[ -f "$EV" ] && cp "$EV" "$SAVE"
git -C /repo apply "$P" || { echo APPLY-FAILED; exit 2; }
cd /verif && ./check "$ID" "$TIER"; RC=$?
git -C /repo checkout -- . && git -C /repo clean -fdq -- include
python3 /verif/tools/regen.py >/dev/null 2>&1
[ -f "$SAVE" ] && mv "$SAVE" "$EV"
echo "exit=$RC"
