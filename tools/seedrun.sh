#!/bin/sh
# seedrun.sh <patch.diff> <property-id> [tier] — apply a seeded change to /repo, run the property's check, undo the change.
P=$1; ID=$2; TIER=${3:-quick}
git -C /repo diff --quiet -- include || { echo "/repo has local changes; refusing"; exit 2; }
git -C /repo apply "$P" || { echo APPLY-FAILED; exit 2; }
cd /verif && ./check "$ID" "$TIER"; RC=$?
git -C /repo checkout -- .
python3 /verif/tools/regen.py >/dev/null 2>&1
echo "exit=$RC"
