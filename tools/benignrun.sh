#!/bin/sh
# benignrun.sh <patch> [ids...] — apply a behaviour-preserving patch to /repo, run the quick checks (all 20 by default),
# print every line that is not OK, undo the patch.  Never run concurrently with other checks.
P="$1"; shift
IDS="$*"
[ -n "$IDS" ] || IDS="C01 C02 C03 C04 C05 C06 C07 C08 C09 C10 C11 C12 C13 C14 C15 C16 C17 C18 C19 C20"
if [ -n "$(git -C /repo status --porcelain --untracked-files=no)" ]; then echo "/repo is dirty"; exit 2; fi
git -C /repo apply "$P" || { echo "APPLY-FAILED $P"; exit 2; }
mkdir -p /verif/.cache
for id in $IDS; do
  [ -f /verif/evidence/$id.json ] && cp /verif/evidence/$id.json /verif/.cache/evidence-$id.saved
  out=$(/verif/check $id quick 2>&1 | grep -E "^(OK|VIOLATION|KNOWN-FINDING)" | tr '\n' ' ')
  echo "$id: $out"
  [ -f /verif/.cache/evidence-$id.saved ] && mv /verif/.cache/evidence-$id.saved /verif/evidence/$id.json
done
git -C /repo checkout -- . && git -C /repo clean -fdq -- include
python3 /verif/tools/regen.py >/dev/null 2>&1
