#!/usr/bin/env python3
"""validate.py — validates MANIFEST.json and evidence/*.json against the schemas (tooling venv)."""
import glob, json, sys
import jsonschema
ok = True
try:
    jsonschema.validate(json.load(open('/verif/MANIFEST.json')), json.load(open('/root/.vp/MANIFEST.schema.json')))
except Exception as e:
    ok = False; print("MANIFEST:", e)
for f in sorted(glob.glob('/verif/evidence/*.json')):
    try:
        jsonschema.validate(json.load(open(f)), json.load(open('/root/.vp/EVIDENCE.schema.json')))
    except Exception as e:
        ok = False; print(f, str(e)[:300])
print("valid" if ok else "INVALID")
sys.exit(0 if ok else 1)
