#!/bin/sh
# coqchk.sh — independent re-check of every compiled property module (and all they depend on) with coqchk;
# prints the axioms they rely on.  Minutes, several GB; not part of the registered commands.
cd /verif/coq && make -j16 >/dev/null 2>&1
timeout 7200 coqchk -o -silent -Q . Model $(ls Properties_C*.v | sed 's/\.v$//; s/^/Model./') > /verif/coqchk.log 2>&1
echo "exit=$?" >> /verif/coqchk.log
cat /verif/coqchk.log
