(* driver.ml — runs the extracted Coq model on case lines (one case per line on stdin) and
   prints one canonical result line per case.  Hand-written glue: parsing, conversion
   between OCaml ints and the extracted nat / Z / Q, printing.  No model logic here. *)
open Model

(* ---------- conversions ---------- *)
let rec nat_of_int n = if n <= 0 then O else S (nat_of_int (n - 1))
let int_of_nat n = let rec go acc = function O -> acc | S m -> go (acc + 1) m in go 0 n
let rec pos_of_int n =
  if n <= 1 then XH else if n land 1 = 0 then XO (pos_of_int (n lsr 1)) else XI (pos_of_int (n lsr 1))
let z_of_int n = if n = 0 then Z0 else if n > 0 then Zpos (pos_of_int n) else Zneg (pos_of_int (-n))
exception Big
let int_of_pos p =
  let rec go p depth = if depth > 61 then raise Big else
    match p with XH -> 1 | XO q -> 2 * go q (depth + 1) | XI q -> 2 * go q (depth + 1) + 1 in
  go p 0
let int_of_z = function Z0 -> 0 | Zpos p -> int_of_pos p | Zneg p -> - (int_of_pos p)
let q_of_frac n d = qred { qnum = z_of_int n; qden = pos_of_int d }
let q_of_int n = { qnum = z_of_int n; qden = XH }
(* canonical printing shared with harness/common/caseio.hpp: a decimal integer when |v| < 2^62,
   otherwise  m@e  (m odd, v = m * 2^e); non-dyadic or too large for a 62-bit mantissa: n/d or BIG *)
let rec log2_exact d = if d = 1 then 0 else 1 + log2_exact (d / 2)
let bits_of n = let rec go a k = if a = 0 then k else go (a lsr 1) (k + 1) in go (abs n) 0
let inexact_seen = ref false     (* a printed value that no binary64 number represents exactly *)
let str_of_q (x : q) =
  let x = qred x in
  let rec strip_pos p k = match p with XO q -> strip_pos q (k + 1) | _ -> (p, k) in
  let (sign, np, k) = match x.qnum with
    | Z0 -> (0, XH, 0)
    | Zpos p -> let (p', k) = strip_pos p 0 in (1, p', k)
    | Zneg p -> let (p', k) = strip_pos p 0 in (-1, p', k) in
  if sign = 0 then "0" else
  let (dp, dk) = strip_pos x.qden 0 in
  if dp <> XH then begin
    inexact_seen := true;
    (try Printf.sprintf "%d*2^%d/%d" (sign * int_of_pos np) k (int_of_pos x.qden) with Big -> "BIG")
  end else
  try
    let m = sign * int_of_pos np in
    if bits_of m > 53 then inexact_seen := true;
    let e = k - dk in
    if e >= 0 && e <= 62 && bits_of m + e <= 62 then string_of_int (m * (1 lsl e))
    else Printf.sprintf "%d@%d" m e
  with Big -> (inexact_seen := true; "BIG")
let str_of_z z = try string_of_int (int_of_z z) with Big -> "BIG"
let mg (x : 'a) : Obj.t = Obj.repr x
let qof (x : Obj.t) : q = Obj.obj x
let zof (x : Obj.t) : z = Obj.obj x

(* ---------- token stream ---------- *)
let toks : String.t list ref = ref []
let next () = match !toks with [] -> failwith "eol" | h :: t -> toks := t; h
let int () = int_of_string (next ())
let nat () = nat_of_int (int ())
let rec times n f = if n <= 0 then [] else let x = f () in x :: times (n - 1) f
let ints n = times n int

let buf = Buffer.create 4096
let out s = Buffer.add_string buf s; Buffer.add_char buf ' '
let outi i = out (string_of_int i)
let outn n = outi (int_of_nat n)
let sep s = out ("|" ^ s)
let out_zs l = List.iter (fun x -> out (str_of_z (zof x))) l
let out_qs l = List.iter (fun x -> out (str_of_q (qof x))) l

let layout_of l = if l = 0 then RowMajor else Grouped (nat_of_int l)
let zl = List.map (fun i -> mg (z_of_int i))
let range n = List.init n (fun i -> i)

(* ---------- family: dense ---------- *)
let fam_dense () =
  let l = int () in let nrow = int () in let ncol = int () in
  let r0 = int () in let v = int () in let alpha = int () in
  let ly = layout_of l in
  let nr = nat_of_int nrow and nc = nat_of_int ncol in
  let size = int_of_nat (lay_size ly nr nc) in
  sep "S"; outi size;
  let z0 = mg Z0 in
  let zero = List.init size (fun _ -> z0) in
  (* A: m[r][c] = 1000 r + c + 1 *)
  let a = List.fold_left (fun d r -> List.fold_left (fun d c ->
            upd (lay_addr ly nc (nat_of_int r) (nat_of_int c)) (mg (z_of_int (1000 * r + c + 1))) d) d (range ncol))
            zero (range nrow) in
  sep "A"; out_zs a;
  let y = zl (List.init size (fun k -> k + 1)) in
  let x = zl (List.init size (fun k -> 2 * k + 3)) in
  let b = zl (List.init size (fun k -> k * k)) in
  let add p q = mg (Z.add (zof p) (zof q)) and mul p q = mg (Z.mul (zof p) (zof q)) in
  let real = lay_real ly nr nc in
  sep "X"; out_zs (axpy z0 add mul real (mg (z_of_int alpha)) x y);
  sep "F2"; out_zs (foreach2 z0 (fun p q -> add (mul p (mg (z_of_int 5))) q) real x y);
  sep "F3"; out_zs (foreach3 z0 (fun p q r -> add (add (mul p (mg (z_of_int 7))) (mul q (mg (z_of_int 3)))) r) real x b y);
  let zmax p q = if Z.compare (zof p) (zof q) = Lt then q else p in
  let zmin p q = if Z.compare (zof q) (zof p) = Lt then q else p in
  sep "MX"; out_zs (List.map (fun e -> zmax e (mg (z_of_int v))) y);
  sep "MN"; out_zs (List.map (fun e -> zmin e (mg (z_of_int v))) y);
  if r0 < nrow then begin
    let vals n = zl (List.init n (fun c -> 5000 + c)) in
    (match row_assign ly nc (nat_of_int r0) (vals ncol) y with
     | Some d -> sep "RA"; out_zs d | None -> sep "RA"; out "E1");
    (match row_assign ly nc (nat_of_int r0) (vals (ncol + 2)) y with
     | Some d -> sep "RL"; out_zs d | None -> sep "RL"; out "E1");
    (if ncol > 0 then match row_assign ly nc (nat_of_int r0) (vals (ncol - 1)) y with
     | Some d -> sep "RS"; out_zs d | None -> sep "RS"; out "E1");
    sep "RE"; out_zs (row_extract z0 ly nc (nat_of_int r0) y)
  end;
  (* from_rows *)
  let rows = List.init nrow (fun r -> zl (List.init ncol (fun c -> 100 * r + c + 7))) in
  (match from_rows z0 ly rows with
   | Some ((nr', nc'), d) -> sep "FR"; outn nr'; outn nc'; out_zs d
   | None -> sep "FR"; out "E2");
  if nrow >= 2 then begin
    let ragged = List.mapi (fun r row -> if r = r0 mod nrow && r > 0 then mg Z0 :: row else row) rows in
    (match from_rows z0 ly ragged with
     | Some ((nr', nc'), d) -> sep "FG"; outn nr'; outn nc'; out_zs d
     | None -> sep "FG"; out "E2")
  end;
  (match copy_from x y with Some d -> sep "CP"; out_zs d | None -> sep "CP"; out "ERT");
  (match copy_from (z0 :: x) y with Some d -> sep "CQ"; out_zs d | None -> sep "CQ"; out "ERT")

(* ---------- family: sparse ---------- *)
let out_res f = function Ok a -> f a | Err c -> out ("E" ^ string_of_int (int_of_nat c))
let read_pairs () = let np = int () in times np (fun () -> let r = nat () in let c = nat () in (r, c))
let ordering_of csc l = { o_csc = (csc <> 0); o_L = (if l = 0 then None else Some (nat_of_int l)) }

let fam_sparse () =
  let csc = int () in let l = int () in let n = int () in let nb = int () in
  let pat = read_pairs () in
  let o = ordering_of csc l in
  let s = sp_build o.o_csc (nat_of_int n) pat in
  let nbn = nat_of_int nb in
  (* constructor: diagonal_ids_ = DiagonalIndices(nblocks, 0) may throw *)
  match sp_diag o s nbn O with
  | Err c -> out ("CTOR_E" ^ string_of_int (int_of_nat c))
  | Ok diag0 ->
    let size = int_of_nat (sp_size o s nbn) in
    sep "S"; outi size; outn (sp_nnz s);
    sep "I";
    List.iter (fun b -> List.iter (fun r -> List.iter (fun c ->
      out_res outn (sp_index o s nbn (nat_of_int b) (nat_of_int r) (nat_of_int c)))
      (range (n + 1))) (range (n + 1))) (range (nb + 1));
    sep "Z";
    List.iter (fun r -> List.iter (fun c ->
      out_res (fun b -> out (if b then "1" else "0")) (sp_is_zero o.o_csc s (nat_of_int r) (nat_of_int c)))
      (range (n + 1))) (range (n + 1));
    sep "D";
    List.iter (fun b -> out_res (fun l -> List.iter outn l; out ";") (sp_diag o s nbn (nat_of_int b))) (range (nb + 1));
    sep "I1"; out_res outn (sp_index1 o s nbn O O);
    sep "AD";
    let data = zl (List.init size (fun k -> k + 1)) in
    out_zs (sp_add_diag (mg Z0) (fun p q -> mg (Z.add (zof p) (zof q))) o s nbn diag0 (mg (z_of_int 1000)) data)

(* ---------- mechanisms (forcing / jacobian) ---------- *)
let read_mech () =
  let nmap = int () in
  let vm = times nmap (fun () -> let k = nat () in let v = nat () in (k, v)) in
  let nrxn = int () in
  let rxns = times nrxn (fun () ->
    let nr = int () in
    let rs = times nr (fun () -> let nm = nat () in let p = int () in { s_name = nm; s_param = (p <> 0) }) in
    let np = int () in
    let ps = times np (fun () -> let nm = nat () in let p = int () in let y = int () in
                                 ({ s_name = nm; s_param = (p <> 0) }, mg (q_of_frac y 8))) in
    { r_reactants = rs; r_products = ps }) in
  (vm, nrxn, rxns)

(* logical (row, col) integer values -> storage, unset slots = pad *)
let to_storage ly nrow ncol pad (vals : int list) =
  let size = int_of_nat (lay_size ly (nat_of_int nrow) (nat_of_int ncol)) in
  let arr = Array.make size (mg (q_of_int pad)) in
  List.iteri (fun i v ->
    let r = i / ncol and c = i mod ncol in
    arr.(int_of_nat (lay_addr ly (nat_of_int ncol) (nat_of_int r) (nat_of_int c))) <- mg (q_of_int v)) vals;
  Array.to_list arr

let fam_forcing () =
  let l = int () in let ncells = int () in let nspec = int () in let pad = int () in
  let (vm, nrxn, rxns) = read_mech () in
  let rc = ints (ncells * nrxn) in let y = ints (ncells * nspec) in let f = ints (ncells * nspec) in
  let ly = layout_of l in
  match ps_build numQ vm rxns with
  | Err c -> out ("E" ^ string_of_int (int_of_nat c))
  | Ok p ->
    let rcs = to_storage ly ncells nrxn pad rc and ys = to_storage ly ncells nspec pad y
    and fs = to_storage ly ncells nspec pad f in
    out_qs (add_forcing numQ ly p (nat_of_int ncells) (nat_of_int nspec) (nat_of_int nrxn) rcs ys fs)

let fam_jacobian () =
  let l = int () in let csc = int () in let ncells = int () in let nspec = int () in let pad = int () in
  let (vm, nrxn, rxns) = read_mech () in
  let rc = ints (ncells * nrxn) in let y = ints (ncells * nspec) in
  let extra = read_pairs () in
  let ly = layout_of l in
  let o = ordering_of csc l in
  match ps_build numQ vm rxns with
  | Err c -> out ("E" ^ string_of_int (int_of_nat c))
  | Ok p ->
    let nz = nonzero_jac numQ p in
    sep "NZ"; List.iter (fun (r, c) -> outn r; outn c) nz;
    let pat = nz @ List.map (fun i -> (nat_of_int i, nat_of_int i)) (range nspec) @ extra in
    let s = sp_build o.o_csc (nat_of_int nspec) pat in
    let nbn = nat_of_int ncells in
    (match flat_ids numQ (fun r c -> sp_index o s nbn O r c) p with
     | Err c -> sep "FI"; out ("E" ^ string_of_int (int_of_nat c))
     | Ok fids ->
       sep "FI"; List.iter outn fids;
       let size = int_of_nat (sp_size o s nbn) in
       let jac = List.init size (fun k -> mg (q_of_int (k mod 7))) in
       let rcs = to_storage ly ncells nrxn pad rc and ys = to_storage ly ncells nspec pad y in
       sep "J";
       out_qs (sub_jacobian numQ ly p fids nbn (nat_of_int nspec) (nat_of_int nrxn) (sp_nnz s) rcs ys jac))

(* ---------- main ---------- *)
let families : (String.t * (unit -> unit)) list ref = ref [
  ("dense", fam_dense); ("sparse", fam_sparse); ("forcing", fam_forcing); ("jacobian", fam_jacobian) ]

let run_line line =
  Buffer.clear buf; inexact_seen := false;
  (match List.filter (fun s -> s <> "") (String.split_on_char ' ' (String.trim line)) with
   | [] -> ()
   | fam :: rest ->
     toks := rest;
     (match List.assoc_opt fam !families with
      | None -> out ("UNKNOWN_FAMILY " ^ fam)
      | Some f -> (try f () with Failure m -> out ("DRIVER_FAILURE " ^ m) | Big -> out "DRIVER_BIG" | e -> out ("DRIVER_EXCEPTION " ^ Printexc.to_string e))));
  print_endline (String.trim (Buffer.contents buf))

let main () =
  try while true do run_line (input_line stdin) done with End_of_file -> ()
