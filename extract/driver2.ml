(* driver2.ml — families "lu" and "linsolve": the logical-level LU / substitution models over Zp. *)
open Model
open Driver

let priorL b r c = 1000 + 97 * b + 13 * r + 7 * c
let priorU b r c = 2000 + 89 * b + 11 * r + 5 * c

let read_lu_case solve =
  let alg = int () in let _csc = int () in let _l = int () in let nb = int () in let n = int () in
  let np = int () in
  let pairs = times np (fun () -> let r = int () in let c = int () in (r, c)) in
  let vals = Array.of_list (ints (nb * np)) in
  let rhs = if solve then Array.of_list (ints (nb * n)) else [||] in
  (alg, nb, n, pairs, vals, rhs)

let npair (r, c) = (nat_of_int r, nat_of_int c)
let zp i = mg (z_of_int (((i mod 2147483647) + 2147483647) mod 2147483647))

let block_inputs n pairs vals b =
  let np = List.length pairs in
  let entries = List.mapi (fun k (r, c) -> ((nat_of_int r, nat_of_int c), zp vals.(b * np + k))) pairs in
  let a = mat_of numZp entries in
  let ap = pat_of (List.map npair pairs) in
  (a, ap)

let pattern_list n (p : nat -> nat -> bool) =
  List.concat (List.map (fun r -> List.filter_map (fun c ->
    if p (nat_of_int r) (nat_of_int c) then Some (r, c) else None) (range n)) (range n))

let fam_lu () =
  let (alg, nb, n, pairs, vals, _) = read_lu_case false in
  let nn = nat_of_int n in
  let ap = pat_of (List.map npair pairs) in
  match alg with
  | 0 | 1 ->
    let (lp, up) = if alg = 0 then doolittle_sym nn ap else mozart_sym nn ap in
    let lpl = pattern_list n lp and upl = pattern_list n up in
    sep "LP"; List.iter (fun (r, c) -> outi r; outi c) lpl;
    sep "UP"; List.iter (fun (r, c) -> outi r; outi c) upl;
    let res = List.map (fun b ->
      let (a, ap) = block_inputs n pairs vals b in
      let l0 = (fun r c -> zp (priorL b (int_of_nat r) (int_of_nat c))) in
      let u0 = (fun r c -> zp (priorU b (int_of_nat r) (int_of_nat c))) in
      if alg = 0 then doolittle_num numZp nn a ap lp up l0 u0 else mozart_num numZp nn a ap lp up l0 u0) (range nb) in
    sep "L"; List.iter (fun (l, _) -> List.iter (fun (r, c) -> out (str_of_z (zof (l (nat_of_int r) (nat_of_int c))))) lpl) res;
    sep "U"; List.iter (fun (_, u) -> List.iter (fun (r, c) -> out (str_of_z (zof (u (nat_of_int r) (nat_of_int c))))) upl) res
  | _ ->
    let p = if alg = 2 then doolittle_ip_sym nn ap else mozart_ip_sym nn ap in
    let pl = pattern_list n p in
    sep "P"; List.iter (fun (r, c) -> outi r; outi c) pl;
    sep "M";
    List.iter (fun b ->
      let (a, _) = block_inputs n pairs vals b in
      let m = if alg = 2 then doolittle_ip_num numZp nn p a else mozart_ip_num numZp nn p a in
      List.iter (fun (r, c) -> out (str_of_z (zof (m (nat_of_int r) (nat_of_int c))))) pl) (range nb)

let fam_linsolve () =
  let (alg, nb, n, pairs, vals, rhs) = read_lu_case true in
  let nn = nat_of_int n in
  let ap = pat_of (List.map npair pairs) in
  sep "X";
  List.iter (fun b ->
    let (a, ap) = block_inputs n pairs vals b in
    let bvec = (fun i -> zp rhs.(b * n + int_of_nat i)) in
    let x =
      match alg with
      | 0 | 1 ->
        let (lp, up) = if alg = 0 then doolittle_sym nn ap else mozart_sym nn ap in
        let g = (fun _ _ -> zp 424242) in
        let (l, u) = if alg = 0 then doolittle_num numZp nn a ap lp up g g else mozart_num numZp nn a ap lp up g g in
        lin_solve numZp nn lp up l u bvec
      | _ ->
        let p = if alg = 2 then doolittle_ip_sym nn ap else mozart_ip_sym nn ap in
        let m = if alg = 2 then doolittle_ip_num numZp nn p a else mozart_ip_num numZp nn p a in
        lin_solve_ip numZp nn p m bvec in
    List.iter (fun i -> out (str_of_z (zof (x (nat_of_int i))))) (range n)) (range nb);
  ignore ap

let () = families := !families @ [ ("lu", fam_lu); ("linsolve", fam_linsolve) ]
