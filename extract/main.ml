let () = Driver.main ()
