let () = ignore Driver2.fam_lu; ignore Driver3.fam_rosmock; Driver.main ()
