let () = ignore Driver2.fam_lu; ignore Driver3.fam_rosmock; ignore Driver4.fam_jitforcing; Driver.main ()
