let () = ignore Driver2.fam_lu; Driver.main ()
