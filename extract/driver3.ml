(* driver3.ml — families "rosmock", "bemock", "nerr", "isconv": the integrator models run
   against scripted policies (the same pure functions the C++ mocks implement), over Q.
   Hand-written oracles: the scripted policies, pow / sqrt / the absorption test (evaluated with
   OCaml floats = the same libm and binary64 arithmetic as the C++ side). *)
open Model
open Driver

(* ---- rationals ---- *)
(* exact regime: every intermediate value of a run must be a binary64 number (dyadic, mantissa <= 53 bits);
   then every IEEE operation of the C++ side is exact and equals the model's.  A run in which some
   intermediate is not is discarded (NOTE_OUT_OF_REGIME), whatever its printed results look like. *)
let repr_ok (x : q) =
  let x = qred x in
  let rec pw p = (match p with XH -> true | XO q -> pw q | XI _ -> false) in
  let rec strip p = (match p with XO q -> strip q | _ -> p) in
  let rec len p = (match p with XH -> 1 | XO q | XI q -> 1 + len q) in
  pw x.qden && (match x.qnum with Z0 -> true | Zpos p | Zneg p -> len (strip p) <= 53)
let chk (x : q) = (if not (repr_ok x) then inexact_seen := true); x
let qadd (a : q) (b : q) = chk (qred (qplus a b))
let qsub a b = chk (qred (qminus a b))
let qmul a b = chk (qred (qmult a b))
let qdiv a b = chk (qred (Model.qdiv a b))
let q0 = q_of_int 0
let q1 = q_of_int 1
let rec pow2 k = if k = 0 then 1 else 2 * pow2 (k - 1)
let rec qpow2 e = if e >= 0 then (if e <= 60 then q_of_int (pow2 e) else qmul (qpow2 60) (qpow2 (e - 60)))
                  else qdiv q1 (qpow2 (-e))
(* special values of a scripted error norm are carried by two sentinel rationals no computation produces *)
let sentinel_nan = q_of_frac 12345 7
let sentinel_inf = q_of_frac 12346 7
let is_sent s (x : Obj.t) = (qcompare (qof x) s = Eq)
let dy () = let m = int () in let e = int () in
  if e = 9999 then (if m = 0 then sentinel_nan else sentinel_inf) else qmul (q_of_int m) (qpow2 e)   (* m * 2^e *)
let dys n = times n dy
let qlt a b = (qcompare a b = Lt)
let qle a b = (qcompare a b <> Gt)
let qabs (a : q) = if qlt a q0 then qsub q0 a else a
let qzero a = (qcompare a q0 = Eq)
(* exact for values that are binary64 numbers: mantissa and exponent handled separately *)
let float_of_q (x : q) =
  let x = qred x in
  let rec strip_pos p k = match p with XO q -> strip_pos q (k + 1) | _ -> (p, k) in
  let rec len_pos p = match p with XH -> 0 | XO q | XI q -> 1 + len_pos q in
  match x.qnum with
  | Z0 -> 0.0
  | Zpos p | Zneg p ->
    let sign = (match x.qnum with Zneg _ -> -1.0 | _ -> 1.0) in
    let (p', k) = strip_pos p 0 in
    sign *. Float.ldexp (float_of_int (int_of_pos p')) (k - len_pos x.qden)
let q_of_float (f : float) : q =
  if f = 0.0 then q0 else
  let (m, e) = Float.frexp f in
  let mi = Int64.to_int (Int64.of_float (Float.ldexp m 53)) in
  qmul (q_of_int mi) (qpow2 (e - 53))
let is_pow2 (x : q) = (* x = 2^k for some integer k *)
  let x = qred x in
  let n = (try int_of_z x.qnum with Big -> 0) and d = (try int_of_pos x.qden with Big -> 0) in
  n > 0 && d > 0 && (n land (n - 1)) = 0 && (d land (d - 1)) = 0

let is_dyadic (x : q) = let x = qred x in let rec pw p = (match p with XH -> true | XO q -> pw q | XI _ -> false) in pw x.qden
let numQc =
  let c1 f = (fun a -> mg (chk (qred (qof (f a))))) and c2 f = (fun a b -> mg (chk (qred (qof (f a b))))) in
  { numQ with nadd = c2 numQ.nadd; nsub = c2 numQ.nsub; nmul = c2 numQ.nmul; ndiv = c2 numQ.ndiv;
              nopp = c1 numQ.nopp; ninv = c1 numQ.ninv }
let numq_ops = (fun a b -> qlt (qof a) (qof b)), (fun a b -> qle (qof a) (qof b))
let m1 f = fun a -> mg (f (qof a))
let m2 f = fun a b -> mg (f (qof a) (qof b))

(* ---- scripted policies on logical vectors (cell-major) and dense n x n Jacobians ---- *)
type mock = { ncells : int; nspec : int; pm : q array; qv : q array }

let vmap2 f (x : q list) (y : q list) = List.map2 f x y
let vaxpy_q (a : Obj.t) (x : q list) (y : q list) = vmap2 (fun xi yi -> qadd yi (qmul (qof a) xi)) x y
let vzero_q (v : q list) = List.map (fun _ -> q0) v
let forcing_q mk (y : q list) (f : q list) =
  let ya = Array.of_list y in
  List.mapi (fun k fk ->
    let c = k / mk.nspec and s = k mod mk.nspec in
    let acc = ref mk.qv.(s) in
    for t = 0 to mk.nspec - 1 do acc := qadd !acc (qmul mk.pm.(s * mk.nspec + t) ya.(c * mk.nspec + t)) done;
    qadd fk !acc) f
let negjac_q mk (y : q list) (j : q list) =
  let ya = Array.of_list y in
  let n = mk.nspec in
  List.mapi (fun k jk ->
    let c = k / (n * n) and r = (k mod (n * n)) / n and cc = k mod n in
    let d = if r = cc then qdiv ya.(c * n + r) (q_of_int 4) else q0 in
    qsub jk (qadd mk.pm.(r * n + cc) d)) j
exception Out_of_regime
let add_diag_q mk (alpha : Obj.t) (j : q list) =
  if not (is_dyadic (qof alpha)) then raise Out_of_regime;
  let n = mk.nspec in
  List.mapi (fun k jk -> let r = (k mod (n * n)) / n and cc = k mod n in
              if r = cc then qadd jk (qof alpha) else jk) j
let diag_of mk (j : q list) =
  let n = mk.nspec in let ja = Array.of_list j in
  List.init (mk.ncells * n) (fun k -> let c = k / n and s = k mod n in ja.(c * n * n + s * n + s))
let factor_sep_q (j : q list) (_ : q list) = j
let solve_sep_q mk (lu : q list) (k : q list) =
  vmap2 (fun d ki -> qadd (qdiv ki (q_of_int 2)) (qdiv d (q_of_int 64))) (diag_of mk lu) k
let factor_ip_q (j : q list) = List.map (fun x -> qmul x (q_of_int 2)) j
let solve_ip_q mk (j : q list) (k : q list) =
  vmap2 (fun d ki -> qadd (qdiv ki (q_of_int 2)) (qdiv d (q_of_int 128))) (diag_of mk j) k

let state_names = [ (Running, "Running"); (Converged, "Converged"); (ConvergenceExceededMaxSteps, "ConvergenceExceededMaxSteps");
  (StepSizeTooSmall, "StepSizeTooSmall"); (NaNDetected, "NaNDetected"); (InfDetected, "InfDetected");
  (AcceptingUnconvergedIntegration, "AcceptingUnconvergedIntegration"); (NotYetCalled, "NotYetCalled"); (OutOfFuel, "OutOfFuel") ]
let out_stats (s : stats) =
  List.iter outn [ s.function_calls; s.jacobian_updates; s.number_of_steps; s.accepted; s.rejected; s.decompositions; s.solves ]
let out_ql (l : q list) = List.iter (fun x -> out (str_of_q x)) l

let read_mock ncells nspec =
  let pm = Array.of_list (dys (nspec * nspec)) in
  let qv = Array.of_list (dys nspec) in
  { ncells; nspec; pm; qv }

let absorbed_f (t : Obj.t) (h : Obj.t) =
  let tf = float_of_q (qof t) and hf = float_of_q (qof h) in (tf +. 0.1 *. hf) = tf
let pow_inv_f (e : Obj.t) (order : Obj.t) =
  mg (q_of_float (Float.pow (float_of_q (qof e)) (1.0 /. float_of_q (qof order))))

(* rosmock inplace L ncells nspec stages newf[6] a[15] c[15] m[6] e[6] gamma0 elo max_steps round_off_k
           factor_min factor_max rej_dec safety h_min h_max h_start time_step P q y0 nerrs errs *)
let fam_rosmock () =
  let inplace = int () <> 0 in let _l = int () in let ncells = int () in let nspec = int () in
  let stages = int () in
  let newf = List.map (fun x -> x <> 0) (ints 6) in
  let a = dys 15 in let c = dys 15 in let m = dys 6 in let e = dys 6 in
  let gamma0 = dy () in let elo = dy () in
  let max_steps = int () in let rk = int () in
  let fmin = dy () in let fmax = dy () in let rej = dy () in let safety = dy () in
  let hmin = dy () in let hmax = dy () in let hstart = dy () in let time_step = dy () in
  let mk = read_mock ncells nspec in
  let y0 = dys (ncells * nspec) in
  let ne = int () in let errs = Array.of_list (dys ne) in
  let ql = List.map mg in
  let p = { p_stages = nat_of_int stages; p_a = ql a; p_c = ql c; p_m = ql m; p_e = ql e; p_gamma0 = mg gamma0;
            p_newf = newf; p_elo = mg elo; p_max_steps = nat_of_int max_steps; p_round_off = mg (qpow2 (-rk));
            p_factor_min = mg fmin; p_factor_max = mg fmax; p_rej_dec = mg rej; p_safety = mg safety;
            p_h_min = mg hmin; p_h_max = mg hmax; p_h_start = mg hstart } in
  let zeros = List.init (ncells * nspec) (fun _ -> q0) in
  let s0 = { sY = y0; sJac = List.init (ncells * nspec * nspec) (fun _ -> q0); sLU = ([] : q list);
             sYnew = zeros; sInitF = zeros; sK = List.init stages (fun _ -> zeros); sYerr = zeros } in
  let nerr k _ _ _ = mg errs.(min (int_of_nat k) (ne - 1)) in
  let (ltb, leb) = numq_ops in
  let r = ros_solve numQc ltb leb (m1 qabs) (is_sent sentinel_nan) (is_sent sentinel_inf) (fun x -> qzero (qof x))
            absorbed_f pow_inv_f (mg (q_of_int 10)) (mg (q_of_float 1.0e-6))
            vaxpy_q vzero_q vzero_q (add_diag_q mk) (forcing_q mk) (negjac_q mk) inplace
            factor_sep_q (solve_sep_q mk) factor_ip_q (solve_ip_q mk) nerr p (nat_of_int 400) (mg time_step) s0 in
  (* exact regime: every attempted H is a power of two *)
  let in_regime = List.for_all (function EvFactor (h, _, _) -> is_pow2 (qof h) | _ -> true) r.r_trace in
  if not in_regime then out "NOTE_OUT_OF_REGIME" else begin
    out (List.assoc r.r_state state_names); out (str_of_q (qof r.r_final_time)); out_stats r.r_stats;
    sep "Y"; out_ql r.r_s.sY;
    sep "TR";
    List.iter (function
      | EvForcing y -> out "F"; out_ql y
      | EvNegJac y -> out "J"; out_ql y
      | EvFactor (_, _, mm) -> out "LF"; out_ql mm
      | EvSolve rhs -> out "SV"; out_ql rhs
      | EvAttempt (_, err, _, y, yn, ye) -> out "NE"; out_ql y; out_ql yn; out_ql ye;
        out (if is_sent sentinel_nan err then "NaN" else if is_sent sentinel_inf err then "+Inf" else str_of_q (qof err))
      | EvStep (_, _) -> ()) r.r_trace
  end

(* bemock inplace L ncells nspec h_start max_iter nred reductions time_step P q y0 atol[nspec] rtol small nw w[] *)
let fam_bemock () =
  let inplace = int () <> 0 in let l = int () in let ncells = int () in let nspec = int () in
  let hstart = dy () in let max_iter = int () in
  let nred = int () in let reds = dys nred in
  let time_step = dy () in
  let mk = read_mock ncells nspec in
  let y0 = dys (ncells * nspec) in
  let atol = dys nspec in let rtol = dy () in let small = dy () in
  let nw = int () in let ws = Array.of_list (dys nw) in
  let calls = ref 0 in
  let (ltb, _) = numq_ops in
  let scaled (k : q list) = let w = ws.(min !calls (nw - 1)) in incr calls; List.map (fun x -> qmul x w) k in
  let ly = layout_of 0 in
  ignore l;
  let is_conv (resid : q list) (yn1 : q list) =
    is_converged numQc ltb (m1 qabs) ly (nat_of_int ncells) (nat_of_int nspec) (List.map mg atol) (mg rtol) (mg small)
      (List.map mg resid) (List.map mg yn1) in
  let p = { bp_h_start = mg hstart; bp_max_iter = nat_of_int max_iter; bp_reductions = List.map mg reds } in
  let zeros = List.init (ncells * nspec) (fun _ -> q0) in
  let s0 = { bYn1 = y0; bJac = List.init (ncells * nspec * nspec) (fun _ -> q0); bLU = ([] : q list); bYn = zeros; bForcing = zeros } in
  let vresid (h : Obj.t) f yn1 yn = List.map2 (fun fi (a, b) -> qsub fi (qdiv (qsub a b) (qof h))) f (List.combine yn1 yn) in
  let vclamp yn1 d = List.map2 (fun a b -> let x = qadd a b in if qlt q0 x then x else q0) yn1 d in
  let r = be_solve numQc ltb (fun x -> qzero (qof x)) vzero_q vzero_q (add_diag_q mk) (forcing_q mk) (negjac_q mk) inplace
            factor_sep_q (fun _ k -> scaled k) factor_ip_q (fun _ k -> scaled k) vresid vclamp is_conv (mg (q_of_int 2)) p
            (nat_of_int 2000) (mg time_step) s0 in
  let in_regime = List.for_all (function BeIter (h, _, _, _, _) -> is_pow2 (qof h) | _ -> true) r.br_trace in
  if not in_regime then out "NOTE_OUT_OF_REGIME" else begin
    out (List.assoc r.br_state state_names); out (str_of_q (qof r.br_final_time)); out_stats r.br_stats;
    sep "Y"; out_ql r.br_s.bYn1;
    sep "TR";
    List.iter (function
      | BeIter (_, y, mm, rhs, _) -> out "F"; out_ql y; out "LF"; out_ql mm; out "SV"; out_ql rhs
      | _ -> ()) r.br_trace
  end

(* exact square root of a rational that is a perfect square (the harness only produces those) *)
let qsqrt (x : Obj.t) =
  if not (is_dyadic (qof x)) then (inexact_seen := true; x) else
  let r = q_of_float (Float.sqrt (float_of_q (qof x))) in
  if qcompare (qmul r r) (qof x) <> Eq then inexact_seen := true;
  mg r

(* nerr L ncells nspec pad atol[nspec] rtol y[] ynew[] err[]   (values logical; pad fills padding lanes) *)
let to_storage_q ly nrow ncol (pad : q) (vals : q list) =
  let size = int_of_nat (lay_size ly (nat_of_int nrow) (nat_of_int ncol)) in
  let arr = Array.make size (mg pad) in
  List.iteri (fun i v ->
    let r = i / ncol and c = i mod ncol in
    arr.(int_of_nat (lay_addr ly (nat_of_int ncol) (nat_of_int r) (nat_of_int c))) <- mg v) vals;
  Array.to_list arr

let fam_nerr () =
  let l = int () in let ncells = int () in let nspec = int () in let pad = dy () in
  let atol = dys nspec in let rtol = dy () in
  let y = dys (ncells * nspec) in let yn = dys (ncells * nspec) in let er = dys (ncells * nspec) in
  let ly = layout_of l in
  let (ltb, _) = numq_ops in
  let st v = to_storage_q ly ncells nspec pad v in
  let r = normalized_error numQc ltb (m1 qabs) qsqrt (fun n -> mg (q_of_int (int_of_nat n))) ly (nat_of_int ncells) (nat_of_int nspec)
            (List.map mg atol) (mg rtol) (mg (q_of_float 1.0e-10)) (st y) (st yn) (st er) in
  out (str_of_q (qof r))

(* isconv L ncells nspec pad atol[nspec] rtol small resid[] yn1[] *)
let fam_isconv () =
  let l = int () in let ncells = int () in let nspec = int () in let pad = dy () in
  let atol = dys nspec in let rtol = dy () in let small = dy () in
  let rs = dys (ncells * nspec) in let yn1 = dys (ncells * nspec) in
  let ly = layout_of l in
  let (ltb, _) = numq_ops in
  let st v = to_storage_q ly ncells nspec pad v in
  let r = is_converged numQc ltb (m1 qabs) ly (nat_of_int ncells) (nat_of_int nspec) (List.map mg atol) (mg rtol) (mg small) (st rs) (st yn1) in
  out (if r then "1" else "0")

let guard f () = (try f () with Out_of_regime -> inexact_seen := true);
  if !inexact_seen then (Buffer.clear buf; out "NOTE_OUT_OF_REGIME")
let () = families := !families @ [ ("rosmock", guard fam_rosmock); ("bemock", guard fam_bemock); ("nerr", guard fam_nerr); ("isconv", fam_isconv) ]

(* ratec L ncells nproc {kind size nthird}* by_label T[ncells] P[ncells] vals[ncells*nparams] *)
let fam_ratec () =
  let l = int () in let ncells = int () in let nproc = int () in
  let specs = times nproc (fun () -> let k = int () in let s = int () in let nt = int () in (k, s, nt)) in
  let _by_label = int () in
  let tt = Array.of_list (ints ncells) in let pp = Array.of_list (ints ncells) in
  let nparams = List.fold_left (fun a (_, s, _) -> a + s) 0 specs in
  let vals = ints (ncells * nparams) in
  let ly = layout_of l in
  let conds c = int_of_nat c in
  (* cells 2j and 2j+1 share the temperature and pressure drawn for cell 2j; the air density is 1 + (cell mod 3) *)
  Array.iteri (fun c _ -> tt.(c) <- tt.(c - c mod 2); pp.(c) <- pp.(c - c mod 2)) tt;
  let procs = List.mapi (fun r (k, s, nt) ->
    let calc (c : int) (params : Obj.t list) : Obj.t =
      (match k with
       | 0 -> let base = q_of_int (1000000 * r + 1000 * tt.(c) + 7 * pp.(c) + 13 * (1 + c mod 3)) in
              mg (List.fold_left (fun acc (i, x) -> qadd acc (qmul (q_of_int (i + 1)) (qof x))) base
                    (List.mapi (fun i x -> (i, x)) params))
       | 1 -> mg (qmul (if r mod 3 = 2 then q0 else q_of_frac 1 2) (qof (List.hd params)))
       | _ -> mg (q_of_int (3 + r))) in
    let fixed (c : int) : Obj.t = mg (let rec pw n = if n = 0 then q1 else qmul (q_of_int tt.(c)) (pw (n - 1)) in pw nt) in
    { rp_calc = calc; rp_size = nat_of_int s; rp_fixed = fixed }) specs in
  let pst = to_storage_q ly ncells nparams q0 (List.map q_of_int vals) in
  let size = int_of_nat (lay_size ly (nat_of_int ncells) (nat_of_int nproc)) in
  let rc0 = List.init size (fun _ -> mg q0) in
  let r = calc_rate_constants numQ ly procs (nat_of_int ncells) (nat_of_int nparams) conds pst rc0 in
  out_qs r

let () = families := !families @ [ ("ratec", fam_ratec) ]

(* vsem kind L nops {op args}* : the object-level model; prints the same per-operation tokens as the harness.
   Stage counts: Rosenbrock kind, L = 0: the three-stage set, L = 3: the four-stage set; op 8 (solve with another
   parameter set) t = 0: the two-stage set, t = 1: the six-stage set.  Backward Euler holds no stage vectors. *)
let fam_vsem () =
  let kind = int () in let l = int () in let nops = int () in
  let stages0 = if kind <> 0 then 0 else if l = 0 then 3 else 4 in
  let ops = times nops (fun () ->
    match int () with
    | 0 -> OGet (nat ())
    | 1 -> let i = nat () in let j = nat () in OCopyC (i, j)
    | 2 -> let i = nat () in let j = nat () in OCopyA (i, j)
    | 3 -> let i = nat () in let j = nat () in OMoveC (i, j)
    | 4 -> let i = nat () in let j = nat () in OMoveA (i, j)
    | 5 -> let i = nat () in let v = nat () in OSet (i, v)
    | 6 -> OSolve (nat ())
    | 8 -> let i = nat () in let t = int () in
           OPSolve (i, nat_of_int (if kind <> 0 then 0 else if t = 0 then 2 else 6))
    | 9 -> OGet2 (nat ())
    | _ -> OSMove) in
  let is_psolve = Array.of_list (List.map (function OPSolve _ -> true | _ -> false) ops) in
  List.iteri (fun k tk -> out (match tk with
    | TkGet -> "g" | TkCC -> "cc" | TkCA -> "ca" | TkMC -> "mc" | TkMA -> "ma" | TkSet -> "s"
    | TkSolve _ -> if is_psolve.(k) then "P" else "S" | TkSMove -> "M" | TkSkip -> "-" | TkUB -> "UB"))
    (vrun copy_fixed true (store0 (nat_of_int 4) (nat_of_int stages0)) ops)

let () = families := !families @ [ ("vsem", fam_vsem) ]

(* err kind L fault pos : what the documented-error table predicts for the injected call *)
let ocaml_string (s : Model.string) : String.t =
  let b = Buffer.create 16 in
  let rec go = function
    | EmptyString -> ()
    | String (Ascii (b0, b1, b2, b3, b4, b5, b6, b7), t) ->
      let bit x k = if x then 1 lsl k else 0 in
      Buffer.add_char b (Char.chr (bit b0 0 + bit b1 1 + bit b2 2 + bit b3 3 + bit b4 4 + bit b5 5 + bit b6 6 + bit b7 7));
      go t in
  go s; Buffer.contents b

let fam_err () =
  let _kind = int () in let _l = int () in let f = int () in let _pos = int () in
  (match fault_of_id (nat_of_int f) with
   | None -> out "F:UNKNOWN_FAULT"
   | Some ft ->
     (match expected ft with
      | None -> out "F:NOERROR"
      | Some (cat, code) ->
        let c = String.map (fun ch -> if ch = ' ' then '_' else ch) (ocaml_string cat) in
        out (Printf.sprintf "F:ERR:%s:%d" c (int_of_nat code))));
  out "H:SS"

let () = families := !families @ [ ("err", fam_err) ]
