(* driver5.ml — families "markowitz" (the reordering DiagonalMarkowitzReorder computes) and "spmap" (the species map
   and variable names SolverBuilder produces).  Glue only: parsing and printing. *)
open Model
open Driver

let fam_markowitz () =
  let n = int () in let _l = int () in
  let bits = Array.of_list (ints (n * n)) in
  let p = (fun r c -> let r = int_of_nat r and c = int_of_nat c in r < n && c < n && bits.(r * n + c) <> 0) in
  List.iter (fun x -> outi (int_of_nat x)) (markowitz_real (nat_of_int n) p)

let fam_spmap () =
  let _l = int () in let reorder = int () <> 0 in
  let (vm, _nrxn, rxns) = read_mech () in
  (* the listing: names by position *)
  let listing = List.map fst (List.sort (fun (_, a) (_, b) -> compare (int_of_nat a) (int_of_nat b)) vm) in
  match builder_species_map numQ listing rxns reorder with
  | Err c -> out ("E" ^ string_of_int (int_of_nat c))
  | Ok (m, vn) ->
    sep "M";
    List.iter (fun nm -> match map_lookup m nm with Some i -> outi (int_of_nat i) | None -> outi (-1)) listing;
    sep "N";
    List.iter (fun nm -> outi (int_of_nat nm)) vn

let () = families := !families @ [ ("markowitz", fam_markowitz); ("spmap", fam_spmap) ]
