(* driver4.ml — families of the JIT backend: the generated-program models over Q. *)
open Model
open Driver

let jit_err = "ERR:MICM_JIT:1"

let fam_jitforcing () =
  let l = int () in let ncells = int () in let nspec = int () in let pad = int () in
  let (vm, nrxn, rxns) = read_mech () in
  let rc = ints (ncells * nrxn) in let y = ints (ncells * nspec) in let f = ints (ncells * nspec) in
  let ly = layout_of l in
  match ps_build numQ vm rxns with
  | Err c -> out ("E" ^ string_of_int (int_of_nat c))
  | Ok p ->
    let rcs = to_storage ly ncells nrxn pad rc and ys = to_storage ly ncells nspec pad y
    and fs = to_storage ly ncells nspec pad f in
    out_qs (jit_add_forcing numQ (nat_of_int l) p rcs ys fs)

let fam_jitjacobian () =
  let l = int () in let ncells = int () in let nspec = int () in let pad = int () in
  let (vm, nrxn, rxns) = read_mech () in
  let rc = ints (ncells * nrxn) in let y = ints (ncells * nspec) in
  let ly = layout_of l in
  let o = ordering_of 0 l in
  match ps_build numQ vm rxns with
  | Err c -> out ("E" ^ string_of_int (int_of_nat c))
  | Ok p ->
    let nz = nonzero_jac numQ p in
    let pat = nz @ List.map (fun i -> (nat_of_int i, nat_of_int i)) (range nspec) in
    let s = sp_build o.o_csc (nat_of_int nspec) pat in
    let nbn = nat_of_int ncells in
    (match flat_ids numQ (fun r c -> sp_index o s nbn O r c) p with
     | Err c -> out ("E" ^ string_of_int (int_of_nat c))
     | Ok fids ->
       let size = int_of_nat (sp_size o s nbn) in
       let jac = List.init size (fun k -> mg (q_of_int (k mod 7))) in
       let rcs = to_storage ly ncells nrxn pad rc and ys = to_storage ly ncells nspec pad y in
       sep "J";
       out_qs (jit_sub_jacobian numQ (nat_of_int l) p fids rcs ys jac))

let fam_jitlu () =
  let l = int () in let nb = int () in let n = int () in let np = int () in
  let pairs = times np (fun () -> let r = int () in let c = int () in (r, c)) in
  let vals = Array.of_list (ints (nb * np)) in
  let rhs = Array.of_list (ints (nb * n)) in
  let nn = nat_of_int n in
  let npair (r, c) = (nat_of_int r, nat_of_int c) in
  let ap = pat_of (List.map npair pairs) in
  let (lp, up) = doolittle_sym nn ap in
  let pattern_list (p : nat -> nat -> bool) =
    List.concat (List.map (fun r -> List.filter_map (fun c ->
      if p (nat_of_int r) (nat_of_int c) then Some (r, c) else None) (range n)) (range n)) in
  let lpl = pattern_list lp and upl = pattern_list up in
  let block b =
    let entries = List.mapi (fun k (r, c) -> ((nat_of_int r, nat_of_int c), mg (q_of_int vals.(b * np + k)))) pairs in
    mat_of numQ entries in
  let prior = (fun _ _ -> mg (q_of_int 424242)) in
  let lus = List.map (fun b -> jit_decompose numQ nn (block b) ap lp up prior prior) (range nb) in
  (match jit_lu_guard (nat_of_int l) (nat_of_int nb) with
   | JitServes ->
     sep "L"; List.iter (fun (lm, _) -> List.iter (fun (r, c) -> out (str_of_q (qof (lm (nat_of_int r) (nat_of_int c))))) lpl) lus;
     sep "U"; List.iter (fun (_, um) -> List.iter (fun (r, c) -> out (str_of_q (qof (um (nat_of_int r) (nat_of_int c))))) upl) lus;
     out "LU:OK"
   | JitInvalidMatrix -> out ("LU:" ^ jit_err));
  (match jit_builder_outcome (nat_of_int l) (nat_of_int nb) with
   | JitServes ->
     sep "X";
     List.iteri (fun b (lm, um) ->
       let bvec = (fun i -> mg (q_of_int rhs.(b * n + int_of_nat i))) in
       let x = jit_lin_solve numQ nn lp up lm um bvec in
       List.iter (fun i -> out (str_of_q (qof (x (nat_of_int i))))) (range n)) lus;
     out "LS:OK"
   | JitInvalidMatrix -> out ("LS:" ^ jit_err))

(* jitsolver L ncells ... : the model decides only whether the request is served *)
let fam_jitsolver () =
  let l = int () in let ncells = int () in
  match jit_builder_outcome (nat_of_int l) (nat_of_int ncells) with
  | JitServes -> out "JIT:OK"
  | JitInvalidMatrix -> out ("JIT:" ^ jit_err)

let () = families := !families @ [ ("jitforcing", fam_jitforcing); ("jitjacobian", fam_jitjacobian);
                                    ("jitlu", fam_jitlu); ("jitsolver", fam_jitsolver) ]
