#!/bin/sh
# setup.sh — MANIFEST.setup_cmd: build the framework offline from files on disk.
#  1. full .vo build of the Coq development (no -vos), 2. the grep gate,
#  3. extraction + OCaml driver.  C++ harness drivers are built by the checks themselves
#  (they must be rebuilt against /repo's working tree on every run).
set -e
cd "$(dirname "$0")"
mkdir -p .cache evidence replays
# the generated tables follow /repo's current tree
python3 tools/regen.py >/dev/null
cd coq
coq_makefile -f _CoqProject -o Makefile >/dev/null
# models, proofs and the extraction must build; a property file that no longer checks against the current /repo
# (its generated tables changed) is reported by that property's check, not here
timeout 3000 make -k -j16 >/dev/null 2>../.cache/coq-build.log || true
for f in $(grep -v "^-\|Properties_C\|^$" _CoqProject); do
  test -f "${f%.v}.vo" || { tail -30 ../.cache/coq-build.log; echo "coq build failed: $f"; exit 1; }
done
cd ..
python3 - <<'PY'
import sys
sys.path.insert(0, "tools")
import vcore
bad = vcore.coq_gate()
if bad:
    print("gate failed:", bad)
    sys.exit(1)
ok, out = vcore.ensure_model_driver()
if not ok:
    print(out)
    sys.exit(1)
print("setup ok")
PY
