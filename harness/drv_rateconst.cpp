// drv_rateconst.cpp — family "ratec": Solver::CalculateRateConstants through the public API with
// probe rate constants (0..3 custom parameters each) mixed with UserDefined and Arrhenius ones,
// parameterised reactants, per-cell conditions; every value an exact small integer / dyadic.
#include "common/caseio.hpp"

#include <micm/process/arrhenius_rate_constant.hpp>
#include <micm/process/branched_rate_constant.hpp>
#include <micm/process/surface_rate_constant.hpp>
#include <micm/process/ternary_chemical_activation_rate_constant.hpp>
#include <micm/process/troe_rate_constant.hpp>
#include <micm/process/tunneling_rate_constant.hpp>
#include <micm/process/user_defined_rate_constant.hpp>
#include <micm/solver/rosenbrock.hpp>
#include <micm/solver/solver_builder.hpp>

using vio::Out;
using vio::Toks;

// a rate constant that encodes what it was given: its id, the cell's conditions and its own parameters
class ProbeRateConstant : public micm::RateConstant
{
 public:
  int id_;
  std::size_t size_;
  ProbeRateConstant(int id, std::size_t size)
      : id_(id),
        size_(size)
  {
  }
  std::unique_ptr<micm::RateConstant> Clone() const override
  {
    return std::unique_ptr<micm::RateConstant>{ new ProbeRateConstant{ *this } };
  }
  std::vector<std::string> CustomParameters() const override
  {
    std::vector<std::string> l;
    for (std::size_t i = 0; i < size_; ++i)
      l.push_back("p" + std::to_string(id_) + "." + std::to_string(i));
    return l;
  }
  std::size_t SizeCustomParameters() const override
  {
    return size_;
  }
  double Calculate(const micm::Conditions& c) const override
  {
    return -1;
  }
  double Calculate(const micm::Conditions& c, std::vector<double>::const_iterator p) const override
  {
    double v = 1000000.0 * id_ + 1000.0 * c.temperature_ + 7.0 * c.pressure_ + 13.0 * c.air_density_;
    for (std::size_t i = 0; i < size_; ++i)
      v += (double)(i + 1) * p[i];
    return v;
  }
};

struct PSpec
{
  int kind;      // 0 probe, 1 user-defined (scaling 1/2), 2 Arrhenius (A = 3 + id)
  int size;      // number of custom parameters
  int nthird;    // number of parameterised reactants (each contributes a factor T)
};

template<class DM, class SM>
static void ratec_case(Toks& tk, Out& out, std::size_t ncells)
{
  std::size_t nproc = tk.i();
  std::vector<PSpec> ps(nproc);
  std::size_t nparams = 0;
  for (auto& p : ps)
  {
    p.kind = (int)tk.i();
    p.size = (int)tk.i();
    p.nthird = (int)tk.i();
    nparams += p.size;
  }
  int by_label = (int)tk.i();
  std::vector<long long> T = tk.ints(ncells), P = tk.ints(ncells);
  std::vector<long long> vals = tk.ints(ncells * nparams);  // [cell][column]

  auto a = micm::Species("A");
  auto b = micm::Species("B");
  auto m = micm::Species("M");
  m.parameterize_ = [](const micm::Conditions& c) { return c.temperature_; };
  micm::Phase gas{ std::vector<micm::Species>{ a, b, m } };
  std::vector<micm::Process> procs;
  std::vector<std::string> labels;
  for (std::size_t r = 0; r < nproc; ++r)
  {
    std::vector<micm::Species> reactants{ a };
    for (int k = 0; k < ps[r].nthird; ++k)
      reactants.push_back(m);
    std::vector<micm::Yield> products{ micm::Yields(b, 1) };
#define MK_PROCESS(RC) micm::Process(micm::Process::Create().SetReactants(reactants).SetProducts(products).SetRateConstant(RC).SetPhase(gas))
    if (ps[r].kind == 0)
    {
      ProbeRateConstant rcn((int)r, ps[r].size);
      for (auto& l : rcn.CustomParameters())
        labels.push_back(l);
      procs.push_back(MK_PROCESS(rcn));
    }
    else if (ps[r].kind == 1)
    {
      labels.push_back("u" + std::to_string(r));
      procs.push_back(MK_PROCESS(micm::UserDefinedRateConstant({ .label_ = "u" + std::to_string(r), .scaling_factor_ = (r % 3 == 2 ? 0.0 : 0.5) })));   // a reaction switched off by a zero scaling factor
    }
    else
      procs.push_back(MK_PROCESS(micm::ArrheniusRateConstant({ .A_ = 3.0 + r })));
  }
  // the solver object first holds a solver for another reaction list (which has handed out a State), then is
  // move-assigned the solver for this one: nothing of the first mechanism may remain
  std::vector<micm::Process> other_procs;
  {
    std::vector<micm::Species> reactants{ a, m };
    std::vector<micm::Yield> products{ micm::Yields(b, 1) };
    other_procs.push_back(MK_PROCESS(micm::ArrheniusRateConstant({ .A_ = 77.0 })));
    other_procs.push_back(MK_PROCESS(micm::UserDefinedRateConstant({ .label_ = "other" })));
  }
  auto solver = micm::CpuSolverBuilder<micm::RosenbrockSolverParameters, DM, SM>(
                    micm::RosenbrockSolverParameters::ThreeStageRosenbrockParameters())
                    .SetSystem(micm::System(micm::SystemParameters{ .gas_phase_ = gas }))
                    .SetReactions(other_procs)
                    .SetNumberOfGridCells((int)ncells)
                    .Build();
  {
    auto other_state = solver.GetState();
    solver.CalculateRateConstants(other_state);
  }
  solver = micm::CpuSolverBuilder<micm::RosenbrockSolverParameters, DM, SM>(
               micm::RosenbrockSolverParameters::ThreeStageRosenbrockParameters())
               .SetSystem(micm::System(micm::SystemParameters{ .gas_phase_ = gas }))
               .SetReactions(procs)
               .SetNumberOfGridCells((int)ncells)
               .Build();
  auto state = solver.GetState();
  // cells 2j and 2j+1 share temperature and pressure (those drawn for cell 2j) and differ in air density: the
  // conditions of a cell are all three
  for (std::size_t c = 0; c < ncells; ++c)
    T[c] = T[c - c % 2], P[c] = P[c - c % 2];
  auto rho = [](std::size_t c) { return 1.0 + (double)(c % 3); };
  for (std::size_t c = 0; c < ncells; ++c)
  {
    state.conditions_[c].temperature_ = (double)T[c];
    state.conditions_[c].pressure_ = (double)P[c];
    state.conditions_[c].air_density_ = rho(c);
  }
  if (by_label)
  {
    // label by label, last column first
    for (std::size_t col = nparams; col-- > 0;)
    {
      std::vector<double> v(ncells);
      for (std::size_t c = 0; c < ncells; ++c)
        v[c] = (double)vals[c * nparams + col];
      state.SetCustomRateParameter(labels[col], v);
    }
  }
  else if (nparams > 0)
  {
    std::vector<std::vector<double>> mat(ncells, std::vector<double>(nparams));
    for (std::size_t c = 0; c < ncells; ++c)
      for (std::size_t col = 0; col < nparams; ++col)
        mat[c][col] = (double)vals[c * nparams + col];
    state.UnsafelySetCustomRateParameters(mat);
  }
  solver.CalculateRateConstants(state);
  out.qs(state.rate_constants_.AsVector());
  // oracle: reaction r of cell c sees its own parameters and the cell's conditions
  std::size_t off = 0;
  for (std::size_t r = 0; r < nproc; ++r)
  {
    for (std::size_t c = 0; c < ncells; ++c)
    {
      double v;
      if (ps[r].kind == 0)
      {
        v = 1000000.0 * r + 1000.0 * T[c] + 7.0 * P[c] + 13.0 * rho(c);
        for (int i = 0; i < ps[r].size; ++i)
          v += (double)(i + 1) * vals[c * nparams + off + i];
      }
      else if (ps[r].kind == 1)
        v = (r % 3 == 2 ? 0.0 : 0.5) * vals[c * nparams + off];
      else
        v = 3.0 + r;
      for (int k = 0; k < ps[r].nthird; ++k)
        v *= (double)T[c];
      if (state.rate_constants_[c][r] != v)
        out.tok("ORACLE_RATE_CONSTANT_NOT_OF_OWN_PARAMETERS");
    }
    off += ps[r].size;
  }
}

static void fam_ratec(Toks& tk, Out& out)
{
  long long L = tk.i();
  std::size_t ncells = tk.i();
  using CSR = micm::SparseMatrixStandardOrderingCompressedSparseRow;
  VERIF_DISPATCH_L(
      L,
      (ratec_case<micm::Matrix<double>, micm::SparseMatrix<double, CSR>>(tk, out, ncells)),
      (ratec_case<micm::VectorMatrix<double, LL>, micm::SparseMatrix<double, micm::SparseMatrixVectorOrderingCompressedSparseRow<LL>>>(
          tk, out, ncells)));
}


// ---- family "ratef": every built-in rate-constant type against a long-double transcription of its documented formula ----
//   ratef type T P rho p1..p8        (values as decimal floating-point tokens)
//   type 0 Arrhenius      k = A exp(C/T) (T/D)^B (1 + E P)                                   p = A B C D E
//        1 Troe           k0 = k0A exp(k0C/T) (T/300)^k0B, kinf likewise;
//                         k = k0 M / (1 + k0 M / kinf) Fc^(N / (N + log10(k0 M / kinf)^2))   p = k0A k0B k0C kinfA kinfB kinfC Fc N
//        2 ternary chemical activation: k = k0 / (1 + k0 M / kinf) Fc^(...)                  p as Troe
//        3 tunneling      k = A exp(-B/T + C/T^3)                                            p = A B C
//        4 branched       alkoxy / nitrate branch of X exp(-Y/T) with A(T, M) and z          p = X Y a0 n branch
//        5 user defined   k = scaling * parameter                                            p = scaling parameter
//        6 surface        k = 4 N pi r^2 / (r / D + 4 / (v gamma)), v = sqrt(8 R T / (pi MW)) p = gamma D MW r N
static long double ld_pow(long double a, long double b) { return std::pow(a, b); }
static void fam_ratef(Toks& tk, Out& out)
{
  int type = (int)tk.i();
  double T = tk.d(), P = tk.d(), rho = tk.d();
  std::vector<double> p;
  for (int i = 0; i < 8; ++i)
    p.push_back(tk.d());
  micm::Conditions cd;
  cd.temperature_ = T;
  cd.pressure_ = P;
  cd.air_density_ = rho;
  double got = 0;
  long double want = 0;
  const long double lT = T, lP = P, lM = rho;
  auto troe_like = [&](bool troe) -> long double
  {
    long double k0 = (long double)p[0] * std::exp((long double)p[2] / lT) * ld_pow(lT / 300.0L, p[1]);
    long double kinf = (long double)p[3] * std::exp((long double)p[5] / lT) * ld_pow(lT / 300.0L, p[4]);
    long double r = k0 * lM / kinf;
    long double lg = std::log10(r);
    long double f = ld_pow(p[6], (long double)p[7] / ((long double)p[7] + lg * lg));
    return (troe ? k0 * lM : k0) / (1.0L + r) * f;
  };
  switch (type)
  {
    case 0:
      got = micm::ArrheniusRateConstant({ .A_ = p[0], .B_ = p[1], .C_ = p[2], .D_ = p[3], .E_ = p[4] }).Calculate(cd);
      want = (long double)p[0] * std::exp((long double)p[2] / lT) * ld_pow(lT / (long double)p[3], p[1]) * (1.0L + (long double)p[4] * lP);
      break;
    case 1:
      got = micm::TroeRateConstant({ .k0_A_ = p[0], .k0_B_ = p[1], .k0_C_ = p[2], .kinf_A_ = p[3], .kinf_B_ = p[4], .kinf_C_ = p[5], .Fc_ = p[6], .N_ = p[7] }).Calculate(cd);
      want = troe_like(true);
      break;
    case 2:
      got = micm::TernaryChemicalActivationRateConstant({ .k0_A_ = p[0], .k0_B_ = p[1], .k0_C_ = p[2], .kinf_A_ = p[3], .kinf_B_ = p[4], .kinf_C_ = p[5], .Fc_ = p[6], .N_ = p[7] }).Calculate(cd);
      want = troe_like(false);
      break;
    case 3:
      got = micm::TunnelingRateConstant({ .A_ = p[0], .B_ = p[1], .C_ = p[2] }).Calculate(cd);
      want = (long double)p[0] * std::exp(-(long double)p[1] / lT + (long double)p[2] / (lT * lT * lT));
      break;
    case 4:
    {
      micm::BranchedRateConstantParameters bp;
      bp.branch_ = p[4] != 0 ? micm::BranchedRateConstantParameters::Branch::Nitrate : micm::BranchedRateConstantParameters::Branch::Alkoxy;
      bp.X_ = p[0];
      bp.Y_ = p[1];
      bp.a0_ = p[2];
      bp.n_ = (int)p[3];
      got = micm::BranchedRateConstant(bp).Calculate(cd);
      const long double NA = 6.02214076e23L;
      auto Afun = [&](long double t, long double m) -> long double
      {
        long double k0 = 2.0e-22L * NA * 1.0e-6L * std::exp((long double)(int)p[3]);
        long double a = k0 * m;
        long double b = 0.43L * ld_pow(t / 298.0L, -8.0L);
        long double lg = std::log10(a / b);
        return a / (1.0L + a / b) * ld_pow(0.41L, 1.0L / (1.0L + lg * lg));
      };
      long double z = Afun(293.0L, 2.45e19L / NA * 1.0e6L) * (1.0L - (long double)p[2]) / (long double)p[2];
      long double pre = (long double)p[0] * std::exp(-(long double)p[1] / lT);
      long double At = Afun(lT, lM);
      want = p[4] != 0 ? pre * (At / (At + z)) : pre * (z / (z + At));
      break;
    }
    case 5:
    {
      std::vector<double> cp{ p[1] };
      got = micm::UserDefinedRateConstant({ .label_ = "u", .scaling_factor_ = p[0] }).Calculate(cd, cp.begin());
      want = (long double)p[0] * (long double)p[1];
      break;
    }
    case 6:
    {
      micm::Species sp("X", std::map<std::string, double>{ { "molecular weight [kg mol-1]", p[2] }, { "diffusion coefficient [m2 s-1]", p[1] } });
      std::vector<double> cp{ p[3], p[4] };
      got = micm::SurfaceRateConstant({ .label_ = "s", .species_ = sp, .reaction_probability_ = p[0] }).Calculate(cd, cp.begin());
      const long double R = 8.31446261815324L, PI = 3.14159265358979323846264338327950288L;
      long double v = std::sqrt(8.0L * R / (PI * (long double)p[2]) * lT);
      want = 4.0L * (long double)p[4] * PI * (long double)p[3] * (long double)p[3] /
             ((long double)p[3] / (long double)p[1] + 4.0L / (v * (long double)p[0]));
      break;
    }
    default: out.tok("BAD_TYPE"); return;
  }
  out.tok("type=" + std::to_string(type));
  const long double err = std::fabs((long double)got - want);
  if (!(err <= 1e-11L * std::fabs(want) + 1e-300L) && !(std::isnan(got) && std::isnan((double)want)))
    out.tok("ORACLE_RATE_CONSTANT_NOT_THE_DOCUMENTED_FORMULA");
}

int main()
{
  return vio::run({ { "ratec", fam_ratec }, { "ratef", fam_ratef } });
}
