// drv_rateconst.cpp — family "ratec": Solver::CalculateRateConstants through the public API with
// probe rate constants (0..3 custom parameters each) mixed with UserDefined and Arrhenius ones,
// parameterised reactants, per-cell conditions; every value an exact small integer / dyadic.
#include "common/caseio.hpp"

#include <micm/process/arrhenius_rate_constant.hpp>
#include <micm/process/user_defined_rate_constant.hpp>
#include <micm/solver/rosenbrock.hpp>
#include <micm/solver/solver_builder.hpp>

using vio::Out;
using vio::Toks;

// a rate constant that encodes what it was given: its id, the cell's conditions and its own parameters
class ProbeRateConstant : public micm::RateConstant
{
 public:
  int id_;
  std::size_t size_;
  ProbeRateConstant(int id, std::size_t size)
      : id_(id),
        size_(size)
  {
  }
  std::unique_ptr<micm::RateConstant> Clone() const override
  {
    return std::unique_ptr<micm::RateConstant>{ new ProbeRateConstant{ *this } };
  }
  std::vector<std::string> CustomParameters() const override
  {
    std::vector<std::string> l;
    for (std::size_t i = 0; i < size_; ++i)
      l.push_back("p" + std::to_string(id_) + "." + std::to_string(i));
    return l;
  }
  std::size_t SizeCustomParameters() const override
  {
    return size_;
  }
  double Calculate(const micm::Conditions& c) const override
  {
    return -1;
  }
  double Calculate(const micm::Conditions& c, std::vector<double>::const_iterator p) const override
  {
    double v = 1000000.0 * id_ + 1000.0 * c.temperature_ + 7.0 * c.pressure_;
    for (std::size_t i = 0; i < size_; ++i)
      v += (double)(i + 1) * p[i];
    return v;
  }
};

struct PSpec
{
  int kind;      // 0 probe, 1 user-defined (scaling 1/2), 2 Arrhenius (A = 3 + id)
  int size;      // number of custom parameters
  int nthird;    // number of parameterised reactants (each contributes a factor T)
};

template<class DM, class SM>
static void ratec_case(Toks& tk, Out& out, std::size_t ncells)
{
  std::size_t nproc = tk.i();
  std::vector<PSpec> ps(nproc);
  std::size_t nparams = 0;
  for (auto& p : ps)
  {
    p.kind = (int)tk.i();
    p.size = (int)tk.i();
    p.nthird = (int)tk.i();
    nparams += p.size;
  }
  int by_label = (int)tk.i();
  std::vector<long long> T = tk.ints(ncells), P = tk.ints(ncells);
  std::vector<long long> vals = tk.ints(ncells * nparams);  // [cell][column]

  auto a = micm::Species("A");
  auto b = micm::Species("B");
  auto m = micm::Species("M");
  m.parameterize_ = [](const micm::Conditions& c) { return c.temperature_; };
  micm::Phase gas{ std::vector<micm::Species>{ a, b, m } };
  std::vector<micm::Process> procs;
  std::vector<std::string> labels;
  for (std::size_t r = 0; r < nproc; ++r)
  {
    std::vector<micm::Species> reactants{ a };
    for (int k = 0; k < ps[r].nthird; ++k)
      reactants.push_back(m);
    std::vector<micm::Yield> products{ micm::Yields(b, 1) };
#define MK_PROCESS(RC) micm::Process(micm::Process::Create().SetReactants(reactants).SetProducts(products).SetRateConstant(RC).SetPhase(gas))
    if (ps[r].kind == 0)
    {
      ProbeRateConstant rcn((int)r, ps[r].size);
      for (auto& l : rcn.CustomParameters())
        labels.push_back(l);
      procs.push_back(MK_PROCESS(rcn));
    }
    else if (ps[r].kind == 1)
    {
      labels.push_back("u" + std::to_string(r));
      procs.push_back(MK_PROCESS(micm::UserDefinedRateConstant({ .label_ = "u" + std::to_string(r), .scaling_factor_ = 0.5 })));
    }
    else
      procs.push_back(MK_PROCESS(micm::ArrheniusRateConstant({ .A_ = 3.0 + r })));
  }
  auto solver = micm::CpuSolverBuilder<micm::RosenbrockSolverParameters, DM, SM>(
                    micm::RosenbrockSolverParameters::ThreeStageRosenbrockParameters())
                    .SetSystem(micm::System(micm::SystemParameters{ .gas_phase_ = gas }))
                    .SetReactions(procs)
                    .SetNumberOfGridCells((int)ncells)
                    .Build();
  auto state = solver.GetState();
  for (std::size_t c = 0; c < ncells; ++c)
  {
    state.conditions_[c].temperature_ = (double)T[c];
    state.conditions_[c].pressure_ = (double)P[c];
    state.conditions_[c].air_density_ = 1.0;
  }
  if (by_label)
  {
    // label by label, last column first
    for (std::size_t col = nparams; col-- > 0;)
    {
      std::vector<double> v(ncells);
      for (std::size_t c = 0; c < ncells; ++c)
        v[c] = (double)vals[c * nparams + col];
      state.SetCustomRateParameter(labels[col], v);
    }
  }
  else if (nparams > 0)
  {
    std::vector<std::vector<double>> mat(ncells, std::vector<double>(nparams));
    for (std::size_t c = 0; c < ncells; ++c)
      for (std::size_t col = 0; col < nparams; ++col)
        mat[c][col] = (double)vals[c * nparams + col];
    state.UnsafelySetCustomRateParameters(mat);
  }
  solver.CalculateRateConstants(state);
  out.qs(state.rate_constants_.AsVector());
  // oracle: reaction r of cell c sees its own parameters and the cell's conditions
  std::size_t off = 0;
  for (std::size_t r = 0; r < nproc; ++r)
  {
    for (std::size_t c = 0; c < ncells; ++c)
    {
      double v;
      if (ps[r].kind == 0)
      {
        v = 1000000.0 * r + 1000.0 * T[c] + 7.0 * P[c];
        for (int i = 0; i < ps[r].size; ++i)
          v += (double)(i + 1) * vals[c * nparams + off + i];
      }
      else if (ps[r].kind == 1)
        v = 0.5 * vals[c * nparams + off];
      else
        v = 3.0 + r;
      for (int k = 0; k < ps[r].nthird; ++k)
        v *= (double)T[c];
      if (state.rate_constants_[c][r] != v)
        out.tok("ORACLE_RATE_CONSTANT_NOT_OF_OWN_PARAMETERS");
    }
    off += ps[r].size;
  }
}

static void fam_ratec(Toks& tk, Out& out)
{
  long long L = tk.i();
  std::size_t ncells = tk.i();
  using CSR = micm::SparseMatrixStandardOrderingCompressedSparseRow;
  VERIF_DISPATCH_L(
      L,
      (ratec_case<micm::Matrix<double>, micm::SparseMatrix<double, CSR>>(tk, out, ncells)),
      (ratec_case<micm::VectorMatrix<double, LL>, micm::SparseMatrix<double, micm::SparseMatrixVectorOrderingCompressedSparseRow<LL>>>(
          tk, out, ncells)));
}

int main()
{
  return vio::run({ { "ratec", fam_ratec } });
}
