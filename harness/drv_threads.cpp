// drv_threads.cpp — family "thr": one solver shared by N threads, each with its own States
// (built with ThreadSanitizer: a data race aborts the case and is reported as UB:tsan:data-race).
//   thr kind L nthreads rounds seed
//     kind 0 Rosenbrock / 1 backward Euler ; L in {0, 3} (0: Matrix + separate LU, 3: VectorMatrix<3> + in-place LU)
// Every thread performs `rounds` times: GetState (every other round; otherwise the State is reused), set
// conditions / concentrations / custom rate parameters derived from (seed, thread, round),
// CalculateRateConstants, Solve.  The same calls are first executed serially on the same solver; every
// thread's concentrations, rate constants, solver state and statistics must equal the serial ones bit for bit.
#include "common/caseio.hpp"

#include <micm/process/arrhenius_rate_constant.hpp>
#include <micm/process/user_defined_rate_constant.hpp>
#include <micm/solver/backward_euler.hpp>
#include <micm/solver/rosenbrock.hpp>
#include <micm/solver/solver_builder.hpp>

#include <atomic>
#include <cstring>
#include <optional>
#include <thread>

using vio::Out;
using vio::Toks;

struct Record
{
  std::vector<double> values;
  std::vector<long long> ints;
  bool operator==(const Record& o) const
  {
    return ints == o.ints && values.size() == o.values.size() &&
           (values.empty() || std::memcmp(values.data(), o.values.data(), values.size() * sizeof(double)) == 0);
  }
};

template<class Builder, class Params>
static void thr_case(Toks& tk, Out& out, Params params, std::size_t ncells)
{
  using namespace micm;
  int nthreads = (int)tk.i();
  int rounds = (int)tk.i();
  long long seed = tk.i();
  auto a = Species("A");
  auto b = Species("B");
  auto c = Species("C");
  auto m = Species("M");
  m.parameterize_ = [](const Conditions& cd) { return cd.air_density_; };
  Phase gas{ std::vector<Species>{ a, b, c, m } };
  Process r1 = Process::Create().SetReactants({ a }).SetProducts({ Yields(b, 1) }).SetRateConstant(ArrheniusRateConstant({ .A_ = 0.5, .C_ = 30.0 })).SetPhase(gas);
  Process r2 = Process::Create().SetReactants({ b, b }).SetProducts({ Yields(c, 2) }).SetRateConstant(UserDefinedRateConstant({ .label_ = "k2" })).SetPhase(gas);
  Process r3 = Process::Create().SetReactants({ c, m }).SetProducts({ Yields(a, 0.5) }).SetRateConstant(ArrheniusRateConstant({ .A_ = 0.125 })).SetPhase(gas);
  auto solver = Builder(params)
                    .SetSystem(System(SystemParameters{ .gas_phase_ = gas }))
                    .SetReactions({ r1, r2, r3 })
                    .SetNumberOfGridCells((int)ncells)
                    .Build();
  using StateT = decltype(solver.GetState());
  // one State prepared before the threads start; threads with an odd number take their States as copies of it
  // (a copy is a State of its own: nothing may be shared with the original or with the other copies)
  const StateT prepared = solver.GetState();

  auto work = [&](int t, std::vector<Record>& recs)
  {
    std::optional<StateT> st;
    for (int r = 0; r < rounds; ++r)
    {
      if (r % 2 == 0)
      {
        if (t % 2 == 1)
          st.emplace(prepared);
        else
          st.emplace(solver.GetState());
      }
      unsigned long long h = (unsigned long long)seed * 1000003ull + (unsigned long long)t * 7919ull + (unsigned long long)r * 104729ull;
      auto next = [&]()
      {
        h = h * 6364136223846793005ull + 1442695040888963407ull;
        return (double)((h >> 33) % 1000) / 250.0;
      };
      for (std::size_t cell = 0; cell < ncells; ++cell)
      {
        st->conditions_[cell].temperature_ = 250.0 + 10.0 * next();
        st->conditions_[cell].pressure_ = 90000.0 + 1000.0 * next();
        st->conditions_[cell].air_density_ = 1.0 + next();
      }
      std::vector<double> va(ncells), vb(ncells), vc(ncells), vk(ncells);
      for (std::size_t cell = 0; cell < ncells; ++cell)
      {
        va[cell] = next();
        vb[cell] = next();
        vc[cell] = next();
        vk[cell] = 0.25 * next();
      }
      st->SetConcentration(a, va);
      st->SetConcentration(b, vb);
      st->SetConcentration(c, vc);
      st->SetCustomRateParameter("k2", vk);
      solver.CalculateRateConstants(*st);
      auto res = solver.Solve(0.5 + next(), *st);
      Record rec;
      rec.values = st->variables_.AsVector();
      for (double v : st->rate_constants_.AsVector())
        rec.values.push_back(v);
      rec.values.push_back(res.final_time_);
      rec.ints = { (long long)res.state_, (long long)res.stats_.number_of_steps_, (long long)res.stats_.accepted_,
                   (long long)res.stats_.rejected_, (long long)res.stats_.function_calls_, (long long)res.stats_.jacobian_updates_,
                   (long long)res.stats_.decompositions_, (long long)res.stats_.solves_ };
      recs.push_back(std::move(rec));
    }
  };

  std::vector<std::vector<Record>> serial(nthreads), conc(nthreads);
  for (int t = 0; t < nthreads; ++t)
    work(t, serial[t]);
  std::atomic<int> ready{ 0 };
  std::atomic<bool> go{ false };
  std::vector<std::thread> threads;
  for (int t = 0; t < nthreads; ++t)
    threads.emplace_back(
        [&, t]
        {
          ready.fetch_add(1);
          while (!go.load(std::memory_order_acquire))
            std::this_thread::yield();
          work(t, conc[t]);
        });
  while (ready.load() < nthreads)
    std::this_thread::yield();
  go.store(true, std::memory_order_release);
  for (auto& th : threads)
    th.join();
  std::size_t nconv = 0;
  bool same = true;
  for (int t = 0; t < nthreads; ++t)
  {
    if (serial[t].size() != conc[t].size())
      same = false;
    else
      for (std::size_t r = 0; r < serial[t].size(); ++r)
      {
        if (!(serial[t][r] == conc[t][r]))
          same = false;
        if (serial[t][r].ints[0] == (long long)SolverState::Converged)
          ++nconv;
      }
  }
  out.tok("threads=" + std::to_string(nthreads));
  out.tok("solves=" + std::to_string(nthreads * rounds));
  out.tok("converged=" + std::to_string(nconv));
  if (!same)
    out.tok("ORACLE_THREAD_RESULT_DIFFERS_FROM_SERIAL");
}

static void fam_thr(Toks& tk, Out& out)
{
  using namespace micm;
  int kind = (int)tk.i();
  int L = (int)tk.i();
  using CSR = SparseMatrixStandardOrderingCompressedSparseRow;
  using V3 = VectorMatrix<double, 3>;
  using SV3 = SparseMatrix<double, SparseMatrixVectorOrderingCompressedSparseRow<3>>;
  if (kind == 0 && L == 0)
    thr_case<CpuSolverBuilder<RosenbrockSolverParameters, Matrix<double>, SparseMatrix<double, CSR>>>(
        tk, out, RosenbrockSolverParameters::ThreeStageRosenbrockParameters(), 2);
  else if (kind == 0)
    thr_case<CpuSolverBuilderInPlace<RosenbrockSolverParameters, V3, SV3>>(tk, out, RosenbrockSolverParameters::FourStageRosenbrockParameters(), 4);
  else if (L == 0)
    thr_case<CpuSolverBuilder<BackwardEulerSolverParameters, Matrix<double>, SparseMatrix<double, CSR>>>(tk, out, BackwardEulerSolverParameters{}, 2);
  else
    thr_case<CpuSolverBuilderInPlace<BackwardEulerSolverParameters, V3, SV3>>(tk, out, BackwardEulerSolverParameters{}, 4);
}

int main()
{
  return vio::run({ { "thr", fam_thr } });
}
