// drv_integrators.cpp — families "rosmock", "bemock", "nerr", "isconv":
// the real AbstractRosenbrockSolver / BackwardEuler templates driven by scripted, recording
// policies (common/mocks.hpp) in an exact regime, and the real NormalizedError / IsConverged.
#include "common/caseio.hpp"

#include <cstring>
#include "common/mocks.hpp"
#include <cstdlib>

#include <micm/solver/backward_euler.hpp>
#include <micm/solver/backward_euler_solver_parameters.hpp>
#include <micm/solver/backward_euler_temporary_variables.hpp>
#include <micm/solver/linear_solver.hpp>
#include <micm/solver/linear_solver_in_place.hpp>
#include <micm/solver/lu_decomposition.hpp>
#include <micm/solver/rosenbrock.hpp>
#include <micm/solver/rosenbrock_solver_parameters.hpp>
#include <micm/solver/rosenbrock_temporary_variables.hpp>
#include <micm/solver/state.hpp>
#include <micm/util/matrix.hpp>
#include <micm/util/sparse_matrix.hpp>
#include <micm/util/sparse_matrix_standard_ordering.hpp>
#include <micm/util/sparse_matrix_vector_ordering.hpp>
#include <micm/util/vector_matrix.hpp>

using vio::Out;
using vio::Toks;

static double dy(Toks& tk)
{
  long long m = tk.i();
  long long e = tk.i();
  if (e == 9999)  // special values of a scripted error norm
    return m == 0 ? std::numeric_limits<double>::quiet_NaN() : std::numeric_limits<double>::infinity();
  return std::ldexp((double)m, (int)e);
}
static std::vector<double> dys(Toks& tk, std::size_t n)
{
  std::vector<double> v(n);
  for (auto& x : v)
    x = dy(tk);
  return v;
}

static const char* state_name(micm::SolverState s)
{
  switch (s)
  {
    case micm::SolverState::NotYetCalled: return "NotYetCalled";
    case micm::SolverState::Running: return "Running";
    case micm::SolverState::Converged: return "Converged";
    case micm::SolverState::ConvergenceExceededMaxSteps: return "ConvergenceExceededMaxSteps";
    case micm::SolverState::StepSizeTooSmall: return "StepSizeTooSmall";
    case micm::SolverState::RepeatedlySingularMatrix: return "RepeatedlySingularMatrix";
    case micm::SolverState::NaNDetected: return "NaNDetected";
    case micm::SolverState::InfDetected: return "InfDetected";
    case micm::SolverState::AcceptingUnconvergedIntegration: return "AcceptingUnconvergedIntegration";
  }
  return "?";
}

static void out_result(const micm::SolverResult& r, Out& out)
{
  out.tok(state_name(r.state_));
  out.q(r.final_time_);
  out.i((long long)r.stats_.function_calls_);
  out.i((long long)r.stats_.jacobian_updates_);
  out.i((long long)r.stats_.number_of_steps_);
  out.i((long long)r.stats_.accepted_);
  out.i((long long)r.stats_.rejected_);
  out.i((long long)r.stats_.decompositions_);
  out.i((long long)r.stats_.solves_);
}

// Rosenbrock solver whose error norm is scripted (the CRTP customisation point) and recorded
template<class R, class LS>
struct ScriptedRos : public micm::AbstractRosenbrockSolver<R, LS, ScriptedRos<R, LS>>
{
  std::shared_ptr<mocks::Shared> sh;
  ScriptedRos(LS&& ls, R&& r, auto& jac, std::size_t n, std::shared_ptr<mocks::Shared> s)
      : micm::AbstractRosenbrockSolver<R, LS, ScriptedRos<R, LS>>(std::move(ls), std::move(r), jac, n),
        sh(s)
  {
  }
  template<class DM>
  double NormalizedError(const DM& y, const DM& ynew, const DM& err, auto& state) const
  {
    sh->trace.tok("NE");
    mocks::dump_dense(y, sh->ncells, sh->nspec, sh->trace);
    mocks::dump_dense(ynew, sh->ncells, sh->nspec, sh->trace);
    mocks::dump_dense(err, sh->ncells, sh->nspec, sh->trace);
    double e = sh->errors[std::min(sh->error_calls, sh->errors.size() - 1)];
    ++sh->error_calls;
    sh->trace.q(e);
    mocks::Shared::Ev ev{ 'N', mocks::flat_dense(y, sh->ncells, sh->nspec), mocks::flat_dense(ynew, sh->ncells, sh->nspec),
                          mocks::flat_dense(err, sh->ncells, sh->nspec), e };
    sh->events.push_back(ev);
    return e;
  }
};

struct RosCase
{
  bool inplace;
  std::size_t ncells, nspec;
  micm::RosenbrockSolverParameters params = micm::RosenbrockSolverParameters::ThreeStageRosenbrockParameters();
  double time_step;
  std::vector<double> y0;
};

// ---- implementation-level oracle for the Rosenbrock run (does not use the Coq model) ----
//  * the matrix handed to Factor is -J(y) + alpha I with one alpha for all cells and species, and
//    alpha * gamma * H == 1 where H is recovered from the stage-1 right-hand side
//    rhs_1 = f_1 + (c_10 / H) K_0  (the H the stage formulas of that same attempt use);
//  * counters equal the numbers of operations the policies saw; time and status clauses of C06;
//  * step-size clauses of C07 that can be stated on the recovered H sequence.
static void ros_oracle(const RosCase& cs, const mocks::Shared& sh, const micm::SolverResult& r, Out& out)
{
  const std::size_t n = cs.nspec, nc = cs.ncells;
  auto negJ = [&](const std::vector<double>& y, std::size_t c, std::size_t i, std::size_t j)
  { return -(sh.P[i * n + j] + (i == j ? y[c * n + i] / 4.0 : 0.0)); };
  auto fval = [&](const std::vector<double>& y, std::size_t c, std::size_t s)
  {
    double acc = sh.q[s];
    for (std::size_t t = 0; t < n; ++t)
      acc += sh.P[s * n + t] * y[c * n + t];
    return acc;
  };
  // the arithmetic clauses below need the diagonal shift to be observable in binary64: skip them
  // (counted) when any recorded value is huge or non-finite
  bool tame = true;
  for (const auto& e : sh.events)
    for (const auto* v : { &e.a, &e.b, &e.c })
      for (double x : *v)
        if (!(std::fabs(x) < 1.0e9))
          tame = false;
  if (!tame)
    out.tok("NOTE_ORACLE_ARITHMETIC_SKIPPED_LARGE_VALUES");
  std::size_t nF = 0, nJ = 0, nL = 0, nS = 0, nN = 0;
  std::vector<double> jy;  // state at which the Jacobian was last evaluated
  std::vector<double> Hs;  // recovered H per attempt (0 = could not be recovered)
  std::vector<double> Halpha;  // H per attempt as 1 / (gamma * diagonal shift) (0 = not observable)
  std::vector<double> errs;
  const auto& ev = sh.events;
  for (std::size_t k = 0; k < ev.size(); ++k)
  {
    switch (ev[k].kind)
    {
      case 'F': ++nF; break;
      case 'J':
        ++nJ;
        jy = ev[k].a;
        // a step starts with a forcing evaluation followed by a Jacobian evaluation at the same state:
        // none may start once more than max_number_of_steps attempts have been made
        if (k > 0 && ev[k - 1].kind == 'F' && ev[k - 1].a == ev[k].a && nN > cs.params.max_number_of_steps_)
          out.tok("ORACLE_STEP_STARTED_AFTER_MAX_STEPS");
        break;
      case 'S': ++nS; break;
      case 'N':
        ++nN;
        errs.push_back(ev[k].value);
        break;
      case 'L':
      {
        ++nL;
        if (jy.empty())
        {
          out.tok("ORACLE_FACTOR_BEFORE_JACOBIAN");
          break;
        }
        const auto& M = ev[k].a;
        double alpha = M[0] - negJ(jy, 0, 0, 0);
        bool shape_ok = true;
        for (std::size_t c = 0; c < nc; ++c)
          for (std::size_t i = 0; i < n; ++i)
            for (std::size_t j = 0; j < n; ++j)
            {
              double expect = negJ(jy, c, i, j) + (i == j ? alpha : 0.0);
              double got = M[c * n * n + i * n + j];
              if (std::fabs(got - expect) > 1e-9 * std::max({ 1.0, std::fabs(got), std::fabs(expect), std::fabs(alpha) }))
                shape_ok = false;
            }
        if (!shape_ok && tame)
          out.tok("ORACLE_MATRIX_NOT_ALPHA_I_MINUS_J");
        // the step size as the diagonal shift shows it (usable when the values are too large for the clauses below)
        Halpha.push_back(shape_ok && std::isfinite(alpha) && alpha > 0 ? 1.0 / (cs.params.gamma_[0] * alpha) : 0.0);
        // recover H from stage 1 of this attempt
        double H = 0;
        if (cs.params.stages_ >= 2 && cs.params.c_[0] != 0.0)
        {
          // events after k: S(rhs0) [F(ynew1)] S(rhs1)
          std::size_t p = k + 1;
          if (p < ev.size() && ev[p].kind == 'S')
          {
            const auto& rhs0 = ev[p].a;
            ++p;
            std::vector<double> f1 = rhs0;
            if (p < ev.size() && ev[p].kind == 'F')
            {
              for (std::size_t c = 0; c < nc; ++c)
                for (std::size_t s = 0; s < n; ++s)
                  f1[c * n + s] = fval(ev[p].a, c, s);
              ++p;
            }
            if (p < ev.size() && ev[p].kind == 'S')
            {
              const auto& rhs1 = ev[p].a;
              for (std::size_t idx = 0; idx < nc * n && H == 0; ++idx)
              {
                std::size_t c = idx / n, s = idx % n;
                double k0 = rhs0[idx] / 2.0 + M[c * n * n + s * n + s] / 64.0;
                double diff = rhs1[idx] - f1[idx];
                if (k0 != 0.0 && diff != 0.0)
                  H = cs.params.c_[0] * k0 / diff;
              }
            }
          }
        }
        Hs.push_back(H);
        if (std::getenv("VERIF_DEBUG"))
          std::fprintf(stderr, "LF alpha=%.17g H=%.17g gamma=%g c10=%g prod=%.17g shape=%d\n", alpha, H, cs.params.gamma_[0], cs.params.c_[0], alpha * cs.params.gamma_[0] * H, (int)shape_ok);
        // tolerance: the recovered H carries the rounding of a few products when values are large
        if (tame && H != 0 && shape_ok && std::fabs(alpha * cs.params.gamma_[0] * H - 1.0) > 1e-9)
          out.tok("ORACLE_DIAGONAL_SHIFT_NOT_1_OVER_GAMMA_H");
        break;
      }
    }
  }
  // ---- C06 clauses ----
  if (r.stats_.function_calls_ != nF || r.stats_.jacobian_updates_ != nJ || r.stats_.decompositions_ != nL ||
      r.stats_.solves_ != nS || r.stats_.number_of_steps_ != nN)
    out.tok("ORACLE_COUNTERS_DO_NOT_MATCH_OPERATIONS");
  if (r.stats_.rejected_ + r.stats_.accepted_ > r.stats_.number_of_steps_)
    out.tok("ORACLE_REJECTED_EXCEEDS_UNACCEPTED_ATTEMPTS");
  if (!(r.final_time_ >= 0.0) || !(r.final_time_ <= cs.time_step))
    out.tok("ORACLE_FINAL_TIME_OUT_OF_RANGE");
  if (r.state_ == micm::SolverState::Converged)
  {
    // the whole interval must have been integrated (a few ulp)
    double tol = 8 * std::numeric_limits<double>::epsilon() * cs.time_step;
    if (std::fabs(r.final_time_ - cs.time_step) > tol)
    {
      // discriminating features for the known finding: the loop guard adds the absolute round_off
      const bool below = (cs.time_step - r.final_time_) < cs.params.round_off_ * (1 + 1e-9) && r.final_time_ <= cs.time_step;
      if (r.stats_.number_of_steps_ == 0)
        out.tok(below ? "ORACLE_CONVERGED_WITHOUT_PROGRESS:time_step_not_above_round_off" : "ORACLE_CONVERGED_WITHOUT_PROGRESS");
      else
        out.tok(below ? "ORACLE_CONVERGED_BEFORE_END_OF_INTERVAL:remainder_below_round_off" : "ORACLE_CONVERGED_BEFORE_END_OF_INTERVAL");
    }
  }
  // ---- C10: the first attempt whose error norm is NaN / Inf ends the Solve with that status ----
  for (std::size_t k = 0; k < errs.size(); ++k)
    if (!std::isfinite(errs[k]))
    {
      const bool reported = std::isnan(errs[k]) ? r.state_ == micm::SolverState::NaNDetected : r.state_ == micm::SolverState::InfDetected;
      if (!reported || k + 1 != errs.size())
        out.tok("ORACLE_CONVERGED_WITH_NONFINITE:error_norm_not_reported");
      break;
    }
  // sub-microsecond problems: the diagonal shift is huge, the arithmetic clauses are skipped, but h_max still binds
  if (!tame)
  {
    const double h_max = cs.params.h_max_ == 0.0 ? cs.time_step : std::min(cs.time_step, cs.params.h_max_);
    for (double h : Halpha)
      if (h > h_max * (1 + 1e-6) && cs.params.h_min_ <= h_max)
      {
        out.tok(h_max <= 10 * cs.params.round_off_ ? "ORACLE_STEP_EXCEEDS_H_MAX:h_max_not_above_10_round_off" : "ORACLE_STEP_EXCEEDS_H_MAX");
        break;
      }
  }
  // accepted attempts and their H
  bool all_h = true;
  for (double h : Hs)
    if (h == 0)
      all_h = false;
  if (tame && all_h && Hs.size() == errs.size() && r.state_ != micm::SolverState::NaNDetected &&
      r.state_ != micm::SolverState::InfDetected)
  {
    double t = 0;
    std::size_t acc = 0;
    const double h_max = cs.params.h_max_ == 0.0 ? cs.time_step : std::min(cs.time_step, cs.params.h_max_);
    bool rej_last = false, rej_more = false;
    for (std::size_t k = 0; k < Hs.size(); ++k)
    {
      const double tol = 1e-9;
      bool ok = (errs[k] < 1) || (Hs[k] < cs.params.h_min_ * (1 - tol));
      if (Hs[k] > h_max * (1 + tol) && cs.params.h_min_ <= h_max)
        out.tok(h_max <= 10 * cs.params.round_off_ ? "ORACLE_STEP_EXCEEDS_H_MAX:h_max_not_above_10_round_off" : "ORACLE_STEP_EXCEEDS_H_MAX");
      if (Hs[k] > (cs.time_step - t) * (1 + tol) + 1e-300)
        out.tok("ORACLE_STEP_EXCEEDS_REMAINING_INTERVAL");
      if (k + 1 < Hs.size())
      {
        if (!ok && Hs[k + 1] > Hs[k] * (1 + tol))
          out.tok("ORACLE_GROWTH_AFTER_REJECTION");
        if (!ok && rej_more && std::fabs(Hs[k + 1] - Hs[k] * cs.params.rejection_factor_decrease_) > tol * Hs[k])
          out.tok("ORACLE_REPEATED_REJECTION_CUT");
        if (ok && rej_last && Hs[k + 1] > Hs[k] * (1 + tol))
          out.tok("ORACLE_GROWTH_RIGHT_AFTER_REJECTION");
        // the controller formula, wherever no clipping (h_min, h_max, remaining interval) and no fixed cut applies
        {
          const double ftol = 1e-7;
          const double fac = std::min(
              cs.params.factor_max_,
              std::max(cs.params.factor_min_, cs.params.safety_factor_ / std::pow(errs[k], 1.0 / cs.params.estimator_of_local_order_)));
          double raw = Hs[k] * fac;
          if (!ok && !rej_more)
          {
            if (std::fabs(Hs[k + 1] - raw) > ftol * Hs[k])
              out.tok("ORACLE_STEP_NOT_CONTROLLER_FORMULA");
          }
          else if (ok)
          {
            if (rej_last)
              raw = std::min(raw, Hs[k]);
            const double remaining = cs.time_step - (t + Hs[k]);
            if (raw > cs.params.h_min_ * (1 + ftol) && raw < h_max * (1 - ftol) && raw < remaining * (1 - ftol) &&
                std::fabs(Hs[k + 1] - raw) > ftol * std::max(raw, Hs[k]))
              out.tok("ORACLE_STEP_NOT_CONTROLLER_FORMULA");
          }
        }
      }
      if (ok)
      {
        t += Hs[k];
        ++acc;
        rej_last = rej_more = false;
      }
      else
      {
        rej_more = rej_last;
        rej_last = true;
      }
    }
    if (acc != r.stats_.accepted_)
      out.tok("ORACLE_ACCEPT_IFF_ERROR_BELOW_ONE_OR_H_BELOW_HMIN");
    if (std::fabs(t - r.final_time_) > 1e-9 * std::max<double>(t, (double)r.final_time_))
      out.tok("ORACLE_FINAL_TIME_NOT_SUM_OF_ACCEPTED_STEPS");
  }
}

template<class DM, class SM, bool InPlace>
static void ros_case(Toks& tk, Out& out, RosCase& cs)
{
  using LU = std::conditional_t<InPlace, micm::LuDecompositionMozartInPlace, micm::LuDecompositionDoolittle>;
  using LS = std::conditional_t<InPlace, mocks::MockLinIp<SM>, mocks::MockLinSep<SM>>;
  using StateT = micm::State<DM, SM, LU, SM, SM>;
  auto sh = std::make_shared<mocks::Shared>();
  sh->ncells = cs.ncells;
  sh->nspec = cs.nspec;
  sh->P = dys(tk, cs.nspec * cs.nspec);
  sh->q = dys(tk, cs.nspec);
  cs.y0 = dys(tk, cs.ncells * cs.nspec);
  std::size_t ne = tk.i();
  sh->errors = dys(tk, ne);

  micm::StateParameters sp;
  sp.number_of_grid_cells_ = cs.ncells;
  sp.number_of_species_ = cs.nspec;
  sp.number_of_rate_constants_ = 1;
  for (std::size_t s = 0; s < cs.nspec; ++s)
    sp.variable_names_.push_back("v" + std::to_string(s));
  for (std::size_t i = 0; i < cs.nspec; ++i)
    for (std::size_t j = 0; j < cs.nspec; ++j)
      sp.nonzero_jacobian_elements_.insert({ i, j });
  sp.absolute_tolerance_ = std::vector<double>(cs.nspec, 1.0);
  StateT prepared(sp);
  prepared.temporary_variables_ = std::make_unique<micm::RosenbrockTemporaryVariables<DM>>(sp, cs.params);
  for (std::size_t c = 0; c < cs.ncells; ++c)
    for (std::size_t s = 0; s < cs.nspec; ++s)
      prepared.variables_[c][s] = cs.y0[c * cs.nspec + s];
  // garbage in every scratch member: results must not depend on it
  for (auto& e : prepared.jacobian_.AsVector())
    e = 12345.0;
  auto* tmp = static_cast<micm::RosenbrockTemporaryVariables<DM>*>(prepared.temporary_variables_.get());
  for (auto& e : tmp->Ynew_.AsVector())
    e = -777.0;
  for (auto& e : tmp->Yerror_.AsVector())
    e = 555.0;
  for (auto& e : tmp->initial_forcing_.AsVector())
    e = 333.0;
  for (auto& k : tmp->K_)
    for (auto& e : k.AsVector())
      e = 999.0;

  // the State handed to Solve is a copy (odd cases) or a moved-to object (even cases) of the prepared one: States are
  // values, a copy or a move is as good as the original
  StateT state = ((cs.ncells + cs.nspec) % 2 == 1) ? StateT(prepared) : StateT(std::move(prepared));

  ScriptedRos<mocks::MockRates, LS> solver(LS{ sh }, mocks::MockRates{ sh }, state.jacobian_, cs.nspec, sh);
  auto result = solver.Solve(cs.time_step, state, cs.params);
  out_result(result, out);
  out.sep("Y");
  mocks::dump_dense(state.variables_, cs.ncells, cs.nspec, out);
  out.sep("TR");
  out.tok(sh->trace.s);
  while (!out.s.empty() && out.s.back() == ' ')
    out.s.pop_back();
  out.s += ' ';
  ros_oracle(cs, *sh, result, out);
}

static void fam_rosmock(Toks& tk, Out& out)
{
  RosCase cs;
  cs.inplace = tk.i() != 0;
  long long L = tk.i();
  cs.ncells = tk.i();
  cs.nspec = tk.i();
  auto& p = cs.params;
  p.stages_ = tk.i();
  for (int i = 0; i < 6; ++i)
    p.new_function_evaluation_[i] = tk.i() != 0;
  for (int i = 0; i < 15; ++i)
    p.a_[i] = dy(tk);
  for (int i = 0; i < 15; ++i)
    p.c_[i] = dy(tk);
  for (int i = 0; i < 6; ++i)
    p.m_[i] = dy(tk);
  for (int i = 0; i < 6; ++i)
    p.e_[i] = dy(tk);
  p.gamma_.fill(0);
  p.gamma_[0] = dy(tk);
  p.estimator_of_local_order_ = dy(tk);
  p.max_number_of_steps_ = tk.i();
  p.round_off_ = std::ldexp(1.0, -(int)tk.i());
  p.factor_min_ = dy(tk);
  p.factor_max_ = dy(tk);
  p.rejection_factor_decrease_ = dy(tk);
  p.safety_factor_ = dy(tk);
  p.h_min_ = dy(tk);
  p.h_max_ = dy(tk);
  p.h_start_ = dy(tk);
  cs.time_step = dy(tk);
  using CSR = micm::SparseMatrixStandardOrderingCompressedSparseRow;
  if (cs.inplace)
  {
    VERIF_DISPATCH_L(
        L,
        (ros_case<micm::Matrix<double>, micm::SparseMatrix<double, CSR>, true>(tk, out, cs)),
        (ros_case<micm::VectorMatrix<double, LL>, micm::SparseMatrix<double, micm::SparseMatrixVectorOrderingCompressedSparseRow<LL>>, true>(
            tk, out, cs)));
  }
  else
  {
    VERIF_DISPATCH_L(
        L,
        (ros_case<micm::Matrix<double>, micm::SparseMatrix<double, CSR>, false>(tk, out, cs)),
        (ros_case<micm::VectorMatrix<double, LL>, micm::SparseMatrix<double, micm::SparseMatrixVectorOrderingCompressedSparseRow<LL>>, false>(
            tk, out, cs)));
  }
}

// ---------------- backward Euler with scripted policies ----------------
template<class DM, class SM, bool InPlace>
static void be_case(Toks& tk, Out& out, std::size_t ncells, std::size_t nspec)
{
  using LU = std::conditional_t<InPlace, micm::LuDecompositionMozartInPlace, micm::LuDecompositionDoolittle>;
  using LS = std::conditional_t<InPlace, mocks::MockLinIp<SM>, mocks::MockLinSep<SM>>;
  using StateT = micm::State<DM, SM, LU, SM, SM>;
  micm::BackwardEulerSolverParameters params;
  params.h_start_ = dy(tk);
  params.max_number_of_steps_ = tk.i();
  std::size_t nred = tk.i();
  auto reds = dys(tk, nred);
  if (nred != params.time_step_reductions_.size())
    throw std::runtime_error("bemock expects 5 reductions");
  for (std::size_t i = 0; i < nred; ++i)
    params.time_step_reductions_[i] = reds[i];
  double time_step = dy(tk);
  auto sh = std::make_shared<mocks::Shared>();
  sh->ncells = ncells;
  sh->nspec = nspec;
  sh->P = dys(tk, nspec * nspec);
  sh->q = dys(tk, nspec);
  auto y0 = dys(tk, ncells * nspec);
  auto atol = dys(tk, nspec);
  double rtol = dy(tk);
  params.small_ = dy(tk);
  std::size_t nw = tk.i();
  sh->solve_scale = dys(tk, nw);

  micm::StateParameters sp;
  sp.number_of_grid_cells_ = ncells;
  sp.number_of_species_ = nspec;
  sp.number_of_rate_constants_ = 1;
  for (std::size_t s = 0; s < nspec; ++s)
    sp.variable_names_.push_back("v" + std::to_string(s));
  for (std::size_t i = 0; i < nspec; ++i)
    for (std::size_t j = 0; j < nspec; ++j)
      sp.nonzero_jacobian_elements_.insert({ i, j });
  sp.absolute_tolerance_ = atol;
  sp.relative_tolerance_ = rtol;
  StateT prepared(sp);
  prepared.temporary_variables_ = std::make_unique<micm::BackwardEulerTemporaryVariables<DM>>(sp);
  for (std::size_t c = 0; c < ncells; ++c)
    for (std::size_t s = 0; s < nspec; ++s)
      prepared.variables_[c][s] = y0[c * nspec + s];
  for (auto& e : prepared.jacobian_.AsVector())
    e = 12345.0;
  auto* tmp = static_cast<micm::BackwardEulerTemporaryVariables<DM>*>(prepared.temporary_variables_.get());
  for (auto& e : tmp->Yn_.AsVector())
    e = -777.0;
  for (auto& e : tmp->forcing_.AsVector())
    e = 555.0;
  // as for the Rosenbrock cases: the State solved is a copy (odd cases) or a moved-to object (even cases)
  StateT state = ((ncells + nspec) % 2 == 1) ? StateT(prepared) : StateT(std::move(prepared));
  micm::BackwardEuler<mocks::MockRates, LS> solver(LS{ sh }, mocks::MockRates{ sh }, state.jacobian_, nspec);
  auto result = solver.Solve(time_step, state, params);
  out_result(result, out);
  out.sep("Y");
  mocks::dump_dense(state.variables_, ncells, nspec, out);
  out.sep("TR");
  out.tok(sh->trace.s);
  while (!out.s.empty() && out.s.back() == ' ')
    out.s.pop_back();
  out.s += ' ';
  // ---- oracle: every iteration is a Newton iteration on y - yn - H f(y) with matrix I/H - J ----
  const std::size_t n = nspec;
  bool tame = true;
  for (const auto& e : sh->events)
    for (double x : e.a)
      if (!(std::fabs(x) < 1.0e9))
        tame = false;
  if (!tame)
    out.tok("NOTE_ORACLE_ARITHMETIC_SKIPPED_LARGE_VALUES");
  std::size_t nF = 0, nL = 0, nS = 0;
  std::vector<double> cur_y;
  for (std::size_t k = 0; k < sh->events.size(); ++k)
  {
    const auto& ev = sh->events[k];
    if (ev.kind == 'F')
    {
      ++nF;
      cur_y = ev.a;
    }
    if (ev.kind == 'S')
      ++nS;
    if (ev.kind == 'L')
    {
      ++nL;
      const auto& M = ev.a;
      double alpha = M[0] + (sh->P[0] + cur_y[0] / 4.0);
      bool ok = true;
      for (std::size_t c = 0; c < ncells; ++c)
        for (std::size_t i = 0; i < n; ++i)
          for (std::size_t j = 0; j < n; ++j)
          {
            double expect = -(sh->P[i * n + j] + (i == j ? cur_y[c * n + i] / 4.0 : 0.0)) + (i == j ? alpha : 0.0);
            double got = M[c * n * n + i * n + j];
            if (std::fabs(got - expect) > 1e-9 * std::max({ 1.0, std::fabs(got), std::fabs(expect), std::fabs(alpha) }))
              ok = false;
          }
      if (!ok && tame)
        out.tok("ORACLE_BE_MATRIX_NOT_I_OVER_H_MINUS_J");
      // the residual handed to the solver uses the same H: rhs = f(y) - (y - yn)/H ; yn unknown to the
      // harness only through the trace, so the check is on the first iteration of a step (y == yn): rhs == f(y)
    }
  }
  // ---- oracle: the step-size bookkeeping, replayed from what crossed the two policies ----
  // Every Factor shows the H in use (shift = 1/H); every Solve shows the Newton update; the convergence test is
  // the library's own IsConverged.  The H in the matrix must be the one the configured controller prescribes
  // (h_start clipped to the interval, reduction list after a failed step, doubling after two successes, never
  // past the end of the interval), and the time reported must be the sum of the H of the steps taken.
  if (tame)
  {
    std::vector<double> alphas;
    std::vector<const mocks::Shared::Ev*> fs, ss;
    for (const auto& ev : sh->events)
    {
      if (ev.kind == 'F')
        fs.push_back(&ev);
      if (ev.kind == 'S')
        ss.push_back(&ev);
      if (ev.kind == 'L')
        alphas.push_back(ev.a[0] + (sh->P[0] + fs.back()->a[0] / 4.0));
    }
    if (fs.size() == alphas.size() && ss.size() == alphas.size())
    {
      double Hc = params.h_start_ == 0.0 ? time_step : std::min(params.h_start_, time_step);
      double t = 0.0, t_matrix = 0.0;
      std::size_t it = 0, n_succ = 0, n_fail = 0;
      bool mismatch = false, done = false;
      std::vector<double> y_at_t;     // the iterate that ended the last step that advanced the time
      const std::size_t max_iter = params.max_number_of_steps_;
      for (std::size_t k = 0; k < alphas.size() && !done; ++k)
      {
        const double Hm = 1.0 / alphas[k];
        if (std::fabs(Hm - Hc) > 1e-9 * std::max(Hm, Hc))
          mismatch = true;
        // the iterate after this Newton update
        DM ynew(ncells, nspec, 0.0), delta(ncells, nspec, 0.0);
        for (std::size_t c = 0; c < ncells; ++c)
          for (std::size_t s2 = 0; s2 < nspec; ++s2)
          {
            delta[c][s2] = ss[k]->b[c * nspec + s2];
            ynew[c][s2] = std::max(0.0, fs[k]->a[c * nspec + s2] + ss[k]->b[c * nspec + s2]);
          }
        bool converged = false;
        if (it++ != 0)
          converged = micm::BackwardEuler<mocks::MockRates, LS>::IsConverged(
              params, delta, ynew, state.absolute_tolerance_, state.relative_tolerance_);
        if (!converged && it < max_iter)
          continue;
        // the step ends here
        it = 0;
        if (converged || n_fail >= params.time_step_reductions_.size())
          y_at_t = ynew.AsVector();
        if (!converged)
        {
          n_succ = 0;
          if (n_fail >= params.time_step_reductions_.size())
          {
            t += Hc;
            t_matrix += Hm;
            done = true;
          }
          else
            Hc *= params.time_step_reductions_[n_fail++];
        }
        else
        {
          t += Hc;
          t_matrix += Hm;
          if (++n_succ >= 2)
          {
            n_succ = 0;
            Hc *= 2.0;
          }
        }
        Hc = std::min(Hc, time_step - t);
      }
      // the State holds the solution at final_time_: the iterate that ended the last step that advanced the time
      if (!mismatch && !y_at_t.empty() &&
          (result.state_ == micm::SolverState::Converged || result.state_ == micm::SolverState::AcceptingUnconvergedIntegration))
      {
        bool same = true;
        DM ref(ncells, nspec, 0.0);
        ref.AsVector() = y_at_t;
        for (std::size_t c = 0; c < ncells; ++c)
          for (std::size_t s2 = 0; s2 < nspec; ++s2)
          {
            double a = state.variables_[c][s2], b = ref[c][s2];
            if (std::memcmp(&a, &b, sizeof(double)) != 0)
              same = false;
          }
        if (!same)
          out.tok("ORACLE_STATE_NOT_THE_SOLUTION_AT_FINAL_TIME");
      }
      if (mismatch)
        out.tok("ORACLE_BE_STEP_SIZE_IN_MATRIX_NOT_AS_CONFIGURED");
      else if (std::fabs(t_matrix - result.final_time_) > 1e-9 * std::max(1.0, time_step))
        out.tok("ORACLE_BE_TIME_ADVANCE_NOT_THE_H_IN_THE_MATRIX");
    }
  }
  if (result.stats_.function_calls_ != nF || result.stats_.jacobian_updates_ != nF || result.stats_.decompositions_ != nL ||
      result.stats_.solves_ != nS || result.stats_.number_of_steps_ != nF)
    out.tok("ORACLE_COUNTERS_DO_NOT_MATCH_OPERATIONS");
  if (!(result.final_time_ >= 0.0) || !(result.final_time_ <= time_step))
    out.tok("ORACLE_FINAL_TIME_OUT_OF_RANGE");
  if (result.state_ == micm::SolverState::Converged && result.final_time_ != time_step)
    out.tok("ORACLE_CONVERGED_BEFORE_END_OF_INTERVAL");
  // backward Euler always advances on a positive time step (an unconverged step is accepted once the reductions are
  // used up): a call that returns with no time integrated would make the documented continuation loop spin for ever
  if (time_step > 0.0 && !(result.final_time_ > 0.0))
    out.tok("ORACLE_NO_PROGRESS_ON_A_POSITIVE_TIME_STEP");
  for (std::size_t c = 0; c < ncells; ++c)
    for (std::size_t s = 0; s < nspec; ++s)
      if (state.variables_[c][s] < 0.0)
        out.tok("ORACLE_NEGATIVE_CONCENTRATION");
}

static void fam_bemock(Toks& tk, Out& out)
{
  bool inplace = tk.i() != 0;
  long long L = tk.i();
  std::size_t ncells = tk.i(), nspec = tk.i();
  using CSR = micm::SparseMatrixStandardOrderingCompressedSparseRow;
  if (inplace)
  {
    VERIF_DISPATCH_L(
        L,
        (be_case<micm::Matrix<double>, micm::SparseMatrix<double, CSR>, true>(tk, out, ncells, nspec)),
        (be_case<micm::VectorMatrix<double, LL>, micm::SparseMatrix<double, micm::SparseMatrixVectorOrderingCompressedSparseRow<LL>>, true>(
            tk, out, ncells, nspec)));
  }
  else
  {
    VERIF_DISPATCH_L(
        L,
        (be_case<micm::Matrix<double>, micm::SparseMatrix<double, CSR>, false>(tk, out, ncells, nspec)),
        (be_case<micm::VectorMatrix<double, LL>, micm::SparseMatrix<double, micm::SparseMatrixVectorOrderingCompressedSparseRow<LL>>, false>(
            tk, out, ncells, nspec)));
  }
}

// ---------------- the real NormalizedError / IsConverged on prepared data ----------------
template<class DM>
static DM storage_matrix(std::size_t nrow, std::size_t ncol, double pad, const std::vector<double>& vals)
{
  DM m(nrow, ncol, pad);
  for (auto& e : m.AsVector())
    e = pad;
  for (std::size_t r = 0; r < nrow; ++r)
    for (std::size_t c = 0; c < ncol; ++c)
      m[r][c] = vals[r * ncol + c];
  return m;
}

// What NormalizedError / IsConverged read of a State, with the scratch object a real State carries (so that a version of
// the routines that keeps something there still compiles and is observed)
struct FakeState
{
  std::vector<double> absolute_tolerance_;
  double relative_tolerance_;
  std::unique_ptr<micm::TemporaryVariables> temporary_variables_;
};

template<class DM>
static void nerr_case(Toks& tk, Out& out, std::size_t ncells, std::size_t nspec, double pad)
{
  FakeState st;
  st.absolute_tolerance_ = dys(tk, nspec);
  st.relative_tolerance_ = dy(tk);
  auto y = dys(tk, ncells * nspec), yn = dys(tk, ncells * nspec), er = dys(tk, ncells * nspec);
  DM Y = storage_matrix<DM>(ncells, nspec, pad, y), YN = storage_matrix<DM>(ncells, nspec, pad, yn),
     ER = storage_matrix<DM>(ncells, nspec, pad, er);
  int dummy = 0;
  micm::RosenbrockSolver<int, int> solver(1, 2, dummy, nspec);
  {
    micm::StateParameters sp;
    sp.number_of_grid_cells_ = ncells;
    sp.number_of_species_ = nspec;
    st.temporary_variables_ = std::make_unique<micm::RosenbrockTemporaryVariables<DM>>(sp, micm::RosenbrockSolverParameters::ThreeStageRosenbrockParameters());
  }
  {
    // an earlier evaluation on the same State with other tolerances must leave no trace (tolerances can be reset
    // between solves)
    auto real_atol = st.absolute_tolerance_;
    double real_rtol = st.relative_tolerance_;
    for (auto& a : st.absolute_tolerance_)
      a = a * 4.0 + 1.0;
    st.relative_tolerance_ = real_rtol * 2.0 + 0.5;
    (void)solver.NormalizedError(Y, YN, ER, st);
    st.absolute_tolerance_ = real_atol;
    st.relative_tolerance_ = real_rtol;
  }
  double e = solver.NormalizedError(Y, YN, ER, st);
  out.q(e);
  {
    // an error vector holding a NaN has a NaN norm (that is what makes the integrator report NaNDetected): it must
    // not be hidden by the floor at error_min
    DM ERN = ER;
    ERN[ncells - 1][nspec - 1] = std::numeric_limits<double>::quiet_NaN();
    double en = solver.NormalizedError(Y, YN, ERN, st);
    if (!std::isnan(en))
      out.tok("ORACLE_ERROR_NORM_HIDES_NAN");
  }
  // oracle: RMS over real cells and species of err / (atol_s + rtol * max(|y|, |ynew|)), floor 1e-10
  long double sum = 0;
  for (std::size_t c = 0; c < ncells; ++c)
    for (std::size_t s = 0; s < nspec; ++s)
    {
      long double sc = st.absolute_tolerance_[s] + st.relative_tolerance_ * std::max(std::fabs(y[c * nspec + s]), std::fabs(yn[c * nspec + s]));
      long double t = er[c * nspec + s] / sc;
      sum += t * t;
    }
  long double expect = std::max(std::sqrt(sum / (long double)(ncells * nspec)), (long double)1.0e-10);
  if (std::fabs((long double)e - expect) > 1e-12L * std::max((long double)1.0, expect))
    out.tok("ORACLE_ERROR_NORM_NOT_RMS");
}

static void fam_nerr(Toks& tk, Out& out)
{
  long long L = tk.i();
  std::size_t ncells = tk.i(), nspec = tk.i();
  double pad = dy(tk);
  VERIF_DISPATCH_L(
      L,
      (nerr_case<micm::Matrix<double>>(tk, out, ncells, nspec, pad)),
      (nerr_case<micm::VectorMatrix<double, LL>>(tk, out, ncells, nspec, pad)));
}

template<class DM>
static void isconv_case(Toks& tk, Out& out, std::size_t ncells, std::size_t nspec, double pad)
{
  auto atol = dys(tk, nspec);
  double rtol = dy(tk);
  micm::BackwardEulerSolverParameters params;
  params.small_ = dy(tk);
  auto rs = dys(tk, ncells * nspec), yn1 = dys(tk, ncells * nspec);
  DM R = storage_matrix<DM>(ncells, nspec, pad, rs), Y = storage_matrix<DM>(ncells, nspec, pad, yn1);
  bool conv = micm::BackwardEuler<int, int>::IsConverged(params, R, Y, atol, rtol);
  out.tok(conv ? "1" : "0");
  bool expect = true;
  for (std::size_t c = 0; c < ncells; ++c)
    for (std::size_t s = 0; s < nspec; ++s)
    {
      double a = std::fabs(rs[c * nspec + s]);
      if (a > params.small_ && a > atol[s] && a > rtol * std::fabs(yn1[c * nspec + s]))
        expect = false;
    }
  if (expect != conv)
    out.tok("ORACLE_ISCONVERGED");
}

static void fam_isconv(Toks& tk, Out& out)
{
  long long L = tk.i();
  std::size_t ncells = tk.i(), nspec = tk.i();
  double pad = dy(tk);
  VERIF_DISPATCH_L(
      L,
      (isconv_case<micm::Matrix<double>>(tk, out, ncells, nspec, pad)),
      (isconv_case<micm::VectorMatrix<double, LL>>(tk, out, ncells, nspec, pad)));
}

int main()
{
  return vio::run({ { "rosmock", fam_rosmock }, { "bemock", fam_bemock }, { "nerr", fam_nerr }, { "isconv", fam_isconv } });
}
