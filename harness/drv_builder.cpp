// drv_builder.cpp — family "spmap": the name -> index map and the variable names of a solver built by the real
// SolverBuilder for a mechanism given as case tokens, species listed in the order of the case, reordering on or off.
//   spmap L reorder <mech: vmap = (name, position in the listing) ...>
#include "common/caseio.hpp"
#include "common/mech.hpp"

#include <micm/solver/rosenbrock.hpp>
#include <micm/solver/solver_builder.hpp>
#include <micm/util/matrix.hpp>
#include <micm/util/sparse_matrix.hpp>
#include <micm/util/sparse_matrix_vector_ordering.hpp>
#include <micm/util/vector_matrix.hpp>

#include <algorithm>
#include <set>

template<class Builder>
static void spmap_case(Toks& tk, Out& out, bool reorder)
{
  using namespace micm;
  Mech m = read_mech(tk);
  std::vector<std::pair<std::size_t, long long>> listing;  // position, name
  for (auto& kv : m.imap)
    listing.emplace_back(kv.second, kv.first);
  std::sort(listing.begin(), listing.end());
  std::vector<Species> species;
  for (auto& p : listing)
    species.push_back(mk_species(p.second, false));
  // parameterised species used by the reactions are part of the phase, not of the state
  std::set<long long> params;
  for (auto& r : m.rx)
  {
    for (auto& q : r.reactants)
      if (q.second)
        params.insert(q.first);
    for (auto& q : r.products)
      if (std::get<1>(q))
        params.insert(std::get<0>(q));
  }
  for (auto pn : params)
    species.push_back(mk_species(pn, true));
  Phase gas{ species };
  try
  {
    auto solver = Builder(RosenbrockSolverParameters::ThreeStageRosenbrockParameters())
                      .SetSystem(System(SystemParameters{ .gas_phase_ = gas }))
                      .SetReactions(m.processes)
                      .SetIgnoreUnusedSpecies(true)
                      .SetReorderState(reorder)
                      .SetNumberOfGridCells(1)
                      .Build();
    auto state = solver.GetState();
    out.sep("M");
    for (auto& p : listing)
    {
      auto it = state.variable_map_.find("s" + std::to_string(p.second));
      out.i(it == state.variable_map_.end() ? -1 : (long long)it->second);
    }
    out.sep("N");
    for (auto& nm : state.variable_names_)
      out.tok(nm.size() > 1 && nm[0] == 's' ? nm.substr(1) : "?" + nm);
    // oracle: a bijection onto 0..n-1 that agrees with the names
    bool ok = state.variable_map_.size() == listing.size() && state.variable_names_.size() == listing.size();
    std::vector<int> seen(listing.size(), 0);
    for (auto& kv : state.variable_map_)
      if (kv.second >= listing.size() || seen[kv.second]++ || state.variable_names_[kv.second] != kv.first)
        ok = false;
    if (!ok)
      out.tok("ORACLE_SPECIES_MAP_NOT_A_BIJECTION");
  }
  catch (const std::system_error& e)
  {
    out.err(e.code().value());
  }
}

static void fam_spmap(Toks& tk, Out& out)
{
  long long L = tk.i();
  bool reorder = tk.i() != 0;
  using namespace micm;
  using SMs = SparseMatrix<double, SparseMatrixStandardOrdering>;
  switch (L)
  {
    case 0: spmap_case<CpuSolverBuilder<RosenbrockSolverParameters, Matrix<double>, SMs>>(tk, out, reorder); break;
    case 2:
      spmap_case<CpuSolverBuilder<RosenbrockSolverParameters, VectorMatrix<double, 2>, SparseMatrix<double, SparseMatrixVectorOrdering<2>>>>(tk, out, reorder);
      break;
    case 3:
      spmap_case<CpuSolverBuilder<RosenbrockSolverParameters, VectorMatrix<double, 3>, SparseMatrix<double, SparseMatrixVectorOrdering<3>>>>(tk, out, reorder);
      break;
    default: throw std::runtime_error("unsupported L");
  }
}

int main()
{
  return vio::run({ { "spmap", fam_spmap } });
}
