// drv_errors.cpp — family "err": every documented error condition injected at an arbitrary point of an
// otherwise valid build / set / solve history (ASan + UBSan build).
//   err kind L fault pos
// Output:  F:<what the faulty call did>  H:<what the history's own calls did>  and oracle tokens.
#include "common/caseio.hpp"

#include <micm/process/arrhenius_rate_constant.hpp>
#include <micm/process/surface_rate_constant.hpp>
#include <micm/process/user_defined_rate_constant.hpp>
#include <micm/solver/backward_euler.hpp>
#include <micm/solver/rosenbrock.hpp>
#include <micm/solver/solver_builder.hpp>

#include <cstring>
#include <optional>

using vio::Out;
using vio::Toks;

// the documented error of each injected condition, by the enumeration member the documentation names
static std::optional<std::error_code> documented(int fault)
{
  switch (fault)
  {
    case 1: return make_error_code(MicmSolverBuilderErrc::MissingChemicalSystem);
    case 2: return make_error_code(MicmSolverBuilderErrc::MissingReactions);
    case 3: return make_error_code(MicmSolverBuilderErrc::MissingChemicalSpecies);
    case 4: return make_error_code(MicmProcessSetErrc::ReactantDoesNotExist);
    case 5: return make_error_code(MicmProcessSetErrc::ProductDoesNotExist);
    case 6: return make_error_code(MicmSolverBuilderErrc::UnusedSpecies);
    case 7: return make_error_code(MicmStateErrc::UnknownSpecies);
    case 8:
    case 9: return make_error_code(MicmStateErrc::IncorrectNumberOfConcentrationValuesForMultiGridcellState);
    case 10: return make_error_code(MicmStateErrc::UnknownRateConstantParameter);
    case 11:
    case 12:
    case 24: return make_error_code(MicmStateErrc::IncorrectNumberOfCustomRateParameterValuesForMultiGridcellState);
    case 13: return make_error_code(MicmStateErrc::IncorrectNumberOfCustomRateParameterValues);
    case 14: return make_error_code(MicmProcessErrc::TooManyReactantsForSurfaceReaction);
    case 15: return make_error_code(MicmSpeciesErrc::PropertyNotFound);
    case 16:
    case 21:
    case 27: return make_error_code(MicmMatrixErrc::RowSizeMismatch);
    case 17:
    case 22: return make_error_code(MicmMatrixErrc::InvalidVector);
    case 18:
    case 23: return make_error_code(MicmMatrixErrc::ElementOutOfRange);
    case 19: return make_error_code(MicmMatrixErrc::ZeroElementAccess);
    case 20: return make_error_code(MicmMatrixErrc::MissingBlockIndex);
    case 28: return make_error_code(MicmSolverBuilderErrc::MissingReactions);
    default: return std::nullopt;   // 25, 26: valid configurations
  }
}

static std::error_code last_error;
static bool last_threw_system_error = false;

static std::string describe(const std::function<void()>& f)
{
  last_threw_system_error = false;
  last_error = std::error_code();
  try
  {
    f();
    return "NOERROR";
  }
  catch (const std::system_error& e)
  {
    last_threw_system_error = true;
    last_error = e.code();
    std::string cat = e.code().category().name();
    for (auto& ch : cat)
      if (ch == ' ')
        ch = '_';
    return "ERR:" + cat + ":" + std::to_string(e.code().value());
  }
  catch (const std::exception& e)
  {
    std::string w = e.what();
    for (auto& ch : w)
      if (ch == ' ')
        ch = '_';
    return "EXC:" + w;
  }
}

template<class Builder, class Params>
static void err_case(Toks& tk, Out& out, Params params)
{
  using namespace micm;
  int fault = (int)tk.i();
  int pos = (int)tk.i();
  auto a = Species("A");
  auto b = Species("B");
  auto c = Species("C");
  Phase gas{ std::vector<Species>{ a, b, c } };
  auto mk_process = [&](const std::vector<Species>& re, const std::vector<Yield>& pr, const std::string& label)
  {
    return Process(Process::Create().SetReactants(re).SetProducts(pr).SetRateConstant(UserDefinedRateConstant({ .label_ = label })).SetPhase(gas));
  };
  std::vector<Process> reactions{ mk_process({ a }, { Yields(b, 1) }, "k0"), mk_process({ b, b }, { Yields(c, 2) }, "k1") };
  const std::size_t ncells = 2;
  auto make_builder = [&]() { return Builder(params).SetNumberOfGridCells((int)ncells); };

  // the faulty call, on objects of its own or on the history's State
  auto inject = [&](auto& solver, auto& state) -> std::string
  {
    switch (fault)
    {
      case 1: return describe([&] { make_builder().SetReactions(reactions).Build(); });
      case 2: return describe([&] { make_builder().SetSystem(System(SystemParameters{ .gas_phase_ = gas })).Build(); });
      case 3:
        return describe(
            [&]
            {
              Phase empty{ std::vector<Species>{} };
              make_builder().SetSystem(System(SystemParameters{ .gas_phase_ = empty })).SetReactions(reactions).Build();
            });
      case 4:
        return describe(
            [&]
            {
              auto rx = reactions;
              rx.push_back(mk_process({ Species("Nope") }, { Yields(c, 1) }, "k2"));
              make_builder().SetSystem(System(SystemParameters{ .gas_phase_ = gas })).SetReactions(rx).Build();
            });
      case 5:
        return describe(
            [&]
            {
              auto rx = reactions;
              rx.push_back(mk_process({ a }, { Yields(Species("Nope"), 1) }, "k2"));
              make_builder().SetSystem(System(SystemParameters{ .gas_phase_ = gas })).SetReactions(rx).Build();
            });
      case 6:
        return describe(
            [&]
            {
              if (pos % 2 == 0)
              {
                Phase more{ std::vector<Species>{ a, b, c, Species("Unused") } };
                make_builder().SetSystem(System(SystemParameters{ .gas_phase_ = more })).SetReactions(reactions).SetIgnoreUnusedSpecies(false).Build();
              }
              else
              {
                // the reactions name as many species as the state holds, one of them a parameterised third body
                // that is no state variable: "Unused" is still unused
                Species m("M");
                m.parameterize_ = [](const Conditions& cd) { return cd.air_density_; };
                Phase more{ std::vector<Species>{ a, b, c, Species("Unused"), m } };
                auto rx = reactions;
                rx.push_back(Process(Process::Create().SetReactants({ a, m }).SetProducts({ Yields(b, 1) }).SetRateConstant(UserDefinedRateConstant({ .label_ = "k2" })).SetPhase(more)));
                make_builder().SetSystem(System(SystemParameters{ .gas_phase_ = more })).SetReactions(rx).SetIgnoreUnusedSpecies(false).Build();
              }
            });
      case 7: return describe([&] { state.SetConcentration(Species("Nope"), std::vector<double>{ 1.0, 2.0 }); });
      case 8:
        if (pos % 2 == 1)
          return describe(
              [&]
              {
                // a State with a single grid cell is no exception: two values for one cell are refused
                auto one_cell = Builder(params).SetSystem(System(SystemParameters{ .gas_phase_ = gas })).SetReactions(reactions).SetNumberOfGridCells(1).Build();
                auto st1 = one_cell.GetState();
                st1.SetConcentrations(std::unordered_map<std::string, std::vector<double>>{ { "A", { 1.0, 2.0 } } });
              });
        return describe([&] { state.SetConcentration(a, std::vector<double>{ 1.0, 2.0, 3.0 }); });
      case 9: return describe([&] { state.SetConcentration(a, 1.0); });
      case 10: return describe([&] { state.SetCustomRateParameter("nope", std::vector<double>{ 1.0, 2.0 }); });
      case 11: return describe([&] { state.SetCustomRateParameter("k0", std::vector<double>{ 1.0 }); });
      case 12: return describe([&] { state.UnsafelySetCustomRateParameters({ { 1.0, 2.0 } }); });
      case 13: return describe([&] { state.UnsafelySetCustomRateParameters({ { 1.0 }, { 2.0 } }); });
      case 14:
        return describe(
            [&]
            {
              auto as = Species("A", std::map<std::string, double>{ { "molecular weight [kg mol-1]", 0.025 },
                                                                       { "diffusion coefficient [m2 s-1]", 2.3e2 } });
              if (pos % 2 == 0)
              {
                Process p = Process::Create()
                                .SetReactants({ as, b })
                                .SetProducts({ Yields(c, 1) })
                                .SetRateConstant(SurfaceRateConstant({ .label_ = "surf", .species_ = as, .reaction_probability_ = 0.5 }))
                                .SetPhase(gas);
                (void)p;
              }
              else
              {
                // the same process described in another order: the rate constant first, the reactants afterwards,
                // and the reactants set a second time on the same builder
                Process p = Process::Create()
                                .SetRateConstant(SurfaceRateConstant({ .label_ = "surf", .species_ = as, .reaction_probability_ = 0.5 }))
                                .SetReactants({ as })
                                .SetProducts({ Yields(c, 1) })
                                .SetPhase(gas)
                                .SetReactants({ as, b });
                (void)p;
              }
            });
      case 15: return describe([&] { (void)a.template GetProperty<double>("no such property"); });
      case 16:
        return describe(
            [&]
            {
              Matrix<double> m(3, 4, 0.0);
              m[1] = std::vector<double>{ 1.0, 2.0 };
            });
      case 17:
        // ragged rows; in the second variant the row lengths add up to a full 3 x 2 table
        if (pos % 2 == 0)
          return describe([&] { Matrix<double> m(std::vector<std::vector<double>>{ { 1.0, 2.0 }, { 3.0 } }); (void)m; });
        return describe([&] { Matrix<double> m(std::vector<std::vector<double>>{ { 1.0, 2.0 }, { 3.0 }, { 4.0, 5.0, 6.0 } }); (void)m; });
      case 18: return describe([&] { (void)state.jacobian_.VectorIndex(0, 7, 0); });
      case 19:
        return describe(
            [&]
            {
              // (A, C) is structurally zero in this mechanism's Jacobian (and in its LU fill-in)
              std::size_t ia = state.variable_map_.at("A"), ic = state.variable_map_.at("C");
              (void)state.jacobian_.VectorIndex(0, ia, ic);
            });
      case 20: return describe([&] { (void)state.jacobian_.VectorIndex(0, 0); });
      case 21:
        return describe(
            [&]
            {
              VectorMatrix<double, 3> m(4, 3, 0.0);
              m[2] = std::vector<double>{ 1.0 };
            });
      case 22:
        if (pos % 3 == 2)   // the short row is the last one: it belongs to the trailing partial group of rows
          return describe([&] { VectorMatrix<double, 2> m(std::vector<std::vector<double>>{ { 1.0, 2.0 }, { 3.0, 4.0 }, { 5.0 } }); (void)m; });
        if (pos % 2 == 0)
          return describe([&] { VectorMatrix<double, 2> m(std::vector<std::vector<double>>{ { 1.0 }, { 2.0, 3.0 }, { 4.0 } }); (void)m; });
        return describe([&] { VectorMatrix<double, 2> m(std::vector<std::vector<double>>{ { 1.0, 2.0 }, { 3.0 }, { 4.0, 5.0, 6.0 } }); (void)m; });
      case 23: return describe([&] { (void)SparseMatrix<double>::Create(3).WithElement(1, 5); });
      case 24: return describe([&] { state.SetCustomRateParameter("k0", 1.0); });
      case 25:
        return describe(
            [&]
            {
              // a tolerance on a species of another phase must be honoured, not rejected
              auto d = Species("D");
              d.SetProperty("absolute tolerance", 1.0e-7);
              Phase aq{ std::vector<Species>{ d } };
              std::unordered_map<std::string, Phase> phases{ { "aqueous", aq } };
              auto s2 = make_builder().SetSystem(System(SystemParameters{ .gas_phase_ = gas, .phases_ = phases })).SetReactions(reactions).Build();
              auto st2 = s2.GetState();
              if (st2.absolute_tolerance_[st2.variable_map_.at("aqueous.D")] != 1.0e-7)
                throw std::runtime_error("tolerance of the other-phase species not honoured");
            });
      case 26:
        return describe(
            [&]
            {
              // a tolerance property on a parameterised species concerns no state variable
              auto m = Species("M");
              m.parameterize_ = [](const Conditions& cd) { return cd.air_density_; };
              m.SetProperty("absolute tolerance", 1.0e-7);
              Phase g2{ std::vector<Species>{ a, b, c, m } };
              make_builder().SetSystem(System(SystemParameters{ .gas_phase_ = g2 })).SetReactions(reactions).Build();
            });
      case 27:
        // ragged table: the first row has the right length, a later one is shorter
        return describe([&] { state.UnsafelySetCustomRateParameters({ { 1.0, 2.0 }, { 3.0 } }); });
      case 28:
        return describe(
            [&]
            {
              // a builder that is re-used: the reactions are set, then replaced by an empty list
              auto bld = make_builder();
              bld.SetSystem(System(SystemParameters{ .gas_phase_ = gas })).SetReactions(reactions);
              bld.SetReactions({});
              bld.Build();
            });
      default: return "UNKNOWN_FAULT";
    }
  };

  bool state_modified = false;
  auto run_history = [&](bool with_fault, std::string& fault_outcome, std::string& hist) -> std::vector<double>
  {
    auto solver = make_builder().SetSystem(System(SystemParameters{ .gas_phase_ = gas })).SetReactions(reactions).Build();
    auto state = solver.GetState();
    for (std::size_t cell = 0; cell < ncells; ++cell)
    {
      state.conditions_[cell].temperature_ = 300;
      state.conditions_[cell].pressure_ = 101325;
      state.conditions_[cell].air_density_ = 1;
    }
    std::vector<std::function<void()>> ops{
      [&] { state.SetConcentration(a, std::vector<double>{ 1.0, 0.5 }); },
      [&] { state.SetConcentration(b, std::vector<double>{ 0.25, 2.0 }); },
      [&] { state.SetCustomRateParameter("k0", std::vector<double>{ 0.5, 0.75 }); },
      [&] { state.SetCustomRateParameter("k1", std::vector<double>{ 0.125, 0.25 }); },
      [&] { solver.CalculateRateConstants(state); },
      [&] { auto r = solver.Solve(1.0, state); hist += r.state_ == SolverState::Converged ? "S" : "s"; },
      [&] { state.SetConcentration(c, std::vector<double>{ 3.0, 1.0 }); },
      [&] { auto r = solver.Solve(0.5, state); hist += r.state_ == SolverState::Converged ? "S" : "s"; },
    };
    for (std::size_t k = 0; k <= ops.size(); ++k)
    {
      if (with_fault && (int)k == pos)
      {
        std::vector<double> before = state.variables_.AsVector(), before_p = state.custom_rate_parameters_.AsVector();
        fault_outcome = inject(solver, state);
        {
          auto want = documented(fault);
          const bool ok = want.has_value() ? (last_threw_system_error && last_error == *want)
                                           : (fault_outcome == "NOERROR");
          if (!ok)
            fault_outcome += " ORACLE_NOT_THE_DOCUMENTED_ERROR";
        }
        if (before != state.variables_.AsVector() || before_p != state.custom_rate_parameters_.AsVector())
        {
          // allowed by the property (it asks for the documented error, no memory corruption and usable objects):
          // noted, and the bit-for-bit comparison with the fault-free history is then not applicable
          fault_outcome += " NOTE_REJECTED_CALL_MODIFIED_THE_STATE";
          state_modified = true;
        }
      }
      if (k < ops.size())
        ops[k]();
    }
    std::vector<double> res;
    for (std::size_t cell = 0; cell < ncells; ++cell)
      for (auto sp : { "A", "B", "C" })
        res.push_back(state.variables_[cell][state.variable_map_.at(sp)]);
    return res;
  };
  std::string f1, h1, f0, h0;
  auto with = run_history(true, f1, h1);
  auto without = run_history(false, f0, h0);
  out.tok("F:" + f1);
  out.tok("H:" + h1);
  // usable afterwards: the history's own calls behave as in the fault-free history; when the rejected call left the
  // State as it was, the results are bit-identical (anything else means the call damaged something unseen)
  bool finite = true;
  for (double v : with)
    if (!std::isfinite(v))
      finite = false;
  if (h1 != h0 || !finite || with.size() != without.size() ||
      (!state_modified && std::memcmp(with.data(), without.data(), with.size() * sizeof(double)) != 0))
    out.tok("ORACLE_OBJECTS_NOT_USABLE_AFTER_ERROR");
}

static void fam_err(Toks& tk, Out& out)
{
  using namespace micm;
  int kind = (int)tk.i();
  int L = (int)tk.i();
  using CSR = SparseMatrixStandardOrderingCompressedSparseRow;
  using V3 = VectorMatrix<double, 3>;
  using SV3 = SparseMatrix<double, SparseMatrixVectorOrderingCompressedSparseRow<3>>;
  if (kind == 0 && L == 0)
    err_case<CpuSolverBuilder<RosenbrockSolverParameters, Matrix<double>, SparseMatrix<double, CSR>>>(
        tk, out, RosenbrockSolverParameters::ThreeStageRosenbrockParameters());
  else if (kind == 0)
    err_case<CpuSolverBuilderInPlace<RosenbrockSolverParameters, V3, SV3>>(tk, out, RosenbrockSolverParameters::FourStageRosenbrockParameters());
  else if (L == 0)
    err_case<CpuSolverBuilder<BackwardEulerSolverParameters, Matrix<double>, SparseMatrix<double, CSR>>>(
        tk, out, BackwardEulerSolverParameters{});
  else
    err_case<CpuSolverBuilderInPlace<BackwardEulerSolverParameters, V3, SV3>>(tk, out, BackwardEulerSolverParameters{});
}

int main()
{
  return vio::run({ { "err", fam_err } });
}
