// drv_valsem.cpp — family "vsem": random sequences of copy / move / set / calculate / solve operations on
// States and Solvers obtained from the builder (built with ASan + UBSan: undefined behaviour aborts
// the case and is reported by the orchestrator as UB:<kind>).
//   vsem kind L nops { op args }*
//     kind 0 Rosenbrock / 1 backward Euler ; L in {0, 3}
//     ops: 0 get i          state[i] = solver.GetState()      (then loaded with data set #i)
//          1 copyc i j      state[i] = State(state[j])        copy construction
//          2 copya i j      state[i] = state[j]               copy assignment
//          3 movec i j      state[i] = State(std::move(state[j]))
//          4 movea i j      state[i] = std::move(state[j])
//          5 set i v        concentrations of state[i] := data set v
//          6 solve i        Solve(dt, state[i]) ; compared with the same problem on a fresh State
//          7 smove          solver = Solver(std::move(solver)) (move construction + move assignment)
//          8 psolve i t     Solve(dt, state[i], parameters) with another parameter set (t = 0: two-stage, 1: six-stage
//                           Rosenbrock; backward Euler: its default set); that set becomes the solver's
//          9 get2 i         state[i] = other_solver.GetState(): a solver of the same C++ type with one more grid cell
//                           (States of that shape can be copied, moved and set; `solver` does not solve them)
// Every solve is compared bit for bit with the same problem solved by a reference solver that is never moved
// (and is given the same parameter set whenever op 8 changes the solver's), on a fresh State of its own.
// A State slot that was never filled, or was moved from, is skipped by set / solve / copy (the model
// side does the same), so that every executed operation is legal C++ for a type with value semantics.
#include "common/caseio.hpp"

#include <micm/process/arrhenius_rate_constant.hpp>
#include <micm/solver/backward_euler.hpp>
#include <micm/solver/rosenbrock.hpp>
#include <micm/solver/solver_builder.hpp>

#include <cstring>
#include <optional>

using vio::Out;
using vio::Toks;

static bool bits_equal(double a, double b)
{
  return std::memcmp(&a, &b, sizeof(double)) == 0;
}

template<class Builder, class Params, class OtherKindBuilder, class OtherKindParams>
static void vsem_case(Toks& tk, Out& out, Params params, OtherKindParams other_kind_params)
{
  using namespace micm;
  auto a = Species("A");
  auto b = Species("B");
  auto c = Species("C");
  Phase gas{ std::vector<Species>{ a, b, c } };
  Process r1 = Process::Create().SetReactants({ a }).SetProducts({ Yields(b, 1) }).SetRateConstant(ArrheniusRateConstant({ .A_ = 0.5 })).SetPhase(gas);
  Process r2 = Process::Create().SetReactants({ b, b }).SetProducts({ Yields(c, 2) }).SetRateConstant(ArrheniusRateConstant({ .A_ = 0.25 })).SetPhase(gas);
  const std::size_t ncells = 2;
  auto make_solver_with = [&](const Params& ps, std::size_t cells)
  {
    return Builder(ps)
        .SetSystem(System(SystemParameters{ .gas_phase_ = gas }))
        .SetReactions({ r1, r2 })
        .SetNumberOfGridCells((int)cells)
        .Build();
  };
  auto make_solver = [&]() { return make_solver_with(params, ncells); };
  // a solver with another parameter set: the target of the move assignment in op 7 must forget its own
  auto other_params = [&]()
  {
    Params ps = params;
    if constexpr (std::is_same_v<Params, micm::RosenbrockSolverParameters>)
    {
      ps = micm::RosenbrockSolverParameters::SixStageDifferentialAlgebraicRosenbrockParameters();
      ps.h_start_ = 1.0e-3;
    }
    else
      ps.h_start_ = 0.25;
    return ps;
  };
  using SolverT0 = decltype(make_solver());
  // the solver in use lives on the heap and is replaced by op 7 through moves into a NEW object (another address:
  // nothing may identify a solver by where it lives); `solver` below always names the current one
  std::unique_ptr<SolverT0> solver_holder = std::make_unique<SolverT0>(make_solver());
  std::vector<std::unique_ptr<SolverT0>> retired;   // moved-from objects stay alive so that addresses are not reused
#define solver (*solver_holder)
  auto ref_solver = make_solver();               // never moved
  auto solver2 = make_solver_with(params, ncells + 1);
  // a solver of the other integrator for the same mechanism, layout and cell count: its States have the same C++ type
  // but carry the other integrator's scratch object
  auto other_kind_solver = OtherKindBuilder(other_kind_params)
                               .SetSystem(System(SystemParameters{ .gas_phase_ = gas }))
                               .SetReactions({ r1, r2 })
                               .SetNumberOfGridCells((int)ncells)
                               .Build();
  using SolverT = std::remove_reference_t<decltype(solver)>;
  using StateT = decltype(solver.GetState());
  std::vector<std::optional<StateT>> st(4);
  std::vector<bool> live(4, false);
  std::vector<int> shape(4, 0);                  // 0: the solver's dimensions, 1: solver2's
  auto load = [&](StateT& s, int v)
  {
    const std::size_t nc = s.variables_.NumRows();
    for (std::size_t cell = 0; cell < nc; ++cell)
    {
      s.conditions_[cell].temperature_ = 300;
      s.conditions_[cell].pressure_ = 101325;
      s.conditions_[cell].air_density_ = 1;
    }
    std::vector<double> va{ 1.0 + v, 0.5 * v, 0.75 }, vb{ 0.25 * v, 2.0, 1.5 }, vc{ 0.0, 1.0 * v, 0.125 };
    va.resize(nc);
    vb.resize(nc);
    vc.resize(nc);
    s.SetConcentration(a, va);
    s.SetConcentration(b, vb);
    s.SetConcentration(c, vc);
  };
  long long nops = tk.i();
  for (long long k = 0; k < nops; ++k)
  {
    int op = (int)tk.i();
    switch (op)
    {
      case 0:
      {
        int i = (int)tk.i();
        if (k % 2 == 0)
          st[i].emplace(solver.GetState());
        else
        {
          // the same value by another road: a State of the other integrator, then copy assignment of the solver's own
          // State onto it (nothing of the target's scratch may survive, whatever its dynamic type)
          st[i].emplace(other_kind_solver.GetState());
          const StateT own = solver.GetState();
          *st[i] = own;   // copy assignment (an lvalue source)
        }
        load(*st[i], i);
        live[i] = true;
        shape[i] = 0;
        out.tok("g");
        break;
      }
      case 1:
      case 2:
      case 3:
      case 4:
      {
        int i = (int)tk.i(), j = (int)tk.i();
        if (i == j || !live[j])
        {
          out.tok("-");
          break;
        }
        if (op == 1)
          st[i].emplace(StateT(*st[j]));
        else if (op == 3)
        {
          st[i].emplace(StateT(std::move(*st[j])));
          live[j] = false;
        }
        else if (op == 2)
        {
          if (!st[i].has_value())
            st[i].emplace(solver.GetState());
          *st[i] = *st[j];
        }
        else
        {
          if (!st[i].has_value())
            st[i].emplace(solver.GetState());
          *st[i] = std::move(*st[j]);
          live[j] = false;
        }
        live[i] = true;
        shape[i] = shape[j];
        out.tok(op == 1 ? "cc" : op == 2 ? "ca" : op == 3 ? "mc" : "ma");
        break;
      }
      case 5:
      {
        int i = (int)tk.i(), v = (int)tk.i();
        if (!live[i])
        {
          out.tok("-");
          break;
        }
        load(*st[i], v);
        out.tok("s");
        break;
      }
      case 6:
      {
        int i = (int)tk.i();
        if (!live[i] || shape[i] != 0)
        {
          out.tok("-");
          break;
        }
        // snapshots: the other States must not change; the result must equal that of a fresh State
        std::vector<std::vector<double>> before(4);
        for (int j = 0; j < 4; ++j)
          if (live[j] && j != i)
            before[j] = st[j]->variables_.AsVector();
        auto fresh = ref_solver.GetState();
        for (std::size_t cell = 0; cell < ncells; ++cell)
        {
          fresh.conditions_[cell] = st[i]->conditions_[cell];
          for (std::size_t s = 0; s < 3; ++s)
            fresh.variables_[cell][s] = st[i]->variables_[cell][s];
        }
        ref_solver.CalculateRateConstants(fresh);
        auto rf = ref_solver.Solve(1.0, fresh);
        solver.CalculateRateConstants(*st[i]);
        auto rs = solver.Solve(1.0, *st[i]);
        out.tok(rs.state_ == SolverState::Converged ? "S" : "s?");
        if (rf.state_ != rs.state_ || rf.stats_.number_of_steps_ != rs.stats_.number_of_steps_)
          out.tok("ORACLE_COPY_OR_MOVE_CHANGES_RESULT");
        for (std::size_t cell = 0; cell < ncells; ++cell)
          for (std::size_t s = 0; s < 3; ++s)
            if (!bits_equal(fresh.variables_[cell][s], st[i]->variables_[cell][s]))
              out.tok("ORACLE_COPY_OR_MOVE_CHANGES_RESULT");
        for (int j = 0; j < 4; ++j)
          if (live[j] && j != i && before[j] != st[j]->variables_.AsVector())
            out.tok("ORACLE_SOLVE_AFFECTS_ANOTHER_STATE");
        break;
      }
      case 8:
      {
        int i = (int)tk.i(), t = (int)tk.i();
        if (!live[i] || shape[i] != 0)
        {
          out.tok("-");
          break;
        }
        Params ps = params;
        if constexpr (std::is_same_v<Params, micm::RosenbrockSolverParameters>)
          ps = t == 0 ? micm::RosenbrockSolverParameters::TwoStageRosenbrockParameters()
                      : micm::RosenbrockSolverParameters::SixStageDifferentialAlgebraicRosenbrockParameters();
        else
          ps = Params{};
        solver.CalculateRateConstants(*st[i]);
        solver.Solve(1.0, *st[i], ps);
        {
          // the reference solver follows the change of parameter set
          auto dummy = ref_solver.GetState();
          load(dummy, 1);
          ref_solver.CalculateRateConstants(dummy);
          ref_solver.Solve(1.0, dummy, ps);
        }
        out.tok("P");
        break;
      }
      case 9:
      {
        int i = (int)tk.i();
        st[i].emplace(solver2.GetState());
        load(*st[i], i);
        live[i] = true;
        shape[i] = 1;
        out.tok("g");
        break;
      }
      case 7:
      {
        SolverT moved(std::move(solver));
        SolverT other = make_solver_with(other_params(), ncells + 2);  // other integrator parameters and another cell count
        other = std::move(moved);                 // move assignment onto it: nothing of its own may remain
        retired.push_back(std::move(solver_holder));
        solver_holder = std::make_unique<SolverT0>(std::move(other));   // move construction, at another address
        out.tok("M");
        break;
      }
      default: out.tok("?"); break;
    }
  }
}

#undef solver

static void fam_vsem(Toks& tk, Out& out)
{
  using namespace micm;
  int kind = (int)tk.i();
  int L = (int)tk.i();
  using CSR = SparseMatrixStandardOrderingCompressedSparseRow;
  using V3 = VectorMatrix<double, 3>;
  using SV3 = SparseMatrix<double, SparseMatrixVectorOrderingCompressedSparseRow<3>>;
  using RB = CpuSolverBuilder<RosenbrockSolverParameters, Matrix<double>, SparseMatrix<double, CSR>>;
  using RBV = CpuSolverBuilderInPlace<RosenbrockSolverParameters, V3, SV3>;
  using BB = CpuSolverBuilder<BackwardEulerSolverParameters, Matrix<double>, SparseMatrix<double, CSR>>;
  using BBV = CpuSolverBuilderInPlace<BackwardEulerSolverParameters, V3, SV3>;
  if (kind == 0 && L == 0)
    vsem_case<RB, RosenbrockSolverParameters, BB, BackwardEulerSolverParameters>(
        tk, out, RosenbrockSolverParameters::ThreeStageRosenbrockParameters(), BackwardEulerSolverParameters{});
  else if (kind == 0)
    vsem_case<RBV, RosenbrockSolverParameters, BBV, BackwardEulerSolverParameters>(
        tk, out, RosenbrockSolverParameters::FourStageRosenbrockParameters(), BackwardEulerSolverParameters{});
  else if (L == 0)
    vsem_case<BB, BackwardEulerSolverParameters, RB, RosenbrockSolverParameters>(
        tk, out, BackwardEulerSolverParameters{}, RosenbrockSolverParameters::ThreeStageRosenbrockParameters());
  else
    vsem_case<BBV, BackwardEulerSolverParameters, RBV, RosenbrockSolverParameters>(
        tk, out, BackwardEulerSolverParameters{}, RosenbrockSolverParameters::FourStageRosenbrockParameters());
}

int main()
{
  return vio::run({ { "vsem", fam_vsem } });
}
