// drv_solver_ros.cpp — family "slvr": the assembled Rosenbrock solver over the configuration cross product.
#define KIND_ROS 1
#include "common/solver_impl.hpp"
int main()
{
  return simpl::main_impl("slvr");
}
