// drv_jit.cpp — the LLVM-JIT backend against the CPU backend on exact inputs (built against the system LLVM).
//   jitforcing  L ncells nspec pad <mech> rc y f            (ncells <= L: one vector group)
//   jitjacobian L ncells nspec pad <mech> rc y
//   jitlu       L nb n np (r c)*np vals[nb*np] rhs[nb*n]    (LU for nb <= L; the linear solve needs nb == L)
//   jitsolver   L ncells nspec <mech> rc8[ncells*nrxn] y[ncells*nspec] tstep_m tstep_e nparams
// Outputs are printed exactly; the same quantities computed by the CPU classes on the same inputs are
// compared bit for bit (ORACLE_JIT_*).
#include "common/caseio.hpp"
#include "common/mech.hpp"

#include <micm/jit/process/jit_process_set.hpp>
#include <micm/jit/solver/jit_linear_solver.hpp>
#include <micm/jit/solver/jit_lu_decomposition.hpp>
#include <micm/jit/solver/jit_rosenbrock.hpp>
#include <micm/jit/solver/jit_solver_builder.hpp>
#include <micm/jit/solver/jit_solver_parameters.hpp>
#include <micm/solver/linear_solver.hpp>
#include <micm/solver/lu_decomposition_doolittle.hpp>
#include <micm/solver/rosenbrock.hpp>
#include <micm/solver/solver_builder.hpp>
#include <micm/util/jacobian.hpp>
#include <micm/util/sparse_matrix.hpp>
#include <micm/util/sparse_matrix_vector_ordering.hpp>
#include <micm/util/vector_matrix.hpp>

#include <cstring>

static bool same_bits(const std::vector<double>& a, const std::vector<double>& b)
{
  return a.size() == b.size() && (a.empty() || std::memcmp(a.data(), b.data(), a.size() * sizeof(double)) == 0);
}

static std::string describe_error(const std::system_error& e)
{
  std::string cat = e.code().category().name();
  for (auto& ch : cat)
    if (ch == ' ')
      ch = '_';
  return "ERR:" + cat + ":" + std::to_string(e.code().value());
}

// ------------------------------------------------------------------------------------------------
template<std::size_t L>
static void jitforcing_case(Toks& tk, Out& out, std::size_t ncells, std::size_t nspec, double pad)
{
  using M = micm::VectorMatrix<double, L>;
  Mech m = read_mech(tk);
  std::size_t nrxn = m.processes.size();
  auto rc = tk.ints(ncells * nrxn);
  auto y = tk.ints(ncells * nspec);
  auto f = tk.ints(ncells * nspec);
  std::unique_ptr<micm::JitProcessSet<L>> jps;
  std::unique_ptr<micm::ProcessSet> ps;
  try
  {
    // the object first holds the first reaction alone, then is move-assigned the whole mechanism: a JIT process set is
    // a value like the CPU one, nothing of what it held before may remain
    std::vector<micm::Process> first_only(m.processes.begin(), m.processes.begin() + std::min<std::size_t>(1, m.processes.size()));
    jps = std::make_unique<micm::JitProcessSet<L>>(first_only, m.vmap);
    *jps = micm::JitProcessSet<L>(m.processes, m.vmap);
    ps = std::make_unique<micm::ProcessSet>(m.processes, m.vmap);
  }
  catch (const std::system_error& e)
  {
    out.err(e.code().value());
    return;
  }
  M RC = to_matrix<M>(ncells, nrxn, pad, rc);
  M Y = to_matrix<M>(ncells, nspec, pad, y);
  M F = to_matrix<M>(ncells, nspec, pad, f);
  M Fc = F;
  M RC0 = RC, Y0 = Y;
  jps->AddForcingTerms(RC, Y, F);
  out.qs(F.AsVector());
  ps->AddForcingTerms(RC0, Y0, Fc);
  if (!same_bits(F.AsVector(), Fc.AsVector()))
    out.tok("ORACLE_JIT_FORCING_DIFFERS_FROM_CPU");
  if (!same_bits(RC.AsVector(), RC0.AsVector()) || !same_bits(Y.AsVector(), Y0.AsVector()))
    out.tok("ORACLE_JIT_INPUT_MODIFIED");
  if (!oracle_forcing(m, ncells, nspec, nrxn, rc, y, f, [&](std::size_t c, std::size_t s) { return (double)F[c][s]; }))
    out.tok("ORACLE_JIT_FORCING_NOT_MASS_ACTION");
}

template<std::size_t L>
static void jitjacobian_case(Toks& tk, Out& out, std::size_t ncells, std::size_t nspec, double pad)
{
  using M = micm::VectorMatrix<double, L>;
  using SM = micm::SparseMatrix<double, micm::SparseMatrixVectorOrdering<L>>;
  Mech m = read_mech(tk);
  std::size_t nrxn = m.processes.size();
  auto rc = tk.ints(ncells * nrxn);
  auto y = tk.ints(ncells * nspec);
  std::unique_ptr<micm::JitProcessSet<L>> jps;
  std::unique_ptr<micm::ProcessSet> ps;
  try
  {
    // the object first holds the first reaction alone, then is move-assigned the whole mechanism: a JIT process set is
    // a value like the CPU one, nothing of what it held before may remain
    std::vector<micm::Process> first_only(m.processes.begin(), m.processes.begin() + std::min<std::size_t>(1, m.processes.size()));
    jps = std::make_unique<micm::JitProcessSet<L>>(first_only, m.vmap);
    *jps = micm::JitProcessSet<L>(m.processes, m.vmap);
    ps = std::make_unique<micm::ProcessSet>(m.processes, m.vmap);
  }
  catch (const std::system_error& e)
  {
    out.err(e.code().value());
    return;
  }
  auto nz = jps->NonZeroJacobianElements();
  SM jac = micm::BuildJacobian<SM>(nz, ncells, nspec);
  try
  {
    // the generated function bakes the flat ids in: it must follow the last matrix given, a previous call with a
    // denser pattern must leave no trace
    {
      auto ob = SM::Create(nspec).SetNumberOfBlocks(ncells);
      for (std::size_t i = 0; i < nspec; ++i)
        for (std::size_t j = 0; j < nspec; ++j)
          ob = ob.WithElement(i, j);
      SM other(ob);
      jps->SetJacobianFlatIds(other);
    }
    jps->SetJacobianFlatIds(jac);
    ps->SetJacobianFlatIds(jac);
  }
  catch (const std::system_error& e)
  {
    out.err(e.code().value());
    return;
  }
  auto& d = jac.AsVector();
  for (std::size_t k = 0; k < d.size(); ++k)
    d[k] = (double)(k % 7);
  SM jacc = jac;
  M RC = to_matrix<M>(ncells, nrxn, pad, rc);
  M Y = to_matrix<M>(ncells, nspec, pad, y);
  jps->SubtractJacobianTerms(RC, Y, jac);
  ps->SubtractJacobianTerms(RC, Y, jacc);
  out.sep("J");
  out.qs(jac.AsVector());
  if (!same_bits(jac.AsVector(), jacc.AsVector()))
    out.tok("ORACLE_JIT_JACOBIAN_DIFFERS_FROM_CPU");
}

// ------------------------------------------------------------------------------------------------
template<std::size_t L>
static void jitlu_case(Toks& tk, Out& out)
{
  using M = micm::VectorMatrix<double, L>;
  using SM = micm::SparseMatrix<double, micm::SparseMatrixVectorOrdering<L>>;
  std::size_t nb = tk.i(), n = tk.i(), np = tk.i();
  std::vector<std::pair<std::size_t, std::size_t>> pairs;
  for (std::size_t k = 0; k < np; ++k)
  {
    std::size_t r = tk.i(), c = tk.i();
    pairs.emplace_back(r, c);
  }
  auto vals = tk.ints(nb * np);
  auto rhs = tk.ints(nb * n);
  auto builder = SM::Create(n).SetNumberOfBlocks(nb).InitialValue(0.0);
  for (auto& p : pairs)
    builder = builder.WithElement(p.first, p.second);
  SM A(builder);
  for (std::size_t b = 0; b < nb; ++b)
    for (std::size_t k = 0; k < np; ++k)
      A[b][pairs[k].first][pairs[k].second] = (double)vals[b * np + k];
  std::string outcome = "OK";
  try
  {
    micm::JitLuDecompositionDoolittle<L> jlu(A);
    micm::LuDecompositionDoolittle clu = micm::LuDecompositionDoolittle::Create<SM, SM, SM>(A);
    auto LU = micm::LuDecompositionDoolittle::GetLUMatrices<SM, SM, SM>(A, 1.0e300);
    auto LUc = LU;
    jlu.template Decompose<SM>(A, LU.first, LU.second);
    clu.template Decompose<SM>(A, LUc.first, LUc.second);
    out.sep("L");
    for (std::size_t b = 0; b < nb; ++b)
      for (std::size_t r = 0; r < n; ++r)
        for (std::size_t c = 0; c < n; ++c)
          if (!LU.first.IsZero(r, c))
            out.q(LU.first[b][r][c]);
    out.sep("U");
    for (std::size_t b = 0; b < nb; ++b)
      for (std::size_t r = 0; r < n; ++r)
        for (std::size_t c = 0; c < n; ++c)
          if (!LU.second.IsZero(r, c))
            out.q(LU.second[b][r][c]);
    bool same = true;
    for (std::size_t b = 0; b < nb; ++b)
      for (std::size_t r = 0; r < n; ++r)
        for (std::size_t c = 0; c < n; ++c)
        {
          if (!LU.first.IsZero(r, c) && std::memcmp(&LU.first[b][r][c], &LUc.first[b][r][c], sizeof(double)) != 0)
            same = false;
          if (!LU.second.IsZero(r, c) && std::memcmp(&LU.second[b][r][c], &LUc.second[b][r][c], sizeof(double)) != 0)
            same = false;
        }
    if (!same)
      out.tok("ORACLE_JIT_LU_DIFFERS_FROM_CPU");
  }
  catch (const std::system_error& e)
  {
    outcome = describe_error(e);
  }
  out.tok("LU:" + outcome);
  if (nb > L && outcome == "OK")
    out.tok("ORACLE_JIT_WRONG_CELL_COUNT_NOT_REJECTED");
  // the linear solver
  outcome = "OK";
  try
  {
    micm::JitLinearSolver<L, SM, micm::JitLuDecompositionDoolittle<L>> jls(A, 1.0e300);
    micm::LinearSolver<SM, micm::LuDecompositionDoolittle> cls(A, 1.0e300);
    auto LU = micm::LuDecompositionDoolittle::GetLUMatrices<SM, SM, SM>(A, 1.0e300);
    auto LUc = LU;
    SM Aj = A, Ac = A;
    jls.Factor(Aj, LU.first, LU.second);
    cls.Factor(Ac, LUc.first, LUc.second);
    M x(nb, n, 0.0), xc(nb, n, 0.0);
    for (std::size_t b = 0; b < nb; ++b)
      for (std::size_t i = 0; i < n; ++i)
        x[b][i] = xc[b][i] = (double)rhs[b * n + i];
    jls.template Solve<M>(x, LU.first, LU.second);
    cls.template Solve<M>(xc, LUc.first, LUc.second);
    out.sep("X");
    for (std::size_t b = 0; b < nb; ++b)
      for (std::size_t i = 0; i < n; ++i)
        out.q(x[b][i]);
    bool same = true;
    for (std::size_t b = 0; b < nb; ++b)
      for (std::size_t i = 0; i < n; ++i)
        if (std::memcmp(&x[b][i], &xc[b][i], sizeof(double)) != 0)
          same = false;
    if (!same)
      out.tok("ORACLE_JIT_LINEAR_SOLVE_DIFFERS_FROM_CPU");
    // Solve takes any pair of triangular factors, not only those Factor produces: the same system with the factors
    // rescaled to (L D)(D^-1 U), D a diagonal of powers of two (exact), so that L's diagonal is not 1
    {
      auto L2 = LUc.first;
      auto U2 = LUc.second;
      for (std::size_t b = 0; b < nb; ++b)
        for (std::size_t r = 0; r < n; ++r)
          for (std::size_t c = 0; c < n; ++c)
          {
            if (!L2.IsZero(r, c))
              L2[b][r][c] = L2[b][r][c] * std::ldexp(1.0, (int)(c % 3) - 1);
            if (!U2.IsZero(r, c))
              U2[b][r][c] = U2[b][r][c] * std::ldexp(1.0, 1 - (int)(r % 3));
          }
      M x2(nb, n, 0.0), xc2(nb, n, 0.0);
      for (std::size_t b = 0; b < nb; ++b)
        for (std::size_t i = 0; i < n; ++i)
          x2[b][i] = xc2[b][i] = (double)rhs[b * n + i];
      jls.template Solve<M>(x2, L2, U2);
      cls.template Solve<M>(xc2, L2, U2);
      bool same2 = true;
      for (std::size_t b = 0; b < nb; ++b)
        for (std::size_t i = 0; i < n; ++i)
          if (std::memcmp(&x2[b][i], &xc2[b][i], sizeof(double)) != 0)
            same2 = false;
      if (!same2)
        out.tok("ORACLE_JIT_LINEAR_SOLVE_DIFFERS_FROM_CPU:factors_with_non_unit_diagonal");
    }
  }
  catch (const std::system_error& e)
  {
    outcome = describe_error(e);
  }
  out.tok("LS:" + outcome);
  if (nb != L && outcome == "OK")
    out.tok("ORACLE_JIT_WRONG_CELL_COUNT_NOT_REJECTED");
}

// ------------------------------------------------------------------------------------------------
template<std::size_t L>
static void jitsolver_case(Toks& tk, Out& out, std::size_t ncells, std::size_t nspec)
{
  using namespace micm;
  using DM = VectorMatrix<double, L>;
  using SM = SparseMatrix<double, SparseMatrixVectorOrdering<L>>;
  Mech m = read_mech(tk);
  std::size_t nrxn = m.processes.size();
  auto rc = tk.ints(ncells * nrxn);
  auto y = tk.ints(ncells * nspec);
  long long ts_m = tk.i();
  long long ts_e = tk.i();
  double time_step = std::ldexp((double)ts_m, (int)ts_e);
  int which = (int)tk.i();
  // the system: every species of the name map, in index order
  std::vector<std::pair<std::size_t, std::string>> byidx;
  for (auto& kv : m.vmap)
    byidx.emplace_back(kv.second, kv.first);
  std::sort(byidx.begin(), byidx.end());
  std::vector<Species> species;
  for (auto& p : byidx)
    species.push_back(Species(p.second));
  Phase gas{ species };
  std::vector<Process> processes;
  for (std::size_t r = 0; r < nrxn; ++r)
  {
    std::vector<Species> reactants;
    std::vector<Yield> products;
    for (auto& q : m.rx[r].reactants)
      reactants.push_back(Species("s" + std::to_string(q.first)));
    for (auto& p : m.rx[r].products)
      products.push_back(Yields(Species("s" + std::to_string(std::get<0>(p))), std::get<2>(p)));
    processes.push_back(Process::Create()
                            .SetReactants(reactants)
                            .SetProducts(products)
                            .SetRateConstant(UserDefinedRateConstant({ .label_ = "r" + std::to_string(r) }))
                            .SetPhase(gas));
  }
  RosenbrockSolverParameters params = which == 0   ? RosenbrockSolverParameters::TwoStageRosenbrockParameters()
                                      : which == 1 ? RosenbrockSolverParameters::ThreeStageRosenbrockParameters()
                                      : which == 2 ? RosenbrockSolverParameters::FourStageRosenbrockParameters()
                                      : which == 3 ? RosenbrockSolverParameters::FourStageDifferentialAlgebraicRosenbrockParameters()
                                                   : RosenbrockSolverParameters::SixStageDifferentialAlgebraicRosenbrockParameters();
  // controls set one at a time (the others left at "not set"): the JIT parameter type must hand them on unchanged
  if (ts_m == 3)
    params.h_min_ = time_step / 8.0;
  else if (ts_m == 5)
    params.h_start_ = time_step / 4.0;
  auto load = [&](auto& state)
  {
    for (std::size_t c = 0; c < ncells; ++c)
    {
      state.conditions_[c].temperature_ = 280;
      state.conditions_[c].pressure_ = 100000;
      state.conditions_[c].air_density_ = 1;
      for (std::size_t s = 0; s < nspec; ++s)
        state.variables_[c][state.variable_map_.at(byidx[s].second)] = (double)y[c * nspec + s];
    }
    for (std::size_t r = 0; r < nrxn; ++r)
    {
      std::vector<double> v(ncells);
      for (std::size_t c = 0; c < ncells; ++c)
        v[c] = (double)rc[c * nrxn + r] / 8.0;
      state.SetCustomRateParameter("r" + std::to_string(r), v);
    }
  };
  // CPU reference: same layouts, the Doolittle decomposition the JIT mirrors
  auto cpu = CpuSolverBuilder<RosenbrockSolverParameters, DM, SM, LuDecompositionDoolittle>(params)
                 .SetSystem(System(SystemParameters{ .gas_phase_ = gas }))
                 .SetReactions(processes)
                 .SetIgnoreUnusedSpecies(true)
                 .SetReorderState(false)
                 .SetNumberOfGridCells((int)ncells)
                 .Build();
  auto cstate = cpu.GetState();
  load(cstate);
  cpu.CalculateRateConstants(cstate);
  auto cres = cpu.Solve(time_step, cstate);
  std::string outcome = "OK";
  try
  {
    auto jit = JitSolverBuilder<JitRosenbrockSolverParameters, L>(JitRosenbrockSolverParameters(params))
                   .SetSystem(System(SystemParameters{ .gas_phase_ = gas }))
                   .SetReactions(processes)
                   .SetIgnoreUnusedSpecies(true)
                   .SetReorderState(false)
                   .SetNumberOfGridCells((int)ncells)
                   .Build();
    auto jstate = jit.GetState();
    load(jstate);
    jit.CalculateRateConstants(jstate);
    auto jres = jit.Solve(time_step, jstate);
    bool same = jres.state_ == cres.state_ && jres.stats_.number_of_steps_ == cres.stats_.number_of_steps_ &&
                jres.stats_.accepted_ == cres.stats_.accepted_ && jres.stats_.rejected_ == cres.stats_.rejected_ &&
                jres.stats_.function_calls_ == cres.stats_.function_calls_ && jres.stats_.solves_ == cres.stats_.solves_ &&
                jres.stats_.decompositions_ == cres.stats_.decompositions_ &&
                std::memcmp(&jres.final_time_, &cres.final_time_, sizeof(double)) == 0;
    for (std::size_t c = 0; c < ncells && same; ++c)
      for (std::size_t s = 0; s < nspec && same; ++s)
      {
        double a = jstate.variables_[c][s], b = cstate.variables_[c][s];
        if (std::memcmp(&a, &b, sizeof(double)) != 0)
          same = false;
      }
    {
      std::string sname = SolverStateToString(jres.state_);
      for (auto& ch : sname)
        if (ch == ' ')
          ch = '_';
      out.tok("NOTE_state=" + sname);
    }
    out.tok("NOTE_steps=" + std::to_string(jres.stats_.number_of_steps_) + "_accepted=" + std::to_string(jres.stats_.accepted_));
    if (!same)
      out.tok("ORACLE_JIT_SOLVER_DIFFERS_FROM_CPU");
    // the generated diagonal-shift kernel handles exactly one group of L cells: a Jacobian of another block count must
    // be rejected at the call, as the CPU path would simply have handled it
    if (ncells == L)
    {
      auto b2 = SM::Create(nspec).SetNumberOfBlocks(2 * L).InitialValue(1.0);
      for (std::size_t i = 0; i < nspec; ++i)
        b2 = b2.WithElement(i, i);
      SM jac2(b2);
      auto diag = jac2.DiagonalIndices(0);
      bool rejected = false;
      try
      {
        jit.solver_.AlphaMinusJacobian(jac2, diag, 0.5);
      }
      catch (const std::system_error&)
      {
        rejected = true;
      }
      if (!rejected)
        out.tok("ORACLE_JIT_WRONG_CELL_COUNT_NOT_REJECTED:alpha_minus_jacobian");
    }
  }
  catch (const std::system_error& e)
  {
    outcome = describe_error(e);
  }
  out.tok("JIT:" + outcome);
  if (ncells != L && outcome == "OK")
    out.tok("ORACLE_JIT_WRONG_CELL_COUNT_NOT_REJECTED");
  if (ncells == L && outcome != "OK")
    out.tok("ORACLE_JIT_REJECTS_A_VALID_REQUEST");
}

#define JIT_DISPATCH(L, CALL)                     \
  switch (L)                                      \
  {                                               \
    case 1: { constexpr std::size_t LL = 1; CALL; break; } \
    case 2: { constexpr std::size_t LL = 2; CALL; break; } \
    case 3: { constexpr std::size_t LL = 3; CALL; break; } \
    case 4: { constexpr std::size_t LL = 4; CALL; break; } \
    default: out.tok("BAD_L"); break;             \
  }

static void fam_jitforcing(Toks& tk, Out& out)
{
  long long L = tk.i(), ncells = tk.i(), nspec = tk.i(), pad = tk.i();
  JIT_DISPATCH(L, (jitforcing_case<LL>(tk, out, ncells, nspec, (double)pad)));
}
static void fam_jitjacobian(Toks& tk, Out& out)
{
  long long L = tk.i(), ncells = tk.i(), nspec = tk.i(), pad = tk.i();
  JIT_DISPATCH(L, (jitjacobian_case<LL>(tk, out, ncells, nspec, (double)pad)));
}
static void fam_jitlu(Toks& tk, Out& out)
{
  long long L = tk.i();
  JIT_DISPATCH(L, (jitlu_case<LL>(tk, out)));
}
static void fam_jitsolver(Toks& tk, Out& out)
{
  long long L = tk.i(), ncells = tk.i(), nspec = tk.i();
  JIT_DISPATCH(L, (jitsolver_case<LL>(tk, out, ncells, nspec)));
}

int main()
{
  return vio::run({ { "jitforcing", fam_jitforcing }, { "jitjacobian", fam_jitjacobian }, { "jitlu", fam_jitlu }, { "jitsolver", fam_jitsolver } });
}
