// drv_process.cpp — families "forcing" and "jacobian": the real micm::ProcessSet on
// integer states / dyadic yields (every double operation exact).
#include "common/caseio.hpp"
#include "common/mech.hpp"

#include <micm/process/process.hpp>
#include <micm/process/process_set.hpp>
#include <micm/process/user_defined_rate_constant.hpp>
#include <micm/util/jacobian.hpp>
#include <micm/util/matrix.hpp>
#include <micm/util/sparse_matrix.hpp>
#include <micm/util/sparse_matrix_standard_ordering.hpp>
#include <micm/util/sparse_matrix_vector_ordering.hpp>
#include <micm/util/vector_matrix.hpp>

template<class M>
static void forcing_case(Toks& tk, Out& out, std::size_t ncells, std::size_t nspec, double pad)
{
  Mech m = read_mech(tk);
  std::size_t nrxn = m.processes.size();
  auto rc = tk.ints(ncells * nrxn);
  auto y = tk.ints(ncells * nspec);
  auto f = tk.ints(ncells * nspec);
  std::unique_ptr<micm::ProcessSet> ps;
  try
  {
    ps = std::make_unique<micm::ProcessSet>(m.processes, m.vmap);
  }
  catch (const std::system_error& e)
  {
    out.err(e.code().value());
    return;
  }
  M RC = to_matrix<M>(ncells, nrxn, pad, rc);
  M Y = to_matrix<M>(ncells, nspec, pad, y);
  M F = to_matrix<M>(ncells, nspec, pad, f);
  M RC0 = RC, Y0 = Y;
  ps->AddForcingTerms(RC, Y, F);
  out.qs(F.AsVector());
  if (RC.AsVector() != RC0.AsVector() || Y.AsVector() != Y0.AsVector())
    out.tok("ORACLE_INPUT_MODIFIED");
  if (!oracle_forcing(m, ncells, nspec, nrxn, rc, y, f, [&](std::size_t c, std::size_t s) { return (double)F[c][s]; }))
    out.tok("ORACLE_FORCING_NOT_MASS_ACTION");
  // grid cells are independent: every cell computed alone (a one-cell matrix of the same type) gives the same bits
  if (ncells > 1)
  {
    bool same = true;
    for (std::size_t c = 0; c < ncells && same; ++c)
    {
      std::vector<long long> rc1(rc.begin() + c * nrxn, rc.begin() + (c + 1) * nrxn);
      std::vector<long long> y1(y.begin() + c * nspec, y.begin() + (c + 1) * nspec);
      std::vector<long long> f1(f.begin() + c * nspec, f.begin() + (c + 1) * nspec);
      M RC1 = to_matrix<M>(1, nrxn, pad, rc1);
      M Y1 = to_matrix<M>(1, nspec, pad, y1);
      M F1 = to_matrix<M>(1, nspec, pad, f1);
      ps->AddForcingTerms(RC1, Y1, F1);
      for (std::size_t s = 0; s < nspec; ++s)
        if ((double)F1[0][s] != (double)F[c][s])
          same = false;
    }
    if (!same)
      out.tok("ORACLE_CELL_DEPENDS_ON_OTHER_CELLS");
  }
}

static void fam_forcing(Toks& tk, Out& out)
{
  long long L = tk.i(), ncells = tk.i(), nspec = tk.i(), pad = tk.i();
  VERIF_DISPATCH_L(
      L,
      (forcing_case<micm::Matrix<double>>(tk, out, ncells, nspec, (double)pad)),
      (forcing_case<micm::VectorMatrix<double, LL>>(tk, out, ncells, nspec, (double)pad)));
}

// ---- oracle for the Jacobian: exact derivative of the mass-action polynomial ----
// d/dy_i prod_{q in l} y_q = sum_{j : l_j = i} prod_{q in l without position j} y_q
template<class M, class SM>
static void jacobian_case(Toks& tk, Out& out, std::size_t ncells, std::size_t nspec, double pad)
{
  Mech m = read_mech(tk);
  std::size_t nrxn = m.processes.size();
  auto rc = tk.ints(ncells * nrxn);
  auto y = tk.ints(ncells * nspec);
  long long nextra = tk.i();
  std::vector<std::pair<std::size_t, std::size_t>> extra;
  for (long long k = 0; k < nextra; ++k)
  {
    auto r = tk.i();
    auto c = tk.i();
    extra.emplace_back(r, c);
  }
  std::unique_ptr<micm::ProcessSet> ps;
  try
  {
    ps = std::make_unique<micm::ProcessSet>(m.processes, m.vmap);
  }
  catch (const std::system_error& e)
  {
    out.err(e.code().value());
    return;
  }
  auto nz = ps->NonZeroJacobianElements();
  out.sep("NZ");
  for (auto& e : nz)
  {
    out.i((long long)e.first);
    out.i((long long)e.second);
  }
  // the matrix: BuildJacobian itself when there are no extra elements, the same builder calls otherwise
  // the matrix object first holds another structure (full, one more block) and is then assigned the Jacobian's:
  // a re-shaped matrix is as good as a freshly built one
  SM jac;
  {
    auto fb = SM::Create(nspec).SetNumberOfBlocks(ncells + 1);
    for (std::size_t i = 0; i < nspec; ++i)
      for (std::size_t j = 0; j < nspec; ++j)
        fb = fb.WithElement(i, j);
    jac = SM(fb);
  }
  if (extra.empty())
  {
    auto builder = SM::Create(nspec).SetNumberOfBlocks(ncells);
    for (auto& e : nz)
      builder = builder.WithElement(e.first, e.second);
    for (std::size_t i = 0; i < nspec; ++i)
      builder = builder.WithElement(i, i);
    jac = builder;   // assignment from a builder onto the existing matrix
    // BuildJacobian itself must give the same structure
    SM built = micm::BuildJacobian<SM>(nz, ncells, nspec);
    if (built.AsVector().size() != jac.AsVector().size())
      out.tok("ORACLE_BUILD_JACOBIAN_STRUCTURE_DIFFERS");
  }
  else
  {
    auto builder = SM::Create(nspec).SetNumberOfBlocks(ncells);
    for (auto& e : nz)
      builder = builder.WithElement(e.first, e.second);
    for (std::size_t i = 0; i < nspec; ++i)
      builder = builder.WithElement(i, i);
    for (auto& e : extra)
      builder = builder.WithElement(e.first, e.second);
    jac = SM(builder);
  }
  out.sep("FI");
  struct Probe : micm::ProcessSet
  {
    const std::vector<std::size_t>& ids() const
    {
      return jacobian_flat_ids_;
    }
  };
  try
  {
    // the flat ids are a function of the last matrix given: a previous call with another matrix (denser pattern,
    // other ordering, other block count) must leave no trace
    {
      using Other = micm::SparseMatrix<double, micm::SparseMatrixStandardOrderingCompressedSparseColumn>;
      auto ob = Other::Create(nspec).SetNumberOfBlocks(ncells + 1);
      for (std::size_t i = 0; i < nspec; ++i)
        for (std::size_t j = 0; j < nspec; ++j)
          ob = ob.WithElement(i, j);
      Other other(ob);
      ps->SetJacobianFlatIds(other);
    }
    ps->SetJacobianFlatIds(jac);
  }
  catch (const std::system_error& e)
  {
    out.err(e.code().value());
    return;
  }
  out.is(static_cast<const Probe*>(ps.get())->ids());
  auto& d = jac.AsVector();
  for (std::size_t k = 0; k < d.size(); ++k)
    d[k] = (double)(k % 7);
  SM jac0 = jac;
  M RC = to_matrix<M>(ncells, nrxn, pad, rc);
  M Y = to_matrix<M>(ncells, nspec, pad, y);
  ps->SubtractJacobianTerms(RC, Y, jac);
  out.sep("J");
  out.qs(jac.AsVector());
  // oracle
  bool ok = true;
  for (std::size_t c = 0; c < ncells && ok; ++c)
  {
    std::vector<std::vector<double>> D(nspec, std::vector<double>(nspec, 0.0));  // D[dep][ind] = d f_dep / d y_ind
    for (std::size_t r = 0; r < nrxn; ++r)
    {
      std::vector<std::size_t> l;
      for (auto& q : m.rx[r].reactants)
        if (!q.second)
          l.push_back(m.imap.at(q.first));
      for (std::size_t j = 0; j < l.size(); ++j)
      {
        double dr = (double)rc[c * nrxn + r];
        for (std::size_t k = 0; k < l.size(); ++k)
          if (k != j)
            dr *= (double)y[c * nspec + l[k]];
        std::size_t ind = l[j];
        for (auto s : l)
          D[s][ind] -= dr;
        for (auto& p : m.rx[r].products)
          if (!std::get<1>(p))
            D[m.imap.at(std::get<0>(p))][ind] += std::get<2>(p) * dr;
      }
    }
    for (std::size_t dep = 0; dep < nspec && ok; ++dep)
      for (std::size_t ind = 0; ind < nspec && ok; ++ind)
      {
        if (jac.IsZero(dep, ind))
        {
          if (D[dep][ind] != 0.0)
            ok = false;  // a structurally possible non-zero outside the declared pattern
        }
        else if (jac[c][dep][ind] != jac0[c][dep][ind] - D[dep][ind])
          ok = false;
      }
  }
  if (!ok)
    out.tok("ORACLE_JACOBIAN_NOT_DERIVATIVE");
  // grid cells are independent: every cell computed alone in a one-block matrix of the same pattern gives the same bits
  if (ncells > 1)
  {
    bool same = true;
    auto builder = SM::Create(nspec).SetNumberOfBlocks(1);
    for (std::size_t i = 0; i < nspec; ++i)
      for (std::size_t j = 0; j < nspec; ++j)
        if (!jac.IsZero(i, j))
          builder = builder.WithElement(i, j);
    micm::ProcessSet ps1(m.processes, m.vmap);
    for (std::size_t c = 0; c < ncells && same; ++c)
    {
      SM j1(builder);
      ps1.SetJacobianFlatIds(j1);
      for (std::size_t i = 0; i < nspec; ++i)
        for (std::size_t j = 0; j < nspec; ++j)
          if (!jac.IsZero(i, j))
            j1[0][i][j] = jac0[c][i][j];
      std::vector<long long> rc1(rc.begin() + c * nrxn, rc.begin() + (c + 1) * nrxn);
      std::vector<long long> y1(y.begin() + c * nspec, y.begin() + (c + 1) * nspec);
      M RC1 = to_matrix<M>(1, nrxn, pad, rc1);
      M Y1 = to_matrix<M>(1, nspec, pad, y1);
      ps1.SubtractJacobianTerms(RC1, Y1, j1);
      for (std::size_t i = 0; i < nspec; ++i)
        for (std::size_t j = 0; j < nspec; ++j)
          if (!jac.IsZero(i, j) && j1[0][i][j] != jac[c][i][j])
            same = false;
    }
    if (!same)
      out.tok("ORACLE_CELL_DEPENDS_ON_OTHER_CELLS");
  }
}

static void fam_jacobian(Toks& tk, Out& out)
{
  long long L = tk.i(), csc = tk.i(), ncells = tk.i(), nspec = tk.i(), pad = tk.i();
  if (csc)
  {
    VERIF_DISPATCH_L(
        L,
        (jacobian_case<micm::Matrix<double>, micm::SparseMatrix<double, micm::SparseMatrixStandardOrderingCompressedSparseColumn>>(
            tk, out, ncells, nspec, (double)pad)),
        (jacobian_case<
            micm::VectorMatrix<double, LL>,
            micm::SparseMatrix<double, micm::SparseMatrixVectorOrderingCompressedSparseColumn<LL>>>(
            tk, out, ncells, nspec, (double)pad)));
  }
  else
  {
    VERIF_DISPATCH_L(
        L,
        (jacobian_case<micm::Matrix<double>, micm::SparseMatrix<double, micm::SparseMatrixStandardOrderingCompressedSparseRow>>(
            tk, out, ncells, nspec, (double)pad)),
        (jacobian_case<
            micm::VectorMatrix<double, LL>,
            micm::SparseMatrix<double, micm::SparseMatrixVectorOrderingCompressedSparseRow<LL>>>(
            tk, out, ncells, nspec, (double)pad)));
  }
}

int main()
{
  return vio::run({ { "forcing", fam_forcing }, { "jacobian", fam_jacobian } });
}
