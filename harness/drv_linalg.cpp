// drv_linalg.cpp — families "lu" and "linsolve": micm's own LU decomposition and linear
// solver templates instantiated over the prime field Zp (exact arithmetic).
#include "common/caseio.hpp"
#include "common/zp.hpp"

#include <micm/solver/linear_solver.hpp>
#include <micm/solver/linear_solver_in_place.hpp>
#include <micm/solver/lu_decomposition.hpp>
#include <micm/util/matrix.hpp>
#include <micm/util/sparse_matrix.hpp>
#include <micm/util/sparse_matrix_standard_ordering.hpp>
#include <micm/util/sparse_matrix_vector_ordering.hpp>
#include <micm/util/vector_matrix.hpp>

#include <cmath>
#include <cstring>
#include <set>

using vio::Out;
using vio::Toks;
using Pairs = std::vector<std::pair<std::size_t, std::size_t>>;

struct Case
{
  int alg;
  std::size_t nb, n;
  Pairs pat;
  std::vector<long long> vals;  // nb * pat.size()
  std::vector<long long> rhs;   // nb * n (linsolve)
};

static long long priorL(int variant, std::size_t b, std::size_t r, std::size_t c)
{
  return variant == 0 ? (long long)(1000 + 97 * b + 13 * r + 7 * c) : (long long)(31 + 5 * b + 3 * r + 11 * c);
}
static long long priorU(int variant, std::size_t b, std::size_t r, std::size_t c)
{
  return variant == 0 ? (long long)(2000 + 89 * b + 11 * r + 5 * c) : (long long)(77 + 7 * b + 2 * r + 13 * c);
}

template<class SM>
static SM build_A(const Case& cs)
{
  auto builder = SM::Create(cs.n).SetNumberOfBlocks(cs.nb).InitialValue(Zp(0));
  for (auto& p : cs.pat)
    builder = builder.WithElement(p.first, p.second);
  SM A(builder);
  for (std::size_t b = 0; b < cs.nb; ++b)
    for (std::size_t k = 0; k < cs.pat.size(); ++k)
      A[b][cs.pat[k].first][cs.pat[k].second] = Zp(cs.vals[b * cs.pat.size() + k]);
  return A;
}

// the same pattern with another number of blocks: the decompositions and solvers are created from the sparsity
// structure alone and must serve matrices of any block count with that structure
template<class SM>
static SM build_structure(const Case& cs, std::size_t nblocks)
{
  auto builder = SM::Create(cs.n).SetNumberOfBlocks(nblocks).InitialValue(Zp(0));
  for (auto& p : cs.pat)
    builder = builder.WithElement(p.first, p.second);
  return SM(builder);
}
static std::size_t other_block_count(const Case& cs)
{
  return cs.nb % 2 == 0 ? cs.nb : (cs.nb == 1 ? 3 : 1);   // even counts: the same; odd counts: another one
}

template<class SM>
static void out_pattern(const SM& M, std::size_t n, Out& out)
{
  for (std::size_t r = 0; r < n; ++r)
    for (std::size_t c = 0; c < n; ++c)
      if (!M.IsZero(r, c))
      {
        out.i((long long)r);
        out.i((long long)c);
      }
}
template<class SM>
static void out_values(const SM& M, std::size_t nb, std::size_t n, Out& out)
{
  for (std::size_t b = 0; b < nb; ++b)
    for (std::size_t r = 0; r < n; ++r)
      for (std::size_t c = 0; c < n; ++c)
        if (!M.IsZero(r, c))
          out.i(M[b][r][c].v);
}
template<class SM>
static Zp get0(const SM& M, std::size_t b, std::size_t r, std::size_t c)
{
  return M.IsZero(r, c) ? Zp(0) : M[b][r][c];
}

// L unit lower triangular, U upper triangular, L*U == A in every block
template<class SM, class GetL, class GetU>
static void oracle_lu(const SM& A, const Case& cs, GetL getL, GetU getU, Out& out)
{
  for (std::size_t b = 0; b < cs.nb; ++b)
  {
    bool zero_pivot = false;
    for (std::size_t i = 0; i < cs.n; ++i)
      if (getU(b, i, i).v == 0)
        zero_pivot = true;
    if (zero_pivot)
    {
      out.tok("NOTE_ZERO_PIVOT");
      continue;
    }
    for (std::size_t i = 0; i < cs.n; ++i)
      for (std::size_t j = 0; j < cs.n; ++j)
      {
        if (i < j && getL(b, i, j).v != 0)
          out.tok("ORACLE_L_NOT_LOWER");
        if (i == j && getL(b, i, j).v != 1)
          out.tok("ORACLE_L_NOT_UNIT");
        if (i > j && getU(b, i, j).v != 0)
          out.tok("ORACLE_U_NOT_UPPER");
        Zp s(0);
        for (std::size_t k = 0; k < cs.n; ++k)
          s += getL(b, i, k) * getU(b, k, j);
        if (s != get0(A, b, i, j))
          out.tok("ORACLE_LU_NE_A");
      }
  }
}

template<class SM, class LU>
static void lu_separate(const Case& cs, Out& out, bool solve)
{
  SM A = build_A<SM>(cs);
  SM Astructure = build_structure<SM>(cs, other_block_count(cs));
  auto lu = LU::template Create<SM, SM, SM>(Astructure);
  std::vector<std::vector<long long>> results;
  std::unique_ptr<SM> keepL, keepU;
  for (int variant = 0; variant < 2; ++variant)
  {
    auto LUm = LU::template GetLUMatrices<SM, SM, SM>(A, Zp(0));
    SM& L = LUm.first;
    SM& U = LUm.second;
    // garbage everywhere in the storage (padding lanes included), then the prior formula on the pattern
    for (auto& e : L.AsVector())
      e = Zp(variant == 0 ? 424242 : 171717);
    for (auto& e : U.AsVector())
      e = Zp(variant == 0 ? 535353 : 191919);
    for (std::size_t b = 0; b < cs.nb; ++b)
      for (std::size_t r = 0; r < cs.n; ++r)
        for (std::size_t c = 0; c < cs.n; ++c)
        {
          if (!L.IsZero(r, c))
            L[b][r][c] = Zp(priorL(variant, b, r, c));
          if (!U.IsZero(r, c))
            U[b][r][c] = Zp(priorU(variant, b, r, c));
        }
    lu.template Decompose<SM>(A, L, U);
    if (variant == 0)
    {
      if (!solve)
      {
        out.sep("LP");
        out_pattern(L, cs.n, out);
        out.sep("UP");
        out_pattern(U, cs.n, out);
        out.sep("L");
        out_values(L, cs.nb, cs.n, out);
        out.sep("U");
        out_values(U, cs.nb, cs.n, out);
      }
      oracle_lu(
          A, cs, [&](std::size_t b, std::size_t r, std::size_t c) { return get0(L, b, r, c); },
          [&](std::size_t b, std::size_t r, std::size_t c) { return get0(U, b, r, c); }, out);
      keepL = std::make_unique<SM>(L);
      keepU = std::make_unique<SM>(U);
    }
    else
    {
      // the result must not depend on what L and U held before
      for (std::size_t b = 0; b < cs.nb; ++b)
        for (std::size_t r = 0; r < cs.n; ++r)
          for (std::size_t c = 0; c < cs.n; ++c)
            if (get0(L, b, r, c) != get0(*keepL, b, r, c) || get0(U, b, r, c) != get0(*keepU, b, r, c))
              out.tok("ORACLE_DEPENDS_ON_PRIOR_LU");
    }
  }
}

template<class SM, class LU>
static void lu_in_place(const Case& cs, Out& out)
{
  SM A = build_A<SM>(cs);
  SM Astructure = build_structure<SM>(cs, other_block_count(cs));
  auto lu = LU::template Create<SM>(Astructure);
  SM ALU = LU::template GetLUMatrix<SM>(A, Zp(0));
  for (std::size_t b = 0; b < cs.nb; ++b)
    for (auto& p : cs.pat)
      ALU[b][p.first][p.second] = A[b][p.first][p.second];
  lu.template Decompose<SM>(ALU);
  out.sep("P");
  out_pattern(ALU, cs.n, out);
  out.sep("M");
  out_values(ALU, cs.nb, cs.n, out);
  oracle_lu(
      A, cs,
      [&](std::size_t b, std::size_t r, std::size_t c) { return r == c ? Zp(1) : (r > c ? get0(ALU, b, r, c) : Zp(0)); },
      [&](std::size_t b, std::size_t r, std::size_t c) { return r <= c ? get0(ALU, b, r, c) : Zp(0); }, out);
}

template<class SM, class DM, class LU>
static void solve_separate(const Case& cs, Out& out)
{
  SM A = build_A<SM>(cs);
  SM Astructure = build_structure<SM>(cs, other_block_count(cs));
  micm::LinearSolver<SM, LU, SM, SM> solver(Astructure, Zp(0));
  auto LUm = LU::template GetLUMatrices<SM, SM, SM>(A, Zp(0));
  for (auto& e : LUm.first.AsVector())
    e = Zp(424242);
  for (auto& e : LUm.second.AsVector())
    e = Zp(535353);
  DM x(cs.nb, cs.n, Zp(0));
  for (auto& e : x.AsVector())
    e = Zp(999);  // padding rows hold garbage
  for (std::size_t b = 0; b < cs.nb; ++b)
    for (std::size_t i = 0; i < cs.n; ++i)
      x[b][i] = Zp(cs.rhs[b * cs.n + i]);
  solver.Factor(A, LUm.first, LUm.second);
  {
    // the solver object keeps nothing of a factorisation: factoring another matrix (into other storage) in between
    // must not change what Solve does with the factors it is handed
    SM A2 = A;
    for (auto& e : A2.AsVector())
      e = e + Zp(1);
    auto LU2 = LU::template GetLUMatrices<SM, SM, SM>(A2, Zp(0));
    solver.Factor(A2, LU2.first, LU2.second);
  }
  solver.template Solve<DM>(x, LUm.first, LUm.second);
  out.sep("X");
  bool zero_pivot = false;
  for (std::size_t b = 0; b < cs.nb; ++b)
    for (std::size_t i = 0; i < cs.n; ++i)
    {
      out.i(((Zp)x[b][i]).v);
      if (get0(LUm.second, b, i, i).v == 0)
        zero_pivot = true;
    }
  if (zero_pivot)
  {
    out.tok("NOTE_ZERO_PIVOT");
    return;
  }
  for (std::size_t b = 0; b < cs.nb; ++b)
    for (std::size_t i = 0; i < cs.n; ++i)
    {
      Zp s(0);
      for (std::size_t j = 0; j < cs.n; ++j)
        s += get0(A, b, i, j) * (Zp)x[b][j];
      if (s != Zp(cs.rhs[b * cs.n + i]))
        out.tok("ORACLE_AX_NE_B");
    }
}

template<class SM, class DM, class LU>
static void solve_in_place(const Case& cs, Out& out)
{
  SM A = build_A<SM>(cs);
  SM Astructure = build_structure<SM>(cs, other_block_count(cs));
  micm::LinearSolverInPlace<SM, LU> solver(Astructure, Zp(0));
  SM ALU = LU::template GetLUMatrix<SM>(A, Zp(0));
  for (std::size_t b = 0; b < cs.nb; ++b)
    for (auto& p : cs.pat)
      ALU[b][p.first][p.second] = A[b][p.first][p.second];
  DM x(cs.nb, cs.n, Zp(0));
  for (auto& e : x.AsVector())
    e = Zp(999);
  for (std::size_t b = 0; b < cs.nb; ++b)
    for (std::size_t i = 0; i < cs.n; ++i)
      x[b][i] = Zp(cs.rhs[b * cs.n + i]);
  solver.Factor(ALU);
  {
    SM ALU2 = LU::template GetLUMatrix<SM>(A, Zp(0));
    for (std::size_t b = 0; b < cs.nb; ++b)
      for (auto& p : cs.pat)
        ALU2[b][p.first][p.second] = A[b][p.first][p.second] + Zp(1);
    solver.Factor(ALU2);
  }
  solver.template Solve<DM>(x, ALU);
  out.sep("X");
  bool zero_pivot = false;
  for (std::size_t b = 0; b < cs.nb; ++b)
    for (std::size_t i = 0; i < cs.n; ++i)
    {
      out.i(((Zp)x[b][i]).v);
      if (get0(ALU, b, i, i).v == 0)
        zero_pivot = true;
    }
  if (zero_pivot)
  {
    out.tok("NOTE_ZERO_PIVOT");
    return;
  }
  for (std::size_t b = 0; b < cs.nb; ++b)
    for (std::size_t i = 0; i < cs.n; ++i)
    {
      Zp s(0);
      for (std::size_t j = 0; j < cs.n; ++j)
        s += get0(A, b, i, j) * (Zp)x[b][j];
      if (s != Zp(cs.rhs[b * cs.n + i]))
        out.tok("ORACLE_AX_NE_B");
    }
}

// ---- L and U stored in other orderings than A (the policies are separate template parameters) ----
template<class O>
struct OtherOrdering;
template<>
struct OtherOrdering<micm::SparseMatrixStandardOrderingCompressedSparseRow>
{
  using type = micm::SparseMatrixStandardOrderingCompressedSparseColumn;
};
template<>
struct OtherOrdering<micm::SparseMatrixStandardOrderingCompressedSparseColumn>
{
  using type = micm::SparseMatrixStandardOrderingCompressedSparseRow;
};
template<std::size_t L>
struct OtherOrdering<micm::SparseMatrixVectorOrderingCompressedSparseRow<L>>
{
  using type = micm::SparseMatrixVectorOrderingCompressedSparseColumn<L>;
};
template<std::size_t L>
struct OtherOrdering<micm::SparseMatrixVectorOrderingCompressedSparseColumn<L>>
{
  using type = micm::SparseMatrixVectorOrderingCompressedSparseRow<L>;
};

// factor and solve with A in ordering O, L in the other ordering and U in O (even block counts) or the reverse (odd):
// implementation oracles only (L*U = A, A x = b)
template<class SM, class LM, class UM, class DM, class LU>
static void mixed_storage(const Case& cs, Out& out, bool solve)
{
  SM A = build_A<SM>(cs);
  micm::LinearSolver<SM, LU, LM, UM> solver(A, Zp(0));
  auto LUm = LU::template GetLUMatrices<SM, LM, UM>(A, Zp(0));
  for (auto& e : LUm.first.AsVector())
    e = Zp(424242);
  for (auto& e : LUm.second.AsVector())
    e = Zp(535353);
  solver.Factor(A, LUm.first, LUm.second);
  bool zero_pivot = false;
  for (std::size_t b = 0; b < cs.nb; ++b)
    for (std::size_t i = 0; i < cs.n; ++i)
      if (get0(LUm.second, b, i, i).v == 0)
        zero_pivot = true;
  if (zero_pivot)
    return;
  bool lu_ok = true;
  for (std::size_t b = 0; b < cs.nb && lu_ok; ++b)
    for (std::size_t i = 0; i < cs.n && lu_ok; ++i)
      for (std::size_t j = 0; j < cs.n && lu_ok; ++j)
      {
        Zp sum(0);
        for (std::size_t k = 0; k < cs.n; ++k)
          sum += get0(LUm.first, b, i, k) * get0(LUm.second, b, k, j);
        if (sum != get0(A, b, i, j))
          lu_ok = false;
      }
  if (!lu_ok)
    out.tok("ORACLE_LU_NE_A:factors_stored_in_another_ordering");
  if (solve)
  {
    DM x(cs.nb, cs.n, Zp(0));
    for (std::size_t b = 0; b < cs.nb; ++b)
      for (std::size_t i = 0; i < cs.n; ++i)
        x[b][i] = Zp(cs.rhs[b * cs.n + i]);
    solver.template Solve<DM>(x, LUm.first, LUm.second);
    bool ok = true;
    for (std::size_t b = 0; b < cs.nb && ok; ++b)
      for (std::size_t i = 0; i < cs.n && ok; ++i)
      {
        Zp sum(0);
        for (std::size_t j = 0; j < cs.n; ++j)
          sum += get0(A, b, i, j) * (Zp)x[b][j];
        if (sum != Zp(cs.rhs[b * cs.n + i]))
          ok = false;
      }
    if (!ok)
      out.tok("ORACLE_AX_NE_B:factors_stored_in_another_ordering");
  }
}

template<class Ordering, class DM>
static void dispatch_alg(const Case& cs, Out& out, bool solve)
{
  using SM = micm::SparseMatrix<Zp, Ordering>;
  if (cs.alg < 2)
  {
    using OM = micm::SparseMatrix<Zp, typename OtherOrdering<Ordering>::type>;
    if (cs.alg == 0)
    {
      if (cs.nb % 2 == 0)
        mixed_storage<SM, OM, SM, DM, micm::LuDecompositionDoolittle>(cs, out, solve);
      else
        mixed_storage<SM, SM, OM, DM, micm::LuDecompositionDoolittle>(cs, out, solve);
    }
    else
    {
      if (cs.nb % 2 == 0)
        mixed_storage<SM, OM, SM, DM, micm::LuDecompositionMozart>(cs, out, solve);
      else
        mixed_storage<SM, SM, OM, DM, micm::LuDecompositionMozart>(cs, out, solve);
    }
  }
  if (!solve)
  {
    switch (cs.alg)
    {
      case 0: lu_separate<SM, micm::LuDecompositionDoolittle>(cs, out, false); break;
      case 1: lu_separate<SM, micm::LuDecompositionMozart>(cs, out, false); break;
      case 2: lu_in_place<SM, micm::LuDecompositionDoolittleInPlace>(cs, out); break;
      case 3: lu_in_place<SM, micm::LuDecompositionMozartInPlace>(cs, out); break;
      default: throw std::runtime_error("alg");
    }
  }
  else
  {
    switch (cs.alg)
    {
      case 0: solve_separate<SM, DM, micm::LuDecompositionDoolittle>(cs, out); break;
      case 1: solve_separate<SM, DM, micm::LuDecompositionMozart>(cs, out); break;
      case 2: solve_in_place<SM, DM, micm::LuDecompositionDoolittleInPlace>(cs, out); break;
      case 3: solve_in_place<SM, DM, micm::LuDecompositionMozartInPlace>(cs, out); break;
      default: throw std::runtime_error("alg");
    }
  }
}

static void fam(Toks& tk, Out& out, bool solve)
{
  Case cs;
  cs.alg = (int)tk.i();
  long long csc = tk.i(), L = tk.i();
  cs.nb = tk.i();
  cs.n = tk.i();
  long long np = tk.i();
  for (long long k = 0; k < np; ++k)
  {
    auto r = tk.i();
    auto c = tk.i();
    cs.pat.emplace_back(r, c);
  }
  cs.vals = tk.ints(cs.nb * cs.pat.size());
  if (solve)
    cs.rhs = tk.ints(cs.nb * cs.n);
  if (csc)
  {
    VERIF_DISPATCH_L(
        L,
        (dispatch_alg<micm::SparseMatrixStandardOrderingCompressedSparseColumn, micm::Matrix<Zp>>(cs, out, solve)),
        (dispatch_alg<micm::SparseMatrixVectorOrderingCompressedSparseColumn<LL>, micm::VectorMatrix<Zp, LL>>(cs, out, solve)));
  }
  else
  {
    VERIF_DISPATCH_L(
        L,
        (dispatch_alg<micm::SparseMatrixStandardOrderingCompressedSparseRow, micm::Matrix<Zp>>(cs, out, solve)),
        (dispatch_alg<micm::SparseMatrixVectorOrderingCompressedSparseRow<LL>, micm::VectorMatrix<Zp, LL>>(cs, out, solve)));
  }
}

// family "linbig": alg csc L nb n density% seed — a large system generated from the seed (too large for a case line and
// for the extracted model: implementation oracle only): pattern = diagonal + random off-diagonal elements, values
// uniform in Z_p; Factor + Solve with the right-hand side b = A * x0; the oracle is A x == b, x == x0 unless a pivot vanished.
static void fam_big(Toks& tk, Out& out, bool solve)
{
  Case cs;
  cs.alg = (int)tk.i();
  long long csc = tk.i(), L = tk.i();
  cs.nb = tk.i();
  cs.n = tk.i();
  long long dens = tk.i();
  unsigned long long h = (unsigned long long)tk.i() * 0x9E3779B97F4A7C15ull + 12345;
  auto next = [&]() { h = h * 6364136223846793005ull + 1442695040888963407ull; return (h >> 33); };
  for (std::size_t r = 0; r < cs.n; ++r)
    for (std::size_t c = 0; c < cs.n; ++c)
      if (r == c || (long long)(next() % 100) < dens)
        cs.pat.emplace_back(r, c);
  for (std::size_t k = 0; k < cs.nb * cs.pat.size(); ++k)
    cs.vals.push_back((long long)(next() % 2147483646ull) + 1);
  std::vector<long long> x0(cs.nb * cs.n);
  for (auto& v : x0)
    v = (long long)(next() % 2147483647ull);
  // b = A x0
  cs.rhs.assign(cs.nb * cs.n, 0);
  for (std::size_t b = 0; b < cs.nb; ++b)
  {
    std::vector<Zp> acc(cs.n, Zp(0));
    for (std::size_t k = 0; k < cs.pat.size(); ++k)
      acc[cs.pat[k].first] += Zp(cs.vals[b * cs.pat.size() + k]) * Zp(x0[b * cs.n + cs.pat[k].second]);
    for (std::size_t i = 0; i < cs.n; ++i)
      cs.rhs[b * cs.n + i] = acc[i].v;
  }
  Out inner;
  if (csc)
  {
    VERIF_DISPATCH_L(
        L,
        (dispatch_alg<micm::SparseMatrixStandardOrderingCompressedSparseColumn, micm::Matrix<Zp>>(cs, inner, solve)),
        (dispatch_alg<micm::SparseMatrixVectorOrderingCompressedSparseColumn<LL>, micm::VectorMatrix<Zp, LL>>(cs, inner, solve)));
  }
  else
  {
    VERIF_DISPATCH_L(
        L,
        (dispatch_alg<micm::SparseMatrixStandardOrderingCompressedSparseRow, micm::Matrix<Zp>>(cs, inner, solve)),
        (dispatch_alg<micm::SparseMatrixVectorOrderingCompressedSparseRow<LL>, micm::VectorMatrix<Zp, LL>>(cs, inner, solve)));
  }
  out.tok("n=" + std::to_string(cs.n));
  out.tok("nnz=" + std::to_string(cs.pat.size()));
  for (const char* t : { "ORACLE_AX_NE_B", "ORACLE_LU_NE_A", "ORACLE_L_NOT_UNIT", "ORACLE_L_NOT_LOWER", "ORACLE_U_NOT_UPPER", "ORACLE_DEPENDS_ON_PRIOR_LU" })
    if (inner.s.find(t) != std::string::npos)
      out.tok(t);
  if (inner.s.find("NOTE_ZERO_PIVOT") != std::string::npos)
    out.tok("NOTE_ZERO_PIVOT");
}

// family "linscale": alg csc L nb n np (r c)*np vals[nb*np] rhs[nb*n] — the real double instantiation: the system
// (A, b) and the system (2^-70 A, 2^-70 b) have the same solution, and since scaling by a power of two is exact in
// binary64 (no underflow at these sizes) every operation of the factorisation and the substitution commutes with
// it: the two computed solutions must be bit-identical, and the tiny system must not be refused.
template<class SM, class DM, class LU, bool InPlace>
static std::vector<double> scale_solve(const Case& cs, double scale)
{
  auto builder = SM::Create(cs.n).SetNumberOfBlocks(cs.nb).InitialValue(0.0);
  for (auto& p : cs.pat)
    builder = builder.WithElement(p.first, p.second);
  SM A(builder);
  for (std::size_t b = 0; b < cs.nb; ++b)
    for (std::size_t k = 0; k < cs.pat.size(); ++k)
      A[b][cs.pat[k].first][cs.pat[k].second] = (double)cs.vals[b * cs.pat.size() + k] * scale;
  DM x(cs.nb, cs.n, 0.0);
  for (std::size_t b = 0; b < cs.nb; ++b)
    for (std::size_t i = 0; i < cs.n; ++i)
      x[b][i] = (double)cs.rhs[b * cs.n + i] * scale;
  if constexpr (InPlace)
  {
    micm::LinearSolverInPlace<SM, LU> solver(A, 0.0);
    SM ALU = LU::template GetLUMatrix<SM>(A, 0.0);
    for (std::size_t b = 0; b < cs.nb; ++b)
      for (auto& p : cs.pat)
        ALU[b][p.first][p.second] = A[b][p.first][p.second];
    solver.Factor(ALU);
    solver.template Solve<DM>(x, ALU);
  }
  else
  {
    micm::LinearSolver<SM, LU, SM, SM> solver(A, 0.0);
    auto LUm = LU::template GetLUMatrices<SM, SM, SM>(A, 0.0);
    solver.Factor(A, LUm.first, LUm.second);
    solver.template Solve<DM>(x, LUm.first, LUm.second);
  }
  std::vector<double> r;
  for (std::size_t b = 0; b < cs.nb; ++b)
    for (std::size_t i = 0; i < cs.n; ++i)
      r.push_back(x[b][i]);
  return r;
}

template<class Ordering, class DM>
static void scale_alg(const Case& cs, Out& out)
{
  using SM = micm::SparseMatrix<double, Ordering>;
  std::vector<double> big, small;
  try
  {
    switch (cs.alg)
    {
      case 0: big = scale_solve<SM, DM, micm::LuDecompositionDoolittle, false>(cs, 1.0); small = scale_solve<SM, DM, micm::LuDecompositionDoolittle, false>(cs, 0x1p-70); break;
      case 1: big = scale_solve<SM, DM, micm::LuDecompositionMozart, false>(cs, 1.0); small = scale_solve<SM, DM, micm::LuDecompositionMozart, false>(cs, 0x1p-70); break;
      case 2: big = scale_solve<SM, DM, micm::LuDecompositionDoolittleInPlace, true>(cs, 1.0); small = scale_solve<SM, DM, micm::LuDecompositionDoolittleInPlace, true>(cs, 0x1p-70); break;
      default: big = scale_solve<SM, DM, micm::LuDecompositionMozartInPlace, true>(cs, 1.0); small = scale_solve<SM, DM, micm::LuDecompositionMozartInPlace, true>(cs, 0x1p-70); break;
    }
  }
  catch (const std::exception& e)
  {
    out.tok("ORACLE_WELL_CONDITIONED_SYSTEM_REFUSED");
    return;
  }
  bool finite = true;
  for (double v : big)
    if (!std::isfinite(v))
      finite = false;
  if (!finite)
  {
    out.tok("NOTE_ZERO_PIVOT");
    return;
  }
  for (std::size_t k = 0; k < big.size(); ++k)
    if (std::memcmp(&big[k], &small[k], sizeof(double)) != 0)
    {
      out.tok("ORACLE_SOLUTION_DEPENDS_ON_THE_SCALE_OF_THE_SYSTEM");
      break;
    }
}

static void fam_linscale(Toks& tk, Out& out)
{
  Case cs;
  cs.alg = (int)tk.i();
  long long csc = tk.i(), L = tk.i();
  cs.nb = tk.i();
  cs.n = tk.i();
  long long np = tk.i();
  for (long long k = 0; k < np; ++k)
  {
    auto r = tk.i();
    auto c = tk.i();
    cs.pat.emplace_back(r, c);
  }
  cs.vals = tk.ints(cs.nb * cs.pat.size());
  cs.rhs = tk.ints(cs.nb * cs.n);
  if (csc)
  {
    VERIF_DISPATCH_L(
        L,
        (scale_alg<micm::SparseMatrixStandardOrderingCompressedSparseColumn, micm::Matrix<double>>(cs, out)),
        (scale_alg<micm::SparseMatrixVectorOrderingCompressedSparseColumn<LL>, micm::VectorMatrix<double, LL>>(cs, out)));
  }
  else
  {
    VERIF_DISPATCH_L(
        L,
        (scale_alg<micm::SparseMatrixStandardOrderingCompressedSparseRow, micm::Matrix<double>>(cs, out)),
        (scale_alg<micm::SparseMatrixVectorOrderingCompressedSparseRow<LL>, micm::VectorMatrix<double, LL>>(cs, out)));
  }
}

// family "linsub": alg csc L nb n np (r c)*np vals[nb*np] x0[nb*n] — A = L0*U0 built by the generator from small
// integers (unit lower L0, power-of-two diagonal of U0), right-hand side A*x0; the whole system is scaled by 2^-1040,
// so every pivot is a subnormal number while every operation of the factorisation and the substitution stays exact:
// the computed solution must be x0 exactly.
template<class Ordering, class DM>
static void sub_alg(const Case& cs, const std::vector<long long>& x0, Out& out)
{
  using SM = micm::SparseMatrix<double, Ordering>;
  std::vector<double> x;
  try
  {
    switch (cs.alg)
    {
      case 0: x = scale_solve<SM, DM, micm::LuDecompositionDoolittle, false>(cs, 0x1p-1040); break;
      case 1: x = scale_solve<SM, DM, micm::LuDecompositionMozart, false>(cs, 0x1p-1040); break;
      case 2: x = scale_solve<SM, DM, micm::LuDecompositionDoolittleInPlace, true>(cs, 0x1p-1040); break;
      default: x = scale_solve<SM, DM, micm::LuDecompositionMozartInPlace, true>(cs, 0x1p-1040); break;
    }
  }
  catch (const std::exception& e)
  {
    out.tok("ORACLE_WELL_CONDITIONED_SYSTEM_REFUSED:subnormal_pivots");
    return;
  }
  for (std::size_t k = 0; k < x.size(); ++k)
    if (x[k] != (double)x0[k])
    {
      out.tok("ORACLE_AX_NE_B:subnormal_pivots");
      break;
    }
}

static void fam_linsub(Toks& tk, Out& out)
{
  Case cs;
  cs.alg = (int)tk.i();
  long long csc = tk.i(), L = tk.i();
  cs.nb = tk.i();
  cs.n = tk.i();
  long long np = tk.i();
  for (long long k = 0; k < np; ++k)
  {
    auto r = tk.i();
    auto c = tk.i();
    cs.pat.emplace_back(r, c);
  }
  cs.vals = tk.ints(cs.nb * cs.pat.size());
  auto x0 = tk.ints(cs.nb * cs.n);
  cs.rhs.assign(cs.nb * cs.n, 0);
  for (std::size_t b = 0; b < cs.nb; ++b)
    for (std::size_t k = 0; k < cs.pat.size(); ++k)
      cs.rhs[b * cs.n + cs.pat[k].first] += cs.vals[b * cs.pat.size() + k] * x0[b * cs.n + cs.pat[k].second];
  if (csc)
  {
    VERIF_DISPATCH_L(
        L,
        (sub_alg<micm::SparseMatrixStandardOrderingCompressedSparseColumn, micm::Matrix<double>>(cs, x0, out)),
        (sub_alg<micm::SparseMatrixVectorOrderingCompressedSparseColumn<LL>, micm::VectorMatrix<double, LL>>(cs, x0, out)));
  }
  else
  {
    VERIF_DISPATCH_L(
        L,
        (sub_alg<micm::SparseMatrixStandardOrderingCompressedSparseRow, micm::Matrix<double>>(cs, x0, out)),
        (sub_alg<micm::SparseMatrixVectorOrderingCompressedSparseRow<LL>, micm::VectorMatrix<double, LL>>(cs, x0, out)));
  }
}

// family "markowitz": n L bits[n*n] — the real DiagonalMarkowitzReorder on a 0/1 pattern; oracle: the
// result is a permutation of 0..n-1 (whatever pivot heuristic the routine uses)
template<class IM>
static void markowitz_case(std::size_t n, const std::vector<long long>& bits, Out& out)
{
  IM pat(n, n, 0);
  for (std::size_t i = 0; i < n; ++i)
    for (std::size_t j = 0; j < n; ++j)
      pat[i][j] = (int)bits[i * n + j];
  auto perm = micm::DiagonalMarkowitzReorder<IM>(pat);
  out.is(perm);
  std::vector<int> seen(n, 0);
  bool ok = perm.size() == n;
  for (auto p : perm)
    if (p >= n || seen[p]++)
      ok = false;
  if (!ok)
    out.tok("ORACLE_REORDERING_NOT_A_PERMUTATION");
}
static void fam_markowitz(Toks& tk, Out& out)
{
  std::size_t n = tk.i();
  long long L = tk.i();
  auto bits = tk.ints(n * n);
  VERIF_DISPATCH_L(L, (markowitz_case<micm::Matrix<int>>(n, bits, out)), (markowitz_case<micm::VectorMatrix<int, LL>>(n, bits, out)));
}

int main()
{
  return vio::run({ { "markowitz", fam_markowitz }, { "lu", [](Toks& t, Out& o) { fam(t, o, false); } }, { "linsolve", [](Toks& t, Out& o) { fam(t, o, true); } }, { "linbig", [](Toks& t, Out& o) { fam_big(t, o, true); } }, { "lubig", [](Toks& t, Out& o) { fam_big(t, o, false); } }, { "linscale", fam_linscale }, { "linsub", fam_linsub } });
}
