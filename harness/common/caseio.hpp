// caseio.hpp — case-line reader and canonical result printer shared by the harness drivers.
// Every driver reads one case per line on stdin (same lines as extract/driver.ml) and
// prints one result line per case.
#pragma once
#include <cmath>
#include <cstdint>
#include <cstdio>
#include <iostream>
#include <sstream>
#include <stdexcept>
#include <string>
#include <system_error>
#include <vector>
#include <functional>
#include <map>

namespace vio
{
  struct Toks
  {
    std::vector<std::string> t;
    std::size_t pos = 0;
    std::string next()
    {
      if (pos >= t.size())
        throw std::runtime_error("eol");
      return t[pos++];
    }
    long long i()
    {
      return std::stoll(next());
    }
    double d()
    {
      return std::stod(next());
    }
    std::vector<long long> ints(std::size_t n)
    {
      std::vector<long long> v(n);
      for (auto& x : v)
        x = i();
      return v;
    }
    bool done() const
    {
      return pos >= t.size();
    }
  };

  struct Out
  {
    std::string s;
    void tok(const std::string& x)
    {
      s += x;
      s += ' ';
    }
    void i(long long x)
    {
      tok(std::to_string(x));
    }
    void sep(const std::string& x)
    {
      tok("|" + x);
    }
    void err(int code)
    {
      tok("E" + std::to_string(code));
    }
    // exact printing of a double that is a dyadic rational with small numerator:
    // reduced fraction n/d, d a power of two; "BIG" if it does not fit; NaN/Inf tokens
    void q(double v)
    {
      if (std::isnan(v)) { tok("NaN"); return; }
      if (std::isinf(v)) { tok(v > 0 ? "+Inf" : "-Inf"); return; }
      if (v == 0.0) { tok("0"); return; }
      int e;
      double m = std::frexp(v, &e);  // v = m * 2^e, 0.5 <= |m| < 1
      long long mi = (long long)std::ldexp(m, 53);
      e -= 53;  // v = mi * 2^e
      while ((mi % 2) == 0) { mi /= 2; ++e; }   // mi odd
      // canonical form: a decimal integer when |v| < 2^62, otherwise  m@e  with m odd
      if (e >= 0 && e <= 62)
      {
        long long a = mi < 0 ? -mi : mi;
        int bits = 0;
        while ((a >> bits) != 0) ++bits;
        if (bits + e <= 62)
        {
          tok(std::to_string(mi * (1LL << e)));
          return;
        }
      }
      tok(std::to_string(mi) + "@" + std::to_string(e));
    }
    void qs(const std::vector<double>& v)
    {
      for (double x : v)
        q(x);
    }
    template<class V>
    void is(const V& v)
    {
      for (auto x : v)
        i((long long)x);
    }
  };

  using Family = std::function<void(Toks&, Out&)>;

  // runs all case lines; a family handler that throws is reported on the line
  inline int run(const std::map<std::string, Family>& families)
  {
    std::string line;
    while (std::getline(std::cin, line))
    {
      std::istringstream is(line);
      Toks tk;
      std::string w;
      while (is >> w)
        tk.t.push_back(w);
      Out out;
      if (!tk.t.empty())
      {
        std::string fam = tk.next();
        auto it = families.find(fam);
        if (it == families.end())
          out.tok("UNKNOWN_FAMILY " + fam);
        else
        {
          try
          {
            it->second(tk, out);
          }
          catch (const std::system_error& e)
          {
            out.tok(std::string("UNCAUGHT_SYSTEM_ERROR:") + e.code().category().name() + ":" + std::to_string(e.code().value()));
          }
          catch (const std::exception& e)
          {
            out.tok(std::string("UNCAUGHT_EXCEPTION:") + e.what());
          }
        }
      }
      while (!out.s.empty() && out.s.back() == ' ')
        out.s.pop_back();
      std::cout << out.s << "\n";
    }
    std::cout.flush();
    return 0;
  }
}  // namespace vio

// dispatch a run-time vector length to a compile-time one: L = 0 means row-major.
#define VERIF_DISPATCH_L(L, CALL_RM, CALL_VEC)                  \
  switch (L)                                                    \
  {                                                             \
    case 0: CALL_RM; break;                                     \
    case 1: { constexpr std::size_t LL = 1; CALL_VEC; } break;  \
    case 2: { constexpr std::size_t LL = 2; CALL_VEC; } break;  \
    case 3: { constexpr std::size_t LL = 3; CALL_VEC; } break;  \
    case 4: { constexpr std::size_t LL = 4; CALL_VEC; } break;  \
    case 5: { constexpr std::size_t LL = 5; CALL_VEC; } break;  \
    case 6: { constexpr std::size_t LL = 6; CALL_VEC; } break;  \
    case 7: { constexpr std::size_t LL = 7; CALL_VEC; } break;  \
    case 8: { constexpr std::size_t LL = 8; CALL_VEC; } break;  \
    default: throw std::runtime_error("unsupported L");         \
  }
