// solver_impl.hpp — the assembled solver (what SolverBuilder::Build() wires together), driven
// through the public API for the whole configuration cross product:
//   dense layout {Matrix, VectorMatrix<L>} x sparse ordering {CSR, CSC} x {Doolittle, Mozart,
//   DoolittleInPlace, MozartInPlace} x reorder on/off x species listing order.
// Included by drv_solver_ros.cpp (KIND_ROS) and drv_solver_be.cpp (KIND_BE).
#pragma once
#include "caseio.hpp"

#include <micm/process/arrhenius_rate_constant.hpp>
#include <micm/process/troe_rate_constant.hpp>
#include <micm/process/user_defined_rate_constant.hpp>
#include <micm/solver/backward_euler.hpp>
#include <micm/solver/rosenbrock.hpp>
#include <micm/solver/solver_builder.hpp>

#include <algorithm>
#include <cmath>
#include <cstdio>
#include <cstdlib>
#include <cstring>
#include <limits>
#include <memory>
#include <numeric>
#include <optional>

namespace simpl
{
  using vio::Out;
  using vio::Toks;

  inline double tokd(Toks& tk)
  {
    std::string s = tk.next();
    if (s == "nan")
      return std::numeric_limits<double>::quiet_NaN();
    if (s == "inf")
      return std::numeric_limits<double>::infinity();
    if (s == "-inf")
      return -std::numeric_limits<double>::infinity();
    return std::strtod(s.c_str(), nullptr);
  }

  struct Rxn
  {
    std::vector<std::pair<int, bool>> reactants;          // species name id, parameterised?
    std::vector<std::tuple<int, bool, double>> products;  // name id, parameterised?, yield
    int kind = 0;                                         // 0 user-defined (custom parameter), 1 Arrhenius(A), 2 Troe
  };

  struct Mech
  {
    std::vector<int> names;  // state species, canonical order (index = canonical id)
    std::vector<double> atol;  // < 0: no "absolute tolerance" property
    std::vector<Rxn> rxns;
    // when some species carries a tolerance, the system also gets a second phase "aq" holding an inert species with
    // the bare name of the first gas species (tolerance 7e-5) and an inert species "w" (tolerance 3e-9)
    bool other_phase() const
    {
      for (double a : atol)
        if (a >= 0)
          return true;
      return false;
    }
    std::size_t extra() const
    {
      return other_phase() ? 2 : 0;
    }
  };

  struct Config
  {
    int L = 0;
    bool csc = false;
    int lu = 0;
    bool reorder = true;
    std::vector<int> order;  // listing order of the species: canonical ids
  };

  struct Problem
  {
    std::size_t ncells = 1;
    std::vector<double> y0;  // [cell][canonical species]
    std::vector<double> k;   // [cell][reaction]
    double T = 300, P = 101325;
    double dt = 1;
    int nsteps = 1;
    int table = 1;          // Rosenbrock parameter set 0..4
    double rtol = 1e-6;
    double h_start = 0;
    bool clamp = true;      // Solver::Solve(dt, state) (clamps) vs the overload with parameters (does not)
    bool poison = false;    // fill every scratch member of the State with garbage before each Solve
    std::vector<double> density_factor;  // per cell, multiplies the ideal air density (empty: 1 everywhere)
    double density(std::size_t cell) const
    {
      return cell < density_factor.size() ? density_factor[cell] : 1.0;
    }
  };

  struct Outcome
  {
    std::string error;
    std::vector<double> y;                    // [cell][canonical species]
    std::vector<micm::SolverResult> results;  // one per Solve
    std::vector<double> rate_constants;       // [cell][reaction] after CalculateRateConstants
    std::vector<double> atol;                 // by canonical species
    bool map_ok = true;
    bool other_phase_ok = true;
    std::size_t be_clipped = 0;               // values backward Euler clipped to zero during the solves (hook)
  };

  inline Mech read_mech(Toks& tk)
  {
    Mech m;
    long long ns = tk.i();
    for (long long i = 0; i < ns; ++i)
    {
      m.names.push_back((int)tk.i());
      m.atol.push_back(tokd(tk));
    }
    long long nr = tk.i();
    for (long long r = 0; r < nr; ++r)
    {
      Rxn x;
      x.kind = (int)tk.i();
      long long a = tk.i();
      for (long long i = 0; i < a; ++i)
      {
        int nm = (int)tk.i();
        bool p = tk.i() != 0;
        x.reactants.emplace_back(nm, p);
      }
      long long b = tk.i();
      for (long long i = 0; i < b; ++i)
      {
        int nm = (int)tk.i();
        bool p = tk.i() != 0;
        double y = tokd(tk);
        x.products.emplace_back(nm, p, y);
      }
      m.rxns.push_back(x);
    }
    return m;
  }

  inline Config read_config(Toks& tk, std::size_t nspec)
  {
    Config c;
    c.L = (int)tk.i();
    c.csc = tk.i() != 0;
    c.lu = (int)tk.i();
    c.reorder = tk.i() != 0;
    for (std::size_t i = 0; i < nspec; ++i)
      c.order.push_back((int)tk.i());
    return c;
  }

  inline micm::Species mk_species(int name, bool param, double atol = -1)
  {
    micm::Species s("s" + std::to_string(name));
    if (param)
      s.parameterize_ = [](const micm::Conditions& cd) { return cd.air_density_ / 32.0; };  // ~ 1 at 300 K, 1 atm
    if (atol >= 0)
      s.SetProperty("absolute tolerance", atol);
    return s;
  }

  template<class DM>
  void poison_dense(DM& m, double v)
  {
    for (auto& e : m.AsVector())
      e = v;
  }

#ifdef KIND_BE
  using ParamsT = micm::BackwardEulerSolverParameters;
  inline ParamsT make_params(const Problem& pb)
  {
    ParamsT p;
    p.h_start_ = pb.h_start;
    return p;
  }
  template<class StateT, class DM>
  void poison_state(StateT& st)
  {
    auto* tmp = static_cast<micm::BackwardEulerTemporaryVariables<DM>*>(st.temporary_variables_.get());
    poison_dense(tmp->Yn_, 1.0e300);
    poison_dense(tmp->forcing_, std::numeric_limits<double>::quiet_NaN());
    for (auto& e : st.jacobian_.AsVector())
      e = -7.5e200;
    for (auto& e : st.lower_matrix_.AsVector())
      e = std::numeric_limits<double>::quiet_NaN();
    for (auto& e : st.upper_matrix_.AsVector())
      e = 3.25e100;
  }
#else
  using ParamsT = micm::RosenbrockSolverParameters;
  inline ParamsT make_params(const Problem& pb)
  {
    ParamsT p = pb.table == 0   ? ParamsT::TwoStageRosenbrockParameters()
                : pb.table == 1 ? ParamsT::ThreeStageRosenbrockParameters()
                : pb.table == 2 ? ParamsT::FourStageRosenbrockParameters()
                : pb.table == 3 ? ParamsT::FourStageDifferentialAlgebraicRosenbrockParameters()
                                : ParamsT::SixStageDifferentialAlgebraicRosenbrockParameters();
    p.h_start_ = pb.h_start;
    return p;
  }
  template<class StateT, class DM>
  void poison_state(StateT& st)
  {
    auto* tmp = static_cast<micm::RosenbrockTemporaryVariables<DM>*>(st.temporary_variables_.get());
    poison_dense(tmp->Ynew_, 1.0e300);
    poison_dense(tmp->initial_forcing_, std::numeric_limits<double>::quiet_NaN());
    poison_dense(tmp->Yerror_, -4.0e250);
    for (auto& k : tmp->K_)
      poison_dense(k, std::numeric_limits<double>::quiet_NaN());
    for (auto& e : st.jacobian_.AsVector())
      e = -7.5e200;
    for (auto& e : st.lower_matrix_.AsVector())
      e = std::numeric_limits<double>::quiet_NaN();
    for (auto& e : st.upper_matrix_.AsVector())
      e = 3.25e100;
  }
#endif

  // ---- build the chemical system and the reactions for a listing order ----
  inline void make_system(const Mech& m, const Config& c, micm::System& sys, std::vector<micm::Process>& procs, bool with_unused_species = false)
  {
    std::vector<micm::Species> listed;
    if (with_unused_species)
      listed.push_back(mk_species(999, false, 2.5e-4));  // takes part in no reaction
    for (int id : c.order)
      listed.push_back(mk_species(m.names[id], false, m.atol[id]));
    // parameterised species used by the reactions are listed too (they are not part of the state)
    std::set<int> params;
    for (auto& r : m.rxns)
    {
      for (auto& q : r.reactants)
        if (q.second)
          params.insert(q.first);
      for (auto& q : r.products)
        if (std::get<1>(q))
          params.insert(std::get<0>(q));
    }
    for (int pn : params)
      listed.push_back(mk_species(pn, true));
    // the listing is brought into its order by moves (as std::sort / std::reverse of a species list would): a species
    // keeps all its attributes - name, tolerance property, parameterisation - wherever it is moved
    {
      // the list is first held in the opposite order (an element-wise copy), then reversed in place by moves
      std::vector<micm::Species> backwards(listed.rbegin(), listed.rend());
      std::reverse(backwards.begin(), backwards.end());
      listed = std::move(backwards);
    }
    micm::Phase gas{ listed };
    if (m.other_phase())
    {
      // a phase with a name of its own, stored under another key: the key is what names its species
      micm::Phase aq{ "droplets", std::vector<micm::Species>{ mk_species(m.names[0], false, 7.0e-5), [] { micm::Species w("w"); w.SetProperty("absolute tolerance", 3.0e-9); return w; }() } };
      sys = micm::System(micm::SystemParameters{ .gas_phase_ = gas, .phases_ = { { "aq", aq } } });
    }
    else
      sys = micm::System(micm::SystemParameters{ .gas_phase_ = gas });
    procs.clear();
    for (std::size_t r = 0; r < m.rxns.size(); ++r)
    {
      std::vector<micm::Species> reactants;
      std::vector<micm::Yield> products;
      for (auto& q : m.rxns[r].reactants)
        reactants.push_back(mk_species(q.first, q.second));
      for (auto& q : m.rxns[r].products)
        products.push_back(micm::Yields(mk_species(std::get<0>(q), std::get<1>(q)), std::get<2>(q)));
      if (m.rxns[r].kind == 0)
        procs.push_back(micm::Process::Create()
                            .SetReactants(reactants)
                            .SetProducts(products)
                            .SetRateConstant(micm::UserDefinedRateConstant({ .label_ = "k" + std::to_string(r) }))
                            .SetPhase(gas));
      else if (m.rxns[r].kind == 2)
        procs.push_back(micm::Process::Create()
                            .SetReactants(reactants)
                            .SetProducts(products)
                            .SetRateConstant(micm::TroeRateConstant({ .k0_A_ = 0.05, .kinf_A_ = 4.0 }))  // depends on the air density
                            .SetPhase(gas));
      else
        procs.push_back(micm::Process::Create()
                            .SetReactants(reactants)
                            .SetProducts(products)
                            .SetRateConstant(micm::ArrheniusRateConstant({ .A_ = 1.0 }))
                            .SetPhase(gas));
    }
  }

  template<class Builder, class DM>
  Outcome run_with(const Mech& m, const Config& c, const Problem& pb)
  {
    Outcome o;
    micm::System sys;
    std::vector<micm::Process> procs;
    make_system(m, c, sys, procs);
    const std::size_t ns = m.names.size();
    try
    {
      // Half of the runs (chosen by the case's own data) use a builder that has already built a solver for the same
      // species listed in the opposite order (in half of the cases plus one that takes part in no reaction), then is given the system alone again;
      // the State used is one of that earlier solver onto which the new solver's State is copy-assigned.  Builders
      // and States are values: neither history may show.
      Builder builder(make_params(pb));
      const bool reuse = c.order.size() >= 2 && ((c.order[0] + c.lu + (int)pb.ncells) % 2 == 0);
      using SolverT = decltype(builder.Build());
      using StateT = decltype(std::declval<SolverT&>().GetState());
      std::unique_ptr<StateT> earlier_state;
      std::optional<SolverT> solver_slot;
      if (reuse)
      {
        Config dc = c;
        std::reverse(dc.order.begin(), dc.order.end());
        micm::System dsys;
        std::vector<micm::Process> dprocs;
        make_system(m, dc, dsys, dprocs, c.lu % 2 == 0);   // with the unused species in half of them: same or other State shape
        solver_slot.emplace(builder.SetSystem(dsys)
                                .SetReactions(procs)
                                .SetNumberOfGridCells((int)pb.ncells)
                                .SetReorderState(c.reorder)
                                .Build());
        earlier_state = std::make_unique<StateT>(solver_slot->GetState());
        builder.SetSystem(sys);
        *solver_slot = builder.Build();  // move assignment onto a solver that has already handed out a State
      }
      else
      {
        builder.SetSystem(sys).SetReactions(procs).SetNumberOfGridCells((int)pb.ncells).SetReorderState(c.reorder);
        solver_slot.emplace(builder.Build());
      }
      SolverT& solver = *solver_slot;
      auto fresh_state = solver.GetState();
      if (reuse)
      {
        // every member comes from the source of the assignment, the tolerances too
        earlier_state->SetRelativeTolerance(0.125);
        fresh_state.SetRelativeTolerance(pb.rtol);
        *earlier_state = fresh_state;
      }
      StateT& state = reuse ? *earlier_state : fresh_state;
      // the name -> index map must be a bijection onto 0..N-1 that agrees with variable_names_
      const std::size_t nvar = ns + m.extra();
      std::vector<int> seen(nvar, 0);
      if (state.variable_map_.size() != nvar || state.variable_names_.size() != nvar)
        o.map_ok = false;
      for (auto& kv : state.variable_map_)
      {
        if (kv.second >= nvar || seen[kv.second]++ || state.variable_names_[kv.second] != kv.first)
          o.map_ok = false;
      }
      if (m.other_phase())
      {
        // the other phase's species are addressed by their unique names and keep their own tolerances
        auto i1 = state.variable_map_.find("aq.s" + std::to_string(m.names[0]));
        auto i2 = state.variable_map_.find("aq.w");
        o.other_phase_ok = i1 != state.variable_map_.end() && i2 != state.variable_map_.end() &&
                           state.absolute_tolerance_[i1->second] == 7.0e-5 && state.absolute_tolerance_[i2->second] == 3.0e-9;
      }
      o.atol.assign(ns, 0);
      for (std::size_t id = 0; id < ns; ++id)
      {
        auto it = state.variable_map_.find("s" + std::to_string(m.names[id]));
        if (it == state.variable_map_.end())
          o.map_ok = false;
        else
          o.atol[id] = state.absolute_tolerance_[it->second];
      }
      if (!reuse)
        state.SetRelativeTolerance(pb.rtol);
      for (std::size_t cidx = 0; cidx < pb.ncells; ++cidx)
      {
        state.conditions_[cidx].temperature_ = pb.T;
        state.conditions_[cidx].pressure_ = pb.P;
        state.conditions_[cidx].CalculateIdealAirDensity();
        state.conditions_[cidx].air_density_ *= pb.density(cidx);
      }
      for (std::size_t id = 0; id < ns; ++id)
      {
        std::vector<double> v(pb.ncells);
        for (std::size_t cidx = 0; cidx < pb.ncells; ++cidx)
          v[cidx] = pb.y0[cidx * ns + id];
        state.SetConcentration(micm::Species("s" + std::to_string(m.names[id])), v);
      }
      for (std::size_t r = 0; r < m.rxns.size(); ++r)
        if (m.rxns[r].kind == 0)
        {
          std::vector<double> v(pb.ncells);
          for (std::size_t cidx = 0; cidx < pb.ncells; ++cidx)
            v[cidx] = pb.k[cidx * m.rxns.size() + r];
          state.SetCustomRateParameter("k" + std::to_string(r), v);
        }
      solver.CalculateRateConstants(state);
      for (std::size_t cidx = 0; cidx < pb.ncells; ++cidx)
        for (std::size_t r = 0; r < m.rxns.size(); ++r)
          o.rate_constants.push_back(state.rate_constants_[cidx][r]);
      auto params = make_params(pb);
#if defined(KIND_BE) && defined(MICM_VERIF_HOOKS)
      const std::size_t clipped_before = micm::verif_hooks::be_clipped_values;
#endif
      for (int s = 0; s < pb.nsteps; ++s)
      {
        if (pb.poison)
          poison_state<StateT, DM>(state);
        if (pb.clamp)
          o.results.push_back(solver.Solve(pb.dt, state));
        else
          o.results.push_back(solver.Solve(pb.dt, state, params));
      }
#if defined(KIND_BE) && defined(MICM_VERIF_HOOKS)
      o.be_clipped = micm::verif_hooks::be_clipped_values - clipped_before;
#endif
      o.y.assign(pb.ncells * ns, 0);
      for (std::size_t id = 0; id < ns; ++id)
      {
        std::size_t col = state.variable_map_.at("s" + std::to_string(m.names[id]));
        for (std::size_t cidx = 0; cidx < pb.ncells; ++cidx)
          o.y[cidx * ns + id] = state.variables_[cidx][col];
      }
    }
    catch (const std::system_error& e)
    {
      o.error = std::string("ERR:") + e.code().category().name() + ":" + std::to_string(e.code().value());
    }
    catch (const std::exception& e)
    {
      o.error = std::string("EXC:") + e.what();
    }
    return o;
  }

  template<class DM, class SM>
  Outcome run_lu(const Mech& m, const Config& c, const Problem& pb)
  {
    switch (c.lu)
    {
      case 0: return run_with<micm::CpuSolverBuilder<ParamsT, DM, SM, micm::LuDecompositionDoolittle>, DM>(m, c, pb);
      case 1: return run_with<micm::CpuSolverBuilder<ParamsT, DM, SM, micm::LuDecompositionMozart>, DM>(m, c, pb);
      case 2: return run_with<micm::CpuSolverBuilderInPlace<ParamsT, DM, SM, micm::LuDecompositionDoolittleInPlace>, DM>(m, c, pb);
      default: return run_with<micm::CpuSolverBuilderInPlace<ParamsT, DM, SM, micm::LuDecompositionMozartInPlace>, DM>(m, c, pb);
    }
  }

  inline Outcome run(const Mech& m, const Config& c, const Problem& pb)
  {
    using namespace micm;
#define RUN_L(LL)                                                                                                   \
  (c.csc ? run_lu<VectorMatrix<double, LL>, SparseMatrix<double, SparseMatrixVectorOrderingCompressedSparseColumn<LL>>>(m, c, pb) \
         : run_lu<VectorMatrix<double, LL>, SparseMatrix<double, SparseMatrixVectorOrderingCompressedSparseRow<LL>>>(m, c, pb))
    switch (c.L)
    {
      case 0:
        return c.csc ? run_lu<Matrix<double>, SparseMatrix<double, SparseMatrixStandardOrderingCompressedSparseColumn>>(m, c, pb)
                     : run_lu<Matrix<double>, SparseMatrix<double, SparseMatrixStandardOrderingCompressedSparseRow>>(m, c, pb);
      case 2: return RUN_L(2);
      case 3: return RUN_L(3);
      case 4: return RUN_L(4);
      default: throw std::runtime_error("unsupported L for the assembled solver");
    }
#undef RUN_L
  }

  inline const char* state_name(micm::SolverState s)
  {
    switch (s)
    {
      case micm::SolverState::NotYetCalled: return "NotYetCalled";
      case micm::SolverState::Running: return "Running";
      case micm::SolverState::Converged: return "Converged";
      case micm::SolverState::ConvergenceExceededMaxSteps: return "ConvergenceExceededMaxSteps";
      case micm::SolverState::StepSizeTooSmall: return "StepSizeTooSmall";
      case micm::SolverState::RepeatedlySingularMatrix: return "RepeatedlySingularMatrix";
      case micm::SolverState::NaNDetected: return "NaNDetected";
      case micm::SolverState::InfDetected: return "InfDetected";
      case micm::SolverState::AcceptingUnconvergedIntegration: return "AcceptingUnconvergedIntegration";
    }
    return "?";
  }

  inline bool bits_equal(double a, double b)
  {
    return std::memcmp(&a, &b, sizeof(double)) == 0;
  }

  // relative agreement of two concentration vectors
  inline bool close(const std::vector<double>& a, const std::vector<double>& b, double rel, double abs_floor)
  {
    if (a.size() != b.size())
      return false;
    double scale = 0;
    for (double x : a)
      if (std::isfinite(x))
        scale = std::max(scale, std::fabs(x));
    for (std::size_t i = 0; i < a.size(); ++i)
    {
      if (std::isnan(a[i]) && std::isnan(b[i]))
        continue;
      if (a[i] == b[i])
        continue;
      if (!(std::fabs(a[i] - b[i]) <= rel * std::max(std::fabs(a[i]), std::fabs(b[i])) + abs_floor * scale))
        return false;
    }
    return true;
  }

  inline Problem read_problem(Toks& tk, std::size_t ns, std::size_t nr)
  {
    Problem pb;
    pb.ncells = tk.i();
    pb.table = (int)tk.i();
    pb.T = tokd(tk);
    pb.P = tokd(tk);
    pb.dt = tokd(tk);
    pb.nsteps = (int)tk.i();
    pb.rtol = tokd(tk);
    pb.h_start = tokd(tk);
    pb.clamp = tk.i() != 0;
    for (std::size_t i = 0; i < pb.ncells * ns; ++i)
      pb.y0.push_back(tokd(tk));
    for (std::size_t i = 0; i < pb.ncells * nr; ++i)
      pb.k.push_back(tokd(tk));
    return pb;
  }

  // -------------------------------------------------------------------------------------
  // scenario "cfg": one problem, several configurations
  //   <mech> <problem> w[ns] nconfigs { L csc lu reorder order[ns] }*
  // oracles: C10 (non-negative after Solve, Converged => finite), C09 (w . y conserved when
  // w . stoichiometry = 0 and nothing was clipped), C12 / C14 (all configurations agree by name),
  // C14 (map bijection, tolerances by name).
  // -------------------------------------------------------------------------------------
  inline void scenario_cfg(Toks& tk, Out& out)
  {
    Mech m = read_mech(tk);
    const std::size_t ns = m.names.size(), nr = m.rxns.size();
    Problem pb = read_problem(tk, ns, nr);
    std::vector<double> w;
    for (std::size_t i = 0; i < ns; ++i)
      w.push_back(tokd(tk));
    long long ncfg = tk.i();
    std::vector<Config> cfgs;
    for (long long i = 0; i < ncfg; ++i)
      cfgs.push_back(read_config(tk, ns));

    // is w a conservation law of the mechanism?  (exact check on the stoichiometry)
    bool conservative = true;
    bool wpos = true;
    for (double x : w)
      if (!(x > 0))
        wpos = false;
    for (auto& r : m.rxns)
    {
      double s = 0;
      auto idx = [&](int name) { return (std::size_t)(std::find(m.names.begin(), m.names.end(), name) - m.names.begin()); };
      for (auto& q : r.reactants)
        if (!q.second)
          s -= w[idx(q.first)];
      for (auto& q : r.products)
        if (!std::get<1>(q))
          s += std::get<2>(q) * w[idx(std::get<0>(q))];
      if (s != 0)
        conservative = false;
    }
    bool inputs_finite = true;
    for (double x : pb.y0)
      if (!std::isfinite(x))
        inputs_finite = false;
    for (std::size_t i = 0; i < pb.k.size(); ++i)
      if (m.rxns[i % nr].kind == 0 && !std::isfinite(pb.k[i]))
        inputs_finite = false;  // only user-defined rate constants read the custom parameter
    for (auto& r : m.rxns)
    {
      if (r.kind != 0 && !(pb.T > 0))
        inputs_finite = false;  // unset conditions give NaN Arrhenius / Troe rate constants
      for (auto& q : r.reactants)
        if (q.second && !(pb.T > 0))
          inputs_finite = false;  // ... and a non-finite air density for the third bodies
    }
    // moderate problems only for the conservation clause (the allowed drift scales with stiffness)
    bool moderate = true;
    for (double x : pb.y0)
      if (!(std::fabs(x) <= 1e3))
        moderate = false;
    for (std::size_t i = 0; i < pb.k.size(); ++i)
      if (m.rxns[i % nr].kind == 0 && !(std::fabs(pb.k[i]) <= 1e3))
        moderate = false;

    std::vector<Outcome> outs;
    for (auto& c : cfgs)
      outs.push_back(run(m, c, pb));
    // What "up to floating-point rounding" means for THIS problem is measured, not assumed: the first configuration is
    // run again with every initial concentration and rate constant moved to the next representable number.  The
    // change this one-ulp perturbation of the inputs makes to the result is the rounding sensitivity of the problem
    // (conditioning of the linear systems, cancellation, the controller's amplification); configurations may differ by
    // a multiple of it.
    double natural = 0;
    bool natural_same_history = true;
    if (cfgs.size() > 1 && outs[0].error.empty())
    {
      Problem pbn = pb;
      for (auto& v : pbn.y0)
        if (std::isfinite(v))
          v = std::nextafter(v, std::numeric_limits<double>::infinity());
      for (auto& v : pbn.k)
        if (std::isfinite(v))
          v = std::nextafter(v, std::numeric_limits<double>::infinity());
      Outcome on = run(m, cfgs[0], pbn);
      if (on.error.empty() && on.y.size() == outs[0].y.size() && on.results.size() == outs[0].results.size())
      {
        for (std::size_t q = 0; q < on.y.size(); ++q)
          if (std::isfinite(on.y[q]) && std::isfinite(outs[0].y[q]))
            natural = std::max(natural, std::fabs(on.y[q] - outs[0].y[q]));
        for (std::size_t q = 0; q < on.results.size(); ++q)
          if (on.results[q].stats_.number_of_steps_ != outs[0].results[q].stats_.number_of_steps_ ||
              on.results[q].stats_.accepted_ != outs[0].results[q].stats_.accepted_)
            natural_same_history = false;
      }
      char nb[64];
      std::snprintf(nb, sizeof nb, "NOTE_ONE_ULP_INPUT_SENSITIVITY=%.3g", natural);
      out.tok(nb);
    }
    for (std::size_t i = 0; i < outs.size(); ++i)
    {
      const auto& o = outs[i];
      out.sep("C" + std::to_string(i));
      if (!o.error.empty())
      {
        out.tok(o.error);
        continue;
      }
      for (auto& r : o.results)
      {
        out.tok(state_name(r.state_));
        out.i((long long)r.stats_.accepted_);
        out.i((long long)r.stats_.rejected_);
      }
      if (!o.map_ok)
        out.tok("ORACLE_SPECIES_MAP_NOT_A_BIJECTION");
      for (std::size_t id = 0; id < ns; ++id)
      {
        double expect = m.atol[id] >= 0 ? m.atol[id] : 1e-3;
        if (o.atol[id] != expect)
          out.tok("ORACLE_TOLERANCE_NOT_BY_NAME");
      }
      if (!o.other_phase_ok)
        out.tok("ORACLE_TOLERANCE_NOT_BY_NAME:other_phase");
      // C10
      bool all_converged = true;
      for (auto& r : o.results)
        if (r.state_ != micm::SolverState::Converged)
          all_converged = false;
      bool any_neg = false, any_nonfinite = false;
      for (double y : o.y)
      {
        if (y < 0)
          any_neg = true;
        if (!std::isfinite(y))
          any_nonfinite = true;
      }
      if (pb.clamp && any_neg)
        out.tok("ORACLE_NEGATIVE_AFTER_SOLVE");
      if (all_converged && !o.results.empty() && any_nonfinite)
      {
        // discriminating features of the recorded findings
        bool rc_nonfinite = false;
        for (double x : o.rate_constants)
          if (!std::isfinite(x))
            rc_nonfinite = true;
#ifdef KIND_BE
        out.tok(rc_nonfinite ? "ORACLE_CONVERGED_WITH_NONFINITE:be_nonfinite_rate_constant" : "ORACLE_CONVERGED_WITH_NONFINITE:be");
#else
        out.tok(!inputs_finite && !rc_nonfinite ? "ORACLE_CONVERGED_WITH_NONFINITE:ros_nonfinite_initial_value"
                                                : "ORACLE_CONVERGED_WITH_NONFINITE:ros");
#endif
      }
      if (all_converged && !o.results.empty() && !inputs_finite && !any_nonfinite)
      {
        // a non-finite input must not be replaced by a fabricated finite result
#ifdef KIND_BE
        out.tok("ORACLE_NONFINITE_INPUT_REPORTED_CONVERGED:be");
#else
        out.tok("ORACLE_NONFINITE_INPUT_REPORTED_CONVERGED:ros");
#endif
      }
      // C09
      if (conservative && wpos && inputs_finite && moderate && !any_nonfinite && all_converged)
      {
        for (std::size_t cidx = 0; cidx < pb.ncells; ++cidx)
        {
          long double before = 0, after = 0, mag = 0;
          bool clipped = o.be_clipped != 0;   // backward Euler clips inside its iterations: the property excludes such runs
          for (std::size_t id = 0; id < ns; ++id)
          {
            before += (long double)w[id] * pb.y0[cidx * ns + id];
            after += (long double)w[id] * o.y[cidx * ns + id];
            mag += std::fabs((long double)w[id] * pb.y0[cidx * ns + id]);
            if (o.y[cidx * ns + id] <= 0 || pb.y0[cidx * ns + id] < 0)
              clipped = true;  // a value at or below zero may have been clipped
          }
          std::size_t steps = 0;
          for (auto& r : o.results)
            steps += r.stats_.number_of_steps_;
          long double tol = 1e-9L * mag + 1e-300L;
          if (!clipped && std::fabs(after - before) > tol)
            out.tok("ORACLE_LINEAR_INVARIANT_NOT_CONSERVED");
        }
      }
    }
    // C12 / C14: all configurations agree by species name
    // every mechanism, listing and configuration of this scenario is valid: an exception from Build, the setters or
    // Solve is a refusal of valid input, in whichever configuration (or in all of them alike)
    for (std::size_t i = 0; i < outs.size(); ++i)
      if (!outs[i].error.empty())
      {
        std::string e = outs[i].error;
        for (auto& ch : e)
          if (ch == ' ')
            ch = '_';
        out.tok("ORACLE_VALID_INPUT_REFUSED:" + e);
        break;
      }
    for (std::size_t i = 1; i < outs.size(); ++i)
    {
      if (outs[i].error != outs[0].error)
        out.tok("ORACLE_CONFIGS_DISAGREE_ON_ERROR");
      else if (outs[0].error.empty())
      {
        bool same_status = outs[i].results.size() == outs[0].results.size();
        for (std::size_t s = 0; same_status && s < outs[0].results.size(); ++s)
          if (outs[i].results[s].state_ != outs[0].results[s].state_)
            same_status = false;
        // concentrations are comparable only when every call of both configurations integrated the whole interval:
        // a run that stops early (step too small, step limit) stops at a time that depends on rounding
        bool both_converged = same_status;
        for (std::size_t s = 0; both_converged && s < outs[0].results.size(); ++s)
          if (outs[0].results[s].state_ != micm::SolverState::Converged)
            both_converged = false;
        // same step history: the results may differ by rounding only.  A different history (an accept / reject
        // decision within rounding of its threshold) is a different discretisation: the results then agree to the
        // accuracy the controller was asked for, atol_i + rtol |y_i|, times a global-error allowance
        bool same_history = same_status;
        for (std::size_t s = 0; same_history && s < outs[0].results.size(); ++s)
          if (outs[i].results[s].stats_.number_of_steps_ != outs[0].results[s].stats_.number_of_steps_ ||
              outs[i].results[s].stats_.accepted_ != outs[0].results[s].stats_.accepted_)
            same_history = false;
        if (both_converged)
          out.tok(same_history ? "NOTE_HISTORY_SAME" : "NOTE_HISTORY_DIFFERS");
        // one configuration finishes comfortably (less than a tenth of the steps the other one used) while the other
        // runs into the step limit or produces NaN: no accept / reject decision within rounding of its threshold explains that
        for (std::size_t q = 0; q < outs[0].results.size() && q < outs[i].results.size(); ++q)
        {
          const auto& ra = outs[0].results[q];
          const auto& rb = outs[i].results[q];
          auto easy_vs_stuck = [](const micm::SolverResult& easy, const micm::SolverResult& stuck)
          {
            if (easy.state_ != micm::SolverState::Converged)
              return false;
            if (stuck.state_ == micm::SolverState::NaNDetected || stuck.state_ == micm::SolverState::InfDetected)
              return true;   // finite in one configuration, not a number in another
            return (stuck.state_ == micm::SolverState::ConvergenceExceededMaxSteps || stuck.state_ == micm::SolverState::StepSizeTooSmall) &&
                   easy.stats_.number_of_steps_ * 10 < stuck.stats_.number_of_steps_;
          };
          if (easy_vs_stuck(ra, rb) || easy_vs_stuck(rb, ra))
          {
            out.tok("ORACLE_CONFIGS_DISAGREE_ON_STATUS");
            break;
          }
        }
        bool conc = close(outs[0].y, outs[i].y, 1e-7, 1e-12);
        if (!conc && natural > 0 && outs[0].y.size() == outs[i].y.size())
        {
          // ... or by a modest multiple of what a one-ulp change of the inputs does to this very problem
          conc = true;
          for (std::size_t q = 0; q < outs[0].y.size(); ++q)
          {
            const double a = outs[0].y[q], b = outs[i].y[q];
            if (!(std::fabs(a - b) <= 100.0 * natural) && !(std::isnan(a) && std::isnan(b)) && a != b)
              conc = false;
          }
          if (conc)
            out.tok("NOTE_CONFIGS_COMPARED_AT_MEASURED_ROUNDING_SENSITIVITY");
        }
        (void)natural_same_history;
        if (!conc && !same_history && outs[0].y.size() == outs[i].y.size() && outs[0].atol.size() == ns)
        {
          conc = true;
          for (std::size_t q = 0; q < outs[0].y.size(); ++q)
          {
            const double a = outs[0].y[q], b = outs[i].y[q];
            const double allow = 1.0e3 * (outs[0].atol[q % ns] + pb.rtol * std::max(std::fabs(a), std::fabs(b)));
            if (!(std::fabs(a - b) <= allow) && !(std::isnan(a) && std::isnan(b)) && a != b)
              conc = false;
          }
          if (conc)
            out.tok("NOTE_CONFIGS_DIFFERENT_HISTORY_COMPARED_AT_SOLVER_TOLERANCE");
        }
        if (!conc)
        {
          double worst = 0;
          for (std::size_t q = 0; q < outs[0].y.size() && q < outs[i].y.size(); ++q)
          {
            double a = outs[0].y[q], b = outs[i].y[q];
            double d = std::fabs(a - b) / std::max({ std::fabs(a), std::fabs(b), 1e-300 });
            if (std::isfinite(d))
              worst = std::max(worst, d);
          }
          char buf[64];
          std::snprintf(buf, sizeof buf, "NOTE_MAX_RELATIVE_DIFFERENCE=%.3g", worst);
          out.tok(buf);
          if (std::getenv("VERIF_DEBUG"))
            for (std::size_t q = 0; q < outs[0].y.size() && q < outs[i].y.size(); ++q)
              std::fprintf(stderr, "cfg %zu elem %zu: %.17g %.17g\n", i, q, outs[0].y[q], outs[i].y[q]);
        }
        if (!conc && !both_converged)
          out.tok("NOTE_CONFIGS_NOT_COMPARED_EARLY_STOP");
        else if (!conc)
          out.tok("ORACLE_CONFIGS_DISAGREE_ON_CONCENTRATIONS");
        else if (!same_status)
          out.tok("NOTE_CONFIGS_DIFFERENT_STATUS");
        if (!close(outs[0].rate_constants, outs[i].rate_constants, 0, 0))
          out.tok("ORACLE_CONFIGS_DISAGREE_ON_RATE_CONSTANTS");
      }
    }
  }

  // -------------------------------------------------------------------------------------
  // scenario "cells": grid cells are independent (C13)
  //   <mech> <problem with ncells = N, all data given for ONE cell> N config other_y0[ns] other_k[nr]
  // (a) N identical cells vs one cell: same result up to rounding in the shared error norm;
  //     all cells of the N-cell run are bit-identical to each other;
  // (b) one cell of interest + N-1 other cells holding different data, vs the same with the other
  //     cells changed: rate constants of the cell of interest bit-identical; its concentrations
  //     unchanged up to the shared error norm's effect (checked loosely).
  // -------------------------------------------------------------------------------------
  inline void scenario_cells(Toks& tk, Out& out)
  {
    Mech m = read_mech(tk);
    const std::size_t ns = m.names.size(), nr = m.rxns.size();
    Problem one = read_problem(tk, ns, nr);  // ncells must be 1
    std::size_t N = tk.i();
    Config c = read_config(tk, ns);
    std::vector<double> oy, ok;
    for (std::size_t i = 0; i < ns; ++i)
      oy.push_back(tokd(tk));
    for (std::size_t i = 0; i < nr; ++i)
      ok.push_back(tokd(tk));
    Outcome o1 = run(m, c, one);
    Problem many = one;
    many.ncells = N;
    many.y0.clear();
    many.k.clear();
    for (std::size_t cidx = 0; cidx < N; ++cidx)
    {
      many.y0.insert(many.y0.end(), one.y0.begin(), one.y0.end());
      many.k.insert(many.k.end(), one.k.begin(), one.k.end());
    }
    Outcome oN = run(m, c, many);
    out.tok(o1.error.empty() ? "ok" : o1.error);
    if (o1.error != oN.error)
      out.tok("ORACLE_CELL_COUNT_CHANGES_ERROR");
    if (o1.error.empty() && oN.error.empty())
    {
      for (std::size_t cidx = 1; cidx < N; ++cidx)
        for (std::size_t id = 0; id < ns; ++id)
          if (!bits_equal(oN.y[cidx * ns + id], oN.y[id]))
            out.tok("ORACLE_IDENTICAL_CELLS_DIFFER");
      for (std::size_t cidx = 0; cidx < N; ++cidx)
        for (std::size_t r = 0; r < nr; ++r)
          if (!bits_equal(oN.rate_constants[cidx * nr + r], o1.rate_constants[r]))
            out.tok("ORACLE_RATE_CONSTANT_DEPENDS_ON_CELL_COUNT");
      std::vector<double> first(oN.y.begin(), oN.y.begin() + ns);
      if (!close(o1.y, first, 1e-9, 1e-13))
      {
        // the error norm of N identical cells equals that of one cell only up to rounding; what a rounding-size
        // perturbation does to this problem is measured (inputs one ulp away), as in the cfg scenario
        double natural = 0;
        Problem pbn = one;
        for (auto& v : pbn.y0)
          if (std::isfinite(v))
            v = std::nextafter(v, std::numeric_limits<double>::infinity());
        for (auto& v : pbn.k)
          if (std::isfinite(v))
            v = std::nextafter(v, std::numeric_limits<double>::infinity());
        Outcome on = run(m, c, pbn);
        if (on.error.empty() && on.y.size() == o1.y.size())
          for (std::size_t q = 0; q < on.y.size(); ++q)
            if (std::isfinite(on.y[q]) && std::isfinite(o1.y[q]))
              natural = std::max(natural, std::fabs(on.y[q] - o1.y[q]));
        bool within = natural > 0;
        for (std::size_t q = 0; q < ns && within; ++q)
          if (!(std::fabs(o1.y[q] - first[q]) <= 100.0 * natural) && o1.y[q] != first[q] && !(std::isnan(o1.y[q]) && std::isnan(first[q])))
            within = false;
        out.tok(within ? "NOTE_COMPARED_AT_MEASURED_ROUNDING_SENSITIVITY" : "ORACLE_N_IDENTICAL_CELLS_NOT_LIKE_ONE_CELL");
      }
      // (b) other cells hold other data
      for (std::size_t pos = 0; pos < N; pos += std::max<std::size_t>(1, N - 1))
      {
        Problem mixed = many;
        mixed.density_factor.assign(N, 1.0);
        for (std::size_t cidx = 0; cidx < N; ++cidx)
          if (cidx != pos)
          {
            mixed.density_factor[cidx] = 1.5 + 0.25 * (double)(cidx % 3);
            for (std::size_t id = 0; id < ns; ++id)
              mixed.y0[cidx * ns + id] = oy[id];
            for (std::size_t r = 0; r < nr; ++r)
              mixed.k[cidx * nr + r] = ok[r];
          }
        Outcome om = run(m, c, mixed);
        if (!om.error.empty())
          continue;
        for (std::size_t r = 0; r < nr; ++r)
          if (!bits_equal(om.rate_constants[pos * nr + r], o1.rate_constants[r]))
            out.tok("ORACLE_RATE_CONSTANT_DEPENDS_ON_OTHER_CELLS");
      }
    }
  }

  // -------------------------------------------------------------------------------------
  // scenario "reuse": a State can be reused indefinitely (C11)
  //   <mech> config nproblems <problem>*   (same ncells in all problems)
  // every problem is run (i) on a fresh solver + State, (ii) in sequence on ONE State whose scratch
  // members are poisoned before every Solve: results must be bit-identical.
  // -------------------------------------------------------------------------------------
  template<class Builder, class DM>
  void reuse_with(const Mech& m, const Config& c, const std::vector<Problem>& pbs, Out& out)
  {
    micm::System sys;
    std::vector<micm::Process> procs;
    make_system(m, c, sys, procs);
    const std::size_t ns = m.names.size();
    // the solver (and therefore the scratch of its States) is built for the largest parameter set; every problem is
    // then solved with its own parameter set through the overload of Solve that takes parameters, half of the time
    Problem widest = pbs[0];
    widest.table = 4;
    auto solver = Builder(make_params(widest))
                      .SetSystem(sys)
                      .SetReactions(procs)
                      .SetNumberOfGridCells((int)pbs[0].ncells)
                      .SetReorderState(c.reorder)
                      .Build();
    auto shared = solver.GetState();
    using StateT = decltype(shared);
    const std::vector<double> base_atol = shared.absolute_tolerance_;
    double atol_scale = 1.0;
    bool broadcast_atol = false;
    auto load = [&](StateT& st, const Problem& pb)
    {
      st.SetRelativeTolerance(pb.rtol);
      {
        // the absolute tolerances are inputs too and change from problem to problem
        std::vector<double> at = base_atol;
        for (auto& a : at)
          a *= atol_scale;
        if (broadcast_atol)
          at.resize(1);
        st.SetAbsoluteTolerances(at);
      }
      for (std::size_t cidx = 0; cidx < pb.ncells; ++cidx)
      {
        st.conditions_[cidx].temperature_ = pb.T;
        st.conditions_[cidx].pressure_ = pb.P;
        st.conditions_[cidx].CalculateIdealAirDensity();
        st.conditions_[cidx].air_density_ *= pb.density(cidx);
      }
      for (std::size_t id = 0; id < ns; ++id)
      {
        std::vector<double> v(pb.ncells);
        for (std::size_t cidx = 0; cidx < pb.ncells; ++cidx)
          v[cidx] = pb.y0[cidx * ns + id];
        st.SetConcentration(micm::Species("s" + std::to_string(m.names[id])), v);
      }
      for (std::size_t r = 0; r < m.rxns.size(); ++r)
        if (m.rxns[r].kind == 0)
        {
          std::vector<double> v(pb.ncells);
          for (std::size_t cidx = 0; cidx < pb.ncells; ++cidx)
            v[cidx] = pb.k[cidx * m.rxns.size() + r];
          st.SetCustomRateParameter("k" + std::to_string(r), v);
        }
    };
    auto same = [](const micm::SolverResult& a, const micm::SolverResult& b)
    {
      return a.state_ == b.state_ && bits_equal(a.final_time_, b.final_time_) && a.stats_.function_calls_ == b.stats_.function_calls_ &&
             a.stats_.jacobian_updates_ == b.stats_.jacobian_updates_ && a.stats_.number_of_steps_ == b.stats_.number_of_steps_ &&
             a.stats_.accepted_ == b.stats_.accepted_ && a.stats_.rejected_ == b.stats_.rejected_ &&
             a.stats_.decompositions_ == b.stats_.decompositions_ && a.stats_.solves_ == b.stats_.solves_;
    };
    for (std::size_t i = 0; i < pbs.size(); ++i)
    {
      Problem pb = pbs[i];
      // consecutive problems differ in air density even when their temperature and pressure coincide
      pb.density_factor.assign(pb.ncells, 1.0 + 0.5 * (double)(i % 2));
      atol_scale = (i % 4 == 0) ? 4.0 : ((i % 2 == 1) ? 0.015625 : 1.0);
      if (i % 4 == 3)
        pb.T = -pb.T;   // a meaningless but well-defined input: whatever is computed from it is computed afresh
      if (i % 5 == 4)
        pb.rtol = 0.0;  // pure absolute error control is a setting like any other
      broadcast_atol = (c.L == 0 && i % 4 == 1);   // row-major: a one-element tolerance vector applies to every species
      auto fresh = solver.GetState();
      load(fresh, pb);
      solver.CalculateRateConstants(fresh);
      std::vector<micm::SolverResult> rf, rs;
      const bool own_params = (i % 2 == 1);
      const auto params_i = make_params(pb);
      for (int s = 0; s < pb.nsteps; ++s)
        rf.push_back(own_params ? solver.Solve(pb.dt, fresh, params_i) : solver.Solve(pb.dt, fresh, make_params(widest)));
      if (i % 3 == 2)
      {
        // the problem is prepared in another State and copy-assigned onto the used one
        auto prepared = solver.GetState();
        load(prepared, pb);
        shared = prepared;
      }
      else
        load(shared, pb);
      solver.CalculateRateConstants(shared);
      for (int s = 0; s < pb.nsteps; ++s)
      {
        poison_state<StateT, DM>(shared);
        rs.push_back(own_params ? solver.Solve(pb.dt, shared, params_i) : solver.Solve(pb.dt, shared, make_params(widest)));
      }
      out.tok(state_name(rf.back().state_));
      for (std::size_t s = 0; s < rf.size(); ++s)
        if (!same(rf[s], rs[s]))
          out.tok("ORACLE_REUSED_STATE_DIFFERENT_RESULT");
      const auto& a = fresh.variables_.AsVector();
      const auto& b = shared.variables_.AsVector();
      // logical elements only (padding lanes are not part of the result)
      for (std::size_t cidx = 0; cidx < pb.ncells; ++cidx)
        for (std::size_t col = 0; col < ns; ++col)
          if (!bits_equal(fresh.variables_[cidx][col], shared.variables_[cidx][col]))
            out.tok("ORACLE_REUSED_STATE_DIFFERENT_CONCENTRATIONS");
      for (std::size_t cidx = 0; cidx < pb.ncells; ++cidx)
        for (std::size_t r = 0; r < m.rxns.size(); ++r)
          if (!bits_equal(fresh.rate_constants_[cidx][r], shared.rate_constants_[cidx][r]))
            out.tok("ORACLE_REUSED_STATE_DIFFERENT_RATE_CONSTANTS");
      (void)a;
      (void)b;
    }
  }

  template<class DM, class SM>
  void reuse_lu(const Mech& m, const Config& c, const std::vector<Problem>& pbs, Out& out)
  {
    switch (c.lu)
    {
      case 0: reuse_with<micm::CpuSolverBuilder<ParamsT, DM, SM, micm::LuDecompositionDoolittle>, DM>(m, c, pbs, out); break;
      case 1: reuse_with<micm::CpuSolverBuilder<ParamsT, DM, SM, micm::LuDecompositionMozart>, DM>(m, c, pbs, out); break;
      case 2: reuse_with<micm::CpuSolverBuilderInPlace<ParamsT, DM, SM, micm::LuDecompositionDoolittleInPlace>, DM>(m, c, pbs, out); break;
      default: reuse_with<micm::CpuSolverBuilderInPlace<ParamsT, DM, SM, micm::LuDecompositionMozartInPlace>, DM>(m, c, pbs, out); break;
    }
  }

  inline void scenario_reuse(Toks& tk, Out& out)
  {
    using namespace micm;
    Mech m = read_mech(tk);
    const std::size_t ns = m.names.size(), nr = m.rxns.size();
    Config c = read_config(tk, ns);
    long long np = tk.i();
    std::vector<Problem> pbs;
    for (long long i = 0; i < np; ++i)
      pbs.push_back(read_problem(tk, ns, nr));
    switch (c.L)
    {
      case 0:
        if (c.csc)
          reuse_lu<Matrix<double>, SparseMatrix<double, SparseMatrixStandardOrderingCompressedSparseColumn>>(m, c, pbs, out);
        else
          reuse_lu<Matrix<double>, SparseMatrix<double, SparseMatrixStandardOrderingCompressedSparseRow>>(m, c, pbs, out);
        break;
      case 2:
        if (c.csc)
          reuse_lu<VectorMatrix<double, 2>, SparseMatrix<double, SparseMatrixVectorOrderingCompressedSparseColumn<2>>>(m, c, pbs, out);
        else
          reuse_lu<VectorMatrix<double, 2>, SparseMatrix<double, SparseMatrixVectorOrderingCompressedSparseRow<2>>>(m, c, pbs, out);
        break;
      case 3:
        if (c.csc)
          reuse_lu<VectorMatrix<double, 3>, SparseMatrix<double, SparseMatrixVectorOrderingCompressedSparseColumn<3>>>(m, c, pbs, out);
        else
          reuse_lu<VectorMatrix<double, 3>, SparseMatrix<double, SparseMatrixVectorOrderingCompressedSparseRow<3>>>(m, c, pbs, out);
        break;
      default:
        if (c.csc)
          reuse_lu<VectorMatrix<double, 4>, SparseMatrix<double, SparseMatrixVectorOrderingCompressedSparseColumn<4>>>(m, c, pbs, out);
        else
          reuse_lu<VectorMatrix<double, 4>, SparseMatrix<double, SparseMatrixVectorOrderingCompressedSparseRow<4>>>(m, c, pbs, out);
        break;
    }
  }

  // -------------------------------------------------------------------------------------
  // scenario "acc": accuracy on a problem with a known solution (C08)
  //   acc L csc lu ncells table rtol dt h_start k1[ncells] k2[ncells] a0[ncells]
  // The chain A -> B -> C with per-cell rate constants k1 != k2 (well separated), B(0) = C(0) = 0; with a0 < 0 the chain
  // starts empty and is fed by an emission -> A of rate -a0.
  //   Rosenbrock: a Converged result differs from the Bateman solution by a modest multiple of (atol + rtol |y|)
  //               per accepted step;
  //   backward Euler: the result is the composition of the closed-form implicit-Euler maps for the step sizes the
  //               configured controller prescribes (every step of a linear problem converges).
  // -------------------------------------------------------------------------------------
  inline void scenario_acc(Toks& tk, Out& out)
  {
    Config c;
    c.L = (int)tk.i();
    c.csc = tk.i() != 0;
    c.lu = (int)tk.i();
    c.reorder = true;
    c.order = { 0, 1, 2 };
    Problem pb;
    pb.ncells = tk.i();
    pb.table = (int)tk.i();
    // variants (tens digit of the table token): 1 = a different absolute tolerance for every species; 2 = the same
    // chain a million times faster over a time step a million times shorter (time scales below a microsecond);
    // 3 = a fourth, inert species that stays exactly zero and has absolute tolerance zero
    const int variant = pb.table / 10;
    pb.table %= 10;
    pb.rtol = tokd(tk);
    pb.dt = tokd(tk);
    pb.h_start = tokd(tk);
    pb.nsteps = 1;
    pb.clamp = false;
    const double time_scale = variant == 2 ? 1.0e-7 : 1.0;
    pb.dt *= time_scale;
    pb.h_start *= time_scale;
    std::vector<double> k1, k2, a0;
    for (std::size_t i = 0; i < pb.ncells; ++i)
      k1.push_back(tokd(tk));
    for (std::size_t i = 0; i < pb.ncells; ++i)
      k2.push_back(tokd(tk));
    for (std::size_t i = 0; i < pb.ncells; ++i)
      a0.push_back(tokd(tk));
    const double atol = 1.0e-13;
    for (auto& v : k1)
      v /= time_scale;
    for (auto& v : k2)
      v /= time_scale;
    if (a0[0] < 0)
      for (auto& v : a0)
        v /= time_scale;   // the emission rate scales like a rate constant
    // variant 1: concentrations of 1e-9, tight absolute tolerances on A and B, a loose one on the sink C (which feeds
    // nothing back): the accuracy of A and B then rests on their own tolerances being used for them
    if (variant == 1)
      for (auto& v : a0)
        v *= 1.0e-9;
    const std::vector<double> atols = variant == 1 ? std::vector<double>{ 1.0e-17, 1.0e-17, 1.0e-6 } : std::vector<double>{ atol, atol, atol };
    Mech m;
    m.names = { 1, 2, 3 };
    m.atol = atols;
    if (variant == 3)
    {
      m.names.push_back(4);
      m.atol.push_back(0.0);
      c.order = { 0, 1, 2, 3 };
    }
    const std::size_t nsp = m.names.size();
    Rxn r1, r2;
    r1.reactants = { { 1, false } };
    r1.products = { std::make_tuple(2, false, 1.0) };
    r2.reactants = { { 2, false } };
    r2.products = { std::make_tuple(3, false, 1.0) };
    m.rxns = { r1, r2 };
    // a0 < 0 in the first cell: the same chain fed by an emission (a reaction without reactants) of rate -a0 from an
    // empty state: every concentration starts at exactly zero
    const bool source = a0[0] < 0;
    if (source)
    {
      Rxn r0;
      r0.products = { std::make_tuple(1, false, 1.0) };
      m.rxns = { r0, r1, r2 };
    }
    for (std::size_t i = 0; i < pb.ncells; ++i)
    {
      pb.y0.push_back(source ? 0.0 : a0[i]);
      pb.y0.push_back(0.0);
      pb.y0.push_back(0.0);
      if (variant == 3)
        pb.y0.push_back(0.0);
      if (source)
        pb.k.push_back(std::fabs(a0[i]));
      pb.k.push_back(k1[i]);
      pb.k.push_back(k2[i]);
    }
    Outcome o = run(m, c, pb);
    if (!o.error.empty())
    {
      out.tok(o.error);
      return;
    }
    const auto& res = o.results[0];
    out.tok(state_name(res.state_));
    out.tok("NOTE_steps=" + std::to_string(res.stats_.accepted_));
    if (res.state_ != micm::SolverState::Converged)
      return;
    double worst = 0;
    for (std::size_t i = 0; i < pb.ncells; ++i)
    {
      long double K1 = k1[i], K2 = k2[i], A0 = a0[i], t = pb.dt;
      long double ea, eb, ec;
#ifdef KIND_BE
      // the step sizes: h_start (or the whole interval), doubled after two successes, clipped to the remainder
      long double H = pb.h_start == 0.0 ? t : std::min<long double>(pb.h_start, t), now = 0;
      long double A = source ? 0.0L : A0, B = 0, C = 0;
      std::size_t succ = 0;
      while (now < t)
      {
        // (I - H J) y_new = y   for J = [[-k1,0,0],[k1,-k2,0],[0,k2,0]]
        long double An = (A + (source ? H * std::fabs(A0) : 0.0L)) / (1 + H * K1);
        long double Bn = (B + H * K1 * An) / (1 + H * K2);
        long double Cn = C + H * K2 * Bn;
        A = An; B = Bn; C = Cn;
        now += H;
        if (++succ >= 2)
        {
          succ = 0;
          H *= 2;
        }
        H = std::min(H, t - now);
      }
      ea = A; eb = B; ec = C;
      const long double allow_factor = 1.0e4L;   // Newton on a linear problem is exact up to the convergence test
#else
      if (source)
      {
        const long double S = std::fabs(A0);
        ea = S / K1 * (1 - std::exp(-K1 * t));
        eb = S * ((1 - std::exp(-K2 * t)) / K2 - (std::exp(-K1 * t) - std::exp(-K2 * t)) / (K2 - K1));
        ec = S * t - ea - eb;
      }
      else
      {
        ea = A0 * std::exp(-K1 * t);
        eb = A0 * K1 / (K2 - K1) * (std::exp(-K1 * t) - std::exp(-K2 * t));
        ec = A0 - ea - eb;
      }
      const long double allow_factor = 10.0L + 1.0L * (long double)res.stats_.accepted_;
#endif
      const long double exact[3] = { ea, eb, ec };
      for (int sp = 0; sp < 3; ++sp)
      {
        long double got = o.y[i * nsp + sp];
        long double scale = (long double)atols[sp] + (long double)pb.rtol * std::fabs(exact[sp]);
#ifdef KIND_BE
        scale = 1.0e-16L * (1 + std::fabs(exact[sp])) + 1e-300L;   // rounding only: 1e4 * 1e-16 relative
#endif
        double ratio = (double)(std::fabs(got - exact[sp]) / scale / allow_factor);
        if (ratio > worst)
          worst = ratio;
      }
    }
    char buf[64];
    std::snprintf(buf, sizeof buf, "NOTE_worst_error_over_allowance=%.3g", worst);
    out.tok(buf);
    if (!(worst <= 1.0))
    {
#ifdef KIND_BE
      out.tok("ORACLE_BACKWARD_EULER_NOT_THE_IMPLICIT_EULER_MAP");
#else
      out.tok("ORACLE_ERROR_EXCEEDS_TOLERANCE_PER_ACCEPTED_STEP");
#endif
    }
  }

  // -------------------------------------------------------------------------------------
  // scenario "hstart": the first attempt of a built solver uses the configured h_start (C07)
  //   hstart L csc lu dt
  // A -> B with a rate constant of 1e-6 /s: whatever the step size, the error norm is far below 1.  With h_start = dt
  // (h_max left at its default "no limit") the Solve of dt seconds is one attempt, accepted.
  // -------------------------------------------------------------------------------------
  inline void scenario_hstart(Toks& tk, Out& out)
  {
    Config c;
    c.L = (int)tk.i();
    c.csc = tk.i() != 0;
    c.lu = (int)tk.i();
    c.reorder = true;
    c.order = { 0, 1 };
    Problem pb;
    pb.ncells = 1;
    pb.table = 1;
    pb.rtol = 1.0e-6;
    pb.dt = tokd(tk);
    pb.h_start = pb.dt;
    pb.nsteps = 1;
    Mech m;
    m.names = { 1, 2 };
    m.atol = { -1.0, -1.0 };
    Rxn r1;
    r1.reactants = { { 1, false } };
    r1.products = { std::make_tuple(2, false, 1.0) };
    m.rxns = { r1 };
    pb.y0 = { 1.0, 0.0 };
    pb.k = { 1.0e-6 };
    Outcome o = run(m, c, pb);
    if (!o.error.empty())
    {
      out.tok(o.error);
      return;
    }
    const auto& res = o.results[0];
    out.tok(state_name(res.state_));
    out.tok("NOTE_steps=" + std::to_string(res.stats_.number_of_steps_) + "_accepted=" + std::to_string(res.stats_.accepted_));
    if (res.state_ != micm::SolverState::Converged || res.stats_.accepted_ != 1 || res.stats_.rejected_ != 0)
      out.tok("ORACLE_STEP_FIRST_ATTEMPT_NOT_H_START");
  }

  inline int main_impl(const char* fam)
  {
    return vio::run({ { fam,
                        [](Toks& tk, Out& out)
                        {
                          std::string sc = tk.next();
                          if (sc == "cfg")
                            scenario_cfg(tk, out);
                          else if (sc == "cells")
                            scenario_cells(tk, out);
                          else if (sc == "reuse")
                            scenario_reuse(tk, out);
                          else if (sc == "acc")
                            scenario_acc(tk, out);
                          else if (sc == "hstart")
                            scenario_hstart(tk, out);
                          else
                            out.tok("UNKNOWN_SCENARIO");
                        } } });
  }
}  // namespace simpl
