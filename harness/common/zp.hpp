// zp.hpp — the prime field Z/p, p = 2^31 - 1, as an element type for micm's templates
// (SparseMatrix, the four LU decompositions, the two linear solvers, Matrix, VectorMatrix).
// 0^-1 := 0, as in the Coq instance NumZp.  Implicit conversions from/to double and the
// mixed double overloads are what the templates need (e.g. `1.0 / U[...]`, `x = 0`).
#pragma once
#include <cstdint>
#include <iostream>

struct Zp
{
  static constexpr std::int64_t P = 2147483647LL;
  std::int64_t v;
  static std::int64_t norm(std::int64_t x)
  {
    x %= P;
    if (x < 0)
      x += P;
    return x;
  }
  Zp()
      : v(0)
  {
  }
  Zp(int x)
      : v(norm(x))
  {
  }
  Zp(long x)
      : v(norm(x))
  {
  }
  Zp(long long x)
      : v(norm(x))
  {
  }
  Zp(unsigned long x)
      : v(norm((std::int64_t)x))
  {
  }
  Zp(double x)
      : v(norm((std::int64_t)x))
  {
  }
  operator double() const
  {
    return (double)v;
  }
  static std::int64_t powmod(std::int64_t a, std::int64_t e)
  {
    std::int64_t r = 1;
    a = norm(a);
    while (e > 0)
    {
      if (e & 1)
        r = (r * a) % P;
      a = (a * a) % P;
      e >>= 1;
    }
    return r;
  }
  Zp inv() const
  {
    Zp r;
    r.v = (v == 0) ? 0 : powmod(v, P - 2);
    return r;
  }
  Zp& operator+=(const Zp& o)
  {
    v = (v + o.v) % P;
    return *this;
  }
  Zp& operator-=(const Zp& o)
  {
    v = norm(v - o.v);
    return *this;
  }
  Zp& operator*=(const Zp& o)
  {
    v = (v * o.v) % P;
    return *this;
  }
  Zp& operator/=(const Zp& o)
  {
    v = (v * o.inv().v) % P;
    return *this;
  }
};
inline Zp operator+(Zp a, const Zp& b) { return a += b; }
inline Zp operator-(Zp a, const Zp& b) { return a -= b; }
inline Zp operator*(Zp a, const Zp& b) { return a *= b; }
inline Zp operator/(Zp a, const Zp& b) { return a /= b; }
inline Zp operator+(double a, const Zp& b) { return Zp(a) + b; }
inline Zp operator-(double a, const Zp& b) { return Zp(a) - b; }
inline Zp operator*(double a, const Zp& b) { return Zp(a) * b; }
inline Zp operator/(double a, const Zp& b) { return Zp(a) / b; }
inline Zp operator+(const Zp& a, double b) { return a + Zp(b); }
inline Zp operator-(const Zp& a, double b) { return a - Zp(b); }
inline Zp operator*(const Zp& a, double b) { return a * Zp(b); }
inline Zp operator/(const Zp& a, double b) { return a / Zp(b); }
inline bool operator==(const Zp& a, const Zp& b) { return a.v == b.v; }
inline bool operator!=(const Zp& a, const Zp& b) { return a.v != b.v; }
inline std::ostream& operator<<(std::ostream& os, const Zp& a) { return os << a.v; }
