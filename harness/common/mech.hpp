// mech.hpp — mechanisms as case tokens (shared by drv_process.cpp and drv_jit.cpp) and the dense
// stoichiometric oracle for the forcing.
#pragma once
#include "caseio.hpp"

#include <micm/process/process.hpp>
#include <micm/process/process_set.hpp>
#include <micm/process/user_defined_rate_constant.hpp>

#include <functional>

using vio::Out;
using vio::Toks;

struct Mech
{
  std::map<std::string, std::size_t> vmap;
  std::vector<micm::Process> processes;
  // the same mechanism as plain data, for the oracle
  struct R
  {
    std::vector<std::pair<long long, bool>> reactants;            // name, parameterised
    std::vector<std::tuple<long long, bool, double>> products;    // name, parameterised, yield
  };
  std::vector<R> rx;
  std::map<long long, std::size_t> imap;
};

static micm::Species mk_species(long long name, bool param)
{
  micm::Species s("s" + std::to_string(name));
  if (param)
    s.parameterize_ = [](const micm::Conditions&) { return 1.0; };
  return s;
}

static Mech read_mech(Toks& tk)
{
  Mech m;
  long long nmap = tk.i();
  for (long long k = 0; k < nmap; ++k)
  {
    long long name = tk.i(), idx = tk.i();
    if (!m.imap.count(name))
    {
      m.vmap["s" + std::to_string(name)] = (std::size_t)idx;
      m.imap[name] = (std::size_t)idx;
    }
  }
  long long nrxn = tk.i();
  for (long long r = 0; r < nrxn; ++r)
  {
    Mech::R R;
    std::vector<micm::Species> reactants;
    std::vector<micm::Yield> products;
    long long nr = tk.i();
    for (long long k = 0; k < nr; ++k)
    {
      long long name = tk.i(), p = tk.i();
      reactants.push_back(mk_species(name, p != 0));
      R.reactants.emplace_back(name, p != 0);
    }
    long long np = tk.i();
    for (long long k = 0; k < np; ++k)
    {
      long long name = tk.i(), p = tk.i(), y = tk.i();
      products.push_back(micm::Yields(mk_species(name, p != 0), y / 8.0));
      R.products.emplace_back(name, p != 0, y / 8.0);
    }
    m.rx.push_back(R);
    m.processes.push_back(micm::Process::Create()
                              .SetReactants(reactants)
                              .SetProducts(products)
                              .SetRateConstant(micm::UserDefinedRateConstant({ .label_ = "r" + std::to_string(r) }))
                              .SetPhase(micm::Phase{}));
  }
  return m;
}

template<class M>
static M to_matrix(std::size_t nrow, std::size_t ncol, double pad, const std::vector<long long>& vals)
{
  M m(nrow, ncol, pad);
  for (std::size_t r = 0; r < nrow; ++r)
    for (std::size_t c = 0; c < ncol; ++c)
      m[r][c] = (double)vals[r * ncol + c];
  return m;
}

// ---- oracle: dense stoichiometric recomputation, independent of ProcessSet's tables ----
// forcing[c][s] = f0 + sum_r (sum_{products = s} yield - #{reactants = s}) * k[c][r] * prod_{reactants} y
static bool oracle_forcing(
    const Mech& m,
    std::size_t ncells,
    std::size_t nspec,
    std::size_t nrxn,
    const std::vector<long long>& rc,
    const std::vector<long long>& y,
    const std::vector<long long>& f0,
    const std::function<double(std::size_t, std::size_t)>& get)
{
  for (std::size_t c = 0; c < ncells; ++c)
  {
    std::vector<double> expect(nspec);
    for (std::size_t s = 0; s < nspec; ++s)
      expect[s] = (double)f0[c * nspec + s];
    for (std::size_t r = 0; r < nrxn; ++r)
    {
      double rate = (double)rc[c * nrxn + r];
      for (auto& q : m.rx[r].reactants)
        if (!q.second)
          rate *= (double)y[c * nspec + m.imap.at(q.first)];
      for (auto& q : m.rx[r].reactants)
        if (!q.second)
          expect[m.imap.at(q.first)] -= rate;
      for (auto& p : m.rx[r].products)
        if (!std::get<1>(p))
          expect[m.imap.at(std::get<0>(p))] += std::get<2>(p) * rate;
    }
    for (std::size_t s = 0; s < nspec; ++s)
      if (get(c, s) != expect[s])
        return false;
  }
  return true;
}

