// mocks.hpp — scripted, recording policies for the integrator templates.
//   MockRates:    forcing(y) = P y + q per cell ; -J(y) = -(P + diag(y/4))           (pure functions)
//   MockLinSep:   Factor(J, L, U) keeps a copy of J ; Solve(K, L, U): K = K/2 + diag(J)/64   (w scripted for BE)
//   MockLinIp:    Factor(J): J *= 2 ; Solve(K, J): K = K/2 + diag(J)/128
// Every call appends what it saw (logical element order) to a shared trace.
// The same functions are implemented over Q in extract/driver3.ml.
#pragma once
#include "caseio.hpp"

#include <memory>
#include <vector>

namespace mocks
{
  struct Shared
  {
    std::size_t ncells = 0, nspec = 0;
    std::vector<double> P, q;
    vio::Out trace;
    std::vector<double> factored;          // copy of the matrix at the last Factor (logical c, i, j)
    std::vector<double> solve_scale;       // BE: scripted multiplier per Solve call (empty = Rosenbrock rule)
    std::size_t solve_calls = 0;
    std::vector<double> errors;            // scripted NormalizedError results
    std::size_t error_calls = 0;
    bool quiet = false;
    // structured copy of the trace for the implementation-level oracles
    struct Ev
    {
      char kind;  // 'F' forcing, 'J' jacobian, 'L' factor, 'S' solve, 'N' norm
      std::vector<double> a, b, c;
      double value = 0;
    };
    std::vector<Ev> events;
  };
  template<class DM>
  std::vector<double> flat_dense(const DM& m, std::size_t nrow, std::size_t ncol)
  {
    std::vector<double> v;
    for (std::size_t r = 0; r < nrow; ++r)
      for (std::size_t c = 0; c < ncol; ++c)
        v.push_back((double)m[r][c]);
    return v;
  }
  template<class SM>
  std::vector<double> flat_sparse_full(const SM& m, std::size_t nb, std::size_t n)
  {
    std::vector<double> v;
    for (std::size_t b = 0; b < nb; ++b)
      for (std::size_t i = 0; i < n; ++i)
        for (std::size_t j = 0; j < n; ++j)
          v.push_back((double)m[b][i][j]);
    return v;
  }

  template<class DM>
  void dump_dense(const DM& m, std::size_t nrow, std::size_t ncol, vio::Out& out)
  {
    for (std::size_t r = 0; r < nrow; ++r)
      for (std::size_t c = 0; c < ncol; ++c)
        out.q((double)m[r][c]);
  }
  template<class SM>
  void dump_sparse_full(const SM& m, std::size_t nb, std::size_t n, vio::Out& out)
  {
    for (std::size_t b = 0; b < nb; ++b)
      for (std::size_t i = 0; i < n; ++i)
        for (std::size_t j = 0; j < n; ++j)
          out.q((double)m[b][i][j]);
  }

  struct MockRates
  {
    std::shared_ptr<Shared> sh;
    template<class DM>
    void AddForcingTerms(const DM& rc, const DM& Y, DM& F) const
    {
      if (!sh->quiet)
      {
        sh->trace.tok("F");
        dump_dense(Y, sh->ncells, sh->nspec, sh->trace);
        sh->events.push_back({ 'F', flat_dense(Y, sh->ncells, sh->nspec) });
      }
      const std::size_t n = sh->nspec;
      for (std::size_t c = 0; c < sh->ncells; ++c)
        for (std::size_t s = 0; s < n; ++s)
        {
          double acc = sh->q[s];
          for (std::size_t t = 0; t < n; ++t)
            acc += sh->P[s * n + t] * Y[c][t];
          F[c][s] += acc;
        }
    }
    template<class DM, class SM>
    void SubtractJacobianTerms(const DM& rc, const DM& Y, SM& J) const
    {
      if (!sh->quiet && sh->solve_scale.empty())
      {
        sh->trace.tok("J");
        dump_dense(Y, sh->ncells, sh->nspec, sh->trace);
      }
      if (!sh->quiet)
        sh->events.push_back({ 'J', flat_dense(Y, sh->ncells, sh->nspec) });
      const std::size_t n = sh->nspec;
      for (std::size_t c = 0; c < sh->ncells; ++c)
        for (std::size_t i = 0; i < n; ++i)
          for (std::size_t j = 0; j < n; ++j)
            J[c][i][j] -= sh->P[i * n + j] + (i == j ? Y[c][i] / 4.0 : 0.0);
    }
  };

  template<class SM>
  struct MockLinSep
  {
    std::shared_ptr<Shared> sh;
    void Factor(const SM& J, SM& L, SM& U) const
    {
      sh->trace.tok("LF");
      dump_sparse_full(J, sh->ncells, sh->nspec, sh->trace);
      sh->events.push_back({ 'L', flat_sparse_full(J, sh->ncells, sh->nspec) });
      sh->factored.clear();
      for (std::size_t b = 0; b < sh->ncells; ++b)
        for (std::size_t i = 0; i < sh->nspec; ++i)
          for (std::size_t j = 0; j < sh->nspec; ++j)
            sh->factored.push_back(J[b][i][j]);
    }
    template<class DM>
    void Solve(DM& K, const SM& L, const SM& U) const
    {
      sh->trace.tok("SV");
      dump_dense(K, sh->ncells, sh->nspec, sh->trace);
      sh->events.push_back({ 'S', flat_dense(K, sh->ncells, sh->nspec) });
      const std::size_t n = sh->nspec;
      if (!sh->solve_scale.empty())
      {
        double w = sh->solve_scale[std::min(sh->solve_calls, sh->solve_scale.size() - 1)];
        ++sh->solve_calls;
        for (std::size_t c = 0; c < sh->ncells; ++c)
          for (std::size_t s = 0; s < n; ++s)
            K[c][s] = K[c][s] * w;
        sh->events.back().b = flat_dense(K, sh->ncells, sh->nspec);
        return;
      }
      for (std::size_t c = 0; c < sh->ncells; ++c)
        for (std::size_t s = 0; s < n; ++s)
          K[c][s] = K[c][s] / 2.0 + sh->factored[c * n * n + s * n + s] / 64.0;
      sh->events.back().b = flat_dense(K, sh->ncells, sh->nspec);
    }
  };

  template<class SM>
  struct MockLinIp
  {
    std::shared_ptr<Shared> sh;
    void Factor(SM& J) const
    {
      sh->trace.tok("LF");
      dump_sparse_full(J, sh->ncells, sh->nspec, sh->trace);
      sh->events.push_back({ 'L', flat_sparse_full(J, sh->ncells, sh->nspec) });
      for (auto& e : J.AsVector())
        e *= 2.0;
    }
    template<class DM>
    void Solve(DM& K, const SM& J) const
    {
      sh->trace.tok("SV");
      dump_dense(K, sh->ncells, sh->nspec, sh->trace);
      sh->events.push_back({ 'S', flat_dense(K, sh->ncells, sh->nspec) });
      const std::size_t n = sh->nspec;
      if (!sh->solve_scale.empty())
      {
        double w = sh->solve_scale[std::min(sh->solve_calls, sh->solve_scale.size() - 1)];
        ++sh->solve_calls;
        for (std::size_t c = 0; c < sh->ncells; ++c)
          for (std::size_t s = 0; s < n; ++s)
            K[c][s] = K[c][s] * w;
        sh->events.back().b = flat_dense(K, sh->ncells, sh->nspec);
        return;
      }
      for (std::size_t c = 0; c < sh->ncells; ++c)
        for (std::size_t s = 0; s < n; ++s)
          K[c][s] = K[c][s] / 2.0 + (double)J[c][s][s] / 128.0;
      sh->events.back().b = flat_dense(K, sh->ncells, sh->nspec);
    }
  };
}  // namespace mocks
