// dump_tables.cpp — translator front end: prints every field of the five Rosenbrock
// parameter factories, the default solver parameters and the constants the proofs rely on,
// as hexadecimal floats (exact), compiled against the current headers on every run.
#include <micm/solver/backward_euler_solver_parameters.hpp>
#include <micm/solver/rosenbrock.hpp>
#include <micm/solver/rosenbrock_solver_parameters.hpp>

#include <cstdio>

static void dump(const char* name, const micm::RosenbrockSolverParameters& p)
{
  std::printf("table %s\n", name);
  std::printf("stages %zu\n", p.stages_);
  std::printf("upper_limit_tolerance %zu\n", p.upper_limit_tolerance_);
  std::printf("max_number_of_steps %zu\n", p.max_number_of_steps_);
  std::printf("round_off %a\n", p.round_off_);
  std::printf("factor_min %a\n", p.factor_min_);
  std::printf("factor_max %a\n", p.factor_max_);
  std::printf("rejection_factor_decrease %a\n", p.rejection_factor_decrease_);
  std::printf("safety_factor %a\n", p.safety_factor_);
  std::printf("h_min %a\n", p.h_min_);
  std::printf("h_max %a\n", p.h_max_);
  std::printf("h_start %a\n", p.h_start_);
  std::printf("estimator_of_local_order %a\n", p.estimator_of_local_order_);
  std::printf("new_function_evaluation");
  for (bool b : p.new_function_evaluation_)
    std::printf(" %d", b ? 1 : 0);
  std::printf("\na");
  for (double v : p.a_)
    std::printf(" %a", v);
  std::printf("\nc");
  for (double v : p.c_)
    std::printf(" %a", v);
  std::printf("\nm");
  for (double v : p.m_)
    std::printf(" %a", v);
  std::printf("\ne");
  for (double v : p.e_)
    std::printf(" %a", v);
  std::printf("\nalpha");
  for (double v : p.alpha_)
    std::printf(" %a", v);
  std::printf("\ngamma");
  for (double v : p.gamma_)
    std::printf(" %a", v);
  std::printf("\nend\n");
}

int main()
{
  using P = micm::RosenbrockSolverParameters;
  dump("two_stage", P::TwoStageRosenbrockParameters());
  dump("three_stage", P::ThreeStageRosenbrockParameters());
  dump("four_stage", P::FourStageRosenbrockParameters());
  dump("four_stage_da", P::FourStageDifferentialAlgebraicRosenbrockParameters());
  dump("six_stage_da", P::SixStageDifferentialAlgebraicRosenbrockParameters());
  micm::BackwardEulerSolverParameters be;
  std::printf("backward_euler\nsmall %a\nh_start %a\nmax_number_of_steps %zu\ntime_step_reductions", be.small_, be.h_start_, be.max_number_of_steps_);
  for (double v : be.time_step_reductions_)
    std::printf(" %a", v);
  std::printf("\nend\n");
  std::printf("constants\ndelta_min %a\nend\n", (double)micm::RosenbrockSolver<int, int>::DELTA_MIN);
  return 0;
}
