// drv_solver_be.cpp — family "slvb": the assembled backward-Euler solver over the configuration cross product.
#define KIND_BE 1
#include "common/solver_impl.hpp"
int main()
{
  return simpl::main_impl("slvb");
}
