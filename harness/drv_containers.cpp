// drv_containers.cpp — families "dense" and "sparse": probes of the real micm containers.
#include "common/caseio.hpp"
#include <set>

#include <micm/util/matrix.hpp>
#include <micm/util/sparse_matrix.hpp>
#include <micm/util/sparse_matrix_standard_ordering.hpp>
#include <micm/util/sparse_matrix_vector_ordering.hpp>
#include <micm/util/vector_matrix.hpp>

using vio::Out;
using vio::Toks;

template<class M>
static void dense_case(std::size_t nrow, std::size_t ncol, std::size_t r0, double v, double alpha, Out& out)
{
  auto fill = [](M& m, auto f)
  {
    auto& d = m.AsVector();
    for (std::size_t k = 0; k < d.size(); ++k)
      d[k] = f(k);
  };
  {
    M m(nrow, ncol, 0.0);
    out.sep("S");
    out.i((long long)m.AsVector().size());
    for (std::size_t r = 0; r < nrow; ++r)
      for (std::size_t c = 0; c < ncol; ++c)
        m[r][c] = 1000.0 * r + c + 1;
    out.sep("A");
    out.qs(m.AsVector());
    {
      // oracle: every written value is stored exactly once (own slot, no aliasing)
      std::map<double, int> seen;
      for (double e : m.AsVector())
        seen[e]++;
      for (std::size_t r = 0; r < nrow; ++r)
        for (std::size_t c = 0; c < ncol; ++c)
          if (seen[1000.0 * r + c + 1] != 1)
            out.tok("ORACLE_DENSE_ALIAS");
    }
    // read back through the const accessor: every logical element must read what was written
    const M& cm = m;
    for (std::size_t r = 0; r < nrow; ++r)
      for (std::size_t c = 0; c < ncol; ++c)
        if (cm[r][c] != 1000.0 * r + c + 1)
          out.tok("ORACLE_READBACK");
    if (cm.NumRows() != nrow || cm.NumColumns() != ncol)
      out.tok("ORACLE_SHAPE");
  }
  auto fy = [](std::size_t k) { return (double)(k + 1); };
  auto fx = [](std::size_t k) { return (double)(2 * k + 3); };
  auto fb = [](std::size_t k) { return (double)(k * k); };
  M x(nrow, ncol), b(nrow, ncol);
  fill(x, fx);
  fill(b, fb);
  {
    M y(nrow, ncol);
    fill(y, fy);
    y.Axpy(alpha, x);
    out.sep("X");
    out.qs(y.AsVector());
  }
  {
    M y(nrow, ncol);
    fill(y, fy);
    y.ForEach([](double& a, const double& p) { a = a * 5 + p; }, x);
    out.sep("F2");
    out.qs(y.AsVector());
  }
  {
    M y(nrow, ncol);
    fill(y, fy);
    y.ForEach([](double& a, const double& p, const double& q) { a = a * 7 + p * 3 + q; }, x, b);
    out.sep("F3");
    out.qs(y.AsVector());
  }
  {
    M y(nrow, ncol);
    fill(y, fy);
    y.Max(v);
    out.sep("MX");
    out.qs(y.AsVector());
  }
  {
    M y(nrow, ncol);
    fill(y, fy);
    y.Min(v);
    out.sep("MN");
    out.qs(y.AsVector());
  }
  if (r0 < nrow)
  {
    auto vals = [](std::size_t n)
    {
      std::vector<double> w(n);
      for (std::size_t c = 0; c < n; ++c)
        w[c] = 5000.0 + c;
      return w;
    };
    auto try_assign = [&](const char* tag, std::size_t n)
    {
      M y(nrow, ncol);
      fill(y, fy);
      out.sep(tag);
      try
      {
        y[r0] = vals(n);
        out.qs(y.AsVector());
      }
      catch (const std::system_error& e)
      {
        out.err(e.code().value());
        // a rejected assignment must not have written anything
        M z(nrow, ncol);
        fill(z, fy);
        if (z.AsVector() != y.AsVector())
          out.tok("ORACLE_WROTE_BEFORE_THROW");
      }
    };
    try_assign("RA", ncol);
    try_assign("RL", ncol + 2);
    if (ncol > 0)
      try_assign("RS", ncol - 1);
    {
      M y(nrow, ncol);
      fill(y, fy);
      std::vector<double> row = y[r0];
      out.sep("RE");
      out.qs(row);
      const M& cy = y;
      std::vector<double> crow = cy[r0];
      if (crow != row)
        out.tok("ORACLE_CONST_ROW");
    }
  }
  {
    std::vector<std::vector<double>> rows(nrow, std::vector<double>(ncol));
    for (std::size_t r = 0; r < nrow; ++r)
      for (std::size_t c = 0; c < ncol; ++c)
        rows[r][c] = 100.0 * r + c + 7;
    auto try_rows = [&](const char* tag, const std::vector<std::vector<double>>& rr)
    {
      out.sep(tag);
      try
      {
        M m(rr);
        out.i((long long)m.NumRows());
        out.i((long long)m.NumColumns());
        out.qs(m.AsVector());
      }
      catch (const std::system_error& e)
      {
        out.err(e.code().value());
      }
    };
    try_rows("FR", rows);
    if (nrow >= 2)
    {
      auto ragged = rows;
      std::size_t rr = r0 % nrow;
      if (rr > 0)
        ragged[rr].insert(ragged[rr].begin(), 0.0);
      try_rows("FG", ragged);
    }
  }
  {
    M y(nrow, ncol);
    fill(y, fy);
    out.sep("CP");
    y.Copy(x);
    out.qs(y.AsVector());
    out.sep("CQ");
    // a matrix with one more storage slot
    try
    {
      M bigger(nrow + 8, ncol + 1);
      y.Copy(bigger);
      out.tok("COPIED");
    }
    catch (const std::runtime_error&)
    {
      out.tok("ERT");
    }
    // Swap exchanges the two storages; Fill / operator= set every slot
    M p(nrow, ncol), q(nrow, ncol);
    fill(p, fy);
    fill(q, fx);
    p.Swap(q);
    M p2(nrow, ncol), q2(nrow, ncol);
    fill(p2, fy);
    fill(q2, fx);
    if (p.AsVector() != q2.AsVector() || q.AsVector() != p2.AsVector())
      out.tok("ORACLE_SWAP");
    p.Fill(3.0);
    for (double e : p.AsVector())
      if (e != 3.0)
        out.tok("ORACLE_FILL");
    q = 4.0;
    for (double e : q.AsVector())
      if (e != 4.0)
        out.tok("ORACLE_ASSIGN_SCALAR");
  }
}

static void fam_dense(Toks& tk, Out& out)
{
  long long L = tk.i(), nrow = tk.i(), ncol = tk.i(), r0 = tk.i(), v = tk.i(), alpha = tk.i();
  VERIF_DISPATCH_L(
      L,
      (dense_case<micm::Matrix<double>>(nrow, ncol, r0, (double)v, (double)alpha, out)),
      (dense_case<micm::VectorMatrix<double, LL>>(nrow, ncol, r0, (double)v, (double)alpha, out)));
}

template<class Ordering>
static void sparse_case(std::size_t n, std::size_t nb, const std::vector<std::pair<std::size_t, std::size_t>>& pat, Out& out)
{
  using SM = micm::SparseMatrix<double, Ordering>;
  auto builder = SM::Create(n).SetNumberOfBlocks(nb).InitialValue(0.0);
  for (auto& p : pat)
    builder = builder.WithElement(p.first, p.second);
  std::unique_ptr<SM> mp;
  try
  {
    mp = std::make_unique<SM>(builder);
  }
  catch (const std::system_error& e)
  {
    out.tok("CTOR_E" + std::to_string(e.code().value()));
    return;
  }
  SM& m = *mp;
  const SM& cm = m;
  out.sep("S");
  out.i((long long)m.AsVector().size());
  out.i((long long)m.FlatBlockSize());
  if (m.NumRows() != n || m.NumColumns() != n || m.NumberOfBlocks() != nb)
    out.tok("ORACLE_SHAPE");
  out.sep("I");
  for (std::size_t b = 0; b <= nb; ++b)
    for (std::size_t r = 0; r <= n; ++r)
      for (std::size_t c = 0; c <= n; ++c)
      {
        try
        {
          std::size_t k = cm.VectorIndex(b, r, c);
          out.i((long long)k);
          // element access through the proxies must hit the same slot
          if (&cm[b][r][c] != &cm.AsVector()[k] || &m[b][r][c] != &m.AsVector()[k])
            out.tok("ORACLE_PROXY_ALIAS");
        }
        catch (const std::system_error& e)
        {
          out.err(e.code().value());
          // the proxies must refuse the access as well
          bool threw = false;
          try
          {
            (void)cm[b][r][c];
          }
          catch (const std::system_error& e2)
          {
            threw = (e2.code().value() == e.code().value());
          }
          if (!threw)
            out.tok("ORACLE_PROXY_NO_THROW");
        }
      }
  {
    // oracle: on the pattern the index is injective, in range, blocks never alias;
    // off the pattern IsZero holds and access is refused
    std::set<std::pair<std::size_t, std::size_t>> pset(pat.begin(), pat.end());
    std::set<std::size_t> used;
    for (std::size_t b = 0; b < nb; ++b)
      for (std::size_t r = 0; r < n; ++r)
        for (std::size_t c = 0; c < n; ++c)
        {
          bool in = pset.count({ r, c }) > 0;
          if (cm.IsZero(r, c) == in)
            out.tok("ORACLE_ISZERO");
          try
          {
            std::size_t k = cm.VectorIndex(b, r, c);
            if (!in)
              out.tok("ORACLE_ZERO_ACCESSIBLE");
            if (k >= cm.AsVector().size())
              out.tok("ORACLE_INDEX_RANGE");
            if (!used.insert(k).second)
              out.tok("ORACLE_SPARSE_ALIAS");
          }
          catch (const std::system_error& e)
          {
            if (in)
              out.tok("ORACLE_ELEMENT_REFUSED");
          }
        }
  }
  out.sep("Z");
  for (std::size_t r = 0; r <= n; ++r)
    for (std::size_t c = 0; c <= n; ++c)
    {
      try
      {
        out.tok(cm.IsZero(r, c) ? "1" : "0");
      }
      catch (const std::system_error& e)
      {
        out.err(e.code().value());
      }
    }
  out.sep("D");
  for (std::size_t b = 0; b <= nb; ++b)   // the block after the last one included: it must be refused like any element of it
  {
    try
    {
      auto d = cm.DiagonalIndices(b);
      out.is(d);
      out.tok(";");
      for (auto idx : d)
        if (idx >= cm.AsVector().size())
          out.tok("ORACLE_INDEX_OUT_OF_STORAGE:diagonal");
      if (b >= nb && !d.empty())
        out.tok("ORACLE_NONEXISTENT_BLOCK_NOT_REFUSED:diagonal");
    }
    catch (const std::system_error& e)
    {
      out.err(e.code().value());
    }
  }
  out.sep("I1");
  try
  {
    out.i((long long)cm.VectorIndex(0, 0));
  }
  catch (const std::system_error& e)
  {
    out.err(e.code().value());
  }
  out.sep("AD");
  auto& d = m.AsVector();
  for (std::size_t k = 0; k < d.size(); ++k)
    d[k] = (double)(k + 1);
  m.AddToDiagonal(1000.0);
  out.qs(m.AsVector());
  {
    // oracle: exactly the stored diagonal of every block moved by 1000, nothing else (real lanes)
    std::set<std::pair<std::size_t, std::size_t>> pset(pat.begin(), pat.end());
    for (std::size_t b = 0; b < nb; ++b)
      for (auto& p : pset)
      {
        std::size_t k = cm.VectorIndex(b, p.first, p.second);
        double expect = (double)(k + 1) + (p.first == p.second ? 1000.0 : 0.0);
        if (cm.AsVector()[k] != expect)
          out.tok("ORACLE_ADD_TO_DIAGONAL");
      }
  }
  // assignment from a builder re-creates the same tables
  SM m2;
  m2 = builder;
  if (m2.AsVector().size() != m.AsVector().size())
    out.tok("ORACLE_ASSIGN_SIZE");
  {
    // ... also onto a matrix that already holds another structure (full, one more block): nothing of it may remain,
    // the diagonal slots included
    auto fb = SM::Create(n).SetNumberOfBlocks(nb + 1).InitialValue(0.0);
    for (std::size_t r = 0; r < n; ++r)
      for (std::size_t c = 0; c < n; ++c)
        fb = fb.WithElement(r, c);
    SM m3(fb);
    m3 = builder;
    if (m3.AsVector().size() != m.AsVector().size())
      out.tok("ORACLE_ASSIGN_SIZE:onto_existing");
    for (std::size_t r = 0; r < n; ++r)
      for (std::size_t c = 0; c < n; ++c)
        if (m3.IsZero(r, c) != m.IsZero(r, c) ||
            (!m.IsZero(r, c) && nb > 0 && m3.VectorIndex(nb - 1, r, c) != m.VectorIndex(nb - 1, r, c)))
          out.tok("ORACLE_ASSIGN_TABLE:onto_existing");
    for (std::size_t b = 0; b < nb; ++b)
      if (m3.DiagonalIndices(b) != m.DiagonalIndices(b))
        out.tok("ORACLE_ASSIGN_TABLE:diagonal_after_assignment");
  }
  for (std::size_t r = 0; r < n; ++r)
    for (std::size_t c = 0; c < n; ++c)
      if (m2.IsZero(r, c) != m.IsZero(r, c) ||
          (!m.IsZero(r, c) && nb > 0 && m2.VectorIndex(nb - 1, r, c) != m.VectorIndex(nb - 1, r, c)))
        out.tok("ORACLE_ASSIGN_TABLE");
}

static void fam_sparse(Toks& tk, Out& out)
{
  long long csc = tk.i(), L = tk.i(), n = tk.i(), nb = tk.i(), np = tk.i();
  std::vector<std::pair<std::size_t, std::size_t>> pat;
  for (long long k = 0; k < np; ++k)
  {
    auto r = tk.i();
    auto c = tk.i();
    pat.emplace_back(r, c);
  }
  if (csc)
  {
    VERIF_DISPATCH_L(
        L,
        (sparse_case<micm::SparseMatrixStandardOrderingCompressedSparseColumn>(n, nb, pat, out)),
        (sparse_case<micm::SparseMatrixVectorOrderingCompressedSparseColumn<LL>>(n, nb, pat, out)));
  }
  else
  {
    VERIF_DISPATCH_L(
        L,
        (sparse_case<micm::SparseMatrixStandardOrderingCompressedSparseRow>(n, nb, pat, out)),
        (sparse_case<micm::SparseMatrixVectorOrderingCompressedSparseRow<LL>>(n, nb, pat, out)));
  }
}

int main()
{
  return vio::run({ { "dense", fam_dense }, { "sparse", fam_sparse } });
}
