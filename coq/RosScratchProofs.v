(* RosScratchProofs.v — C11 for the Rosenbrock integrator: the outcome of Solve (status, time, statistics,
   every event crossing the two policies, the concentrations) is a function of the concentrations alone:
   whatever the Jacobian, the L/U factors, Ynew, the initial forcing, the stage vectors K and the error vector
   held before (of the right shape).  Bisimulation over every accept / reject history. *)
From Model Require Import Base Rosenbrock.
From Coq Require Import Lia Ring QArith Qabs Lqa.
Local Open Scope nat_scope.

Section RosScratch.
  Variable N : Num.
  Notation T := (T N).
  Variables (ltb leb : T -> T -> bool) (nabs : T -> T) (isnan isinf : T -> bool).
  Variable is_zero : T -> bool.
  Variable absorbed : T -> T -> bool.
  Variable pow_inv : T -> T -> T.
  Variables (ten delta_min : T).
  Variables V M F : Type.
  Variable vaxpy : T -> V -> V -> V.
  Variable vzero : V -> V.
  Variable mzero : M -> M.
  Variable add_diag : T -> M -> M.
  Variable forcing : V -> V -> V.
  Variable negjac : V -> M -> M.
  Variable in_place : bool.
  Variable factor_sep : M -> F -> F.
  Variable solve_sep : F -> V -> V.
  Variable factor_ip : M -> M.
  Variable solve_ip : M -> V -> V.
  Variable nerr : nat -> V -> V -> V -> T.
  Variable p : params N.

  Notation event := (event N V M).
  Notation rstate := (rstate V M F).
  Notation loop_state := (loop_state N V M F).
  Notation iter := (ros_iter N ltb leb nabs isnan isinf absorbed pow_inv V M F vaxpy vzero mzero add_diag forcing negjac
                             in_place factor_sep solve_sep factor_ip solve_ip nerr p).
  Notation loop := (ros_loop N ltb leb nabs isnan isinf absorbed pow_inv V M F vaxpy vzero mzero add_diag forcing negjac
                             in_place factor_sep solve_sep factor_ip solve_ip nerr p).
  Notation solve := (ros_solve N ltb leb nabs isnan isinf is_zero absorbed pow_inv ten delta_min V M F vaxpy vzero mzero
                               add_diag forcing negjac in_place factor_sep solve_sep factor_ip solve_ip nerr p).
  Notation stages := (stages_loop N V M F vaxpy vzero forcing in_place solve_sep solve_ip p).
  Notation stage1 := (stage_step N V M F vaxpy vzero forcing in_place solve_sep solve_ip p).

  Hypothesis Hvz : forall v v', vzero v = vzero v'.                      (* Fill(0) forgets *)
  Hypothesis Hmz : forall m m', mzero m = mzero m'.
  Hypothesis Hfs : forall m lu lu', factor_sep m lu = factor_sep m lu'.   (* Factor overwrites L and U (C03) *)

  (* ---------- stage vectors: two lists of the same length that agree on a set of positions ---------- *)
  Definition Kag (S : nat -> Prop) (K K' : list V) : Prop :=
    length K = length K' /\ forall j d, S j -> nth j K d = nth j K' d.

  Lemma Kag_upd (S : nat -> Prop) K K' i v :
    Kag S K K' -> Kag (fun j => S j \/ j = i) (upd i v K) (upd i v K').
  Proof.
    intros [Hl Hn]. split; [rewrite !upd_length; exact Hl|].
    intros j d Hj. rewrite !nth_upd. rewrite <- Hl.
    destruct (Nat.eqb_spec i j) as [<- | Hne]; cbn [andb].
    - destruct (Nat.ltb_spec i (length K)) as [Hlt | Hge]; [reflexivity|].
      rewrite !nth_overflow by lia. reflexivity.
    - destruct Hj as [Hj | Hj]; [apply Hn; exact Hj | congruence].
  Qed.

  Lemma Kag_weaken (S S' : nat -> Prop) K K' : (forall j, S' j -> S j) -> Kag S K K' -> Kag S' K K'.
  Proof. intros H [Hl Hn]. split; [exact Hl | intros j d Hj; apply Hn; apply H; exact Hj]. Qed.

  Lemma fold_seq_ext {A} (f g : A -> nat -> A) n a :
    (forall a j, j < n -> f a j = g a j) -> fold_left f (seq 0 n) a = fold_left g (seq 0 n) a.
  Proof.
    intros H. assert (G : forall l a, (forall j, In j l -> j < n) -> fold_left f l a = fold_left g l a).
    { induction l as [|j l IH]; intros a0 Hl; cbn [fold_left]; [reflexivity|].
      rewrite (H a0 j (Hl j (or_introl eq_refl))). apply IH. intros j' Hj'. apply Hl. right; exact Hj'. }
    apply G. intros j Hj. apply in_seq in Hj. lia.
  Qed.

  (* ---------- the stage loop ---------- *)
  (* before stage k: everything the stages read is equal; K agrees on the stages already computed, and on stage k
     itself when that stage re-uses the function value handed on by its predecessor *)
  Definition handed (k : nat) : Prop := 0 < k /\ k < p_stages p /\ nth k (p_newf p) false = false.
  Definition stsim (k : nat) (s s' : rstate) : Prop :=
    sY s = sY s' /\ sJac s = sJac s' /\ (in_place = false -> sLU s = sLU s') /\ sInitF s = sInitF s' /\
    Kag (fun j => j < k \/ (j = k /\ handed k)) (sK s) (sK s').

  (* stage_step, cut in two: the function value of the stage; then hand-on, right-hand side and solve *)
  Definition first_part (s : rstate) (k : nat) : list V * V * list event * nat :=
    let comb := k * (k - 1) / 2 in
    let d := sY s in
    if k =? 0 then (kset V (sK s) 0 (sInitF s), sYnew s, [], 0)
    else if nth k (p_newf p) false then
      let yn := fold_left (fun y j => vaxpy (qn N (p_a p) (comb + j)) (kget V (sK s) j d) y) (seq 0 k) (sY s) in
      (kset V (sK s) k (forcing yn (vzero (kget V (sK s) k d))), yn, [EvForcing yn], 1)
    else (sK s, sYnew s, [], 0).
  Definition tail_part (H : T) (s : rstate) (lu_m : M) (lu_f : F) (k : nat) (fp : list V * V * list event * nat)
    : rstate * list event * nat :=
    let comb := k * (k - 1) / 2 in
    let d := sY s in
    let '(K1, Ynew1, ev1, nf) := fp in
    let K2 := if (k + 1 <? p_stages p) && negb (nth (k + 1) (p_newf p) false)
              then kset V K1 (k + 1) (kget V K1 k d) else K1 in
    let rhs := fold_left (fun kk j => vaxpy (ndiv N (qn N (p_c p) (comb + j)) H) (kget V K2 j d) kk) (seq 0 k) (kget V K2 k d) in
    let sol := if in_place then solve_ip lu_m rhs else solve_sep lu_f rhs in
    (mkRState V M F (sY s) (sJac s) (sLU s) Ynew1 (sInitF s) (kset V K2 k sol) (sYerr s), ev1 ++ [EvSolve rhs], nf).

  Lemma stage_step_split H s lm lf k : stage1 H s lm lf k = tail_part H s lm lf k (first_part s k).
  Proof. reflexivity. Qed.

  Lemma first_part_sim s s' k : k < p_stages p -> stsim k s s' ->
    Kag (fun j => j <= k) (fst (fst (fst (first_part s k)))) (fst (fst (fst (first_part s' k)))) /\
    snd (fst (first_part s k)) = snd (fst (first_part s' k)) /\ snd (first_part s k) = snd (first_part s' k).
  Proof.
    intros Hk (EY & EJ & ELU & EF & HK). unfold first_part. cbv zeta. rewrite <- EY, <- EF.
    set (d := sY s).
    assert (Hread : forall j, j < k -> kget V (sK s) j d = kget V (sK s') j d).
    { intros j Hj. unfold kget. apply (proj2 HK). left; exact Hj. }
    destruct (Nat.eqb_spec k 0) as [-> | Hk0].
    - cbn [fst snd]. split; [|split; reflexivity].
      unfold kset. eapply Kag_weaken; [|apply Kag_upd; exact HK]. intros j Hj. right. lia.
    - destruct (nth k (p_newf p) false) eqn:Hnf.
      + rewrite (fold_seq_ext (fun y j => vaxpy (qn N (p_a p) (k * (k - 1) / 2 + j)) (kget V (sK s') j d) y)
                              (fun y j => vaxpy (qn N (p_a p) (k * (k - 1) / 2 + j)) (kget V (sK s) j d) y) k d)
          by (intros a j Hj; rewrite (Hread j Hj); reflexivity).
        rewrite (Hvz (kget V (sK s') k d) (kget V (sK s) k d)).
        cbn [fst snd]. split; [|split; reflexivity].
        unfold kset. eapply Kag_weaken; [|apply Kag_upd; exact HK]. intros j Hj.
        destruct (Nat.eq_dec j k); [right; assumption | left; left; lia].
      + cbn [fst snd]. split; [|split; reflexivity].
        eapply Kag_weaken; [|exact HK]. intros j Hj.
        destruct (Nat.eq_dec j k) as [-> | Hne]; [right; split; [reflexivity | split; [lia | split; [exact Hk | exact Hnf]]] | left; lia].
  Qed.

  Lemma tail_part_sim H s s' k (fp fp' : list V * V * list event * nat) : k < p_stages p -> stsim k s s' ->
    Kag (fun j => j <= k) (fst (fst (fst fp))) (fst (fst (fst fp'))) -> snd (fst fp) = snd (fst fp') -> snd fp = snd fp' ->
    stsim (S k) (fst (fst (tail_part H s (sJac s) (sLU s) k fp))) (fst (fst (tail_part H s' (sJac s') (sLU s') k fp'))) /\
    snd (fst (tail_part H s (sJac s) (sLU s) k fp)) = snd (fst (tail_part H s' (sJac s') (sLU s') k fp')) /\
    snd (tail_part H s (sJac s) (sLU s) k fp) = snd (tail_part H s' (sJac s') (sLU s') k fp').
  Proof.
    intros Hk (EY & EJ & ELU & EF & HK) HK1 Eev Enf.
    destruct fp as [[[K1 Yn1] ev1] nf], fp' as [[[K1' Yn1'] ev1'] nf']. cbn [fst snd] in HK1, Eev, Enf. subst ev1' nf'.
    unfold tail_part. cbv zeta. rewrite <- EY, <- EJ, <- EF.
    set (d := sY s). set (comb := k * (k - 1) / 2).
    set (K2 := if (k + 1 <? p_stages p) && negb (nth (k + 1) (p_newf p) false) then kset V K1 (k + 1) (kget V K1 k d) else K1).
    set (K2' := if (k + 1 <? p_stages p) && negb (nth (k + 1) (p_newf p) false) then kset V K1' (k + 1) (kget V K1' k d) else K1').
    assert (HK2 : Kag (fun j => j <= k \/ (j = S k /\ handed (S k))) K2 K2').
    { unfold K2, K2'. destruct ((k + 1 <? p_stages p) && negb (nth (k + 1) (p_newf p) false)) eqn:Hh.
      - assert (Ek : kget V K1 k d = kget V K1' k d) by (unfold kget; apply (proj2 HK1); lia).
        rewrite <- Ek. unfold kset. eapply Kag_weaken; [|apply Kag_upd; exact HK1].
        intros j [Hj | [Hj _]]; [left; exact Hj | right; lia].
      - eapply Kag_weaken; [|exact HK1]. intros j [Hj | [Hj (_ & Hlt & Hnf)]]; [exact Hj|].
        exfalso. apply Bool.andb_false_iff in Hh. destruct Hh as [Hh | Hh].
        + apply Nat.ltb_ge in Hh. lia.
        + replace (k + 1) with (S k) in Hh by lia. rewrite Hnf in Hh. discriminate. }
    assert (Hread2 : forall j, j <= k -> kget V K2 j d = kget V K2' j d).
    { intros j Hj. unfold kget. apply (proj2 HK2). left; exact Hj. }
    assert (Erhs :
      fold_left (fun kk j => vaxpy (ndiv N (qn N (p_c p) (comb + j)) H) (kget V K2' j d) kk) (seq 0 k) (kget V K2' k d) =
      fold_left (fun kk j => vaxpy (ndiv N (qn N (p_c p) (comb + j)) H) (kget V K2 j d) kk) (seq 0 k) (kget V K2 k d)).
    { rewrite <- (Hread2 k (le_n k)). apply fold_seq_ext. intros a j Hj. rewrite (Hread2 j) by lia. reflexivity. }
    rewrite Erhs.
    set (rhs := fold_left (fun kk j => vaxpy (ndiv N (qn N (p_c p) (comb + j)) H) (kget V K2 j d) kk) (seq 0 k) (kget V K2 k d)).
    assert (Esol : (if in_place then solve_ip (sJac s) rhs else solve_sep (sLU s') rhs) =
                   (if in_place then solve_ip (sJac s) rhs else solve_sep (sLU s) rhs)).
    { destruct in_place; [reflexivity|]. rewrite (ELU eq_refl). reflexivity. }
    rewrite Esol. cbn [fst snd]. split; [|split; reflexivity].
    unfold stsim. cbn [sY sJac sLU sInitF sK].
    pose proof (Kag_upd _ _ _ k (if in_place then solve_ip (sJac s) rhs else solve_sep (sLU s) rhs) HK2) as HK3.
    repeat split; try assumption; try reflexivity.
    - apply (proj1 HK3).
    - intros j d0 Hj. unfold kset. apply (proj2 HK3).
      destruct Hj as [Hj | [Hj Hh]]; [left; left; lia | left; right; split; assumption].
  Qed.

  Lemma stage_sim H s s' k : k < p_stages p -> stsim k s s' ->
    stsim (S k) (fst (fst (stage1 H s (sJac s) (sLU s) k))) (fst (fst (stage1 H s' (sJac s') (sLU s') k))) /\
    snd (fst (stage1 H s (sJac s) (sLU s) k)) = snd (fst (stage1 H s' (sJac s') (sLU s') k)) /\
    snd (stage1 H s (sJac s) (sLU s) k) = snd (stage1 H s' (sJac s') (sLU s') k).
  Proof.
    intros Hk HS. rewrite !stage_step_split.
    destruct (first_part_sim s s' k Hk HS) as (F1 & F2 & F3).
    apply tail_part_sim; assumption.
  Qed.

  Lemma stages_sim H s s' : stsim 0 s s' ->
    stsim (p_stages p) (fst (fst (stages H s))) (fst (fst (stages H s'))) /\
    snd (fst (stages H s)) = snd (fst (stages H s')) /\ snd (stages H s) = snd (stages H s').
  Proof.
    unfold stages_loop. intros H0.
    assert (G : forall m, m <= p_stages p ->
      let r := fold_left (fun (acc : rstate * list event * nat) stage =>
                 let '(s, ev, nf) := acc in
                 let '(s', ev', nf') := stage1 H s (sJac s) (sLU s) stage in (s', ev ++ ev', nf + nf'))
               (seq 0 m) (s, [], 0) in
      let r' := fold_left (fun (acc : rstate * list event * nat) stage =>
                 let '(s, ev, nf) := acc in
                 let '(s', ev', nf') := stage1 H s (sJac s) (sLU s) stage in (s', ev ++ ev', nf + nf'))
               (seq 0 m) (s', [], 0) in
      stsim m (fst (fst r)) (fst (fst r')) /\ snd (fst r) = snd (fst r') /\ snd r = snd r').
    { induction m as [|m IH]; intros Hm; cbv zeta.
      - cbn. split; [exact H0 | split; reflexivity].
      - rewrite seq_S, !fold_left_app. cbn [fold_left plus].
        specialize (IH ltac:(lia)). cbv zeta in IH.
        destruct (fold_left _ (seq 0 m) (s, [], 0)) as [[s1 ev1] nf1].
        destruct (fold_left _ (seq 0 m) (s', [], 0)) as [[s1' ev1'] nf1'].
        cbn [fst snd] in IH. destruct IH as (IS & -> & ->).
        pose proof (stage_sim H s1 s1' m ltac:(lia) IS) as (S1 & S2 & S3).
        destruct (stage1 H s1 (sJac s1) (sLU s1) m) as [[s2 ev2] nf2].
        destruct (stage1 H s1' (sJac s1') (sLU s1') m) as [[s2' ev2'] nf2'].
        cbn [fst snd] in *. subst. split; [exact S1 | split; reflexivity]. }
    exact (G (p_stages p) (le_n _)).
  Qed.

  (* ---------- the loops ---------- *)
  Definition rsim (fresh : bool) (s s' : rstate) : Prop :=
    sY s = sY s' /\ length (sK s) = length (sK s') /\
    (fresh = false -> sJac s = sJac s' /\ sInitF s = sInitF s').
  Definition lsim (l l' : loop_state) : Prop :=
    rsim (l_fresh l) (l_s l) (l_s l') /\ l_t l = l_t l' /\ l_H l = l_H l' /\ l_stats l = l_stats l' /\
    l_reject_last l = l_reject_last l' /\ l_reject_more l = l_reject_more l' /\ l_last_alpha l = l_last_alpha l' /\
    l_fresh l = l_fresh l' /\ l_attempt l = l_attempt l'.
  Definition out_sim (a b : (solver_state * T * stats * rstate * list event) + (loop_state * list event)) : Prop :=
    match a, b with
    | inl (st, t, sts, s, ev), inl (st', t', sts', s', ev') =>
      st = st' /\ t = t' /\ sts = sts' /\ sY s = sY s' /\ ev = ev'
    | inr (l, ev), inr (l', ev') => lsim l l' /\ ev = ev'
    | _, _ => False
    end.

  Lemma Kag_of_length (K K' : list V) : length K = length K' -> Kag (fun j => j < 0 \/ (j = 0 /\ handed 0)) K K'.
  Proof. intros Hl. split; [exact Hl|]. intros j d [Hj | [_ (Hh & _)]]; lia. Qed.

  (* ros_iter, cut in two: the top of the outer loop; then one attempt *)
  Definition top_part (time_step : T) (l : loop_state) : solver_state + (loop_state * list event) :=
    if l_fresh l then
      if negb (leb (nadd N (nsub N (l_t l) time_step) (p_round_off p)) (n0 N)) then inl Converged
      else if p_max_steps p <? number_of_steps (l_stats l) then inl ConvergenceExceededMaxSteps
      else if absorbed (l_t l) (l_H l) || leb (l_H l) (p_round_off p) then inl StepSizeTooSmall
      else
        let H := tmin N ltb (l_H l) (nabs (nsub N time_step (l_t l))) in
        let s := l_s l in
        let f0 := forcing (sY s) (vzero (sInitF s)) in
        let j0 := negjac (sY s) (mzero (sJac s)) in
        inr (mkLoop N V M F (mkRState V M F (sY s) j0 (sLU s) (sYnew s) f0 (sK s) (sYerr s))
                    (l_t l) H (bump (l_stats l) 1 1 0 0 0 0 0)
                    (l_reject_last l) (l_reject_more l) (n0 N) false (l_attempt l),
             [EvStep (l_t l) H; EvForcing (sY s); EvNegJac (sY s)])
    else inr (l, []).
  Definition attempt_part (h_max : T) (l : loop_state) (ev : list event)
    : (solver_state * T * stats * rstate * list event) + (loop_state * list event) :=
       let H := l_H l in
       let alpha_full := ndiv N (n1 N) (nmul N H (p_gamma0 p)) in
       let alpha := if in_place then alpha_full else nsub N alpha_full (l_last_alpha l) in
       let last_alpha := if in_place then l_last_alpha l else alpha_full in
       let s := l_s l in
       let jac1 := add_diag alpha (sJac s) in
       let jac2 := if in_place then factor_ip jac1 else jac1 in
       let lu2 := if in_place then sLU s else factor_sep jac1 (sLU s) in
       let s1 := mkRState V M F (sY s) jac2 lu2 (sYnew s) (sInitF s) (sK s) (sYerr s) in
       let '(s2, evs, nf) := stages H s1 in
       let d := sY s in
       let ynew := fold_left (fun y i => vaxpy (qn N (p_m p) i) (kget V (sK s2) i d) y) (seq 0 (p_stages p)) (sY s2) in
       let yerr := fold_left (fun y i => vaxpy (qn N (p_e p) i) (kget V (sK s2) i d) y) (seq 0 (p_stages p)) (vzero (sYerr s2)) in
       let s3 := mkRState V M F (sY s2) (sJac s2) (sLU s2) ynew (sInitF s2) (sK s2) yerr in
       let error := nerr (l_attempt l) (sY s3) ynew yerr in
       let fac := tmin N ltb (p_factor_max p) (tmax N ltb (p_factor_min p) (ndiv N (p_safety p) (pow_inv error (p_elo p)))) in
       let Hnew := nmul N H fac in
       let st1 := bump (l_stats l) nf 0 1 0 0 1 (p_stages p) in
       let tr1 := ev ++ [EvFactor H alpha jac1] ++ evs in
       if isnan error then
         inl (NaNDetected, l_t l, st1, swapY V M F s3, tr1 ++ [EvAttempt H error false (sY s3) ynew yerr])
       else if isinf error then
         inl (InfDetected, l_t l, st1, swapY V M F s3, tr1 ++ [EvAttempt H error false (sY s3) ynew yerr])
       else if ltb error (n1 N) || ltb H (p_h_min p) then
         let Hn1 := tmax N ltb (p_h_min p) (tmin N ltb Hnew h_max) in
         let Hn2 := if l_reject_last l then tmin N ltb Hn1 H else Hn1 in
         inr (mkLoop N V M F (swapY V M F s3) (nadd N (l_t l) H) Hn2 (bump st1 0 0 0 1 0 0 0) false false last_alpha true
                     (S (l_attempt l)),
              tr1 ++ [EvAttempt H error true (sY s3) ynew yerr])
       else
         let Hn := if l_reject_more l then nmul N H (p_rej_dec p) else Hnew in
         let st2 := if 1 <=? accepted st1 then bump st1 0 0 0 0 1 0 0 else st1 in
         let s4 := if in_place
                   then mkRState V M F (sY s3) (negjac (sY s3) (mzero (sJac s3))) (sLU s3) (sYnew s3) (sInitF s3) (sK s3) (sYerr s3)
                   else s3 in
         let st3 := if in_place then bump st2 0 1 0 0 0 0 0 else st2 in
         let ev4 := if in_place then [EvNegJac (sY s3)] else [] in
         inr (mkLoop N V M F s4 (l_t l) Hn st3 true (l_reject_last l) last_alpha false (S (l_attempt l)),
              tr1 ++ [EvAttempt H error false (sY s3) ynew yerr] ++ ev4).

  Lemma ros_iter_split time_step h_max l :
    iter time_step h_max l =
    match top_part time_step l with
    | inl st => inl (st, l_t l, l_stats l, l_s l, [])
    | inr (l1, ev0) => attempt_part h_max l1 ev0
    end.
  Proof. reflexivity. Qed.

  (* one attempt from two loop states that agree on Y, -J and the initial forcing *)
  Lemma attempt_sim (h_max : T) (l1 l1' : loop_state) (ev0 : list event) :
    lsim l1 l1' -> l_fresh l1 = false -> out_sim (attempt_part h_max l1 ev0) (attempt_part h_max l1' ev0).
  Proof.
    intros HL Hfr. unfold attempt_part.
    destruct l1 as [s t H sts rl rm la fr at_], l1' as [s' t' H' sts' rl' rm' la' fr' at'].
    unfold lsim in HL. cbn [l_s l_t l_H l_stats l_reject_last l_reject_more l_last_alpha l_fresh l_attempt] in *.
    destruct HL as [[EY [EK EJF]] [-> [-> [-> [-> [-> [-> [-> ->]]]]]]]]. subst fr'.
    destruct (EJF eq_refl) as [EJ EF].
    cbv zeta.
    set (alpha := if in_place then ndiv N (n1 N) (nmul N H' (p_gamma0 p))
                  else nsub N (ndiv N (n1 N) (nmul N H' (p_gamma0 p))) la').
    rewrite <- EJ, <- EY, <- EF.
    set (jac1 := add_diag alpha (sJac s)).
    set (jac2 := if in_place then factor_ip jac1 else jac1).
    set (s1 := mkRState V M F (sY s) jac2 (if in_place then sLU s else factor_sep jac1 (sLU s)) (sYnew s) (sInitF s) (sK s) (sYerr s)).
    set (s1' := mkRState V M F (sY s) jac2 (if in_place then sLU s' else factor_sep jac1 (sLU s')) (sYnew s') (sInitF s) (sK s') (sYerr s')).
    assert (H1 : stsim 0 s1 s1').
    { unfold stsim, s1, s1'. cbn [sY sJac sLU sInitF sK]. repeat split; try reflexivity.
      - intros Hip. rewrite Hip. apply Hfs.
      - exact EK.
      - intros j d [Hj | [_ (Hh & _)]]; lia. }
    destruct (stages_sim H' s1 s1' H1) as (S1 & S2 & S3).
    destruct (stages H' s1) as [[s2 evs] nf]. destruct (stages H' s1') as [[s2' evs'] nf'].
    cbn [fst snd] in S1, S2, S3. subst evs' nf'.
    destruct S1 as (EY2 & EJ2 & ELU2 & EF2 & HK2).
    set (d := sY s).
    assert (Hread : forall j, j < p_stages p -> kget V (sK s2) j d = kget V (sK s2') j d).
    { intros j Hj. unfold kget. apply (proj2 HK2). left; exact Hj. }
    assert (Eynew :
      fold_left (fun y i => vaxpy (qn N (p_m p) i) (kget V (sK s2') i d) y) (seq 0 (p_stages p)) (sY s2') =
      fold_left (fun y i => vaxpy (qn N (p_m p) i) (kget V (sK s2) i d) y) (seq 0 (p_stages p)) (sY s2)).
    { rewrite <- EY2. apply fold_seq_ext. intros a j Hj. rewrite (Hread j Hj). reflexivity. }
    assert (Eyerr :
      fold_left (fun y i => vaxpy (qn N (p_e p) i) (kget V (sK s2') i d) y) (seq 0 (p_stages p)) (vzero (sYerr s2')) =
      fold_left (fun y i => vaxpy (qn N (p_e p) i) (kget V (sK s2) i d) y) (seq 0 (p_stages p)) (vzero (sYerr s2))).
    { rewrite (Hvz (sYerr s2') (sYerr s2)). apply fold_seq_ext. intros a j Hj. rewrite (Hread j Hj). reflexivity. }
    rewrite Eynew, Eyerr. cbn [sY sJac sLU sYnew sInitF sK sYerr]. rewrite <- EY2, <- EJ2.
    set (ynew := fold_left (fun y i => vaxpy (qn N (p_m p) i) (kget V (sK s2) i d) y) (seq 0 (p_stages p)) (sY s2)).
    set (yerr := fold_left (fun y i => vaxpy (qn N (p_e p) i) (kget V (sK s2) i d) y) (seq 0 (p_stages p)) (vzero (sYerr s2))).
    set (error := nerr at' (sY s2) ynew yerr).
    destruct (isnan error); [cbn; repeat split; reflexivity|].
    destruct (isinf error); [cbn; repeat split; reflexivity|].
    destruct (ltb error (n1 N) || ltb H' (p_h_min p)).
    - cbn [out_sim]. split; [|reflexivity].
      unfold lsim, rsim, swapY.
      cbn [l_s l_t l_H l_stats l_reject_last l_reject_more l_last_alpha l_fresh l_attempt sY sK sJac sInitF].
      repeat split; try reflexivity; try apply (proj1 HK2); try discriminate; try exact EF2.
    - cbn [out_sim]. split; [|reflexivity].
      unfold lsim, rsim.
      cbn [l_s l_t l_H l_stats l_reject_last l_reject_more l_last_alpha l_fresh l_attempt].
      destruct in_place; cbn [sY sK sJac sInitF]; repeat split; try reflexivity; try apply (proj1 HK2); try discriminate; try exact EF2.
  Qed.

  Lemma iter_sim time_step h_max l l' : lsim l l' -> out_sim (iter time_step h_max l) (iter time_step h_max l').
  Proof.
    intros HL. rewrite !ros_iter_split. pose proof HL as HL0.
    destruct l as [s t H sts rl rm la fr at_], l' as [s' t' H' sts' rl' rm' la' fr' at'].
    unfold lsim in HL. cbn [l_s l_t l_H l_stats l_reject_last l_reject_more l_last_alpha l_fresh l_attempt] in HL.
    destruct HL as [[EY [EK EJF]] [-> [-> [-> [-> [-> [-> [-> ->]]]]]]]].
    unfold top_part. cbn [l_s l_t l_H l_stats l_reject_last l_reject_more l_last_alpha l_fresh l_attempt].
    destruct fr'.
    - (* top of the outer loop *)
      destruct (negb (leb (nadd N (nsub N t' time_step) (p_round_off p)) (n0 N))); [cbn; repeat split; auto|].
      destruct (p_max_steps p <? number_of_steps sts'); [cbn; repeat split; auto|].
      destruct (absorbed t' H' || leb H' (p_round_off p)); [cbn; repeat split; auto|].
      cbv zeta. rewrite <- EY. rewrite (Hvz (sInitF s') (sInitF s)), (Hmz (sJac s') (sJac s)).
      apply attempt_sim; [|reflexivity].
      unfold lsim, rsim. cbn [l_s l_t l_H l_stats l_reject_last l_reject_more l_last_alpha l_fresh l_attempt sY sK sJac sInitF].
      repeat split; try reflexivity; exact EK.
    - apply attempt_sim; [exact HL0 | reflexivity].
  Qed.

  Lemma loop_sim fuel time_step h_max l l' tr :
    lsim l l' ->
    let r := loop fuel time_step h_max l tr in
    let r' := loop fuel time_step h_max l' tr in
    r_state r = r_state r' /\ r_final_time r = r_final_time r' /\ r_stats r = r_stats r' /\
    r_trace r = r_trace r' /\ sY (r_s r) = sY (r_s r').
  Proof.
    revert l l' tr; induction fuel as [|fuel IH]; intros l l' tr HR; cbn [ros_loop].
    - destruct HR as [[E1 _] [Et [_ [Es _]]]]. cbn. repeat split; auto.
    - pose proof (iter_sim time_step h_max l l' HR) as Hs.
      destruct (iter time_step h_max l) as [[[[[st t] sts] s] ev]|[l1 ev]],
               (iter time_step h_max l') as [[[[[st' t'] sts'] s'] ev']|[l1' ev']]; cbn [out_sim] in Hs; try contradiction.
      + destruct Hs as [-> [-> [-> [E1 ->]]]]. cbn. repeat split; auto.
      + destruct Hs as [HR' ->]. apply IH. exact HR'.
  Qed.

  (* the outcome of Solve is a function of the concentrations only *)
  Theorem ros_scratch_irrelevant fuel time_step (s s' : rstate) :
    sY s = sY s' -> length (sK s) = length (sK s') ->
    let r := solve fuel time_step s in
    let r' := solve fuel time_step s' in
    r_state r = r_state r' /\ r_final_time r = r_final_time r' /\ r_stats r = r_stats r' /\
    r_trace r = r_trace r' /\ sY (r_s r) = sY (r_s r').
  Proof.
    intros EY EK. unfold ros_solve. cbv zeta.
    match goal with |- context [loop fuel time_step ?hm (mkLoop _ _ _ _ s ?t0 ?h0 ?st0 ?a ?b ?c ?d ?e) []] =>
      assert (HS : lsim (mkLoop N V M F s t0 h0 st0 a b c d e) (mkLoop N V M F s' t0 h0 st0 a b c d e));
        [|pose proof (loop_sim fuel time_step hm _ _ [] HS) as LS] end.
    { unfold lsim, rsim. cbn. repeat split; try reflexivity; try assumption; discriminate. }
    cbv zeta in LS. destruct LS as (L1 & L2 & L3 & L4 & L5).
    cbn [r_state r_final_time r_stats r_trace r_s]. rewrite L1, L2, L3, L4, L5. repeat split; reflexivity.
  Qed.

  (* ---------- C06: the time reported is the sum, in order, of the step sizes of the accepted attempts ---------- *)
  Definition time_step_of (t : T) (e : event) : T :=
    match e with EvAttempt H _ true _ _ _ => nadd N t H | _ => t end.
  Definition time_from (t : T) (tr : list event) : T := fold_left time_step_of tr t.
  Definition quiet (e : event) : Prop := match e with EvAttempt _ _ _ _ _ _ => False | _ => True end.

  Lemma time_from_app t a b : time_from t (a ++ b) = time_from (time_from t a) b.
  Proof. unfold time_from. apply fold_left_app. Qed.
  Lemma time_from_quiet t tr : Forall quiet tr -> time_from t tr = t.
  Proof.
    revert t; induction tr as [|e tr IH]; intros t Hq; [reflexivity|].
    inversion Hq as [|? ? He Hq']; subst. cbn [time_from fold_left]. fold (time_from (time_step_of t e) tr).
    rewrite IH by exact Hq'. destruct e; cbn in He |- *; try reflexivity; contradiction.
  Qed.

  Lemma stage_quiet H s lm lf k : Forall quiet (snd (fst (stage1 H s lm lf k))).
  Proof.
    rewrite stage_step_split. unfold tail_part, first_part. cbv zeta.
    destruct (k =? 0); [|destruct (nth k (p_newf p) false)]; cbn [fst snd app]; repeat constructor.
  Qed.

  Lemma stages_quiet H s : Forall quiet (snd (fst (stages H s))).
  Proof.
    unfold stages_loop.
    assert (G : forall l (acc : rstate * list event * nat), Forall quiet (snd (fst acc)) ->
      Forall quiet (snd (fst (fold_left (fun (acc : rstate * list event * nat) stage =>
                 let '(s, ev, nf) := acc in
                 let '(s', ev', nf') := stage1 H s (sJac s) (sLU s) stage in (s', ev ++ ev', nf + nf')) l acc)))).
    { induction l as [|k l IH]; intros [[s0 ev0] nf0] Hq; cbn [fold_left]; [exact Hq|].
      pose proof (stage_quiet H s0 (sJac s0) (sLU s0) k) as Hs.
      destruct (stage1 H s0 (sJac s0) (sLU s0) k) as [[s1 ev1] nf1]. cbn [fst snd] in *.
      apply IH. cbn [fst snd]. apply Forall_app. split; assumption. }
    apply G. constructor.
  Qed.

  Lemma iter_time time_step h_max l tr :
    l_t l = time_from (n0 N) tr ->
    match iter time_step h_max l with
    | inr (l', ev) => l_t l' = time_from (n0 N) (tr ++ ev)
    | inl (st, t, sts, s, ev) => t = time_from (n0 N) (tr ++ ev)
    end.
  Proof.
    intros HI. rewrite ros_iter_split.
    assert (Htop : match top_part time_step l with
                   | inl _ => True
                   | inr (l1, ev0) => l_t l1 = l_t l /\ Forall quiet ev0
                   end).
    { unfold top_part. destruct (l_fresh l); [|split; [reflexivity | constructor]].
      destruct (negb (leb (nadd N (nsub N (l_t l) time_step) (p_round_off p)) (n0 N))); [exact I|].
      destruct (p_max_steps p <? number_of_steps (l_stats l)); [exact I|].
      destruct (absorbed (l_t l) (l_H l) || leb (l_H l) (p_round_off p)); [exact I|].
      cbv zeta. cbn [l_t]. split; [reflexivity | repeat constructor]. }
    destruct (top_part time_step l) as [st | [l1 ev0]].
    - rewrite app_nil_r. exact HI.
    - destruct Htop as [Et Hq0]. unfold attempt_part. cbv zeta.
      pose proof (stages_quiet (l_H l1)
                    (mkRState V M F (sY (l_s l1))
                       (if in_place then factor_ip (add_diag (if in_place then ndiv N (n1 N) (nmul N (l_H l1) (p_gamma0 p))
                                                              else nsub N (ndiv N (n1 N) (nmul N (l_H l1) (p_gamma0 p))) (l_last_alpha l1)) (sJac (l_s l1)))
                        else add_diag (if in_place then ndiv N (n1 N) (nmul N (l_H l1) (p_gamma0 p))
                                       else nsub N (ndiv N (n1 N) (nmul N (l_H l1) (p_gamma0 p))) (l_last_alpha l1)) (sJac (l_s l1)))
                       (if in_place then sLU (l_s l1)
                        else factor_sep (add_diag (if in_place then ndiv N (n1 N) (nmul N (l_H l1) (p_gamma0 p))
                                                   else nsub N (ndiv N (n1 N) (nmul N (l_H l1) (p_gamma0 p))) (l_last_alpha l1)) (sJac (l_s l1))) (sLU (l_s l1)))
                       (sYnew (l_s l1)) (sInitF (l_s l1)) (sK (l_s l1)) (sYerr (l_s l1)))) as Hqs.
      match goal with |- context [stages ?H ?s1] => destruct (stages H s1) as [[s2 evs] nf] end.
      cbn [fst snd] in Hqs.
      assert (Hq : forall t0 l0, Forall quiet l0 -> fold_left time_step_of l0 t0 = t0).
      { intros t0 l0 Hl0. exact (time_from_quiet t0 l0 Hl0). }
      unfold time_from in *.
      repeat match goal with |- context [if ?b then _ else _] =>
               match b with in_place => fail 1 | _ => destruct b end end;
        cbn [l_t]; rewrite ?fold_left_app; rewrite <- HI; rewrite (Hq _ ev0 Hq0);
        cbn [fold_left time_step_of]; rewrite (Hq _ evs Hqs); cbn [fold_left time_step_of];
        try (destruct in_place; cbn [fold_left time_step_of]); rewrite ?Et; reflexivity.
  Qed.

  Lemma loop_time fuel time_step h_max : forall l tr,
    l_t l = time_from (n0 N) tr ->
    r_final_time (loop fuel time_step h_max l tr) = time_from (n0 N) (r_trace (loop fuel time_step h_max l tr)).
  Proof.
    induction fuel as [|fuel IH]; intros l tr HI; cbn [ros_loop].
    - cbn [r_final_time r_trace]. exact HI.
    - pose proof (iter_time time_step h_max l tr HI) as Hs.
      destruct (iter time_step h_max l) as [[[[[st t] sts] s] ev]|[l1 ev]].
      + cbn [r_final_time r_trace]. exact Hs.
      + apply IH. exact Hs.
  Qed.

  (* final_time_ is the sum, in the order they were taken, of the step sizes of the accepted attempts - whatever the
     accept / reject history, the policies and the way the Solve ended *)
  Theorem ros_final_time_is_sum_of_accepted_steps fuel time_step (s : rstate) :
    let r := solve fuel time_step s in
    r_final_time r = time_from (n0 N) (r_trace r).
  Proof.
    unfold ros_solve. cbv zeta. cbn [r_final_time r_trace]. apply loop_time. reflexivity.
  Qed.

  (* ---------- C09: linear invariants are propagated by every stage, every attempt, every exit ---------- *)
  Section Conservation.
    Hypothesis Nring : ring_theory (n0 N) (n1 N) (nadd N) (nmul N) (nsub N) (nopp N) eq.
    Add Ring RosRing : Nring.
    Variable dotw : V -> T.                               (* y |-> sum_i w_i y_i over a cell, or over all cells *)
    Hypothesis Hlin : forall a x y, dotw (vaxpy a x y) = nadd N (nmul N a (dotw x)) (dotw y).
    Hypothesis Hforce : forall y z, dotw (forcing y z) = n0 N.      (* C09_forcing_conserves_linear_invariants *)
    (* an exact solve with alpha I - J, w^T J = 0, alpha <> 0: alpha w.x = w.rhs *)
    Hypothesis Hsolve_sep : forall lu rhs, dotw rhs = n0 N -> dotw (solve_sep lu rhs) = n0 N.
    Hypothesis Hsolve_ip : forall lu rhs, dotw rhs = n0 N -> dotw (solve_ip lu rhs) = n0 N.

    Definition Kz (S : nat -> Prop) (K : list V) : Prop :=
      p_stages p <= length K /\ forall j d, S j -> j < p_stages p -> dotw (nth j K d) = n0 N.

    Lemma Kz_upd (S : nat -> Prop) K i v : Kz S K -> dotw v = n0 N -> Kz (fun j => S j \/ j = i) (upd i v K).
    Proof.
      intros [Hl Hz] Hv. split; [rewrite upd_length; exact Hl|].
      intros j d Hj Hjs. rewrite nth_upd.
      destruct (Nat.eqb_spec i j) as [<- | Hne]; cbn [andb].
      - destruct (Nat.ltb_spec i (length K)); [exact Hv | lia].
      - destruct Hj as [Hj | Hj]; [apply Hz; assumption | congruence].
    Qed.
    Lemma Kz_weaken (S S' : nat -> Prop) K : (forall j, S' j -> S j) -> Kz S K -> Kz S' K.
    Proof. intros H [Hl Hz]. split; [exact Hl | intros j d Hj; apply Hz; apply H; exact Hj]. Qed.

    Lemma fold_vaxpy_zero (c : nat -> T) (K : list V) d n y0 :
      (forall j, j < n -> dotw (kget V K j d) = n0 N) ->
      dotw (fold_left (fun y j => vaxpy (c j) (kget V K j d) y) (seq 0 n) y0) = dotw y0.
    Proof.
      intros Hz.
      assert (G : forall l y, (forall j, In j l -> j < n) ->
                dotw (fold_left (fun y j => vaxpy (c j) (kget V K j d) y) l y) = dotw y).
      { induction l as [|j l IH]; intros y Hl; cbn [fold_left]; [reflexivity|].
        rewrite IH by (intros j' Hj'; apply Hl; right; exact Hj').
        rewrite Hlin, (Hz j (Hl j (or_introl eq_refl))). ring. }
      apply G. intros j Hj. apply in_seq in Hj. lia.
    Qed.

    Definition stz (k : nat) (s : rstate) : Prop :=
      dotw (sInitF s) = n0 N /\ Kz (fun j => j < k \/ (j = k /\ handed k)) (sK s).

    Lemma stage_cons H s lm lf k : k < p_stages p -> stz k s ->
      stz (S k) (fst (fst (stage1 H s lm lf k))) /\ sY (fst (fst (stage1 H s lm lf k))) = sY s.
    Proof.
      intros Hk [HF HK]. rewrite stage_step_split.
      (* the function value of the stage *)
      assert (H1 : Kz (fun j => j <= k) (fst (fst (fst (first_part s k))))).
      { unfold first_part. cbv zeta.
        destruct (Nat.eqb_spec k 0) as [-> | Hk0]; cbn [fst snd].
        - unfold kset. eapply Kz_weaken; [|apply Kz_upd; [exact HK | exact HF]]. intros j Hj. right. lia.
        - destruct (nth k (p_newf p) false) eqn:Hnf; cbn [fst snd].
          + unfold kset. eapply Kz_weaken; [|apply Kz_upd; [exact HK | apply Hforce]]. intros j Hj.
            destruct (Nat.eq_dec j k); [right; assumption | left; left; lia].
          + eapply Kz_weaken; [|exact HK]. intros j Hj.
            destruct (Nat.eq_dec j k) as [-> | Hne]; [right; split; [reflexivity | split; [lia | split; [exact Hk | exact Hnf]]] | left; lia]. }
      destruct (first_part s k) as [[[K1 Yn1] ev1] nf]. cbn [fst snd] in H1.
      unfold tail_part. cbv zeta. cbn [fst snd sY sInitF sK].
      set (d := sY s). set (comb := k * (k - 1) / 2).
      set (K2 := if (k + 1 <? p_stages p) && negb (nth (k + 1) (p_newf p) false) then kset V K1 (k + 1) (kget V K1 k d) else K1).
      assert (HK2 : Kz (fun j => j <= k \/ (j = S k /\ handed (S k))) K2).
      { unfold K2. destruct ((k + 1 <? p_stages p) && negb (nth (k + 1) (p_newf p) false)) eqn:Hh.
        - unfold kset. eapply Kz_weaken; [|apply Kz_upd; [exact H1|]].
          + intros j [Hj | [Hj _]]; [left; exact Hj | right; lia].
          + unfold kget. apply (proj2 H1); lia.
        - eapply Kz_weaken; [|exact H1]. intros j [Hj | [Hj (_ & Hlt & Hnf)]]; [exact Hj|].
          exfalso. apply Bool.andb_false_iff in Hh. destruct Hh as [Hh | Hh].
          + apply Nat.ltb_ge in Hh. lia.
          + replace (k + 1) with (S k) in Hh by lia. rewrite Hnf in Hh. discriminate. }
      set (rhs := fold_left (fun kk j => vaxpy (ndiv N (qn N (p_c p) (comb + j)) H) (kget V K2 j d) kk) (seq 0 k) (kget V K2 k d)).
      assert (Hrhs : dotw rhs = n0 N).
      { unfold rhs. rewrite (fold_vaxpy_zero (fun j => ndiv N (qn N (p_c p) (comb + j)) H) K2 d k).
        - unfold kget. apply (proj2 HK2); [left; lia | exact Hk].
        - intros j Hj. unfold kget. apply (proj2 HK2); [left; lia | lia]. }
      split; [|reflexivity]. split; [exact HF|].
      unfold kset. eapply Kz_weaken; [|apply Kz_upd; [exact HK2|]].
      - intros j [Hj | [Hj Hh]]; [left; left; lia | left; right; split; assumption].
      - destruct in_place; [apply Hsolve_ip | apply Hsolve_sep]; exact Hrhs.
    Qed.

    Lemma stages_cons H s : stz 0 s ->
      stz (p_stages p) (fst (fst (stages H s))) /\ sY (fst (fst (stages H s))) = sY s.
    Proof.
      unfold stages_loop. intros H0.
      assert (G : forall m, m <= p_stages p ->
        let r := fold_left (fun (acc : rstate * list event * nat) stage =>
                   let '(s, ev, nf) := acc in
                   let '(s', ev', nf') := stage1 H s (sJac s) (sLU s) stage in (s', ev ++ ev', nf + nf'))
                 (seq 0 m) (s, [], 0) in
        stz m (fst (fst r)) /\ sY (fst (fst r)) = sY s).
      { induction m as [|m IH]; intros Hm; cbv zeta.
        - cbn. split; [exact H0 | reflexivity].
        - rewrite seq_S, fold_left_app. cbn [fold_left plus].
          specialize (IH ltac:(lia)). cbv zeta in IH.
          destruct (fold_left _ (seq 0 m) (s, [], 0)) as [[s1 ev1] nf1]. cbn [fst snd] in IH.
          destruct IH as [IS EY].
          pose proof (stage_cons H s1 (sJac s1) (sLU s1) m ltac:(lia) IS) as [S1 S2].
          destruct (stage1 H s1 (sJac s1) (sLU s1) m) as [[s2 ev2] nf2]. cbn [fst snd] in *.
          split; [exact S1 | congruence]. }
      exact (G (p_stages p) (le_n _)).
    Qed.

    (* the weighted sum of the concentrations is the same at every point of the loops *)
    Definition cinv (c0 : T) (l : loop_state) : Prop :=
      dotw (sY (l_s l)) = c0 /\ p_stages p <= length (sK (l_s l)) /\
      (l_fresh l = false -> dotw (sInitF (l_s l)) = n0 N).

    Lemma iter_cons time_step h_max c0 l : cinv c0 l ->
      match iter time_step h_max l with
      | inr (l', _) => cinv c0 l'
      | inl (_, _, _, s, _) => dotw (sY s) = c0
      end.
    Proof.
      intros (HY & HKl & HF). rewrite ros_iter_split.
      assert (Htop : match top_part time_step l with
                     | inl _ => True
                     | inr (l1, _) => cinv c0 l1 /\ l_fresh l1 = false
                     end).
      { unfold top_part. destruct (l_fresh l) eqn:Hfr;
          [|split; [split; [exact HY | split; [exact HKl | intros _; apply HF; reflexivity]] | exact Hfr]].
        destruct (negb (leb (nadd N (nsub N (l_t l) time_step) (p_round_off p)) (n0 N))); [exact I|].
        destruct (p_max_steps p <? number_of_steps (l_stats l)); [exact I|].
        destruct (absorbed (l_t l) (l_H l) || leb (l_H l) (p_round_off p)); [exact I|].
        cbv zeta. split; [|reflexivity]. unfold cinv. cbn [l_s l_fresh sY sK sInitF].
        split; [exact HY | split; [exact HKl | intros _; apply Hforce]]. }
      destruct (top_part time_step l) as [st | [l1 ev0]]; [exact HY|].
      destruct Htop as [(HY1 & HK1 & HF1) Hfr1]. specialize (HF1 Hfr1).
      unfold attempt_part. cbv zeta.
      match goal with |- context [stages ?H ?s1] =>
        assert (Hst : stz 0 s1);
          [split; [cbn [sInitF]; exact HF1 | split; [cbn [sK]; exact HK1 | intros j d [Hj | [_ (Hh & _)]]; lia]]|];
        pose proof (stages_cons H s1 Hst) as [SZ SY];
        destruct (stages H s1) as [[s2 evs] nf] end.
      cbn [fst snd sY] in SZ, SY.
      assert (Hynew : dotw (fold_left (fun y i => vaxpy (qn N (p_m p) i) (kget V (sK s2) i (sY (l_s l1))) y)
                                      (seq 0 (p_stages p)) (sY s2)) = c0).
      { rewrite (fold_vaxpy_zero (fun i => qn N (p_m p) i) (sK s2) (sY (l_s l1)) (p_stages p)).
        - rewrite SY. exact HY1.
        - intros j Hj. unfold kget. apply (proj2 (proj2 SZ)); [left; exact Hj | exact Hj]. }
      assert (HY2 : dotw (sY s2) = c0) by (rewrite SY; exact HY1).
      repeat match goal with |- context [if ?b then _ else _] =>
               match b with in_place => fail 1 | _ => destruct b end end;
        try (destruct in_place); cbv beta iota; unfold cinv, swapY;
        cbn [l_s l_fresh sY sK sInitF sYnew];
        first [ exact Hynew | exact HY2
              | split; [first [exact Hynew | exact HY2] | split; [apply (proj1 (proj2 SZ)) | first [discriminate | intros _; apply (proj1 SZ)]]] ].
    Qed.

    Theorem ros_conserves_linear_invariants fuel time_step (s : rstate) :
      p_stages p <= length (sK s) ->
      dotw (sY (r_s (solve fuel time_step s))) = dotw (sY s).
    Proof.
      intros HK. unfold ros_solve. cbv zeta. cbn [r_s].
      assert (G : forall hm fuel l tr, cinv (dotw (sY s)) l -> dotw (sY (r_s (loop fuel time_step hm l tr))) = dotw (sY s)).
      { intros hm. induction fuel0 as [|f IH]; intros l tr HI; cbn [ros_loop].
        - cbn [r_s]. apply HI.
        - pose proof (iter_cons time_step hm (dotw (sY s)) l HI) as Hs.
          destruct (iter time_step hm l) as [[[[[st t] sts] s1] ev]|[l1 ev]].
          + cbn [r_s]. exact Hs.
          + apply IH. exact Hs. }
      apply G. unfold cinv. cbn [l_s l_fresh]. split; [reflexivity | split; [exact HK | discriminate]].
    Qed.
  End Conservation.

  (* ---------------- C05: the stage loop computes the stages of the declared method ----------------
     The code keeps function values in the slots of the stage vectors it has not computed yet (slot 0 receives the
     initial forcing, a stage that evaluates no new function finds the value its predecessor handed on in its own
     slot) and overwrites each slot with the solution of its stage.  The declared method, written without that
     sharing: F_0 = f(Y); F_i = f(Y + sum_{j<i} a_ij K_j) when stage i evaluates, F_(i-1) otherwise;
     K_i = solve (F_i + sum_{j<i} (c_ij / H) K_j).  After the loop, slot i holds K_i for every stage. *)
  Section StageSpec.
    Variable H : T.
    Variable lm : M.
    Variable lf : F.
    Variable Y F0 : V.

    Definition spec_step (acc : list V * V) (i : nat) : list V * V :=
      let '(Ks, Fprev) := acc in
      let comb := i * (i - 1) / 2 in
      let Fi := if i =? 0 then F0
                else if nth i (p_newf p) false then
                  forcing (fold_left (fun y j => vaxpy (qn N (p_a p) (comb + j)) (nth j Ks Y) y) (seq 0 i) Y) (vzero Y)
                else Fprev in
      let rhs := fold_left (fun kk j => vaxpy (ndiv N (qn N (p_c p) (comb + j)) H) (nth j Ks Y) kk) (seq 0 i) Fi in
      (Ks ++ [if in_place then solve_ip lm rhs else solve_sep lf rhs], Fi).
    Definition spec_stages (n : nat) : list V * V := fold_left spec_step (seq 0 n) ([], F0).

    Definition sinv (m : nat) (s0 s : rstate) : Prop :=
      sY s = Y /\ sInitF s = F0 /\ length (sK s) = length (sK s0) /\
      length (fst (spec_stages m)) = m /\
      (forall j, j < m -> nth j (sK s) Y = nth j (fst (spec_stages m)) Y) /\
      (handed m -> nth m (sK s) Y = snd (spec_stages m)).

    Lemma spec_stages_S m : spec_stages (S m) = spec_step (spec_stages m) m.
    Proof. unfold spec_stages. rewrite seq_S, fold_left_app. reflexivity. Qed.

    Lemma stage_spec s0 s m : p_stages p <= length (sK s0) -> m < p_stages p -> sinv m s0 s ->
      sinv (S m) s0 (fst (fst (stage1 H s lm lf m))).
    Proof.
      intros HK Hm (EY & EF & EL & ELs & HKs & Hh). rewrite stage_step_split. unfold sinv.
      rewrite spec_stages_S. destruct (spec_stages m) as [Ks Fprev] eqn:Esp. cbn [fst snd] in ELs, HKs, Hh.
      unfold spec_step.
      assert (Hlen : m < length (sK s)) by lia.
      (* the function value of the stage *)
      set (comb := m * (m - 1) / 2).
      set (Fi := if m =? 0 then F0
                 else if nth m (p_newf p) false then
                   forcing (fold_left (fun y j => vaxpy (qn N (p_a p) (comb + j)) (nth j Ks Y) y) (seq 0 m) Y) (vzero Y)
                 else Fprev).
      assert (H1 : let K1 := fst (fst (fst (first_part s m))) in
                   length K1 = length (sK s) /\ nth m K1 Y = Fi /\ forall j, j <> m -> nth j K1 Y = nth j (sK s) Y).
      { unfold first_part. cbv zeta. unfold Fi. rewrite EY, EF.
        destruct (Nat.eqb_spec m 0) as [-> | Hm0]; cbn [fst snd].
        - unfold kset. split; [apply upd_length | split; [apply nth_upd_eq; exact Hlen | intros j Hj; apply nth_upd_neq; lia]].
        - destruct (nth m (p_newf p) false) eqn:Hnf; cbn [fst snd].
          + unfold kset. split; [apply upd_length | split; [|intros j Hj; apply nth_upd_neq; lia]].
            rewrite nth_upd_eq by exact Hlen.
            rewrite (Hvz (kget V (sK s) m Y) Y). f_equal.
            apply fold_seq_ext. intros a j Hj. unfold kget. rewrite (HKs j Hj). reflexivity.
          + split; [reflexivity | split; [|reflexivity]].
            apply Hh. split; [lia | split; [exact Hm | exact Hnf]]. }
      destruct (first_part s m) as [[[K1 Yn1] ev1] nf]. cbn [fst snd] in H1. destruct H1 as (L1 & N1 & O1).
      unfold tail_part. cbv zeta. rewrite EY. cbn [fst snd sY sInitF sK].
      set (K2 := if (m + 1 <? p_stages p) && negb (nth (m + 1) (p_newf p) false) then kset V K1 (m + 1) (kget V K1 m Y) else K1).
      assert (H2 : length K2 = length (sK s) /\ (forall j, j <= m -> nth j K2 Y = nth j K1 Y) /\
                   (handed (S m) -> nth (S m) K2 Y = Fi)).
      { unfold K2. destruct ((m + 1 <? p_stages p) && negb (nth (m + 1) (p_newf p) false)) eqn:Hh2.
        - unfold kset. split; [rewrite upd_length; exact L1 | split; [intros j Hj; apply nth_upd_neq; lia|]].
          intros _. replace (S m) with (m + 1) by lia. rewrite nth_upd_eq; [exact N1|].
          apply andb_prop in Hh2. destruct Hh2 as [Hlt _]. apply Nat.ltb_lt in Hlt. lia.
        - split; [exact L1 | split; [reflexivity|]]. intros (_ & Hlt & Hnf). exfalso.
          apply Bool.andb_false_iff in Hh2. destruct Hh2 as [Hh2 | Hh2].
          + apply Nat.ltb_ge in Hh2. lia.
          + replace (m + 1) with (S m) in Hh2 by lia. rewrite Hnf in Hh2. discriminate. }
      destruct H2 as (L2 & O2 & Hd2).
      set (rhs := fold_left (fun kk j => vaxpy (ndiv N (qn N (p_c p) (m * (m - 1) / 2 + j)) H) (kget V K2 j Y) kk) (seq 0 m) (kget V K2 m Y)).
      assert (Hrhs : rhs = fold_left (fun kk j => vaxpy (ndiv N (qn N (p_c p) (comb + j)) H) (nth j Ks Y) kk) (seq 0 m) Fi).
      { unfold rhs, kget. rewrite (O2 m (le_n m)), N1.
        apply fold_seq_ext. intros a j Hj. rewrite (O2 j) by lia. rewrite (O1 j) by lia. rewrite (HKs j Hj). reflexivity. }
      cbn [fst snd]. fold Fi. rewrite <- Hrhs.
      set (sol := if in_place then solve_ip lm rhs else solve_sep lf rhs).
      split; [reflexivity | split; [exact EF | split; [unfold kset; rewrite upd_length, L2; exact EL|]]].
      split; [rewrite app_length, ELs; cbn [length]; lia|].
      split.
      - intros j Hj. unfold kset. destruct (Nat.eq_dec j m) as [-> | Hne].
        + rewrite nth_upd_eq by lia. rewrite app_nth2 by lia. rewrite ELs, Nat.sub_diag. reflexivity.
        + rewrite nth_upd_neq by lia. rewrite app_nth1 by lia.
          rewrite (O2 j) by lia. rewrite (O1 j Hne). apply HKs. lia.
      - intros Hhd. unfold kset. rewrite nth_upd_neq by lia. apply Hd2. exact Hhd.
    Qed.

    Lemma stage_keeps_matrices s lm' lf' m :
      sJac (fst (fst (stage1 H s lm' lf' m))) = sJac s /\ sLU (fst (fst (stage1 H s lm' lf' m))) = sLU s.
    Proof.
      rewrite stage_step_split. unfold tail_part. destruct (first_part s m) as [[[K1 Yn1] ev1] nf].
      cbn [fst snd sJac sLU]. split; reflexivity.
    Qed.

    Theorem stages_compute_the_declared_method s :
      p_stages p <= length (sK s) -> sY s = Y -> sInitF s = F0 -> sJac s = lm -> sLU s = lf ->
      forall i, i < p_stages p ->
        nth i (sK (fst (fst (stages H s)))) Y = nth i (fst (spec_stages (p_stages p))) Y.
    Proof.
      intros HK EY EF EJ EU.
      unfold stages_loop.
      assert (G : forall m, m <= p_stages p ->
        let r := fold_left (fun (acc : rstate * list event * nat) stage =>
                   let '(s, ev, nf) := acc in
                   let '(s', ev', nf') := stage1 H s (sJac s) (sLU s) stage in (s', ev ++ ev', nf + nf'))
                 (seq 0 m) (s, [], 0) in
        sinv m s (fst (fst r)) /\ sJac (fst (fst r)) = lm /\ sLU (fst (fst r)) = lf).
      { induction m as [|m IH]; intros Hm; cbv zeta.
        - cbn [seq fold_left fst]. split; [|split; assumption].
          split; [exact EY | split; [exact EF | split; [reflexivity | split; [reflexivity | split; [intros j Hj; lia|]]]]].
          intros (H0 & _). lia.
        - rewrite seq_S, fold_left_app. cbn [fold_left plus].
          assert (Hm' : m <= p_stages p) by lia. specialize (IH Hm'). cbv zeta in IH.
          destruct (fold_left _ (seq 0 m) (s, [], 0)) as [[s1 ev1] nf1]. cbn [fst snd] in IH.
          destruct IH as (IS & IJ & IU). rewrite IJ, IU.
          assert (Hlt : m < p_stages p) by lia.
          pose proof (stage_spec s s1 m HK Hlt IS) as S1.
          pose proof (stage_keeps_matrices s1 lm lf m) as [S2 S3].
          destruct (stage1 H s1 lm lf m) as [[s2 ev2] nf2]. cbn [fst snd] in *.
          split; [exact S1 | split; congruence]. }
      intros i Hi. destruct (G (p_stages p) (le_n _)) as [(_ & _ & _ & _ & HKs & _) _]. apply HKs. exact Hi.
    Qed.
  End StageSpec.

  (* ---------------- C06: 0 <= final_time_ <= time_step in exact arithmetic ----------------
     For every scalar structure that embeds into the ordered field of the rationals (phi: a homomorphism for + - *,
     reflecting < and <=, commuting with abs) - the rationals themselves, and binary64 on every run in which no
     operation rounds - and every policy set, history and exit: the time reported lies in [0, time_step].
     Premises on the controls: round_off, factor_min, factor_max, rejection_factor_decrease not negative, factor_min and
     rejection_factor_decrease at most 1 (C08_defaults_are_legal proves more for the five built-in sets); on the
     power oracle: an error norm that is not below 1 gives a raw factor safety / err^(1/order) of at most 1. *)
  Section TimeBounds.
    Local Open Scope Q_scope.
    Variable phi : T -> Q.
    Hypothesis Hadd : forall a b, phi (nadd N a b) == phi a + phi b.
    Hypothesis Hsub : forall a b, phi (nsub N a b) == phi a - phi b.
    Hypothesis Hmul : forall a b, phi (nmul N a b) == phi a * phi b.
    Hypothesis Hlt : forall a b, ltb a b = true <-> phi a < phi b.
    Hypothesis Hle : forall a b, leb a b = true <-> phi a <= phi b.
    Hypothesis Habs : forall a, phi (nabs a) == Qabs (phi a).
    Hypothesis Hro : 0 <= phi (p_round_off p).
    Hypothesis Hfmin : 0 <= phi (p_factor_min p) /\ phi (p_factor_min p) <= 1.
    Hypothesis Hfmax : 0 <= phi (p_factor_max p).
    Hypothesis Hrd : 0 <= phi (p_rej_dec p) /\ phi (p_rej_dec p) <= 1.
    Hypothesis Hraw : forall err, ltb err (n1 N) = false -> phi (ndiv N (p_safety p) (pow_inv err (p_elo p))) <= 1.

    Lemma ltb_false a b : ltb a b = false -> phi b <= phi a.
    Proof.
      intros E. destruct (Qlt_le_dec (phi a) (phi b)) as [Hl | Hl]; [|exact Hl].
      apply Hlt in Hl. rewrite Hl in E. discriminate E.
    Qed.
    Lemma leb_false a b : leb a b = false -> phi b < phi a.
    Proof.
      intros E. destruct (Qlt_le_dec (phi b) (phi a)) as [Hl | Hl]; [exact Hl|].
      apply Hle in Hl. rewrite Hl in E. discriminate E.
    Qed.
    Lemma tmin_cases a b : (tmin N ltb a b = a /\ phi a <= phi b) \/ (tmin N ltb a b = b /\ phi b < phi a).
    Proof.
      unfold tmin. destruct (ltb b a) eqn:E; [right; split; [reflexivity | apply Hlt; exact E] | left; split; [reflexivity | apply ltb_false; exact E]].
    Qed.
    Lemma tmax_cases a b : (tmax N ltb a b = a /\ phi b <= phi a) \/ (tmax N ltb a b = b /\ phi a < phi b).
    Proof.
      unfold tmax. destruct (ltb a b) eqn:E; [right; split; [reflexivity | apply Hlt; exact E] | left; split; [reflexivity | apply ltb_false; exact E]].
    Qed.

    Definition tinv (ts : T) (l : loop_state) : Prop :=
      (0 <= phi (l_t l) /\ phi (l_t l) <= phi ts) /\
      (l_fresh l = false -> 0 <= phi (l_H l) /\ phi (l_H l) <= phi ts - phi (l_t l)).

    Lemma iter_time_bounds ts hm l : tinv ts l ->
      match iter ts hm l with
      | inr (l', _) => tinv ts l'
      | inl (_, t, _, _, _) => 0 <= phi t /\ phi t <= phi ts
      end.
    Proof.
      intros [Ht HH]. rewrite ros_iter_split.
      assert (Htop : match top_part ts l with
                     | inl _ => True
                     | inr (l1, _) => tinv ts l1 /\ l_fresh l1 = false
                     end).
      { unfold top_part. destruct (l_fresh l) eqn:Hfr; [|split; [split; [exact Ht | intros _; apply HH; reflexivity] | exact Hfr]].
        destruct (negb (leb (nadd N (nsub N (l_t l) ts) (p_round_off p)) (n0 N))); [exact I|].
        destruct (p_max_steps p <? number_of_steps (l_stats l)); [exact I|].
        destruct (absorbed (l_t l) (l_H l) || leb (l_H l) (p_round_off p)) eqn:E3; [exact I|].
        apply Bool.orb_false_iff in E3. destruct E3 as [_ E3]. apply leb_false in E3.
        cbv zeta. split; [|reflexivity]. unfold tinv. cbn [l_t l_H l_fresh]. split; [exact Ht|]. intros _.
        pose proof (Habs (nsub N ts (l_t l))) as A1. pose proof (Hsub ts (l_t l)) as A2.
        assert (A3 : Qabs (phi (nsub N ts (l_t l))) == phi ts - phi (l_t l)).
        { rewrite A2. apply Qabs_pos. destruct Ht as [_ Ht2]. lra. }
        destruct (tmin_cases (l_H l) (nabs (nsub N ts (l_t l)))) as [[-> Hc] | [-> Hc]]; rewrite ?A1, ?A3 in *; destruct Ht as [Ht1 Ht2]; split; lra. }
      destruct (top_part ts l) as [st | [l1 ev0]]; [exact Ht|].
      destruct Htop as [[Ht1 HH1] Hfr1]. specialize (HH1 Hfr1). destruct HH1 as [HHa HHb]. destruct Ht1 as [Hta Htb].
      unfold attempt_part. cbv zeta.
      destruct (stages _ _) as [[s2 evs] nf].
      match goal with |- context [isnan ?e] => set (err := e) end.
      destruct (isnan err); [split; assumption|].
      destruct (isinf err); [split; assumption|].
      destruct (ltb err (n1 N) || ltb (l_H l1) (p_h_min p)) eqn:Eacc.
      - (* accepted *)
        unfold tinv. cbn [l_t l_H l_fresh]. pose proof (Hadd (l_t l1) (l_H l1)) as A. split; [split; lra | discriminate].
      - (* rejected: the next H is not larger *)
        apply Bool.orb_false_iff in Eacc. destruct Eacc as [Eerr _].
        unfold tinv. cbn [l_t l_H l_fresh]. split; [split; assumption|]. intros _.
        set (raw := ndiv N (p_safety p) (pow_inv err (p_elo p))).
        assert (Hfac : 0 <= phi (tmin N ltb (p_factor_max p) (tmax N ltb (p_factor_min p) raw)) /\
                       phi (tmin N ltb (p_factor_max p) (tmax N ltb (p_factor_min p) raw)) <= 1).
        { pose proof (Hraw err Eerr) as R. fold raw in R. destruct Hfmin as [F1 F2].
          destruct (tmax_cases (p_factor_min p) raw) as [[Em Hc] | [Em Hc]]; rewrite Em;
            destruct (tmin_cases (p_factor_max p) (p_factor_min p)) as [[E1 Hd] | [E1 Hd]];
            destruct (tmin_cases (p_factor_max p) raw) as [[E2 He] | [E2 He]]; rewrite ?E1, ?E2; split; lra. }
        destruct Hfac as [Fa Fb]. destruct Hrd as [R1 R2].
        destruct (l_reject_more l1).
        + pose proof (Hmul (l_H l1) (p_rej_dec p)) as A. rewrite A. split; nra.
        + match goal with |- context [nmul N (l_H l1) ?f] => pose proof (Hmul (l_H l1) f) as A; rewrite A;
                                                              set (x := phi f) in *; set (h := phi (l_H l1)) in * end.
          split; nra.
    Qed.

    Theorem ros_final_time_within_the_interval fuel time_step (s : rstate) :
      phi (n0 N) == 0 -> 0 <= phi time_step ->
      let r := solve fuel time_step s in
      0 <= phi (r_final_time r) /\ phi (r_final_time r) <= phi time_step.
    Proof.
      intros H0 Hts. unfold ros_solve. cbv zeta. cbn [r_final_time].
      assert (G : forall hm fuel0 l tr, tinv time_step l ->
                 0 <= phi (r_final_time (loop fuel0 time_step hm l tr)) /\
                 phi (r_final_time (loop fuel0 time_step hm l tr)) <= phi time_step).
      { intros hm. induction fuel0 as [|f IH]; intros l tr HI; cbn [ros_loop].
        - cbn [r_final_time]. exact (proj1 HI).
        - pose proof (iter_time_bounds time_step hm l HI) as Hs.
          destruct (iter time_step hm l) as [[[[[st t] sts] s1] ev]|[l1 ev]].
          + cbn [r_final_time]. exact Hs.
          + apply IH. exact Hs. }
      apply G. unfold tinv. cbn [l_t l_fresh]. split; [rewrite H0; split; lra | discriminate].
    Qed.

    (* ---------- C07: no attempt exceeds the remaining interval; retries within a step never grow ---------- *)
    Definition plain (e : event) : Prop :=
      match e with EvAttempt _ _ _ _ _ _ => False | EvStep _ _ => False | _ => True end.

    Lemma stage_plain H s lm lf k : Forall plain (snd (fst (stage1 H s lm lf k))).
    Proof.
      rewrite stage_step_split. unfold tail_part, first_part. cbv zeta.
      destruct (k =? 0); [|destruct (nth k (p_newf p) false)]; cbn [fst snd app]; repeat constructor.
    Qed.

    Lemma stages_plain H s : Forall plain (snd (fst (stages H s))).
    Proof.
      unfold stages_loop.
      assert (G : forall l (acc : rstate * list event * nat), Forall plain (snd (fst acc)) ->
        Forall plain (snd (fst (fold_left (fun (acc : rstate * list event * nat) stage =>
                   let '(s, ev, nf) := acc in
                   let '(s', ev', nf') := stage1 H s (sJac s) (sLU s) stage in (s', ev ++ ev', (nf + nf')%nat)) l acc)))).
      { induction l as [|k l IH]; intros [[s0 ev0] nf0] Hq; cbn [fold_left]; [exact Hq|].
        pose proof (stage_plain H s0 (sJac s0) (sLU s0) k) as Hs.
        destruct (stage1 H s0 (sJac s0) (sLU s0) k) as [[s1 ev1] nf1]. cbn [fst snd] in *.
        apply IH. cbn [fst snd]. apply Forall_app. split; assumption. }
      apply G. constructor.
    Qed.

    (* walking a trace with the size of the latest step start / attempt as the bound for the next attempt *)
    Fixpoint sizes_ok (ts : T) (b : Q) (tr : list event) : Prop :=
      match tr with
      | [] => True
      | EvStep t H :: r => (0 <= phi t /\ 0 <= phi H /\ phi H <= phi ts - phi t) /\ sizes_ok ts (phi H) r
      | EvAttempt H _ _ _ _ _ :: r => (0 <= phi H /\ phi H <= b) /\ sizes_ok ts (phi H) r
      | _ :: r => sizes_ok ts b r
      end.
    Fixpoint lastb (b : Q) (tr : list event) : Q :=
      match tr with
      | [] => b
      | EvStep _ H :: r => lastb (phi H) r
      | EvAttempt H _ _ _ _ _ :: r => lastb (phi H) r
      | _ :: r => lastb b r
      end.

    Lemma sizes_ok_app ts b a c : sizes_ok ts b (a ++ c) <-> sizes_ok ts b a /\ sizes_ok ts (lastb b a) c.
    Proof.
      revert b; induction a as [|e a IH]; intros b; cbn [app sizes_ok lastb]; [tauto|].
      destruct e; rewrite ?IH; tauto.
    Qed.
    Lemma lastb_app b a c : lastb b (a ++ c) = lastb (lastb b a) c.
    Proof. revert b; induction a as [|e a IH]; intros b; cbn [app lastb]; [reflexivity|]. destruct e; apply IH. Qed.
    Lemma plain_sizes ts b a : Forall plain a -> sizes_ok ts b a /\ lastb b a = b.
    Proof.
      induction 1 as [|e a He Ha IH]; cbn [sizes_ok lastb]; [split; [exact I | reflexivity]|].
      destruct e; cbn [plain] in He; try contradiction; exact IH.
    Qed.

    Lemma attempt_events_ok ts b0 tr ev0 H alpha (jac1 : M) evs e ok (y yn ye : V) tail :
      sizes_ok ts b0 (tr ++ ev0) -> 0 <= phi H -> phi H <= lastb b0 (tr ++ ev0) -> Forall plain evs -> Forall plain tail ->
      sizes_ok ts b0 (tr ++ (ev0 ++ [EvFactor H alpha jac1] ++ evs) ++ [EvAttempt H e ok y yn ye] ++ tail) /\
      lastb b0 (tr ++ (ev0 ++ [EvFactor H alpha jac1] ++ evs) ++ [EvAttempt H e ok y yn ye] ++ tail) = phi H.
    Proof.
      intros H1 H2 H3 Hp Ht.
      replace (tr ++ (ev0 ++ [EvFactor H alpha jac1] ++ evs) ++ [EvAttempt H e ok y yn ye] ++ tail)
        with ((tr ++ ev0) ++ (EvFactor H alpha jac1 :: evs) ++ (EvAttempt H e ok y yn ye :: tail))
        by (rewrite <- !app_assoc; reflexivity).
      assert (Hp' : Forall plain (EvFactor H alpha jac1 :: evs)) by (constructor; [exact I | exact Hp]).
      destruct (plain_sizes ts (lastb b0 (tr ++ ev0)) _ Hp') as [P1 P2].
      destruct (plain_sizes ts (phi H) _ Ht) as [T1 T2].
      split.
      - apply sizes_ok_app. split; [exact H1|]. apply sizes_ok_app. split; [exact P1|]. rewrite P2.
        cbn [sizes_ok]. split; [split; assumption | exact T1].
      - rewrite (lastb_app b0 (tr ++ ev0)). rewrite (lastb_app _ (EvFactor H alpha jac1 :: evs)). rewrite P2. cbn [lastb]. exact T2.
    Qed.

    Lemma top_time_bounds ts l : tinv ts l ->
      match top_part ts l with
      | inl _ => True
      | inr (l1, ev0) => tinv ts l1 /\ l_fresh l1 = false /\
                         ((l_fresh l = true /\ ev0 = [EvStep (l_t l1) (l_H l1); EvForcing (sY (l_s l)); EvNegJac (sY (l_s l))]) \/
                          (l_fresh l = false /\ ev0 = [] /\ l1 = l))
      end.
    Proof.
      intros [Ht HH]. unfold top_part.
      destruct (l_fresh l) eqn:Hfr;
        [|split; [split; [exact Ht | intros _; apply HH; reflexivity] | split; [exact Hfr | right; repeat split; reflexivity]]].
      destruct (negb (leb (nadd N (nsub N (l_t l) ts) (p_round_off p)) (n0 N))); [exact I|].
      destruct (p_max_steps p <? number_of_steps (l_stats l)); [exact I|].
      destruct (absorbed (l_t l) (l_H l) || leb (l_H l) (p_round_off p)) eqn:E3; [exact I|].
      apply Bool.orb_false_iff in E3. destruct E3 as [_ E3]. apply leb_false in E3.
      cbv zeta. split; [|split; [reflexivity | left; split; reflexivity]].
      unfold tinv. cbn [l_t l_H l_fresh]. split; [exact Ht|]. intros _.
      pose proof (Habs (nsub N ts (l_t l))) as A1. pose proof (Hsub ts (l_t l)) as A2.
      assert (A3 : Qabs (phi (nsub N ts (l_t l))) == phi ts - phi (l_t l)).
      { rewrite A2. apply Qabs_pos. destruct Ht as [_ Ht2]. lra. }
      destruct (tmin_cases (l_H l) (nabs (nsub N ts (l_t l)))) as [[-> Hc] | [-> Hc]]; rewrite ?A1, ?A3 in *; destruct Ht as [Ht1 Ht2]; split; lra.
    Qed.

    Lemma rejected_not_larger (H err : T) (more : bool) :
      0 <= phi H -> ltb err (n1 N) = false ->
      let fac := tmin N ltb (p_factor_max p) (tmax N ltb (p_factor_min p) (ndiv N (p_safety p) (pow_inv err (p_elo p)))) in
      let Hn := if more then nmul N H (p_rej_dec p) else nmul N H fac in
      0 <= phi Hn /\ phi Hn <= phi H.
    Proof.
      intros HH Eerr. cbv zeta.
      set (raw := ndiv N (p_safety p) (pow_inv err (p_elo p))).
      assert (Hfac : 0 <= phi (tmin N ltb (p_factor_max p) (tmax N ltb (p_factor_min p) raw)) /\
                     phi (tmin N ltb (p_factor_max p) (tmax N ltb (p_factor_min p) raw)) <= 1).
      { pose proof (Hraw err Eerr) as R. fold raw in R. destruct Hfmin as [F1 F2].
        destruct (tmax_cases (p_factor_min p) raw) as [[Em Hc] | [Em Hc]]; rewrite Em;
          destruct (tmin_cases (p_factor_max p) (p_factor_min p)) as [[E1 Hd] | [E1 Hd]];
          destruct (tmin_cases (p_factor_max p) raw) as [[E2 He] | [E2 He]]; rewrite ?E1, ?E2; split; lra. }
      destruct Hfac as [Fa Fb]. destruct Hrd as [R1 R2].
      destruct more.
      - pose proof (Hmul H (p_rej_dec p)) as A. rewrite A. split; nra.
      - match goal with |- context [nmul N H ?f] => pose proof (Hmul H f) as A; rewrite A;
                                                    set (x := phi f) in *; set (h := phi H) in * end.
        split; nra.
    Qed.

    Definition szinv (ts : T) (b0 : Q) (l : loop_state) (tr : list event) : Prop :=
      tinv ts l /\ sizes_ok ts b0 tr /\ (l_fresh l = false -> phi (l_H l) <= lastb b0 tr).

    Lemma iter_sizes ts hm b0 l tr : szinv ts b0 l tr ->
      match iter ts hm l with
      | inr (l', ev) => szinv ts b0 l' (tr ++ ev)
      | inl (_, _, _, _, ev) => sizes_ok ts b0 (tr ++ ev)
      end.
    Proof.
      intros (HT & HS & HB).
      pose proof (iter_time_bounds ts hm l HT) as HTB.
      rewrite ros_iter_split in *.
      pose proof (top_time_bounds ts l HT) as Htop.
      destruct (top_part ts l) as [st | [l1 ev0]]; [rewrite app_nil_r; exact HS|].
      destruct Htop as (HT1 & Hfr1 & Hev).
      assert (HS1 : sizes_ok ts b0 (tr ++ ev0) /\ phi (l_H l1) <= lastb b0 (tr ++ ev0)).
      { destruct HT1 as [[Ta Tb] HH1]. specialize (HH1 Hfr1). destruct HH1 as [Ha Hb].
        destruct Hev as [[Hf ->] | [Hf [-> ->]]].
        - split.
          + apply sizes_ok_app. split; [exact HS|]. cbn [sizes_ok]. repeat split; try assumption.
          + rewrite lastb_app. cbn [lastb]. apply Qle_refl.
        - rewrite app_nil_r. split; [exact HS | apply HB; exact Hf]. }
      destruct HS1 as [HS1 HB1].
      assert (HH1 : 0 <= phi (l_H l1)).
      { destruct HT1 as [_ HH1]. specialize (HH1 Hfr1). tauto. }
      unfold attempt_part in *. cbv zeta in *.
      pose proof (stages_plain (l_H l1)) as SP.
      match goal with |- context [stages ?h ?s1] => specialize (SP s1); destruct (stages h s1) as [[s2 evs] nf] end.
      cbn [fst snd] in SP.
      match goal with |- context [isnan ?e] => set (err := e) in * end.
      match goal with |- context [EvFactor _ ?a ?j] => set (alpha := a) in *; set (jac1 := j) in * end.
      assert (NoTail : forall ok y yn ye,
                 sizes_ok ts b0 (tr ++ (ev0 ++ [EvFactor (l_H l1) alpha jac1] ++ evs) ++ [EvAttempt (l_H l1) err ok y yn ye]) /\
                 lastb b0 (tr ++ (ev0 ++ [EvFactor (l_H l1) alpha jac1] ++ evs) ++ [EvAttempt (l_H l1) err ok y yn ye]) = phi (l_H l1)).
      { intros ok y yn ye.
        pose proof (attempt_events_ok ts b0 tr ev0 (l_H l1) alpha jac1 evs err ok y yn ye [] HS1 HH1 HB1 SP (Forall_nil _)) as X.
        rewrite app_nil_r in X. exact X. }
      destruct (isnan err); [apply NoTail|].
      destruct (isinf err); [apply NoTail|].
      destruct (ltb err (n1 N) || ltb (l_H l1) (p_h_min p)) eqn:Eacc.
      - split; [exact HTB|]. split; [apply NoTail|]. cbn [l_fresh]. discriminate.
      - apply Bool.orb_false_iff in Eacc. destruct Eacc as [Eerr _].
        split; [exact HTB|].
        assert (Htail : Forall plain (if in_place then [EvNegJac (sY s2)] else ([] : list event))).
        { destruct in_place; repeat constructor. }
        match goal with |- context [EvAttempt (l_H l1) err false ?y ?yn ?ye] =>
          pose proof (attempt_events_ok ts b0 tr ev0 (l_H l1) alpha jac1 evs err false y yn ye _ HS1 HH1 HB1 SP Htail) as [X1 X2] end.
        cbn [sY] in *.
        split; [exact X1|]. intros _. cbn [l_H].
        match goal with |- _ <= ?r => replace r with (phi (l_H l1)) by (symmetry; exact X2) end.
        apply (rejected_not_larger (l_H l1) err (l_reject_more l1) HH1 Eerr).
    Qed.

    Theorem ros_attempt_sizes_within_the_interval fuel time_step (s : rstate) :
      phi (n0 N) == 0 -> 0 <= phi time_step ->
      sizes_ok time_step 0 (r_trace (solve fuel time_step s)).
    Proof.
      intros H0 Hts. unfold ros_solve. cbv zeta. cbn [r_trace].
      assert (G : forall hm fuel0 l tr, szinv time_step 0 l tr -> sizes_ok time_step 0 (r_trace (loop fuel0 time_step hm l tr))).
      { intros hm. induction fuel0 as [|f IH]; intros l tr HI; cbn [ros_loop].
        - cbn [r_trace]. exact (proj1 (proj2 HI)).
        - pose proof (iter_sizes time_step hm 0 l tr HI) as Hs.
          destruct (iter time_step hm l) as [[[[[st t] sts] s1] ev]|[l1 ev]].
          + cbn [r_trace]. exact Hs.
          + apply IH. exact Hs. }
      apply G. unfold szinv, tinv. cbn [l_t l_fresh sizes_ok]. 
      split; [split; [rewrite H0; split; lra | discriminate] | split; [exact I | discriminate]].
    Qed.

    (* the two readings of sizes_ok used by Properties_C07 *)
    Lemma sizes_ok_step ts b a t H r : sizes_ok ts b (a ++ EvStep t H :: r) ->
      0 <= phi t /\ 0 <= phi H /\ phi H <= phi ts - phi t.
    Proof. intros X. apply sizes_ok_app in X. destruct X as [_ X]. cbn [sizes_ok] in X. tauto. Qed.

    Definition size_of (e : event) : option T :=
      match e with EvStep _ H => Some H | EvAttempt H _ _ _ _ _ => Some H | _ => None end.

    Lemma sizes_ok_next_attempt ts b a e1 H mid H' e' ok' (y yn ye : V) r :
      sizes_ok ts b (a ++ e1 :: mid ++ EvAttempt H' e' ok' y yn ye :: r) ->
      size_of e1 = Some H -> Forall plain mid ->
      0 <= phi H' /\ phi H' <= phi H.
    Proof.
      intros X E Hp. apply sizes_ok_app in X. destruct X as [_ X].
      assert (Y : sizes_ok ts (phi H) (mid ++ EvAttempt H' e' ok' y yn ye :: r)).
      { destruct e1; cbn [size_of] in E; try discriminate E; inversion E; subst; cbn [sizes_ok] in X; tauto. }
      apply sizes_ok_app in Y. destruct Y as [_ Y]. destruct (plain_sizes ts (phi H) mid Hp) as [_ L]. rewrite L in Y.
      cbn [sizes_ok] in Y. tauto.
    Qed.

    Theorem ros_step_start_within_the_remaining_interval fuel time_step (s : rstate) a t H r :
      phi (n0 N) == 0 -> 0 <= phi time_step ->
      r_trace (solve fuel time_step s) = a ++ EvStep t H :: r ->
      0 <= phi t /\ 0 <= phi H /\ phi H <= phi time_step - phi t.
    Proof.
      intros H0 Hts E. pose proof (ros_attempt_sizes_within_the_interval fuel time_step s H0 Hts) as X.
      rewrite E in X. exact (sizes_ok_step _ _ _ _ _ _ X).
    Qed.

    Theorem ros_attempt_never_larger_than_the_one_before fuel time_step (s : rstate) a e1 H mid H' e' ok' y yn ye r :
      phi (n0 N) == 0 -> 0 <= phi time_step ->
      r_trace (solve fuel time_step s) = a ++ e1 :: mid ++ EvAttempt H' e' ok' y yn ye :: r ->
      size_of e1 = Some H -> Forall plain mid ->
      0 <= phi H' /\ phi H' <= phi H.
    Proof.
      intros H0 Hts E. pose proof (ros_attempt_sizes_within_the_interval fuel time_step s H0 Hts) as X.
      rewrite E in X. exact (sizes_ok_next_attempt _ _ _ _ _ _ _ _ _ _ _ _ _ X).
    Qed.

    (* ---------- C07: no step exceeds max(h_min, h_max') once the first one does not ---------- *)
    Definition bounded (B : Q) (e : event) : Prop :=
      match e with EvStep _ H => phi H <= B | EvAttempt H _ _ _ _ _ => phi H <= B | _ => True end.
    Lemma plain_bounded B a : Forall plain a -> Forall (bounded B) a.
    Proof. induction 1 as [|e a He Ha IH]; constructor; [destruct e; cbn in *; tauto | exact IH]. Qed.

    Definition binv (ts hm : T) (B : Q) (l : loop_state) (tr : list event) : Prop :=
      tinv ts l /\ phi (l_H l) <= B /\ Forall (bounded B) tr.

    Lemma iter_bounded ts hm B l tr :
      phi (p_h_min p) <= B -> phi hm <= B -> binv ts hm B l tr ->
      match iter ts hm l with
      | inr (l', ev) => binv ts hm B l' (tr ++ ev)
      | inl (_, _, _, _, ev) => Forall (bounded B) (tr ++ ev)
      end.
    Proof.
      intros Bmin Bmax (HT & HB & HF).
      pose proof (iter_time_bounds ts hm l HT) as HTB.
      rewrite ros_iter_split in *.
      pose proof (top_time_bounds ts l HT) as Htop.
      assert (Htop2 : match top_part ts l with inl _ => True | inr (l1, _) => phi (l_H l1) <= B end).
      { unfold top_part. destruct (l_fresh l); [|exact HB].
        destruct (negb _); [exact I|]. destruct (_ <? _); [exact I|]. destruct (_ || _); [exact I|].
        cbv zeta. cbn [l_H].
        destruct (tmin_cases (l_H l) (nabs (nsub N ts (l_t l)))) as [[-> Hc] | [-> Hc]]; lra. }
      destruct (top_part ts l) as [st | [l1 ev0]]; [rewrite app_nil_r; exact HF|].
      destruct Htop as (HT1 & Hfr1 & Hev).
      assert (HH1 : 0 <= phi (l_H l1)).
      { destruct HT1 as [_ HH1]. specialize (HH1 Hfr1). tauto. }
      assert (HF0 : Forall (bounded B) (tr ++ ev0)).
      { apply Forall_app. split; [exact HF|]. destruct Hev as [[_ ->] | [_ [-> _]]]; repeat constructor. exact Htop2. }
      unfold attempt_part in *. cbv zeta in *.
      pose proof (stages_plain (l_H l1)) as SP.
      match goal with |- context [stages ?h ?s1] => specialize (SP s1); destruct (stages h s1) as [[s2 evs] nf] end.
      cbn [fst snd] in SP. apply (plain_bounded B) in SP.
      match goal with |- context [isnan ?e] => set (err := e) in * end.
      assert (EV : forall alpha (jac1 : M) ok y yn ye tail, Forall (bounded B) tail ->
                 Forall (bounded B) (tr ++ (ev0 ++ [EvFactor (l_H l1) alpha jac1] ++ evs) ++ [EvAttempt (l_H l1) err ok y yn ye] ++ tail)).
      { intros alpha jac1 ok y yn ye tail Ht. rewrite app_assoc. apply Forall_app. split.
        - rewrite app_assoc. apply Forall_app. split; [exact HF0|]. constructor; [exact I | exact SP].
        - constructor; [exact Htop2 | exact Ht]. }
      assert (EV0 : forall alpha (jac1 : M) ok y yn ye,
                 Forall (bounded B) (tr ++ (ev0 ++ [EvFactor (l_H l1) alpha jac1] ++ evs) ++ [EvAttempt (l_H l1) err ok y yn ye])).
      { intros. pose proof (EV alpha jac1 ok y yn ye [] (Forall_nil _)) as X. rewrite app_nil_r in X. exact X. }
      destruct (isnan err); [apply EV0|].
      destruct (isinf err); [apply EV0|].
      destruct (ltb err (n1 N) || ltb (l_H l1) (p_h_min p)) eqn:Eacc.
      - split; [exact HTB|]. split; [|apply EV0]. cbn [l_H].
        match goal with |- context [tmax N ltb (p_h_min p) (tmin N ltb ?hn hm)] => set (Hnew := hn) end.
        assert (X : phi (tmax N ltb (p_h_min p) (tmin N ltb Hnew hm)) <= B).
        { destruct (tmax_cases (p_h_min p) (tmin N ltb Hnew hm)) as [[-> Hc] | [-> Hc]]; [exact Bmin|].
          destruct (tmin_cases Hnew hm) as [[E1 Hd] | [E1 Hd]]; rewrite E1 in *; lra. }
        destruct (l_reject_last l1); [|exact X].
        destruct (tmin_cases (tmax N ltb (p_h_min p) (tmin N ltb Hnew hm)) (l_H l1)) as [[-> Hc] | [-> Hc]]; lra.
      - apply Bool.orb_false_iff in Eacc. destruct Eacc as [Eerr _].
        split; [exact HTB|]. split.
        + cbn [l_H]. pose proof (rejected_not_larger (l_H l1) err (l_reject_more l1) HH1 Eerr) as X. cbv zeta in X. lra.
        + apply EV. destruct in_place; repeat constructor.
    Qed.

    Theorem ros_loop_sizes_bounded fuel ts hm B l :
      phi (p_h_min p) <= B -> phi hm <= B -> tinv ts l -> phi (l_H l) <= B ->
      Forall (bounded B) (r_trace (loop fuel ts hm l [])).
    Proof.
      intros Bmin Bmax HT HB.
      assert (G : forall fuel0 l0 tr, binv ts hm B l0 tr -> Forall (bounded B) (r_trace (loop fuel0 ts hm l0 tr))).
      { induction fuel0 as [|f IH]; intros l0 tr HI; cbn [ros_loop].
        - cbn [r_trace]. exact (proj2 (proj2 HI)).
        - pose proof (iter_bounded ts hm B l0 tr Bmin Bmax HI) as Hs.
          destruct (iter ts hm l0) as [[[[[st t] sts] s1] ev]|[l1 ev]].
          + cbn [r_trace]. exact Hs.
          + apply IH. exact Hs. }
      apply G. split; [exact HT|]. split; [exact HB | constructor].
    Qed.

    (* the limit and the first step size Solve computes on entry (ros_solve's own expressions) *)
    Definition solve_h_max (ts : T) : T := if is_zero (p_h_max p) then ts else tmin N ltb ts (p_h_max p).
    Definition solve_first_H (ts : T) : T :=
      let h_max := solve_h_max ts in
      let h_start := if is_zero (p_h_start p) then tmax N ltb (p_h_min p) delta_min else tmin N ltb h_max (p_h_start p) in
      let H0 := tmin N ltb (tmax N ltb (nabs (p_h_min p)) (nabs h_start)) (nabs h_max) in
      if leb (nabs H0) (nmul N ten (p_round_off p)) then delta_min else H0.

    Theorem ros_sizes_bounded fuel time_step (s : rstate) B :
      phi (n0 N) == 0 -> 0 <= phi time_step ->
      phi (p_h_min p) <= B -> phi (solve_h_max time_step) <= B -> phi (solve_first_H time_step) <= B ->
      Forall (bounded B) (r_trace (solve fuel time_step s)).
    Proof.
      intros H0 Hts Bmin Bmax Bfirst. unfold ros_solve. cbv zeta. cbn [r_trace].
      apply (ros_loop_sizes_bounded fuel time_step (solve_h_max time_step) B); try assumption.
      unfold tinv. cbn [l_t l_fresh]. split; [rewrite H0; split; lra | discriminate].
    Qed.
  End TimeBounds.
End RosScratch.
