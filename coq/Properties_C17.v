(* Properties_C17.v — C17: States and solvers have value semantics: copies and moves are fully usable.
   Model: the dynamic type of a State's temporary_variables_ (what Solve() downcasts) under every
   sequence of GetState / copy-construct / copy-assign / move-construct / move-assign / set / solve
   operations over any number of State variables. *)
From Model Require Import Base ValueSem ValueSemProofs.
Local Open Scope nat_scope.

(* the repaired code (fix: c55c0fb): no sequence of operations, of any length, reaches undefined behaviour *)
Theorem C17_no_sequence_of_copies_moves_and_solves_is_undefined :
  forall n (ops : list vop), ~ In TkUB (vrun copy_fixed (store0 n) ops).
Proof. intros n ops. apply value_semantics_no_ub. apply wf_store0. Qed.
Print Assumptions C17_no_sequence_of_copies_moves_and_solves_is_undefined.

(* a solve reads the data of its own State only *)
Theorem C17_solve_reads_its_own_state :
  forall st i, so_live (slot st i) = true -> wf st ->
    snd (vstep copy_fixed st (OSolve i)) = TkSolve (so_data (slot st i)).
Proof. exact solve_reads_own_data. Qed.
Print Assumptions C17_solve_reads_its_own_state.

(* the code as it was before the repair: copying sliced the scratch object to its base class;
   GetState; copy; Solve(copy) reached undefined behaviour (replayed on the implementation under UBSan) *)
Theorem C17_sliced_copy_refuted :
  In TkUB (vrun copy_sliced (store0 4) [OGet 0; OCopyC 1 0; OSolve 1]).
Proof. exact copy_then_solve_refuted. Qed.
Print Assumptions C17_sliced_copy_refuted.
