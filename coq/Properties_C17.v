(* Properties_C17.v — C17: States and solvers have value semantics: copies and moves are fully usable.
   Model: the dynamic type of a State's temporary_variables_ (what Solve() downcasts) and the number of stage
   vectors it holds (what the Rosenbrock stage loop indexes), under every sequence of GetState / copy-construct /
   copy-assign / move-construct / move-assign / set / solve / solve-with-another-parameter-set operations over any
   number of State variables, some of them obtained from a second solver of the same C++ type but other dimensions
   (a State carries the scratch of the solver whose dimensions its matrices have, also after being assigned to). *)
From Model Require Import Base ValueSem ValueSemProofs.
Local Open Scope nat_scope.

(* the repaired code (fix: c55c0fb, and the stage-vector fix): no sequence of operations, of any length, reaches
   undefined behaviour, whatever the stage count of the solver's parameter set and of the sets handed to Solve *)
Theorem C17_no_sequence_of_copies_moves_and_solves_is_undefined :
  forall n stages (ops : list vop), ~ In TkUB (vrun copy_fixed true (store0 n stages) ops).
Proof. intros n stages ops. apply value_semantics_no_ub. apply wf_store0. Qed.
Print Assumptions C17_no_sequence_of_copies_moves_and_solves_is_undefined.

(* a solve reads the data of its own State only *)
Theorem C17_solve_reads_its_own_state :
  forall st stages i, so_live (slot st i) = true -> so_shape (slot st i) = 0 -> wf st ->
    snd (vstep copy_fixed true (st, stages) (OSolve i)) = TkSolve (so_data (slot st i)).
Proof. exact solve_reads_own_data. Qed.
Print Assumptions C17_solve_reads_its_own_state.

(* the code as it was before the first repair: copying sliced the scratch object to its base class;
   GetState; copy; Solve(copy) reached undefined behaviour (replayed on the implementation under UBSan) *)
Theorem C17_sliced_copy_refuted :
  In TkUB (vrun copy_sliced true (store0 4 3) [OGet 0; OCopyC 1 0; OSolve 1]).
Proof. exact copy_then_solve_refuted. Qed.
Print Assumptions C17_sliced_copy_refuted.

(* the code as it was before the second repair: the stage loop indexed K[0..stages) of a State created for fewer
   stages: GetState (three-stage solver); Solve(dt, state, six-stage parameters) overran the heap (replayed under ASan);
   and, once the solver's set had been changed that way, so did the two-argument Solve of an older State *)
Theorem C17_more_stages_than_stage_vectors_refuted :
  In TkUB (vrun copy_fixed false (store0 4 3) [OGet 0; OPSolve 0 6]) /\
  vrun copy_fixed false (store0 4 6) [OGet 1; OPSolve 1 2; OGet 0; OPSolve 1 6; OSolve 0]
  = [TkGet; TkSolve 1; TkGet; TkSolve 1; TkUB].
Proof. split; [exact more_stages_than_vectors_refuted | exact older_state_after_parameter_change_refuted]. Qed.
Print Assumptions C17_more_stages_than_stage_vectors_refuted.
