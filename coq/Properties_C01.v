(* Properties_C01.v — C01: forcing equals the mass-action rate law of the configured mechanism.
   Property theorems only; proofs in ProcessSetProofs.v. *)
From Model Require Import Base Dense Sparse ProcessSetM ProcessSetProofs NumInst.
From Coq Require Import Ring QArith.
Local Open Scope nat_scope.

(* For every commutative ring of values, every mechanism (any reactants with repeats and
   parameterised species, any products and yields), every name->index map with indices
   below nspec, every dense layout (row-major, grouped with any L > 0), every cell count and
   every storage representing the logical rate constants K, concentrations Y and initial
   forcing F0: after AddForcingTerms the logical element (cell c, species s) holds
       F0 c s + sum_i (yield_i(s) - multiplicity_i(s)) * (K c i * prod_{q in reactants_i} Y c q)
   where i ranges over the reactions as resolved by the constructor (parameterised species
   dropped).  The right-hand side mentions neither the layout nor any other cell. *)
Theorem C01_forcing_is_mass_action :
  forall (N : Num) (Nring : ring_theory (n0 N) (n1 N) (nadd N) (nmul N) (nsub N) (nopp N) eq)
         (ly : layout) (m : vmap) (rxns : list (reaction N)) p ncells nspec rc y f K Y F0 c s,
    layout_ok ly -> vmap_range_lt m nspec -> ps_build N m rxns = Ok p ->
    represents N ly ncells (length rxns) rc K -> represents N ly ncells nspec y Y ->
    represents N ly ncells nspec f F0 -> c < ncells -> s < nspec ->
    exists rr, resolve_all N m rxns = Ok rr /\
      mget (n0 N) ly nspec (add_forcing N ly p ncells nspec (length rxns) rc y f) c s =
      nadd N (F0 c s) (mass_action N (combine (seq 0 (length rr)) rr) (K c) (Y c) s).
Proof. exact forcing_mass_action. Qed.
Print Assumptions C01_forcing_is_mass_action.

(* With no assumption at all on the arithmetic (so also for IEEE binary64 with rounding):
   the value written to slot (c, s) is one fixed sequence of operations on cell c's own
   inputs — the same sequence in every layout, for every cell count (partial groups
   included).  Hence layouts agree bit for bit and no cell influences another. *)
Theorem C01_slot_value_any_arithmetic :
  forall (N : Num) (ly : layout) p ncells nspec nrxn rc y f K Y F0 c s,
    layout_ok ly -> rxns_ids_lt N (ps_rxns N p) nspec -> length (ps_rxns N p) <= nrxn ->
    represents N ly ncells nrxn rc K -> represents N ly ncells nspec y Y ->
    represents N ly ncells nspec f F0 -> c < ncells -> s < nspec ->
    mget (n0 N) ly nspec (add_forcing N ly p ncells nspec nrxn rc y f) c s =
    forcing_slot N (ps_rxns N p) (K c) (Y c) s (F0 c s).
Proof. exact forcing_slot_any_layout. Qed.
Print Assumptions C01_slot_value_any_arithmetic.

(* nothing is written to a species that takes part in no reaction *)
Theorem C01_untouched_species :
  forall (N : Num) rxns k y s v0,
    (forall rx, In rx rxns -> ~ In s (fst rx) /\ (forall p, In p (snd rx) -> fst p <> s)) ->
    forcing_slot N rxns k y s v0 = v0.
Proof. exact forcing_slot_untouched. Qed.
Print Assumptions C01_untouched_species.

(* the constructor's flattened tables, walked with the kernels' iterator arithmetic, are the
   resolved reactions; unknown names are rejected *)
Theorem C01_tables_are_the_mechanism :
  forall (N : Num) m rxns p, ps_build N m rxns = Ok p ->
    exists rr, resolve_all N m rxns = Ok rr /\ ps_rxns N p = rr.
Proof. exact ps_build_rxns. Qed.
Print Assumptions C01_tables_are_the_mechanism.

(* non-vacuity: A + A + B -> 0.5 C + A with a parameterised third body M, on 3 cells in groups of 2 *)
Local Open Scope Q_scope.
Definition ex_mech : list (reaction NumQ) :=
  [ mkRxn NumQ [mkSpc 10 false; mkSpc 10 false; mkSpc 11 false; mkSpc 50 true]
               [(mkSpc 12 false, 1#2); (mkSpc 10 false, 1)] ].
Definition ex_map : vmap := [(10, 2); (11, 0); (12, 1)]%nat.
Example C01_example :
  match ps_build NumQ ex_map ex_mech with
  | Ok p =>
    (* rate = 3 * 2*2*5 = 60 in cell 0 ; A (index 2): -2*60 + 60 ; B (index 0): -60 ; C (index 1): +30 *)
    add_forcing NumQ (Grouped 2) p 1 3 1 [3;0] [5;0; 0;0; 2;0] [0;0;0;0;0;0] = [-60;0; 30;0; -60;0]
    /\ ps_rxns NumQ p = [([2;2;0]%nat, [(1%nat, 1#2); (2%nat, 1)])]
  | Err _ => False
  end.
Proof. vm_compute. split; reflexivity. Qed.
