(* LUProofs.v — exact-arithmetic theory of the factorisation and of the triangular solves,
   for every field.
   Part 1: the Doolittle defining equations imply L*U = A (no induction over the algorithm).
   Part 2: forward and backward substitution as modelled in LU.v solve L y = b and U x = y;
           with L*U = A this gives A x = b. *)
From Model Require Import Base LU.
From Coq Require Import Ring Field.
Local Open Scope nat_scope.

Section OverField.
  Variable N : Num.
  Notation T := (T N).
  Hypothesis Nfield : field_theory (n0 N) (n1 N) (nadd N) (nmul N) (nsub N) (nopp N) (ndiv N) (ninv N) eq.
  Add Field NumField : Nfield.
  Notation "a +! b" := (nadd N a b) (at level 50, left associativity).
  Notation "a *! b" := (nmul N a b) (at level 40, left associativity).
  Notation "a -! b" := (nsub N a b) (at level 50, left associativity).
  Notation "0!" := (n0 N).
  Notation "1!" := (n1 N).
  Notation sum := (nsum N).

  (* ---------- finite sums ---------- *)
  Lemma sum_ext n f g : (forall j, j < n -> f j = g j) -> sum n f = sum n g.
  Proof. induction n as [|n IH]; simpl; intros H; [reflexivity|]. rewrite IH, H by auto. reflexivity. Qed.

  Lemma sum_zero n f : (forall j, j < n -> f j = 0!) -> sum n f = 0!.
  Proof. induction n as [|n IH]; simpl; intros H; [reflexivity|]. rewrite IH, H by auto. ring. Qed.

  (* truncate a sum whose tail vanishes *)
  Lemma sum_trunc m n f : m <= n -> (forall j, m <= j -> j < n -> f j = 0!) -> sum n f = sum m f.
  Proof.
    intros Hmn. induction Hmn as [|n Hmn IH]; intros H; [reflexivity|].
    simpl. rewrite IH by (intros; apply H; lia). rewrite (H n) by lia. ring.
  Qed.

  Lemma sum_add n f g : sum n (fun j => f j +! g j) = sum n f +! sum n g.
  Proof. induction n as [|n IH]; simpl; [ring|]. rewrite IH. ring. Qed.

  Lemma sum_scale n c f : sum n (fun j => c *! f j) = c *! sum n f.
  Proof. induction n as [|n IH]; simpl; [ring|]. rewrite IH. ring. Qed.

  Lemma sum_scale_r n c f : sum n (fun j => f j *! c) = sum n f *! c.
  Proof. induction n as [|n IH]; simpl; [ring|]. rewrite IH. ring. Qed.

  Lemma sum_swap n m (f : nat -> nat -> T) :
    sum n (fun i => sum m (fun j => f i j)) = sum m (fun j => sum n (fun i => f i j)).
  Proof.
    induction n as [|n IH]; simpl.
    - symmetry. apply sum_zero. reflexivity.
    - rewrite IH, <- sum_add. reflexivity.
  Qed.

  (* ---------- Part 1 ---------- *)
  Section Equations.
    Variable n : nat.
    Variables A L U : nat -> nat -> T.
    Hypothesis Hunit : forall i, i < n -> L i i = 1!.
    Hypothesis Hlow : forall i j, i < j -> j < n -> L i j = 0!.
    Hypothesis Hup : forall i j, j < i -> i < n -> U i j = 0!.
    (* U i k = A i k - sum_{j<i} L i j U j k            (i <= k)
       L k i * U i i = A k i - sum_{j<i} L k j U j i    (i <  k) *)
    Hypothesis HU : forall i k, i <= k -> k < n -> U i k = A i k -! sum i (fun j => L i j *! U j k).
    Hypothesis HL : forall i k, i < k -> k < n -> L k i *! U i i = A k i -! sum i (fun j => L k j *! U j i).

    Theorem LU_eq_A r c : r < n -> c < n -> sum n (fun j => L r j *! U j c) = A r c.
    Proof.
      intros Hr Hc. destruct (Nat.le_gt_cases r c) as [Hrc|Hrc].
      - (* on or above the diagonal: terms j > r vanish because L r j = 0 *)
        rewrite (sum_trunc (S r) n) by (try lia; intros j H1 H2; rewrite Hlow by lia; ring).
        simpl. rewrite Hunit by lia. rewrite (HU r c Hrc Hc). ring.
      - (* below the diagonal: terms j > c vanish because U j c = 0 *)
        rewrite (sum_trunc (S c) n) by (try lia; intros j H1 H2; rewrite Hup by lia; ring).
        simpl. rewrite (HL c r Hrc Hr). ring.
    Qed.
  End Equations.

  (* ---------- Part 2: triangular solves ---------- *)
  Section Substitution.
    Variable n : nat.

    (* reading structural zeros as zero *)
    Definition view (P : pat) (M : mat N) : mat N := fun r c => if P r c then M r c else 0!.

    (* inner accumulation of one row: x_i := x_i - sum_{j in js, P i j} M i j x_j   (i not in js) *)
    Lemma fold_ext_in {A B} (f g : A -> B -> A) l a :
      (forall a b, In b l -> f a b = g a b) -> fold_left f l a = fold_left g l a.
    Proof.
      revert a; induction l as [|b l IH]; intros a H; simpl; auto.
      rewrite H by (simpl; auto). apply IH. intros; apply H; simpl; auto.
    Qed.

    Lemma fold_sum_shift (f : nat -> T) js s0 :
      fold_left (fun s j => s +! f j) js s0 = s0 +! fold_left (fun s j => s +! f j) js 0!.
    Proof.
      revert s0; induction js as [|j js IH]; intros s0; simpl; [ring|].
      rewrite IH. rewrite (IH (0! +! f j)). ring.
    Qed.

    Definition row_acc (P : pat) (M : mat N) i js (x : vec N) : vec N :=
      fold_left (fun x j => if P i j then vset N x i (x i -! M i j *! x j) else x) js x.

    Lemma row_accumulate (P : pat) (M : mat N) i js (x : vec N) :
      ~ In i js -> NoDup js ->
      (forall r, r <> i -> row_acc P M i js x r = x r) /\
      row_acc P M i js x i = x i -! fold_left (fun s j => s +! view P M i j *! x j) js 0!.
    Proof.
      unfold row_acc. revert x; induction js as [|j js IH]; intros x Hni Hnd; simpl.
      - split; [reflexivity|ring].
      - inversion Hnd as [|? ? Hnj Hnd']; subst.
        assert (Hij : i <> j) by (intros E; apply Hni; simpl; auto).
        set (x1 := if P i j then vset N x i (x i -! M i j *! x j) else x).
        destruct (IH x1 (fun H => Hni (or_intror H)) Hnd') as [IH1 IH2].
        assert (Hx1 : forall r, r <> i -> x1 r = x r).
        { intros r Hr. unfold x1. destruct (P i j); [|reflexivity]. unfold vset.
          destruct (Nat.eqb_spec r i); [contradiction|reflexivity]. }
        split.
        + intros r Hr. rewrite IH1 by assumption. apply Hx1; assumption.
        + rewrite IH2.
          assert (Hfold : forall s,
                    fold_left (fun s j0 => s +! view P M i j0 *! x1 j0) js s =
                    fold_left (fun s j0 => s +! view P M i j0 *! x j0) js s).
          { intros s. apply fold_ext_in. intros a j0 Hj0.
            rewrite (Hx1 j0) by (intros E; apply Hni; subst; simpl; auto). reflexivity. }
          rewrite Hfold.
          rewrite (fold_sum_shift (fun j0 => view P M i j0 *! x j0) js (0! +! view P M i j *! x j)).
          unfold x1, view. destruct (P i j); unfold vset; [rewrite Nat.eqb_refl|]; ring.
    Qed.

    Lemma fold_seq_sum (f : nat -> T) a len s0 :
      fold_left (fun s j => s +! f j) (seq a len) s0 = s0 +! sum len (fun j => f (a + j)).
    Proof.
      induction len as [|len IH]; [simpl; ring|].
      rewrite seq_S, fold_left_app, IH. simpl. ring.
    Qed.

    (* ---- forward substitution of LinearSolver / LinearSolverInPlace ---- *)
    (* rows are processed in increasing order; row i reads only entries j < i, already final *)
    Definition fwd_step (divide : bool) (P : pat) (M : mat N) (x : vec N) (i : nat) : vec N :=
      let x' := row_acc P M i (seq 0 i) x in
      if divide then vset N x' i (ndiv N (x' i) (M i i)) else x'.

    Lemma seq_not_in a len i : i < a \/ a + len <= i -> ~ In i (seq a len).
    Proof. rewrite in_seq. lia. Qed.

    Lemma fwd_step_spec divide P M x i :
      (forall r, r <> i -> fwd_step divide P M x i r = x r) /\
      fwd_step divide P M x i i =
        (if divide then ndiv N (x i -! sum i (fun j => view P M i j *! x j)) (M i i)
         else x i -! sum i (fun j => view P M i j *! x j)).
    Proof.
      unfold fwd_step.
      destruct (row_accumulate P M i (seq 0 i) x (seq_not_in 0 i i ltac:(lia)) (seq_NoDup i 0)) as [H1 H2].
      rewrite fold_seq_sum in H2.
      assert (E : x i -! (0! +! sum i (fun j => view P M i (0 + j) *! x (0 + j))) =
                  x i -! sum i (fun j => view P M i j *! x j)).
      { simpl. ring. }
      rewrite E in H2. clear E.
      destruct divide.
      - split.
        + intros r Hr. unfold vset. destruct (Nat.eqb_spec r i); [contradiction|]. apply H1; assumption.
        + unfold vset. rewrite Nat.eqb_refl, H2. reflexivity.
      - split; assumption.
    Qed.

    Lemma field_mul_div a b : b <> 0! -> b *! ndiv N a b = a.
    Proof. intros Hb. field. exact Hb. Qed.

    Theorem forward_substitution divide (P : pat) (M : mat N) (b : vec N) k :
      (divide = true -> forall i, i < k -> M i i <> 0!) ->
      let x := fold_left (fwd_step divide P M) (seq 0 k) b in
      (forall r, k <= r -> x r = b r) /\
      (forall i, i < k ->
         (if divide then M i i *! x i else x i) +! sum i (fun j => view P M i j *! x j) = b i).
    Proof.
      induction k as [|k IH]; intros Hnz; cbv zeta.
      - simpl. split; [reflexivity|intros; lia].
      - rewrite seq_S, fold_left_app. cbn [fold_left plus].
        destruct (IH (fun Hd i Hi => Hnz Hd i (Nat.lt_lt_succ_r _ _ Hi))) as [IH1 IH2]. cbv zeta in IH1, IH2.
        set (x := fold_left (fwd_step divide P M) (seq 0 k) b) in *.
        destruct (fwd_step_spec divide P M x k) as [S1 S2].
        split.
        + intros r Hr. rewrite S1 by lia. apply IH1. lia.
        + intros i Hi. destruct (Nat.eq_dec i k) as [->|NE].
          * rewrite S2.
            rewrite (sum_ext k (fun j => view P M k j *! fwd_step divide P M x k j) (fun j => view P M k j *! x j))
              by (intros j Hj; rewrite S1 by lia; reflexivity).
            rewrite (IH1 k (le_n k)).
            destruct divide.
            -- rewrite field_mul_div by (apply Hnz; auto). ring.
            -- ring.
          * assert (Hik : i < k) by lia.
            rewrite S1 by assumption.
            rewrite (sum_ext i (fun j => view P M i j *! fwd_step divide P M x k j) (fun j => view P M i j *! x j))
              by (intros j Hj; rewrite S1 by lia; reflexivity).
            apply IH2. assumption.
    Qed.

    (* ---- backward substitution: rows n-1 down to 0, row i reads entries j > i ---- *)
    Definition bwd_step (P : pat) (M : mat N) (x : vec N) (i : nat) : vec N :=
      let x' := row_acc P M i (range (i + 1) n) x in
      vset N x' i (ndiv N (x' i) (M i i)).

    Definition tail_sum (i : nat) (f : nat -> T) : T := sum (n - (i + 1)) (fun t => f (i + 1 + t)).

    Lemma bwd_step_spec P M x i :
      (forall r, r <> i -> bwd_step P M x i r = x r) /\
      bwd_step P M x i i = ndiv N (x i -! tail_sum i (fun j => view P M i j *! x j)) (M i i).
    Proof.
      unfold bwd_step, range.
      destruct (row_accumulate P M i (seq (i + 1) (n - (i + 1))) x
                  (seq_not_in (i + 1) (n - (i + 1)) i ltac:(lia)) (seq_NoDup _ _)) as [H1 H2].
      rewrite fold_seq_sum in H2.
      assert (E : x i -! (0! +! sum (n - (i + 1)) (fun j => view P M i (i + 1 + j) *! x (i + 1 + j))) =
                  x i -! tail_sum i (fun j => view P M i j *! x j)) by (unfold tail_sum; ring).
      rewrite E in H2. clear E. split.
      - intros r Hr. unfold vset. destruct (Nat.eqb_spec r i); [contradiction|]. apply H1; assumption.
      - unfold vset. rewrite Nat.eqb_refl, H2. reflexivity.
    Qed.

    Lemma tail_sum_ext i f g : (forall j, i < j -> j < n -> f j = g j) -> tail_sum i f = tail_sum i g.
    Proof. intros H. unfold tail_sum. apply sum_ext. intros t Ht. apply H; lia. Qed.

    (* after processing rows n-1, ..., n-k *)
    Theorem backward_substitution (P : pat) (M : mat N) (y : vec N) k :
      k <= n -> (forall i, i < n -> M i i <> 0!) ->
      let x := fold_left (bwd_step P M) (rev (seq (n - k) k)) y in
      (forall r, r < n - k -> x r = y r) /\
      (forall i, n - k <= i -> i < n ->
         M i i *! x i +! tail_sum i (fun j => view P M i j *! x j) = y i).
    Proof.
      intros Hk Hnz. induction k as [|k IH]; cbv zeta.
      - simpl. split; [reflexivity|intros; lia].
      - assert (Hseq : seq (n - S k) (S k) = (n - S k) :: seq (n - k) k).
        { simpl. f_equal. f_equal. lia. }
        rewrite Hseq. cbn [rev]. rewrite fold_left_app. cbn [fold_left].
        destruct (IH ltac:(lia)) as [IH1 IH2]. cbv zeta in IH1, IH2.
        set (x := fold_left (bwd_step P M) (rev (seq (n - k) k)) y) in *.
        set (i0 := n - S k).
        destruct (bwd_step_spec P M x i0) as [S1 S2].
        split.
        + intros r Hr. rewrite S1 by (unfold i0; lia). apply IH1. lia.
        + intros i Hi1 Hi2. destruct (Nat.eq_dec i i0) as [->|NE].
          * rewrite S2.
            rewrite (tail_sum_ext i0 (fun j => view P M i0 j *! bwd_step P M x i0 j) (fun j => view P M i0 j *! x j))
              by (intros j Hj1 Hj2; rewrite S1 by lia; reflexivity).
            rewrite (IH1 i0) by (unfold i0; lia).
            rewrite field_mul_div by (apply Hnz; unfold i0; lia). ring.
          * assert (Hik : n - k <= i) by (unfold i0 in *; lia).
            rewrite S1 by assumption.
            rewrite (tail_sum_ext i (fun j => view P M i j *! bwd_step P M x i0 j) (fun j => view P M i j *! x j))
              by (intros j Hj1 Hj2; rewrite S1 by (unfold i0; lia); reflexivity).
            apply IH2; assumption.
    Qed.

    Lemma sum_split m k g : sum (m + k) g = sum m g +! sum k (fun t => g (m + t)).
    Proof.
      induction k as [|k IH]; simpl.
      - replace (m + 0) with m by lia. ring.
      - replace (m + S k) with (S (m + k)) by lia. simpl. rewrite IH. ring.
    Qed.

    Lemma sum_around i g : i < n -> sum n g = sum i g +! g i +! tail_sum i g.
    Proof.
      intros Hi. unfold tail_sum.
      replace n with ((i + 1) + (n - (i + 1))) at 1 by lia.
      rewrite sum_split. replace (i + 1) with (S i) at 1 by lia. simpl. reflexivity.
    Qed.

    (* the two solvers of LU.v as folds of the steps above *)
    Lemma lin_solve_unfold (Lp Up : pat) (L U : mat N) b :
      lin_solve N n Lp Up L U b =
      fold_left (bwd_step Up U) (rev (seq 0 n)) (fold_left (fwd_step true Lp L) (seq 0 n) b).
    Proof. reflexivity. Qed.

    Lemma lin_solve_ip_unfold (P : pat) (M : mat N) b :
      lin_solve_ip N n P M b =
      fold_left (bwd_step P M) (rev (seq 0 n)) (fold_left (fwd_step false P M) (seq 0 n) b).
    Proof. reflexivity. Qed.

    (* L y = b and U x = y, written with full sums over the views *)
    Theorem lin_solve_LyUx (Lp Up : pat) (L U : mat N) b :
      (forall r c, Lp r c = true -> c <= r) -> (forall r c, Up r c = true -> r <= c) ->
      (forall i, i < n -> Lp i i = true /\ Up i i = true /\ L i i <> 0! /\ U i i <> 0!) ->
      let y := fold_left (fwd_step true Lp L) (seq 0 n) b in
      let x := lin_solve N n Lp Up L U b in
      (forall i, i < n -> sum n (fun j => view Lp L i j *! y j) = b i) /\
      (forall i, i < n -> sum n (fun c => view Up U i c *! x c) = y i).
    Proof.
      intros HLtri HUtri Hd y x.
      destruct (forward_substitution true Lp L b n (fun _ i Hi => proj1 (proj2 (proj2 (Hd i Hi))))) as [_ F2].
      cbv zeta in F2. fold y in F2.
      destruct (backward_substitution Up U y n (le_n n) (fun i Hi => proj2 (proj2 (proj2 (Hd i Hi))))) as [_ B2].
      cbv zeta in B2. replace (n - n) with 0 in B2 by lia.
      assert (Ex : x = fold_left (bwd_step Up U) (rev (seq 0 n)) y) by reflexivity.
      rewrite <- Ex in B2.
      split.
      - intros i Hi. rewrite (sum_around i _ Hi).
        assert (Ht : tail_sum i (fun j => view Lp L i j *! y j) = 0!).
        { unfold tail_sum. apply sum_zero. intros t Ht. unfold view.
          destruct (Lp i (i + 1 + t)) eqn:E; [apply HLtri in E; lia|ring]. }
        rewrite Ht. unfold view at 2. destruct (Hd i Hi) as [-> _].
        rewrite <- (F2 i Hi). ring.
      - intros i Hi. rewrite (sum_around i _ Hi).
        assert (Hh : sum i (fun c => view Up U i c *! x c) = 0!).
        { apply sum_zero. intros c Hc. unfold view.
          destruct (Up i c) eqn:E; [apply HUtri in E; lia|ring]. }
        rewrite Hh. unfold view at 1. destruct (Hd i Hi) as [_ [-> _]].
        rewrite <- (B2 i ltac:(lia) Hi). ring.
    Qed.

    (* with L*U = A on the views: A x = b *)
    Theorem lin_solve_Ax_b (A : mat N) (Lp Up : pat) (L U : mat N) b :
      (forall r c, Lp r c = true -> c <= r) -> (forall r c, Up r c = true -> r <= c) ->
      (forall i, i < n -> Lp i i = true /\ Up i i = true /\ L i i <> 0! /\ U i i <> 0!) ->
      (forall r c, r < n -> c < n -> sum n (fun j => view Lp L r j *! view Up U j c) = A r c) ->
      forall r, r < n -> sum n (fun c => A r c *! lin_solve N n Lp Up L U b c) = b r.
    Proof.
      intros HLtri HUtri Hd HLU r Hr.
      destruct (lin_solve_LyUx Lp Up L U b HLtri HUtri Hd) as [HLy HUx]. cbv zeta in HLy, HUx.
      set (x := lin_solve N n Lp Up L U b) in *.
      set (y := fold_left (fwd_step true Lp L) (seq 0 n) b) in *.
      rewrite <- (HLy r Hr).
      rewrite (sum_ext n (fun c => A r c *! x c)
                 (fun c => sum n (fun j => view Lp L r j *! view Up U j c *! x c))).
      2:{ intros c Hc. rewrite <- (HLU r c Hr Hc). rewrite <- sum_scale_r. reflexivity. }
      rewrite sum_swap. apply sum_ext. intros j Hj.
      rewrite <- (HUx j Hj). rewrite <- sum_scale. apply sum_ext. intros c _. ring.
    Qed.

    (* in-place storage: strict lower part = L (unit diagonal implicit), upper part = U *)
    Definition lower_of (P : pat) (M : mat N) : mat N :=
      fun r c => if c <? r then view P M r c else if c =? r then 1! else 0!.
    Definition upper_of (P : pat) (M : mat N) : mat N :=
      fun r c => if r <=? c then view P M r c else 0!.

    Theorem lin_solve_ip_Ax_b (A : mat N) (P : pat) (M : mat N) b :
      (forall i, i < n -> P i i = true /\ M i i <> 0!) ->
      (forall r c, r < n -> c < n -> sum n (fun j => lower_of P M r j *! upper_of P M j c) = A r c) ->
      forall r, r < n -> sum n (fun c => A r c *! lin_solve_ip N n P M b c) = b r.
    Proof.
      intros Hd HLU r Hr.
      destruct (forward_substitution false P M b n (fun H => ltac:(discriminate))) as [_ F2].
      cbv zeta in F2.
      set (y := fold_left (fwd_step false P M) (seq 0 n) b) in *.
      destruct (backward_substitution P M y n (le_n n) (fun i Hi => proj2 (Hd i Hi))) as [_ B2].
      cbv zeta in B2. replace (n - n) with 0 in B2 by lia.
      set (x := lin_solve_ip N n P M b).
      assert (Ex : x = fold_left (bwd_step P M) (rev (seq 0 n)) y) by reflexivity.
      rewrite <- Ex in B2.
      assert (HLy : forall i, i < n -> sum n (fun j => lower_of P M i j *! y j) = b i).
      { intros i Hi. rewrite (sum_around i _ Hi).
        assert (Ht : tail_sum i (fun j => lower_of P M i j *! y j) = 0!).
        { unfold tail_sum. apply sum_zero. intros t Ht. unfold lower_of.
          destruct (Nat.ltb_spec (i + 1 + t) i); [lia|]. destruct (Nat.eqb_spec (i + 1 + t) i); [lia|]. ring. }
        rewrite Ht. unfold lower_of at 2. destruct (Nat.ltb_spec i i); [lia|]. rewrite Nat.eqb_refl.
        rewrite <- (F2 i Hi).
        rewrite (sum_ext i (fun j => lower_of P M i j *! y j) (fun j => view P M i j *! y j)).
        - ring.
        - intros j Hj. unfold lower_of. destruct (Nat.ltb_spec j i); [reflexivity|lia]. }
      assert (HUx : forall i, i < n -> sum n (fun c => upper_of P M i c *! x c) = y i).
      { intros i Hi. rewrite (sum_around i _ Hi).
        assert (Hh : sum i (fun c => upper_of P M i c *! x c) = 0!).
        { apply sum_zero. intros c Hc. unfold upper_of. destruct (Nat.leb_spec i c); [lia|]. ring. }
        rewrite Hh. unfold upper_of at 1. destruct (Nat.leb_spec i i); [|lia].
        unfold view at 1. destruct (Hd i Hi) as [-> _].
        rewrite <- (B2 i ltac:(lia) Hi).
        rewrite (tail_sum_ext i (fun c => upper_of P M i c *! x c) (fun c => view P M i c *! x c)).
        - ring.
        - intros j Hj1 Hj2. unfold upper_of. destruct (Nat.leb_spec i j); [reflexivity|lia]. }
      rewrite <- (HLy r Hr).
      rewrite (sum_ext n (fun c => A r c *! x c)
                 (fun c => sum n (fun j => lower_of P M r j *! upper_of P M j c *! x c))).
      2:{ intros c Hc. rewrite <- (HLU r c Hr Hc). rewrite <- sum_scale_r. reflexivity. }
      rewrite sum_swap. apply sum_ext. intros j Hj.
      rewrite <- (HUx j Hj). rewrite <- sum_scale. apply sum_ext. intros c _. ring.
    Qed.
  End Substitution.
End OverField.
