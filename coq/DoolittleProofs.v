(* DoolittleProofs.v — the numeric phase of LuDecompositionDoolittle (LU.doolittle_num: Initialize's
   loops fused with Decompose's replay) computes, for every field, every pattern closed under the
   fill-in rule and every previous content of L and U, factors with L*U = A — provided the pivots
   it divides by are not zero.  The symbolic phase (LU.doolittle_sym) produces such a pattern. *)
From Model Require Import Base LU LUProofs.
From Coq Require Import Ring Field Lia.
Local Open Scope nat_scope.

Section Doolittle.
  Variable N : Num.
  Notation T := (T N).
  Hypothesis Nfield : field_theory (n0 N) (n1 N) (nadd N) (nmul N) (nsub N) (nopp N) (ndiv N) (ninv N) eq.
  Add Field NumFieldD : Nfield.
  Notation "a +! b" := (nadd N a b) (at level 50, left associativity).
  Notation "a *! b" := (nmul N a b) (at level 40, left associativity).
  Notation "a -! b" := (nsub N a b) (at level 50, left associativity).
  Notation "0!" := (n0 N).
  Notation "1!" := (n1 N).
  Notation sum := (nsum N).
  Notation mat := (mat N).

  (* ---------- matrices as functions ---------- *)
  Lemma mset_same (M : mat) r c v : mset N M r c v r c = v.
  Proof. unfold mset. rewrite !Nat.eqb_refl. reflexivity. Qed.
  Lemma mset_other (M : mat) r c v r' c' : r' <> r \/ c' <> c -> mset N M r c v r' c' = M r' c'.
  Proof.
    intros H. unfold mset. destruct (Nat.eqb_spec r' r), (Nat.eqb_spec c' c); cbn [andb]; try reflexivity.
    exfalso; destruct H; contradiction.
  Qed.

  (* ---------- sums over a list of indices ---------- *)
  Definition lsum (f : nat -> T) (js : list nat) : T := fold_left (fun s j => s +! f j) js 0!.

  Lemma lsum_cons f j js : lsum f (j :: js) = f j +! lsum f js.
  Proof. unfold lsum; cbn [fold_left]. rewrite (fold_sum_shift N Nfield f js (0! +! f j)). ring. Qed.

  Lemma lsum_ext f g js : (forall j, In j js -> f j = g j) -> lsum f js = lsum g js.
  Proof.
    intros H. unfold lsum. apply fold_ext_in. intros a j Hj. rewrite (H j Hj). reflexivity.
  Qed.

  Lemma lsum_filter_seq (p : nat -> bool) f m :
    lsum f (filter p (seq 0 m)) = sum m (fun j => if p j then f j else 0!).
  Proof.
    induction m as [|m IH]; [reflexivity|].
    rewrite seq_S, filter_app. cbn [filter plus nsum].
    unfold lsum in *. rewrite fold_left_app, IH.
    destruct (p m); cbn [fold_left]; ring.
  Qed.

  Lemma filter_nil_existsb {A} (p : A -> bool) l : (length (filter p l) =? 0) = negb (existsb p l).
  Proof. induction l as [|a l IH]; [reflexivity|]. cbn [filter existsb]. destruct (p a); cbn; [reflexivity | exact IH]. Qed.

  (* ---------- one entry: M(r,c) := v0; then M(r,c) -= g M j for j in js ---------- *)
  Lemma acc_entry (g : mat -> nat -> T) r c js : forall (M : mat),
    (forall (M' : mat) v j, In j js -> g (mset N M' r c v) j = g M' j) ->
    let M' := fold_left (fun M j => mset N M r c (M r c -! g M j)) js M in
    M' r c = M r c -! lsum (g M) js /\ (forall r' c', r' <> r \/ c' <> c -> M' r' c' = M r' c').
  Proof.
    induction js as [|j js IH]; intros M Hg; cbn [fold_left].
    - split; [unfold lsum; cbn [fold_left]; ring | reflexivity].
    - set (M1 := mset N M r c (M r c -! g M j)).
      destruct (IH M1) as [IH1 IH2]; [intros M' v j' Hj'; apply Hg; right; exact Hj'|].
      split.
      + rewrite IH1. unfold M1 at 1. rewrite mset_same.
        rewrite (lsum_ext (g M1) (g M) js) by (intros j' Hj'; unfold M1; apply Hg; right; exact Hj').
        rewrite lsum_cons. ring.
      + intros r' c' Hne. rewrite IH2 by exact Hne. unfold M1. apply mset_other. exact Hne.
  Qed.

  (* ---------- the algorithm, step by step (definitionally LU.doolittle_num) ---------- *)
  Variable n : nat.
  Variable A : mat.
  Variables Ap Lp Up : pat.
  Definition A' : mat := view N Ap A.
  Definition jsU i k := filter (fun j => Lp i j && Up j k) (seq 0 i).
  Definition jsL k i := filter (fun j => Lp k j && Up j i) (seq 0 i).

  Definition u_step (i : nat) (Lm U : mat) (k : nat) : mat :=
    let js := filter (fun j => Lp i j && Up j k) (seq 0 i) in
    if negb (Ap i k) && (length js =? 0) && negb (k =? i) then U
    else
      let U' := mset N U i k (if Ap i k then A i k else 0!) in
      fold_left (fun U j => mset N U i k (U i k -! Lm i j *! U j k)) js U'.
  Definition l_step (i : nat) (U1 Lm : mat) (k : nat) : mat :=
    let js := filter (fun j => Lp k j && Up j i) (seq 0 i) in
    if negb (Ap k i) && (length js =? 0) then Lm
    else
      let L' := mset N Lm k i (if Ap k i then A k i else 0!) in
      let L'' := fold_left (fun Lx j => mset N Lx k i (Lx k i -! Lx k j *! U1 j i)) js L' in
      mset N L'' k i (ndiv N (L'' k i) (U1 i i)).
  Definition lu_step (LU : mat * mat) (i : nat) : mat * mat :=
    let (Lm, U) := LU in
    let U1 := fold_left (u_step i Lm) (range i n) U in
    let L1 := mset N Lm i i 1! in
    let L2 := fold_left (l_step i U1) (range (i + 1) n) L1 in
    (L2, U1).

  Lemma doolittle_num_steps L0 U0 :
    doolittle_num N n A Ap Lp Up L0 U0 = fold_left lu_step (seq 0 n) (L0, U0).
  Proof. reflexivity. Qed.

  (* ---------- the pattern is closed under the fill-in rule (what the symbolic phase delivers) ---------- *)
  Hypothesis HUc : forall i k, i <= k -> k < n ->
    Up i k = Ap i k || (k =? i) || existsb (fun j => Lp i j && Up j k) (seq 0 i).
  Hypothesis HLc : forall i k, i < k -> k < n ->
    Lp k i = Ap k i || existsb (fun j => Lp k j && Up j i) (seq 0 i).

  Lemma in_jsU i k j : In j (jsU i k) -> j < i.
  Proof. unfold jsU. intros H. apply filter_In in H. destruct H as [H _]. apply in_seq in H. lia. Qed.
  Lemma in_jsL k i j : In j (jsL k i) -> j < i.
  Proof. unfold jsL. intros H. apply filter_In in H. destruct H as [H _]. apply in_seq in H. lia. Qed.

  Lemma A'_eq r c : A' r c = if Ap r c then A r c else 0!.
  Proof. reflexivity. Qed.

  Lemma u_step_spec i Lm U k : i <= k -> k < n ->
    (Up i k = true -> u_step i Lm U k i k = A' i k -! lsum (fun j => Lm i j *! U j k) (jsU i k))
    /\ (forall r c, r <> i \/ c <> k -> u_step i Lm U k r c = U r c).
  Proof.
    intros Hik Hk. unfold u_step, jsU. cbv zeta.
    rewrite filter_nil_existsb.
    assert (Hskip : negb (Ap i k) && negb (existsb (fun j => Lp i j && Up j k) (seq 0 i)) && negb (k =? i) = negb (Up i k)).
    { rewrite (HUc i k Hik Hk). destruct (Ap i k), (k =? i), (existsb _ _); reflexivity. }
    rewrite Hskip. destruct (Up i k) eqn:Hup; cbn [negb].
    - pose proof (acc_entry (fun (M : mat) j => Lm i j *! M j k) i k (filter (fun j => Lp i j && Up j k) (seq 0 i))
                            (mset N U i k (if Ap i k then A i k else 0!))) as Hacc.
      cbv zeta in Hacc. destruct Hacc as [H1 H2].
      { intros M' v j Hj. apply in_jsU in Hj. rewrite mset_other by (left; lia). reflexivity. }
      split.
      + intros _. rewrite H1, mset_same, A'_eq.
        f_equal. apply lsum_ext. intros j Hj. apply in_jsU in Hj. rewrite mset_other by (left; lia). reflexivity.
      + intros r c Hne. rewrite H2 by exact Hne. apply mset_other. exact Hne.
    - split; [discriminate | reflexivity].
  Qed.

  Lemma u_row_spec i Lm ks : NoDup ks -> (forall k, In k ks -> i <= k /\ k < n) -> forall U,
    let U1 := fold_left (u_step i Lm) ks U in
    (forall k, In k ks -> Up i k = true -> U1 i k = A' i k -! lsum (fun j => Lm i j *! U j k) (jsU i k))
    /\ (forall r c, r <> i \/ ~ In c ks -> U1 r c = U r c).
  Proof.
    induction ks as [|k ks IH]; intros Hnd Hks U; cbn [fold_left].
    - split; [intros k [] | reflexivity].
    - inversion Hnd as [|? ? Hnk Hnd']; subst.
      destruct (Hks k (or_introl eq_refl)) as [Hik Hk].
      destruct (u_step_spec i Lm U k Hik Hk) as [S1 S2].
      destruct (IH Hnd' (fun k' Hk' => Hks k' (or_intror Hk')) (u_step i Lm U k)) as [IH1 IH2].
      split.
      + intros k' [<- | Hk'] Hup.
        * rewrite IH2 by (right; exact Hnk). apply S1; exact Hup.
        * rewrite (IH1 k' Hk' Hup). f_equal. apply lsum_ext. intros j Hj. apply in_jsU in Hj.
          rewrite S2 by (left; lia). reflexivity.
      + intros r c Hne. rewrite IH2.
        * apply S2. destruct Hne as [Hr | Hc]; [left; exact Hr | right; intros ->; apply Hc; left; reflexivity].
        * destruct Hne as [Hr | Hc]; [left; exact Hr | right; intros Hin; apply Hc; right; exact Hin].
  Qed.

  Lemma l_step_spec i U1 Lm k : i < k -> k < n ->
    (Lp k i = true ->
       l_step i U1 Lm k k i = ndiv N (A' k i -! lsum (fun j => Lm k j *! U1 j i) (jsL k i)) (U1 i i))
    /\ (forall r c, r <> k \/ c <> i -> l_step i U1 Lm k r c = Lm r c).
  Proof.
    intros Hik Hk. unfold l_step, jsL. cbv zeta.
    rewrite filter_nil_existsb.
    assert (Hskip : negb (Ap k i) && negb (existsb (fun j => Lp k j && Up j i) (seq 0 i)) = negb (Lp k i)).
    { rewrite (HLc i k Hik Hk). destruct (Ap k i), (existsb _ _); reflexivity. }
    rewrite Hskip. destruct (Lp k i) eqn:Hlp; cbn [negb].
    - pose proof (acc_entry (fun (M : mat) j => M k j *! U1 j i) k i (filter (fun j => Lp k j && Up j i) (seq 0 i))
                            (mset N Lm k i (if Ap k i then A k i else 0!))) as Hacc.
      cbv zeta in Hacc. destruct Hacc as [H1 H2].
      { intros M' v j Hj. apply in_jsL in Hj. rewrite mset_other by (right; lia). reflexivity. }
      split.
      + intros _. rewrite mset_same, H1, mset_same, A'_eq.
        f_equal. f_equal. apply lsum_ext. intros j Hj. apply in_jsL in Hj. rewrite mset_other by (right; lia). reflexivity.
      + intros r c Hne. rewrite mset_other by exact Hne. rewrite H2 by exact Hne. apply mset_other. exact Hne.
    - split; [discriminate | reflexivity].
  Qed.

  Lemma l_col_spec i U1 ks : NoDup ks -> (forall k, In k ks -> i < k /\ k < n) -> forall Lm,
    let L2 := fold_left (l_step i U1) ks Lm in
    (forall k, In k ks -> Lp k i = true ->
       L2 k i = ndiv N (A' k i -! lsum (fun j => Lm k j *! U1 j i) (jsL k i)) (U1 i i))
    /\ (forall r c, c <> i \/ ~ In r ks -> L2 r c = Lm r c).
  Proof.
    induction ks as [|k ks IH]; intros Hnd Hks Lm; cbn [fold_left].
    - split; [intros k [] | reflexivity].
    - inversion Hnd as [|? ? Hnk Hnd']; subst.
      destruct (Hks k (or_introl eq_refl)) as [Hik Hk].
      destruct (l_step_spec i U1 Lm k Hik Hk) as [S1 S2].
      destruct (IH Hnd' (fun k' Hk' => Hks k' (or_intror Hk')) (l_step i U1 Lm k)) as [IH1 IH2].
      split.
      + intros k' [<- | Hk'] Hlp.
        * rewrite IH2 by (right; exact Hnk). apply S1; exact Hlp.
        * rewrite (IH1 k' Hk' Hlp). f_equal. f_equal. apply lsum_ext. intros j Hj. apply in_jsL in Hj.
          rewrite S2 by (right; lia). reflexivity.
      + intros r c Hne. rewrite IH2.
        * apply S2. destruct Hne as [Hc | Hr]; [right; exact Hc | left; intros ->; apply Hr; left; reflexivity].
        * destruct Hne as [Hc | Hr]; [left; exact Hc | right; intros Hin; apply Hr; right; exact Hin].
  Qed.

  (* ---------- invariant of the outer loop ---------- *)
  Definition InvU (i : nat) (Lm Um : mat) : Prop :=
    forall r k, r < i -> r <= k -> k < n -> Up r k = true ->
      Um r k = A' r k -! lsum (fun j => Lm r j *! Um j k) (jsU r k).
  Definition InvL (i : nat) (Lm Um : mat) : Prop :=
    (forall c, c < i -> Lm c c = 1!) /\
    (forall c k, c < i -> c < k -> k < n -> Lp k c = true ->
       Lm k c = ndiv N (A' k c -! lsum (fun j => Lm k j *! Um j c) (jsL k c)) (Um c c)).

  Lemma range_In a b k : In k (range a b) <-> a <= k /\ k < b.
  Proof. unfold range. rewrite in_seq. lia. Qed.
  Lemma range_NoDup a b : NoDup (range a b).
  Proof. unfold range. apply seq_NoDup. Qed.

  Lemma lu_step_inv i Lm Um : i < n -> InvU i Lm Um -> InvL i Lm Um ->
    InvU (S i) (fst (lu_step (Lm, Um) i)) (snd (lu_step (Lm, Um) i)) /\
    InvL (S i) (fst (lu_step (Lm, Um) i)) (snd (lu_step (Lm, Um) i)).
  Proof.
    intros Hi HU [HL1 HL]. unfold lu_step. cbv zeta. cbn [fst snd].
    set (U1 := fold_left (u_step i Lm) (range i n) Um).
    set (L1 := mset N Lm i i 1!).
    set (L2 := fold_left (l_step i U1) (range (i + 1) n) L1).
    destruct (u_row_spec i Lm (range i n) (range_NoDup i n)
                (fun k Hk => proj1 (range_In i n k) Hk) Um) as [SU1 SU2]. fold U1 in SU1, SU2.
    destruct (l_col_spec i U1 (range (i + 1) n) (range_NoDup (i + 1) n)
                (fun k Hk => match proj1 (range_In (i + 1) n k) Hk with conj a b => conj (Nat.lt_le_trans i (i + 1) k (Nat.lt_add_pos_r 1 i Nat.lt_0_1) a) b end) L1)
      as [SL1 SL2]. fold L2 in SL1, SL2.
    assert (FU : forall r c, r <> i -> U1 r c = Um r c) by (intros r c Hr; apply SU2; left; exact Hr).
    assert (FL1 : forall r c, c <> i -> L1 r c = Lm r c) by (intros r c Hc; unfold L1; apply mset_other; right; exact Hc).
    assert (FL : forall r c, c <> i -> L2 r c = Lm r c).
    { intros r c Hc. rewrite SL2 by (left; exact Hc). apply FL1; exact Hc. }
    assert (Hii : L2 i i = 1!).
    { rewrite SL2; [unfold L1; apply mset_same|]. right. rewrite range_In. lia. }
    split.
    - (* U *)
      intros r k Hr Hrk Hk Hup. destruct (Nat.eq_dec r i) as [-> | Hne].
      + rewrite (SU1 k (proj2 (range_In i n k) (conj Hrk Hk)) Hup). f_equal.
        apply lsum_ext. intros j Hj. apply in_jsU in Hj.
        rewrite FL by lia. rewrite FU by lia. reflexivity.
      + assert (Hlt : r < i) by lia.
        rewrite FU by exact Hne. rewrite (HU r k Hlt Hrk Hk Hup). f_equal.
        apply lsum_ext. intros j Hj. apply in_jsU in Hj.
        rewrite FL by lia. rewrite FU by lia. reflexivity.
    - split.
      + intros c Hc. destruct (Nat.eq_dec c i) as [-> | Hne]; [exact Hii|].
        rewrite FL by exact Hne. apply HL1. lia.
      + intros c k Hc Hck Hk Hlp. destruct (Nat.eq_dec c i) as [-> | Hne].
        * assert (Hin : In k (range (i + 1) n)) by (apply range_In; lia).
          rewrite (SL1 k Hin Hlp). f_equal. f_equal.
          apply lsum_ext. intros j Hj. apply in_jsL in Hj.
          rewrite FL by lia. rewrite FL1 by lia. reflexivity.
        * assert (Hlt : c < i) by lia.
          rewrite FL by exact Hne. rewrite (HL c k Hlt Hck Hk Hlp).
          rewrite (FU c c Hne). f_equal. f_equal.
          apply lsum_ext. intros j Hj. apply in_jsL in Hj.
          rewrite FL by lia. rewrite FU by lia. reflexivity.
  Qed.

  Lemma lu_steps_inv L0 U0 m : m <= n ->
    InvU m (fst (fold_left lu_step (seq 0 m) (L0, U0))) (snd (fold_left lu_step (seq 0 m) (L0, U0))) /\
    InvL m (fst (fold_left lu_step (seq 0 m) (L0, U0))) (snd (fold_left lu_step (seq 0 m) (L0, U0))).
  Proof.
    induction m as [|m IH]; intros Hm.
    - split; [intros r k Hr; lia | split; [intros c Hc; lia | intros c k Hc; lia]].
    - rewrite seq_S, fold_left_app. cbn [fold_left plus].
      destruct (IH ltac:(lia)) as [IU IL].
      destruct (fold_left lu_step (seq 0 m) (L0, U0)) as [Lm Um]. cbn [fst snd] in IU, IL.
      apply lu_step_inv; [lia | exact IU | exact IL].
  Qed.

  Lemma existsb_false {X} (p : X -> bool) l : existsb p l = false -> forall x, In x l -> p x = false.
  Proof.
    intros H x Hx. destruct (p x) eqn:E; [|reflexivity].
    assert (existsb p l = true) by (apply existsb_exists; exists x; split; assumption). congruence.
  Qed.

  (* ---------- the theorem ---------- *)
  Theorem doolittle_LU_eq_A L0 U0 :
    let LU := doolittle_num N n A Ap Lp Up L0 U0 in
    let Lf := fun r c => if c <? r then view N Lp (fst LU) r c else if c =? r then 1! else 0! in
    let Uf := fun r c => if r <=? c then view N Up (snd LU) r c else 0! in
    (forall i, i < n -> snd LU i i <> 0!) ->
    forall r c, r < n -> c < n -> sum n (fun j => Lf r j *! Uf j c) = A' r c.
  Proof.
    intros LU Lf Uf Hpiv.
    destruct (lu_steps_inv L0 U0 n (le_n n)) as [IU [IL1 IL]].
    rewrite <- doolittle_num_steps in IU, IL1, IL. fold LU in IU, IL1, IL.
    set (Lm := fst LU) in *. set (Um := snd LU) in *.
    (* a sum over the filtered indices is the full sum of the views *)
    assert (HsumU : forall i k, i <= k -> k < n ->
              lsum (fun j => Lm i j *! Um j k) (jsU i k) = sum i (fun j => Lf i j *! Uf j k)).
    { intros i k Hik Hk. unfold jsU. rewrite lsum_filter_seq. apply (sum_ext N). intros j Hj.
      unfold Lf, Uf, view. fold Lm Um.
      destruct (Nat.ltb_spec j i); [|lia]. destruct (Nat.leb_spec j k); [|lia].
      destruct (Lp i j), (Up j k); cbn [andb]; ring. }
    assert (HsumL : forall i k, i < k -> k < n ->
              lsum (fun j => Lm k j *! Um j i) (jsL k i) = sum i (fun j => Lf k j *! Uf j i)).
    { intros i k Hik Hk. unfold jsL. rewrite lsum_filter_seq. apply (sum_ext N). intros j Hj.
      unfold Lf, Uf, view. fold Lm Um.
      destruct (Nat.ltb_spec j k); [|lia]. destruct (Nat.leb_spec j i); [|lia].
      destruct (Lp k j), (Up j i); cbn [andb]; ring. }
    apply (LU_eq_A N Nfield n A' Lf Uf).
    - intros i Hi. unfold Lf. rewrite Nat.ltb_irrefl, Nat.eqb_refl. reflexivity.
    - intros i j Hij Hj. unfold Lf. destruct (Nat.ltb_spec j i); [lia|]. destruct (Nat.eqb_spec j i); [lia|]. reflexivity.
    - intros i j Hji Hi. unfold Uf. destruct (Nat.leb_spec i j); [lia|]. reflexivity.
    - (* U i k, i <= k *)
      intros i k Hik Hk. rewrite <- (HsumU i k Hik Hk).
      unfold Uf at 1. destruct (Nat.leb_spec i k); [|lia]. unfold view. fold Um.
      destruct (Up i k) eqn:Hup.
      + apply IU; [lia | assumption | assumption | assumption].
      + pose proof (HUc i k Hik Hk) as Hc. rewrite Hup in Hc. symmetry in Hc.
        apply Bool.orb_false_iff in Hc. destruct Hc as [Hc He]. apply Bool.orb_false_iff in Hc. destruct Hc as [Ha _].
        rewrite A'_eq, Ha.
        assert (Hz : lsum (fun j => Lm i j *! Um j k) (jsU i k) = 0!).
        { unfold jsU. rewrite lsum_filter_seq. apply (sum_zero N Nfield). intros j Hj.
          rewrite (existsb_false _ _ He j) by (apply in_seq; lia). reflexivity. }
        rewrite Hz. ring.
    - (* L k i, i < k *)
      intros i k Hik Hk. rewrite <- (HsumL i k Hik Hk).
      assert (Hupii : Up i i = true).
      { rewrite (HUc i i (le_n i) ltac:(lia)). rewrite Nat.eqb_refl. destruct (Ap i i); reflexivity. }
      assert (HUii : Uf i i = Um i i).
      { unfold Uf. rewrite Nat.leb_refl. unfold view. fold Um. rewrite Hupii. reflexivity. }
      rewrite HUii. unfold Lf at 1. destruct (Nat.ltb_spec i k); [|lia]. unfold view. fold Lm.
      destruct (Lp k i) eqn:Hlp.
      + rewrite (IL i k ltac:(lia) Hik Hk Hlp).
        rewrite <- (field_mul_div N Nfield (A' k i -! lsum (fun j => Lm k j *! Um j i) (jsL k i)) (Um i i)) at 2
          by (apply Hpiv; lia).
        ring.
      + pose proof (HLc i k Hik Hk) as Hc. rewrite Hlp in Hc. symmetry in Hc.
        apply Bool.orb_false_iff in Hc. destruct Hc as [Ha He].
        rewrite A'_eq, Ha.
        assert (Hz : lsum (fun j => Lm k j *! Um j i) (jsL k i) = 0!).
        { unfold jsL. rewrite lsum_filter_seq. apply (sum_zero N Nfield). intros j Hj.
          rewrite (existsb_false _ _ He j) by (apply in_seq; lia). reflexivity. }
        rewrite Hz. ring.
  Qed.
End Doolittle.

(* ------------------------------------------------------------------------------------------
   The symbolic phase (GetLUMatrices) delivers a pattern closed under the fill-in rule. *)
Section Symbolic.
  Variable n : nat.
  Variable Ap : pat.

  Lemma pset_same (P : pat) r c : pset P r c r c = true.
  Proof. unfold pset. rewrite !Nat.eqb_refl. reflexivity. Qed.
  Lemma pset_other (P : pat) r c r' c' : r' <> r \/ c' <> c -> pset P r c r' c' = P r' c'.
  Proof.
    intros H. unfold pset. destruct (Nat.eqb_spec r' r), (Nat.eqb_spec c' c); cbn [andb orb]; try reflexivity.
    exfalso; destruct H; contradiction.
  Qed.

  Lemma existsb_ext_in {X} (p q : X -> bool) l : (forall x, In x l -> p x = q x) -> existsb p l = existsb q l.
  Proof.
    induction l as [|x l IH]; intros H; [reflexivity|]. cbn [existsb].
    rewrite (H x (or_introl eq_refl)), IH; [reflexivity|]. intros y Hy. apply H. right; exact Hy.
  Qed.

  Definition su_step (i : nat) (Lp Up : pat) (k : nat) : pat :=
    if Ap i k || (k =? i) then pset Up i k
    else if existsb (fun j => Lp i j && Up j k) (seq 0 i) then pset Up i k else Up.
  Definition sl_step (i : nat) (Up' Lp : pat) (k : nat) : pat :=
    if Ap k i || (k =? i) then pset Lp k i
    else if existsb (fun j => Lp k j && Up' j i) (seq 0 i) then pset Lp k i else Lp.
  Definition s_step (LU : pat * pat) (i : nat) : pat * pat :=
    let (Lp, Up) := LU in
    let Up' := fold_left (su_step i Lp) (range i n) Up in
    let Lp' := fold_left (sl_step i Up') (range i n) Lp in
    (Lp', Up').

  Lemma doolittle_sym_steps : doolittle_sym n Ap = fold_left s_step (seq 0 n) (pempty, pempty).
  Proof. reflexivity. Qed.

  Lemma su_row_spec i Lp ks : NoDup ks -> forall Up,
    let Up' := fold_left (su_step i Lp) ks Up in
    (forall k, In k ks ->
       Up' i k = Up i k || (Ap i k || (k =? i) || existsb (fun j => Lp i j && Up j k) (seq 0 i)))
    /\ (forall r c, r <> i \/ ~ In c ks -> Up' r c = Up r c).
  Proof.
    induction ks as [|k ks IH]; intros Hnd Up; cbn [fold_left].
    - split; [intros k [] | reflexivity].
    - inversion Hnd as [|? ? Hnk Hnd']; subst.
      destruct (IH Hnd' (su_step i Lp Up k)) as [IH1 IH2].
      assert (S2 : forall r c, r <> i \/ c <> k -> su_step i Lp Up k r c = Up r c).
      { intros r c Hne. unfold su_step. destruct (Ap i k || (k =? i)); [apply pset_other; exact Hne|].
        destruct (existsb _ _); [apply pset_other; exact Hne | reflexivity]. }
      assert (S1 : su_step i Lp Up k i k = Up i k || (Ap i k || (k =? i) || existsb (fun j => Lp i j && Up j k) (seq 0 i))).
      { unfold su_step. destruct (Ap i k || (k =? i)); cbn [orb]; [rewrite pset_same, Bool.orb_true_r; reflexivity|].
        destruct (existsb _ _); [rewrite pset_same, Bool.orb_true_r | rewrite Bool.orb_false_r]; reflexivity. }
      split.
      + intros k' [<- | Hk'].
        * rewrite IH2 by (right; exact Hnk). exact S1.
        * rewrite (IH1 k' Hk').
          assert (Hkk : k' <> k) by (intros ->; contradiction).
          rewrite S2 by (right; exact Hkk). f_equal. f_equal.
          apply existsb_ext_in. intros j Hj. apply in_seq in Hj. rewrite S2 by (left; lia). reflexivity.
      + intros r c Hne. rewrite IH2.
        * apply S2. destruct Hne as [Hr | Hc]; [left; exact Hr | right; intros ->; apply Hc; left; reflexivity].
        * destruct Hne as [Hr | Hc]; [left; exact Hr | right; intros Hin; apply Hc; right; exact Hin].
  Qed.

  Lemma sl_col_spec i Up' ks : NoDup ks -> forall Lp,
    let Lp' := fold_left (sl_step i Up') ks Lp in
    (forall k, In k ks ->
       Lp' k i = Lp k i || (Ap k i || (k =? i) || existsb (fun j => Lp k j && Up' j i) (seq 0 i)))
    /\ (forall r c, c <> i \/ ~ In r ks -> Lp' r c = Lp r c).
  Proof.
    induction ks as [|k ks IH]; intros Hnd Lp; cbn [fold_left].
    - split; [intros k [] | reflexivity].
    - inversion Hnd as [|? ? Hnk Hnd']; subst.
      destruct (IH Hnd' (sl_step i Up' Lp k)) as [IH1 IH2].
      assert (S2 : forall r c, r <> k \/ c <> i -> sl_step i Up' Lp k r c = Lp r c).
      { intros r c Hne. unfold sl_step. destruct (Ap k i || (k =? i)); [apply pset_other; exact Hne|].
        destruct (existsb _ _); [apply pset_other; exact Hne | reflexivity]. }
      assert (S1 : sl_step i Up' Lp k k i = Lp k i || (Ap k i || (k =? i) || existsb (fun j => Lp k j && Up' j i) (seq 0 i))).
      { unfold sl_step. destruct (Ap k i || (k =? i)); cbn [orb]; [rewrite pset_same, Bool.orb_true_r; reflexivity|].
        destruct (existsb _ _); [rewrite pset_same, Bool.orb_true_r | rewrite Bool.orb_false_r]; reflexivity. }
      split.
      + intros k' [<- | Hk'].
        * rewrite IH2 by (right; exact Hnk). exact S1.
        * rewrite (IH1 k' Hk').
          assert (Hkk : k' <> k) by (intros ->; contradiction).
          rewrite S2 by (left; exact Hkk). f_equal. f_equal.
          apply existsb_ext_in. intros j Hj. apply in_seq in Hj. rewrite S2 by (right; lia). reflexivity.
      + intros r c Hne. rewrite IH2.
        * apply S2. destruct Hne as [Hc | Hr]; [right; exact Hc | left; intros ->; apply Hr; left; reflexivity].
        * destruct Hne as [Hc | Hr]; [left; exact Hc | right; intros Hin; apply Hr; right; exact Hin].
  Qed.

  (* invariant after the first m rows / columns *)
  Definition SInv (m : nat) (Lp Up : pat) : Prop :=
    (forall r c, m <= r -> Up r c = false) /\ (forall r c, m <= c -> Lp r c = false) /\
    (forall i k, i < m -> i <= k -> k < n ->
       Up i k = Ap i k || (k =? i) || existsb (fun j => Lp i j && Up j k) (seq 0 i)) /\
    (forall i k, i < m -> i < k -> k < n ->
       Lp k i = Ap k i || existsb (fun j => Lp k j && Up j i) (seq 0 i)).

  Lemma rangeS_In a b k : In k (range a b) <-> a <= k /\ k < b.
  Proof. unfold range. rewrite in_seq. lia. Qed.

  Lemma s_step_inv i Lp Up : i < n -> SInv i Lp Up ->
    SInv (S i) (fst (s_step (Lp, Up) i)) (snd (s_step (Lp, Up) i)).
  Proof.
    intros Hi (ZU & ZL & IU & IL). unfold s_step. cbv zeta. cbn [fst snd].
    set (Up' := fold_left (su_step i Lp) (range i n) Up).
    set (Lp' := fold_left (sl_step i Up') (range i n) Lp).
    assert (Hnd : NoDup (range i n)) by (unfold range; apply seq_NoDup).
    destruct (su_row_spec i Lp (range i n) Hnd Up) as [SU1 SU2]. fold Up' in SU1, SU2.
    destruct (sl_col_spec i Up' (range i n) Hnd Lp) as [SL1 SL2]. fold Lp' in SL1, SL2.
    assert (FU : forall r c, r <> i -> Up' r c = Up r c) by (intros r c Hr; apply SU2; left; exact Hr).
    assert (FL : forall r c, c <> i -> Lp' r c = Lp r c) by (intros r c Hc; apply SL2; left; exact Hc).
    repeat split.
    - intros r c Hr. rewrite FU by lia. apply ZU. lia.
    - intros r c Hc. rewrite FL by lia. apply ZL. lia.
    - intros i' k Hi' Hik Hk. destruct (Nat.eq_dec i' i) as [-> | Hne].
      + rewrite (SU1 k (proj2 (rangeS_In i n k) (conj Hik Hk))). rewrite (ZU i k (le_n i)). cbn [orb].
        f_equal. apply existsb_ext_in. intros j Hj. apply in_seq in Hj.
        rewrite FL by lia. rewrite FU by lia. reflexivity.
      + assert (Hlt : i' < i) by lia.
        rewrite FU by exact Hne. rewrite (IU i' k Hlt Hik Hk). f_equal.
        apply existsb_ext_in. intros j Hj. apply in_seq in Hj.
        rewrite FL by lia. rewrite FU by lia. reflexivity.
    - intros i' k Hi' Hik Hk. destruct (Nat.eq_dec i' i) as [-> | Hne].
      + assert (Hin : In k (range i n)) by (apply rangeS_In; lia).
        rewrite (SL1 k Hin). rewrite (ZL k i (le_n i)). cbn [orb].
        destruct (Nat.eqb_spec k i) as [E|_]; [lia|]. rewrite Bool.orb_false_r. f_equal.
        apply existsb_ext_in. intros j Hj. apply in_seq in Hj.
        rewrite FL by lia. reflexivity.
      + assert (Hlt : i' < i) by lia.
        rewrite FL by exact Hne. rewrite (IL i' k Hlt Hik Hk). f_equal.
        apply existsb_ext_in. intros j Hj. apply in_seq in Hj.
        rewrite FL by lia. rewrite FU by lia. reflexivity.
  Qed.

  Lemma s_steps_inv m : m <= n ->
    SInv m (fst (fold_left s_step (seq 0 m) (pempty, pempty))) (snd (fold_left s_step (seq 0 m) (pempty, pempty))).
  Proof.
    induction m as [|m IH]; intros Hm.
    - repeat split; try reflexivity; intros; lia.
    - rewrite seq_S, fold_left_app. cbn [fold_left plus].
      pose proof (IH ltac:(lia)) as I.
      destruct (fold_left s_step (seq 0 m) (pempty, pempty)) as [Lp Up]. cbn [fst snd] in I.
      apply s_step_inv; [lia | exact I].
  Qed.

  Theorem doolittle_sym_closed :
    let Lp := fst (doolittle_sym n Ap) in
    let Up := snd (doolittle_sym n Ap) in
    (forall i k, i <= k -> k < n ->
       Up i k = Ap i k || (k =? i) || existsb (fun j => Lp i j && Up j k) (seq 0 i)) /\
    (forall i k, i < k -> k < n ->
       Lp k i = Ap k i || existsb (fun j => Lp k j && Up j i) (seq 0 i)).
  Proof.
    cbv zeta. rewrite doolittle_sym_steps.
    destruct (s_steps_inv n (le_n n)) as (_ & _ & IU & IL).
    split; [intros i k Hik Hk; apply IU; lia | intros i k Hik Hk; apply IL; lia].
  Qed.

  (* the patterns are triangular and L's diagonal is stored *)
  Definition TInv (m : nat) (Lp Up : pat) : Prop :=
    (forall r c, c < r -> Up r c = false) /\ (forall r c, r < c -> Lp r c = false) /\
    (forall i, i < m -> Lp i i = true).

  Lemma s_step_tri i Lp Up : i < n -> TInv i Lp Up ->
    TInv (S i) (fst (s_step (Lp, Up) i)) (snd (s_step (Lp, Up) i)).
  Proof.
    intros Hi (TU & TL & TD). unfold s_step. cbv zeta. cbn [fst snd].
    set (Up' := fold_left (su_step i Lp) (range i n) Up).
    set (Lp' := fold_left (sl_step i Up') (range i n) Lp).
    assert (Hnd : NoDup (range i n)) by (unfold range; apply seq_NoDup).
    destruct (su_row_spec i Lp (range i n) Hnd Up) as [SU1 SU2]. fold Up' in SU1, SU2.
    destruct (sl_col_spec i Up' (range i n) Hnd Lp) as [SL1 SL2]. fold Lp' in SL1, SL2.
    split; [|split].
    - intros r c Hcr. rewrite SU2; [apply TU; exact Hcr|].
      destruct (Nat.eq_dec r i) as [-> | Hne]; [right; rewrite rangeS_In; lia | left; exact Hne].
    - intros r c Hrc. rewrite SL2; [apply TL; exact Hrc|].
      destruct (Nat.eq_dec c i) as [-> | Hne]; [right; rewrite rangeS_In; lia | left; exact Hne].
    - intros i0 Hi0. destruct (Nat.eq_dec i0 i) as [-> | Hne].
      + rewrite (SL1 i (proj2 (rangeS_In i n i) (conj (le_n i) Hi))). rewrite Nat.eqb_refl.
        destruct (Lp i i), (Ap i i); reflexivity.
      + rewrite SL2 by (left; exact Hne). apply TD. lia.
  Qed.

  Theorem doolittle_sym_triangular :
    let Lp := fst (doolittle_sym n Ap) in
    let Up := snd (doolittle_sym n Ap) in
    (forall r c, c < r -> Up r c = false) /\ (forall r c, r < c -> Lp r c = false) /\ (forall i, i < n -> Lp i i = true).
  Proof.
    cbv zeta. rewrite doolittle_sym_steps.
    assert (G : forall m, m <= n -> TInv m (fst (fold_left s_step (seq 0 m) (pempty, pempty)))
                                         (snd (fold_left s_step (seq 0 m) (pempty, pempty)))).
    { induction m as [|m IH]; intros Hm.
      - cbn. repeat split; try reflexivity. intros; lia.
      - rewrite seq_S, fold_left_app. cbn [fold_left plus]. specialize (IH ltac:(lia)).
        destruct (fold_left s_step (seq 0 m) (pempty, pempty)) as [Lp Up]. cbn [fst snd] in IH.
        apply s_step_tri; [lia | exact IH]. }
    exact (G n (le_n n)).
  Qed.
End Symbolic.

(* ------------------------------------------------------------------------------------------
   Together: for every field, every matrix size, every sparsity pattern, every matrix with that pattern and
   every previous content of L and U, LuDecompositionDoolittle (symbolic + numeric phase) returns factors whose
   product is A (structural zeros read as zero), provided no pivot it divides by is zero. *)
Theorem doolittle_decomposition_correct :
  forall (N : Num)
    (Nfield : field_theory (n0 N) (n1 N) (nadd N) (nmul N) (nsub N) (nopp N) (ndiv N) (ninv N) eq)
    n (A : mat N) (Ap : pat) (L0 U0 : mat N),
    let Lp := fst (doolittle_sym n Ap) in
    let Up := snd (doolittle_sym n Ap) in
    let LU := doolittle_num N n A Ap Lp Up L0 U0 in
    let Lf := fun r c => if c <? r then view N Lp (fst LU) r c else if c =? r then n1 N else n0 N in
    let Uf := fun r c => if r <=? c then view N Up (snd LU) r c else n0 N in
    (forall i, i < n -> snd LU i i <> n0 N) ->
    forall r c, r < n -> c < n -> nsum N n (fun j => nmul N (Lf r j) (Uf j c)) = view N Ap A r c.
Proof.
  intros N Nfield n A Ap L0 U0 Lp Up LU Lf Uf Hpiv r c Hr Hc.
  destruct (doolittle_sym_closed n Ap) as [HUc HLc].
  exact (doolittle_LU_eq_A N Nfield n A Ap Lp Up HUc HLc L0 U0 Hpiv r c Hr Hc).
Qed.

(* ------------------------------------------------------------------------------------------
   The hypotheses are satisfiable: the two-element field, a 3x3 matrix whose factorisation needs a fill-in
   element (L(2,1)), garbage in the previous L and U. *)
Definition NumF2 : Num :=
  {| T := bool; n0 := false; n1 := true; nadd := xorb; nsub := xorb; nmul := andb;
     ndiv := andb; nopp := fun a => a; ninv := fun a => a |}.
Lemma F2_field : field_theory (n0 NumF2) (n1 NumF2) (nadd NumF2) (nmul NumF2) (nsub NumF2) (nopp NumF2)
                              (ndiv NumF2) (ninv NumF2) eq.
Proof.
  constructor; [constructor | discriminate | |]; cbn.
  all: try (intros [|] [|] [|]; reflexivity).
  all: try (intros [|] [|]; reflexivity).
  all: try (intros [|]; reflexivity).
  all: try (intros [|] H; [reflexivity | exfalso; apply H; reflexivity]).
Qed.

Example doolittle_example_F2 :
  let n := 3 in
  let Ap := pat_of [(0,0); (0,1); (1,1); (1,2); (2,0); (2,2)] in
  let A : mat NumF2 := mat_of NumF2 [((0,0), true); ((0,1), true); ((1,1), true); ((1,2), true); ((2,0), true); ((2,2), false)] in
  let garbage : mat NumF2 := fun r c => Nat.even (r + c) in
  let Lp := fst (doolittle_sym n Ap) in
  let Up := snd (doolittle_sym n Ap) in
  let LU := doolittle_num NumF2 n A Ap Lp Up garbage garbage in
  Lp 2 1 = true /\ Ap 2 1 = false                                  (* a genuine fill-in element *)
  /\ (forall i, i < n -> snd LU i i <> n0 NumF2)                   (* the pivots are not zero *)
  /\ fst LU 2 1 = true.                                            (* and the fill-in element is not zero *)
Proof.
  cbv zeta. split; [vm_compute; reflexivity|]. split; [vm_compute; reflexivity|]. split.
  - intros i Hi. destruct i as [|[|[|i]]]; try lia; vm_compute; discriminate.
  - vm_compute. reflexivity.
Qed.


(* ------------------------------------------------------------------------------------------
   Factor, then solve (LuDecompositionDoolittle + LinearSolver): A x = b. *)
Theorem doolittle_factor_then_solve :
  forall (N : Num)
    (Nfield : field_theory (n0 N) (n1 N) (nadd N) (nmul N) (nsub N) (nopp N) (ndiv N) (ninv N) eq)
    n (A : mat N) (Ap : pat) (L0 U0 : mat N) (b : vec N),
    let Lp := fst (doolittle_sym n Ap) in
    let Up := snd (doolittle_sym n Ap) in
    let LU := doolittle_num N n A Ap Lp Up L0 U0 in
    (forall i, i < n -> snd LU i i <> n0 N) ->
    let x := lin_solve N n Lp Up (fst LU) (snd LU) b in
    forall r, r < n -> nsum N n (fun c => nmul N (view N Ap A r c) (x c)) = b r.
Proof.
  intros N Nfield n A Ap L0 U0 b Lp Up LU Hpiv x r Hr.
  destruct (doolittle_sym_closed n Ap) as [HUc HLc]. fold Lp Up in HUc, HLc.
  destruct (doolittle_sym_triangular n Ap) as (TU & TL & TD). fold Lp Up in TU, TL, TD.
  destruct (lu_steps_inv N Nfield n A Ap Lp Up HUc HLc L0 U0 n (le_n n)) as [_ [IL1 _]].
  rewrite <- doolittle_num_steps in IL1. fold LU in IL1.
  assert (Hupii : forall i, i < n -> Up i i = true).
  { intros i Hi. rewrite (HUc i i (le_n i) Hi). rewrite Nat.eqb_refl. destruct (Ap i i); reflexivity. }
  assert (H10 : n1 N <> n0 N) by (destruct Nfield as [_ H _ _]; exact H).
  apply (lin_solve_Ax_b N Nfield n (view N Ap A) Lp Up (fst LU) (snd LU) b).
  - intros r0 c0 Hp. destruct (Nat.le_gt_cases c0 r0) as [H|H]; [exact H|]. rewrite (TL r0 c0 H) in Hp. discriminate.
  - intros r0 c0 Hp. destruct (Nat.le_gt_cases r0 c0) as [H|H]; [exact H|]. rewrite (TU r0 c0 H) in Hp. discriminate.
  - intros i Hi. repeat split; [apply TD; exact Hi | apply Hupii; exact Hi | rewrite (IL1 i Hi); exact H10 | apply Hpiv; exact Hi].
  - intros r0 c0 Hr0 Hc0.
    rewrite <- (doolittle_decomposition_correct N Nfield n A Ap L0 U0 Hpiv r0 c0 Hr0 Hc0).
    apply (sum_ext N). intros j Hj. fold Lp Up LU. f_equal.
    + unfold view. destruct (Nat.ltb_spec j r0) as [H|H]; [reflexivity|].
      destruct (Nat.eqb_spec j r0) as [-> | Hne].
      * rewrite (TD r0 Hr0). apply IL1. exact Hr0.
      * rewrite (TL r0 j) by lia. reflexivity.
    + unfold view. destruct (Nat.leb_spec j c0) as [H|H]; [reflexivity|]. rewrite (TU j c0 H). reflexivity.
  - exact Hr.
Qed.
