(* ValueSemProofs.v — no sequence of copies, moves, sets and solves (with or without a change of parameter
   set) reaches undefined behaviour in the repaired code; the same statement is refuted for the sliced copy
   and for a Solve that does not provide missing stage vectors. *)
From Model Require Import Base ValueSem.
From Coq Require Import Lia.
Local Open Scope nat_scope.

(* a live State owns the scratch of the solver whose dimensions its matrices have *)
Definition wf (st : list sobj) : Prop :=
  forall i, so_live (slot st i) = true -> exists nk, so_tmp (slot st i) = TDerived (so_shape (slot st i)) nk.

Lemma slot_upd_eq st i x : i < length st -> slot (upd i x st) i = x.
Proof. intros; unfold slot; apply nth_upd_eq; assumption. Qed.
Lemma slot_upd_neq st i j x : i <> j -> slot (upd i x st) j = slot st j.
Proof. intros; unfold slot; apply nth_upd_neq; assumption. Qed.
Lemma slot_upd st i j x : slot (upd i x st) j = if (i =? j) && (i <? length st) then x else slot st j.
Proof. unfold slot. apply nth_upd. Qed.

Lemma wf_upd st i x : wf st -> (so_live x = true -> exists nk, so_tmp x = TDerived (so_shape x) nk) -> wf (upd i x st).
Proof.
  intros H Hx k. rewrite slot_upd. destruct ((i =? k) && (i <? length st)); [exact Hx|apply H].
Qed.

Lemma live_of_guard (i j : nat) (b : bool) : (i =? j) || negb b = false -> b = true.
Proof. intros E. apply Bool.orb_false_iff in E. destruct E as [_ E]. apply Bool.negb_false_iff in E. exact E. Qed.

(* a solve on a live State of a well-formed store never fails when Solve provides missing stage vectors *)
Lemma solve_on_fixed st i m : wf st -> so_live (slot st i) = true -> so_shape (slot st i) = 0 ->
  exists st', solve_on true st i m = Some st' /\ wf st'.
Proof.
  intros H Hl Hs. destruct (H i Hl) as [nk E]. rewrite Hs in E. unfold solve_on. rewrite E.
  destruct (m <=? nk).
  - exists st. split; [reflexivity | exact H].
  - eexists. split; [reflexivity|]. apply wf_upd; [exact H|]. intros _. cbn. eauto.
Qed.

Lemma vstep_fixed_wf vs o : wf (fst vs) ->
  wf (fst (fst (vstep copy_fixed true vs o))) /\ snd (vstep copy_fixed true vs o) <> TkUB.
Proof.
  destruct vs as [st stages]. cbn [fst]. intros H.
  destruct o; cbn [vstep copy_fixed fst snd];
    try (destruct ((i =? j) || negb (so_live (slot st j))) eqn:E; cbn [fst snd];
         [split; [assumption|discriminate]|]; apply live_of_guard in E); cbn [fst snd].
  - (* get *) split; [apply wf_upd; [assumption | intros _; cbn; eauto] | discriminate].
  - split; [apply wf_upd; auto; intros _; cbn [so_tmp so_shape]; apply H; exact E|discriminate].
  - split; [apply wf_upd; auto; intros _; cbn [so_tmp so_shape]; apply H; exact E|discriminate].
  - split; [|discriminate]. apply wf_upd; [apply wf_upd; auto; intros _; cbn [so_tmp so_shape]; apply H; exact E|cbn; intros X; discriminate X].
  - split; [|discriminate]. apply wf_upd; [apply wf_upd; auto; intros _; cbn [so_tmp so_shape]; apply H; exact E|cbn; intros X; discriminate X].
  - (* set *) destruct (so_live (slot st i)) eqn:E; cbn [fst snd]; split; try assumption; try discriminate.
    apply wf_upd; auto. intros _. cbn [so_tmp so_shape]. apply H. exact E.
  - (* solve *) destruct (so_live (slot st i)) eqn:E; cbn [andb fst snd]; [|split; [assumption|discriminate]].
    destruct (Nat.eqb_spec (so_shape (slot st i)) 0) as [Hs|Hs]; cbn [fst snd]; [|split; [assumption|discriminate]].
    destruct (solve_on_fixed st i stages H E Hs) as [st' [-> Hwf]]. cbn [fst snd]. split; [assumption|discriminate].
  - split; [assumption|discriminate].
  - (* get from the other solver *) split; [apply wf_upd; [assumption | intros _; cbn; eauto] | discriminate].
  - (* solve with another parameter set *)
    destruct (so_live (slot st i)) eqn:E; cbn [andb fst snd]; [|split; [assumption|discriminate]].
    destruct (Nat.eqb_spec (so_shape (slot st i)) 0) as [Hs|Hs]; cbn [fst snd]; [|split; [assumption|discriminate]].
    destruct (solve_on_fixed st i m H E Hs) as [st' [-> Hwf]]. cbn [fst snd]. split; [assumption|discriminate].
Qed.

(* every operation sequence, of any length, from any well-formed store *)
Theorem value_semantics_no_ub vs ops : wf (fst vs) -> ~ In TkUB (vrun copy_fixed true vs ops).
Proof.
  revert vs; induction ops as [|o ops IH]; intros vs H; cbn [vrun]; [tauto|].
  destruct (vstep_fixed_wf vs o H) as [Hwf Hne].
  destruct (vstep copy_fixed true vs o) as [vs' tk]. cbn [fst snd] in *.
  destruct tk; try (intros [E|Hin]; [discriminate|exact (IH vs' Hwf Hin)]).
  contradiction.
Qed.

Lemma wf_store0 n stages : wf (fst (store0 n stages)).
Proof.
  intros i Hl. unfold slot, store0 in *. cbn [fst] in *.
  destruct (Nat.lt_ge_cases i n); [rewrite nth_repeat in Hl|rewrite nth_overflow in Hl by (rewrite repeat_length; lia)];
    discriminate.
Qed.

(* a solve reports the data of its own State: a set on another State never changes it *)
Theorem solve_reads_own_data st stages i : so_live (slot st i) = true -> so_shape (slot st i) = 0 -> wf st ->
  snd (vstep copy_fixed true (st, stages) (OSolve i)) = TkSolve (so_data (slot st i)).
Proof.
  intros Hl Hs H. cbn [vstep fst snd]. rewrite Hl, Hs. cbn [andb Nat.eqb].
  destruct (solve_on_fixed st i stages H Hl Hs) as [st' [-> _]]. reflexivity.
Qed.



(* the code before the first repair: GetState; copy; Solve(copy) is undefined behaviour *)
Theorem copy_then_solve_refuted : In TkUB (vrun copy_sliced true (store0 4 3) [OGet 0; OCopyC 1 0; OSolve 1]).
Proof. vm_compute. auto. Qed.

(* the code before the second repair: a State created for a three-stage parameter set, solved with a six-stage one *)
Theorem more_stages_than_vectors_refuted : In TkUB (vrun copy_fixed false (store0 4 3) [OGet 0; OPSolve 0 6]).
Proof. vm_compute. auto. Qed.
(* ... also through the two-argument Solve of another, older State once the solver's set has changed *)
Theorem older_state_after_parameter_change_refuted :
  vrun copy_fixed false (store0 4 6) [OGet 1; OPSolve 1 2; OGet 0; OPSolve 1 6; OSolve 0]
  = [TkGet; TkSolve 1; TkGet; TkSolve 1; TkUB].
Proof. vm_compute. reflexivity. Qed.
