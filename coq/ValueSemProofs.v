(* ValueSemProofs.v — no sequence of copies, moves, sets and solves reaches undefined behaviour
   (repaired code); the same statement is refuted for the sliced copy. *)
From Model Require Import Base ValueSem.
Local Open Scope nat_scope.

Definition wf (st : list sobj) : Prop :=
  forall i, so_live (slot st i) = true -> so_tmp (slot st i) = TDerived.

Lemma slot_upd_eq st i x : i < length st -> slot (upd i x st) i = x.
Proof. intros; unfold slot; apply nth_upd_eq; assumption. Qed.
Lemma slot_upd_neq st i j x : i <> j -> slot (upd i x st) j = slot st j.
Proof. intros; unfold slot; apply nth_upd_neq; assumption. Qed.
Lemma slot_upd st i j x : slot (upd i x st) j = if (i =? j) && (i <? length st) then x else slot st j.
Proof. unfold slot. apply nth_upd. Qed.

Lemma wf_upd st i x : wf st -> (so_live x = true -> so_tmp x = TDerived) -> wf (upd i x st).
Proof.
  intros H Hx k. rewrite slot_upd. destruct ((i =? k) && (i <? length st)); [exact Hx|apply H].
Qed.

Lemma live_of_guard (i j : nat) (b : bool) : (i =? j) || negb b = false -> b = true.
Proof. intros E. apply Bool.orb_false_iff in E. destruct E as [_ E]. apply Bool.negb_false_iff in E. exact E. Qed.

Lemma vstep_fixed_wf st o : wf st -> wf (fst (vstep copy_fixed st o)) /\ snd (vstep copy_fixed st o) <> TkUB.
Proof.
  intros H. destruct o; cbn [vstep copy_fixed];
    try (destruct ((i =? j) || negb (so_live (slot st j))) eqn:E; cbn [fst snd];
         [split; [assumption|discriminate]|]; apply live_of_guard in E); cbn [fst snd].
  - split; [apply wf_upd; auto|discriminate].
  - split; [apply wf_upd; auto; intros _; apply H; exact E|discriminate].
  - split; [apply wf_upd; auto; intros _; apply H; exact E|discriminate].
  - split; [|discriminate]. apply wf_upd; [apply wf_upd; auto; intros _; apply H; exact E|cbn; intros X; discriminate X].
  - split; [|discriminate]. apply wf_upd; [apply wf_upd; auto; intros _; apply H; exact E|cbn; intros X; discriminate X].
  - destruct (so_live (slot st i)) eqn:E; cbn [fst snd]; split; try assumption; try discriminate.
    apply wf_upd; auto. intros _. apply H. exact E.
  - destruct (so_live (slot st i)) eqn:E; cbn [fst snd]; [|split; [assumption|discriminate]].
    rewrite (H i E). cbn [fst snd]. split; [assumption|discriminate].
  - split; [assumption|discriminate].
Qed.

(* every operation sequence, of any length, from any well-formed store *)
Theorem value_semantics_no_ub st ops : wf st -> ~ In TkUB (vrun copy_fixed st ops).
Proof.
  revert st; induction ops as [|o ops IH]; intros st H; cbn [vrun]; [tauto|].
  destruct (vstep_fixed_wf st o H) as [Hwf Hne].
  destruct (vstep copy_fixed st o) as [st' tk]. cbn [fst snd] in *.
  destruct tk; try (intros [E|Hin]; [discriminate|exact (IH st' Hwf Hin)]).
  contradiction.
Qed.

Lemma wf_store0 n : wf (store0 n).
Proof.
  intros i Hl. unfold slot, store0 in *.
  destruct (Nat.lt_ge_cases i n); [rewrite nth_repeat in Hl|rewrite nth_overflow in Hl by (rewrite repeat_length; lia)];
    discriminate.
Qed.

(* a solve reports the data of its own State: a set on another State never changes it *)
Theorem solve_reads_own_data st i : so_live (slot st i) = true -> wf st ->
  snd (vstep copy_fixed st (OSolve i)) = TkSolve (so_data (slot st i)).
Proof. intros Hl H. cbn [vstep]. rewrite Hl, (H i Hl). reflexivity. Qed.

(* the code before the repair: GetState; copy; Solve(copy) is undefined behaviour *)
Theorem copy_then_solve_refuted : In TkUB (vrun copy_sliced (store0 4) [OGet 0; OCopyC 1 0; OSolve 1]).
Proof. vm_compute. auto. Qed.
