(* Properties_C04.v — C04: Factor followed by Solve returns x with A x = b in every block.
   Property theorems only; proofs in LUProofs.v.  The theorems are per block: LU.v models one
   block, and the tie checks that the implementation treats every block / lane that way. *)
From Model Require Import Base LU LUProofs DoolittleProofs DoolittleIPProofs MozartIPProofs MozartProofs.
From Coq Require Import Field.
Local Open Scope nat_scope.

(* LinearSolver::Solve (separate L and U): for every field, every size, every triangular pair
   of patterns containing the diagonal, every L, U with non-zero diagonal whose product (reading
   structural zeros as zero) is A, and every right-hand side b: the returned x satisfies A x = b. *)
Theorem C04_solve_gives_Ax_eq_b :
  forall (N : Num)
    (Nfield : field_theory (n0 N) (n1 N) (nadd N) (nmul N) (nsub N) (nopp N) (ndiv N) (ninv N) eq)
    n (A : mat N) (Lp Up : pat) (L U : mat N) b,
    (forall r c, Lp r c = true -> c <= r) -> (forall r c, Up r c = true -> r <= c) ->
    (forall i, i < n -> Lp i i = true /\ Up i i = true /\ L i i <> n0 N /\ U i i <> n0 N) ->
    (forall r c, r < n -> c < n -> nsum N n (fun j => nmul N (view N Lp L r j) (view N Up U j c)) = A r c) ->
    forall r, r < n -> nsum N n (fun c => nmul N (A r c) (lin_solve N n Lp Up L U b c)) = b r.
Proof. exact lin_solve_Ax_b. Qed.
Print Assumptions C04_solve_gives_Ax_eq_b.

(* LinearSolverInPlace::Solve: L is the strict lower part of the stored matrix with an implicit
   unit diagonal, U its upper part *)
Theorem C04_solve_in_place_gives_Ax_eq_b :
  forall (N : Num)
    (Nfield : field_theory (n0 N) (n1 N) (nadd N) (nmul N) (nsub N) (nopp N) (ndiv N) (ninv N) eq)
    n (A : mat N) (P : pat) (M : mat N) b,
    (forall i, i < n -> P i i = true /\ M i i <> n0 N) ->
    (forall r c, r < n -> c < n ->
       nsum N n (fun j => nmul N (lower_of N P M r j) (upper_of N P M j c)) = A r c) ->
    forall r, r < n -> nsum N n (fun c => nmul N (A r c) (lin_solve_ip N n P M b c)) = b r.
Proof. exact lin_solve_ip_Ax_b. Qed.
Print Assumptions C04_solve_in_place_gives_Ax_eq_b.

(* the two triangular solves separately: L y = b and U x = y *)
Theorem C04_forward_then_backward :
  forall (N : Num)
    (Nfield : field_theory (n0 N) (n1 N) (nadd N) (nmul N) (nsub N) (nopp N) (ndiv N) (ninv N) eq)
    n (Lp Up : pat) (L U : mat N) b,
    (forall r c, Lp r c = true -> c <= r) -> (forall r c, Up r c = true -> r <= c) ->
    (forall i, i < n -> Lp i i = true /\ Up i i = true /\ L i i <> n0 N /\ U i i <> n0 N) ->
    let y := fold_left (fwd_step N true Lp L) (seq 0 n) b in
    let x := lin_solve N n Lp Up L U b in
    (forall i, i < n -> nsum N n (fun j => nmul N (view N Lp L i j) (y j)) = b i) /\
    (forall i, i < n -> nsum N n (fun c => nmul N (view N Up U i c) (x c)) = y i).
Proof. exact lin_solve_LyUx. Qed.
Print Assumptions C04_forward_then_backward.

(* end to end for the in-place Doolittle pair (no hypothesis left about the factors): LuDecompositionDoolittleInPlace
   followed by LinearSolverInPlace::Solve returns x with A x = b, for every field, pattern, matrix on the pattern
   (fill-in slots zero on entry, the documented contract) and right-hand side, provided no pivot is zero *)
Theorem C04_doolittle_in_place_factor_then_solve :
  forall (N : Num)
    (Nfield : field_theory (n0 N) (n1 N) (nadd N) (nmul N) (nsub N) (nopp N) (ndiv N) (ninv N) eq)
    n (A : mat N) (Ap : pat) (M0 : mat N) (b : vec N),
    let P := doolittle_ip_sym n Ap in
    (forall r c, r < n -> c < n -> P r c = true -> M0 r c = view N Ap A r c) ->
    let M := doolittle_ip_num N n P M0 in
    (forall i, i < n -> M i i <> n0 N) ->
    let x := lin_solve_ip N n P M b in
    forall r, r < n -> nsum N n (fun c => nmul N (view N Ap A r c) (x c)) = b r.
Proof. exact doolittle_in_place_factor_then_solve. Qed.
Print Assumptions C04_doolittle_in_place_factor_then_solve.

(* the same for the Mozart in-place pair *)
Theorem C04_mozart_in_place_factor_then_solve :
  forall (N : Num)
    (Nfield : field_theory (n0 N) (n1 N) (nadd N) (nmul N) (nsub N) (nopp N) (ndiv N) (ninv N) eq)
    n (A : mat N) (Ap : pat) (M0 : mat N) (b : vec N),
    (forall i, i < n -> Ap i i = true) ->
    let P := mozart_ip_sym n Ap in
    (forall r c, r < n -> c < n -> P r c = true -> M0 r c = view N Ap A r c) ->
    let M := mozart_ip_num N n P M0 in
    (forall i, i < n -> M i i <> n0 N) ->
    let x := lin_solve_ip N n P M b in
    forall r, r < n -> nsum N n (fun c => nmul N (view N Ap A r c) (x c)) = b r.
Proof. exact mozart_in_place_factor_then_solve. Qed.
Print Assumptions C04_mozart_in_place_factor_then_solve.

(* and for the separate-storage Doolittle pair: LuDecompositionDoolittle followed by LinearSolver::Solve, whatever the
   L and U storage held before (the patterns returned by the symbolic phase are triangular, L's diagonal is stored as 1) *)
Theorem C04_doolittle_factor_then_solve :
  forall (N : Num)
    (Nfield : field_theory (n0 N) (n1 N) (nadd N) (nmul N) (nsub N) (nopp N) (ndiv N) (ninv N) eq)
    n (A : mat N) (Ap : pat) (L0 U0 : mat N) (b : vec N),
    let Lp := fst (doolittle_sym n Ap) in
    let Up := snd (doolittle_sym n Ap) in
    let LU := doolittle_num N n A Ap Lp Up L0 U0 in
    (forall i, i < n -> snd LU i i <> n0 N) ->
    let x := lin_solve N n Lp Up (fst LU) (snd LU) b in
    forall r, r < n -> nsum N n (fun c => nmul N (view N Ap A r c) (x c)) = b r.
Proof. exact doolittle_factor_then_solve. Qed.
Print Assumptions C04_doolittle_factor_then_solve.

(* and for LuDecompositionMozart followed by LinearSolver::Solve (A's pattern holds the diagonal, as every Jacobian
   pattern built by the solver does): with this all four factorisations are covered end to end *)
Theorem C04_mozart_factor_then_solve :
  forall (N : Num)
    (Nfield : field_theory (n0 N) (n1 N) (nadd N) (nmul N) (nsub N) (nopp N) (ndiv N) (ninv N) eq)
    n (A : mat N) (Ap : pat) (L0 U0 : mat N) (b : vec N),
    (forall i, i < n -> Ap i i = true) ->
    let Lp := fst (mozart_sym n Ap) in
    let Up := snd (mozart_sym n Ap) in
    let LU := mozart_num N n A Ap Lp Up L0 U0 in
    (forall i, i < n -> snd LU i i <> n0 N) ->
    let x := lin_solve N n Lp Up (fst LU) (snd LU) b in
    forall r, r < n -> nsum N n (fun c => nmul N (view N Ap A r c) (x c)) = b r.
Proof. exact mozart_factor_then_solve. Qed.
Print Assumptions C04_mozart_factor_then_solve.
