(* BackwardEulerM.v — model of BackwardEuler::Solve (solver/backward_euler.inl).
   Same conventions as Rosenbrock.v: policies, dense-matrix operations and the convergence
   test are Section variables; the two nested loops are one recursion on fuel. *)
From Model Require Export Base Rosenbrock.
Local Open Scope nat_scope.

Section BE.
  Variable N : Num.
  Notation T := (T N).
  Variables (ltb : T -> T -> bool) (is_zero : T -> bool).
  Definition bmin (a b : T) : T := if ltb b a then b else a.
  Variables V M F : Type.
  Variable vzero : V -> V.
  Variable mzero : M -> M.
  Variable add_diag : T -> M -> M.            (* jacobian_.AddToDiagonal(1 / H) *)
  Variable forcing : V -> V -> V.
  Variable negjac : V -> M -> M.
  Variable in_place : bool.
  Variable factor_sep : M -> F -> F.
  Variable solve_sep : F -> V -> V.
  Variable factor_ip : M -> M.
  Variable solve_ip : M -> V -> V.
  Variable vresid : T -> V -> V -> V -> V.     (* forcing.ForEach(f -= (yn1 - yn) / H, Yn1, Yn) *)
  Variable vclamp_add : V -> V -> V.           (* Yn1.ForEach(yn1 = max(0, yn1 + f), forcing) *)
  Variable is_converged : V -> V -> bool.      (* IsConverged(parameters, residual, Yn1, atol, rtol) *)
  Variable two : T.

  Record be_params := mkBeParams { bp_h_start : T; bp_max_iter : nat; bp_reductions : list T }.
  Record bstate := mkBState { bYn1 : V; bJac : M; bLU : F; bYn : V; bForcing : V }.

  Inductive be_event :=
    | BeIter (H : T) (y : V) (m : M) (rhs : V) (delta : V)   (* one Newton iteration *)
    | BeAccept (t H : T) | BeReject (H : T) | BeUnconverged (t H : T).

  Record be_loop_state := mkBeLoop {
    b_s : bstate; b_t : T; b_H : T; b_stats : stats; b_state : solver_state;
    b_nsucc : nat; b_nfail : nat; b_fresh : bool; b_iter : nat }.

  Record be_result := mkBeResult { br_state : solver_state; br_final_time : T; br_stats : stats;
                                   br_s : bstate; br_trace : list be_event }.

  Variable p : be_params.

  Definition be_iter (time_step : T) (l : be_loop_state)
    : (solver_state * T * stats * bstate * list be_event) + (be_loop_state * list be_event) :=
      if b_fresh l && negb (ltb (b_t l) time_step) then
        inl (b_state l, b_t l, b_stats l, b_s l, [])
      else
        let st0 := if b_fresh l then Running else b_state l in
        let iter0 := if b_fresh l then 0 else b_iter l in
        let s := b_s l in
        let H := b_H l in
        (* one iteration *)
        let f := forcing (bYn1 s) (vzero (bForcing s)) in
        let j := add_diag (ndiv N (n1 N) H) (negjac (bYn1 s) (mzero (bJac s))) in
        let j' := if in_place then factor_ip j else j in
        let lu' := if in_place then bLU s else factor_sep j (bLU s) in
        let rhs := vresid H f (bYn1 s) (bYn s) in
        let delta := if in_place then solve_ip j' rhs else solve_sep lu' rhs in
        let yn1 := vclamp_add (bYn1 s) delta in
        let s1 := mkBState yn1 j' lu' (bYn s) delta in
        let st := bump (b_stats l) 1 1 1 0 0 1 1 in
        let tr1 := [BeIter H (bYn1 s) j rhs delta] in
        let converged := if iter0 =? 0 then false else is_converged delta yn1 in
        let iter1 := S iter0 in
        if negb converged && (iter1 <? bp_max_iter p) then
          inr (mkBeLoop s1 (b_t l) H st st0 (b_nsucc l) (b_nfail l) false iter1, tr1)
        else if negb converged then
          (* failed to converge within max_iter iterations *)
          let st' := bump st 0 0 0 0 1 0 0 in
          if length (bp_reductions p) <=? b_nfail l then
            inl (AcceptingUnconvergedIntegration, nadd N (b_t l) H, st', s1, tr1 ++ [BeUnconverged (b_t l) H])
          else
            let s2 := mkBState (bYn s1) (bJac s1) (bLU s1) (bYn s1) (bForcing s1) in
            let H' := nmul N H (nth (b_nfail l) (bp_reductions p) (n0 N)) in
            let H'' := bmin H' (nsub N time_step (b_t l)) in
            inr (mkBeLoop s2 (b_t l) H'' st' st0 0 (S (b_nfail l)) true 0, tr1 ++ [BeReject H])
        else
          let st' := bump st 0 0 0 1 0 0 0 in
          let t' := nadd N (b_t l) H in
          let s2 := mkBState (bYn1 s1) (bJac s1) (bLU s1) (bYn1 s1) (bForcing s1) in
          let ns := S (b_nsucc l) in
          let ns' := if 2 <=? ns then 0 else ns in
          let H' := if 2 <=? ns then nmul N H two else H in
          let H'' := bmin H' (nsub N time_step t') in
          inr (mkBeLoop s2 t' H'' st' Converged ns' (b_nfail l) true 0, tr1 ++ [BeAccept (b_t l) H]).

  Fixpoint be_loop (fuel : nat) (time_step : T) (l : be_loop_state) (tr : list be_event) : be_result :=
    match fuel with
    | O => mkBeResult OutOfFuel (b_t l) (b_stats l) (b_s l) tr
    | S fuel' =>
      match be_iter time_step l with
      | inl (st, t, sts, s, ev) => mkBeResult st t sts s (tr ++ ev)
      | inr (l', ev) => be_loop fuel' time_step l' (tr ++ ev)
      end
    end.

  Definition be_solve (fuel : nat) (time_step : T) (s : bstate) : be_result :=
    let H := if is_zero (bp_h_start p) then time_step else bmin (bp_h_start p) time_step in
    let s0 := mkBState (bYn1 s) (bJac s) (bLU s) (bYn1 s) (bForcing s) in   (* Yn.Copy(Yn1) *)
    be_loop fuel time_step (mkBeLoop s0 (n0 N) H stats0 NotYetCalled 0 0 true 0) [].
End BE.

Arguments BeIter {N V M}. Arguments BeAccept {N V M}. Arguments BeReject {N V M}. Arguments BeUnconverged {N V M}.
Arguments b_s {N V M F}. Arguments b_t {N V M F}. Arguments b_H {N V M F}. Arguments b_stats {N V M F}.
Arguments b_state {N V M F}. Arguments b_nsucc {N V M F}. Arguments b_nfail {N V M F}. Arguments b_fresh {N V M F}.
Arguments b_iter {N V M F}.
Arguments br_state {N V M F}. Arguments br_final_time {N V M F}. Arguments br_stats {N V M F}.
Arguments br_s {N V M F}. Arguments br_trace {N V M F}.
Arguments bYn1 {V M F}. Arguments bJac {V M F}. Arguments bLU {V M F}. Arguments bYn {V M F}. Arguments bForcing {V M F}.
Arguments bp_h_start {N}. Arguments bp_max_iter {N}. Arguments bp_reductions {N}.
