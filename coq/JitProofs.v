(* JitProofs.v — the generated programs perform, lane by lane, the operations of the CPU kernels. *)
From Model Require Import Base BaseProofs Dense Sparse ProcessSetM LU JitModel.
From Coq Require Import Lia.
Local Open Scope nat_scope.

Section JitProofs.
  Variable N : Num.
  Notation T := (T N).

  (* ---------------- generic ---------------- *)
  Lemma run_ops_app (a b : list (op N)) f : run_ops N (a ++ b) f = run_ops N b (run_ops N a f).
  Proof. unfold run_ops. apply fold_left_app. Qed.

  Lemma run_ops_flat_map {X} (G : X -> list (op N)) (l : list X) f :
    run_ops N (flat_map G l) f = fold_left (fun f x => run_ops N (G x) f) l f.
  Proof. revert f; induction l as [|x l IH]; intros f; cbn [flat_map fold_left]; [reflexivity|].
         rewrite run_ops_app. apply IH. Qed.

  Lemma fold_left_ext_in {A B} (f g : A -> B -> A) (l : list B) (a : A) :
    (forall a b, In b l -> f a b = g a b) -> fold_left f l a = fold_left g l a.
  Proof. revert a; induction l as [|b l IH]; intros a H; cbn [fold_left]; [reflexivity|].
         rewrite (H a b (or_introl eq_refl)). apply IH. intros a' b' Hb. apply H. right; exact Hb. Qed.

  Lemma fold_left_filter {A B} (P : B -> bool) (f : A -> B -> A) (l : list B) (a : A) :
    fold_left (fun a b => if P b then f a b else a) l a = fold_left f (filter P l) a.
  Proof. revert a; induction l as [|b l IH]; intros a; cbn [fold_left filter]; [reflexivity|].
         destruct (P b); cbn [fold_left]; apply IH. Qed.

  Lemma nth_map_seq {A} (g : nat -> A) (L l : nat) (d : A) : l < L -> nth l (map g (seq 0 L)) d = g l.
  Proof.
    intro H. rewrite (nth_indep _ d (g 0)) by (rewrite map_length, seq_length; exact H).
    rewrite map_nth. rewrite seq_nth by exact H. reflexivity.
  Qed.

  (* ---------------- process set ---------------- *)
  Section PS.
    Variable L : nat.
    Variables rc y : list T.
    Notation prun := (prun N L rc y).

    Lemma prun_app a b st : prun (a ++ b) st = prun b (prun a st).
    Proof. unfold JitModel.prun. apply fold_left_app. Qed.

    Lemma prun_cons ins prog st : prun (ins :: prog) st = prun prog (pstep N L rc y st ins).
    Proof. reflexivity. Qed.
    Lemma prun_nil st : prun [] st = st.
    Proof. reflexivity. Qed.

    Lemma prun_mul_states rs : forall (g : nat -> T) out,
      prun (map (fun id => PMulState N (id * L)) rs) (map g (seq 0 L), out)
      = (map (fun l => rate_of N (g l) rs (fun id => nth (id * L + l) y (n0 N))) (seq 0 L), out).
    Proof.
      induction rs as [|id rs IH]; intros g out; cbn [map].
      - rewrite prun_nil. unfold rate_of; cbn [fold_left]. reflexivity.
      - rewrite prun_cons. cbn [pstep fst snd].
        rewrite (map_ext_in _ (fun l => nmul N (g l) (nth (id * L + l) y (n0 N)))).
        + rewrite IH. unfold rate_of; cbn [fold_left]. reflexivity.
        + intros l Hl. apply in_seq in Hl. rewrite nth_map_seq by lia. reflexivity.
    Qed.

    Lemma prun_load_mul b rs scr out :
      prun (PLoadRC N b :: map (fun id => PMulState N (id * L)) rs) (scr, out)
      = (map (fun l => rate_of N (nth (b + l) rc (n0 N)) rs (fun id => nth (id * L + l) y (n0 N))) (seq 0 L), out).
    Proof.
      rewrite prun_cons. cbn [pstep fst snd]. apply prun_mul_states.
    Qed.

    (* instructions that only update the output array *)
    Definition out_ops (scr : list T) (ins : pinstr N) : list (op N) :=
      let s := fun l => nth l scr (n0 N) in
      match ins with
      | PSubRate _ base => lane_ops N L base (fun l v => nsub N v (s l))
      | PAddRateYield _ base yl => lane_ops N L base (fun l v => nadd N v (nmul N (s l) yl))
      | PAddRate _ base => lane_ops N L base (fun l v => nadd N v (s l))
      | PSubRateYield _ base yl => lane_ops N L base (fun l v => nsub N v (nmul N (s l) yl))
      | _ => []
      end.
    Definition is_out (ins : pinstr N) : Prop :=
      match ins with PLoadRC _ _ | PMulState _ _ => False | _ => True end.

    Lemma prun_out prog : Forall is_out prog -> forall scr out,
      prun prog (scr, out) = (scr, run_ops N (flat_map (out_ops scr) prog) out).
    Proof.
      induction prog as [|ins prog IH]; intros Hall scr out.
      - reflexivity.
      - inversion Hall as [|? ? Hi Hrest]; subst.
        rewrite prun_cons. cbn [flat_map]. rewrite run_ops_app.
        destruct ins; cbn [is_out] in Hi; try contradiction; cbn [pstep fst snd out_ops]; apply IH; exact Hrest.
    Qed.
  End PS.

  Hypothesis mul_comm : forall a b : T, nmul N a b = nmul N b a.

  (* one reaction's block of the forcing function = that reaction's lane-ordered updates of the CPU kernel *)
  Lemma forcing_block_correct L rc y i rs ps scr out :
    prun N L rc y (jit_forcing_block N L (i, (rs, ps))) (scr, out)
    = (map (fun l => rate_of N (nth (i * L + l) rc (n0 N)) rs (fun id => nth (id * L + l) y (n0 N))) (seq 0 L),
       run_ops N
         (let rate := fun lane => rate_of N (nth (i * L + lane) rc (n0 N)) rs (fun id => nth (id * L + lane) y (n0 N)) in
          flat_map (fun id => map (fun lane => (id * L + lane, fun v => nsub N v (rate lane))) (seq 0 L)) rs ++
          flat_map (fun '(id, yl) => map (fun lane => (id * L + lane, fun v => nadd N v (nmul N yl (rate lane)))) (seq 0 L)) ps)
         out).
  Proof.
    cbn [jit_forcing_block].
    change (PLoadRC N (i * L) :: map (fun id => PMulState N (id * L)) rs ++
            map (fun id => PSubRate N (id * L)) rs ++ map (fun '(id, yl) => PAddRateYield N (id * L) yl) ps)
      with ((PLoadRC N (i * L) :: map (fun id => PMulState N (id * L)) rs) ++
            (map (fun id => PSubRate N (id * L)) rs ++ map (fun '(id, yl) => PAddRateYield N (id * L) yl) ps)).
    rewrite prun_app, prun_load_mul.
    rewrite prun_out.
    2:{ apply Forall_app; split; apply Forall_forall; intros ins Hin; apply in_map_iff in Hin;
        destruct Hin as [x [<- _]]; [exact I | destruct x; exact I]. }
    f_equal. f_equal. cbv zeta. rewrite flat_map_app. f_equal.
    - rewrite flat_map_concat_map, map_map, <- flat_map_concat_map.
      apply flat_map_ext. intro id. cbn [out_ops]. unfold lane_ops.
      apply map_ext_in. intros l Hl. apply in_seq in Hl. rewrite nth_map_seq by lia. reflexivity.
    - rewrite flat_map_concat_map, map_map, <- flat_map_concat_map.
      apply flat_map_ext. intros [id yl]. cbn [out_ops]. unfold lane_ops.
      apply map_ext_in. intros l Hl. apply in_seq in Hl. rewrite nth_map_seq by lia.
      rewrite (mul_comm _ yl). reflexivity.
  Qed.

  Lemma prun_flat_map_snd {X} L rc y (F : X -> list (pinstr N)) (G : X -> list (op N)) (l : list X) :
    (forall x scr out, In x l -> snd (prun N L rc y (F x) (scr, out)) = run_ops N (G x) out) ->
    forall scr out, snd (prun N L rc y (flat_map F l) (scr, out)) = run_ops N (flat_map G l) out.
  Proof.
    induction l as [|x l IH]; intros H scr out; cbn [flat_map]; [reflexivity|].
    rewrite prun_app, run_ops_app.
    destruct (prun N L rc y (F x) (scr, out)) as [scr' out'] eqn:E.
    assert (out' = run_ops N (G x) out) as -> by (rewrite <- (H x scr out (or_introl eq_refl)), E; reflexivity).
    apply IH. intros x' s o Hx'. apply H. right; exact Hx'.
  Qed.

  Theorem jit_forcing_correct L p ncells nspec nrxn rc y f :
    vm_groups L ncells = 1 ->
    jit_add_forcing N L p rc y f = add_forcing N (Grouped L) p ncells nspec nrxn rc y f.
  Proof.
    intro Hg. unfold jit_add_forcing, add_forcing, jit_forcing_prog, forcing_ops_vec. rewrite Hg.
    cbn [seq flat_map]. rewrite app_nil_r.
    apply prun_flat_map_snd. intros [i [rs ps]] scr out _.
    rewrite forcing_block_correct. cbn [snd]. reflexivity.
  Qed.

  Lemma jac_block_correct L rc y ji deps yls ids scr out :
    snd (prun N L rc y (jit_jac_block N L ((ji, deps, yls), ids)) (scr, out))
    = run_ops N
         (let d := fun lane => rate_of N (nth (ji_process ji * L + lane) rc (n0 N)) deps (fun id => nth (id * L + lane) y (n0 N)) in
          flat_map (fun k => map (fun lane => (k + lane, fun v => nadd N v (d lane))) (seq 0 L)) (firstn (ji_ndep ji + 1) ids) ++
          flat_map (fun '(k, yl) => map (fun lane => (k + lane, fun v => nsub N v (nmul N yl (d lane)))) (seq 0 L))
                   (combine (skipn (ji_ndep ji + 1) ids) yls))
         out.
  Proof.
    cbn [jit_jac_block].
    change (PLoadRC N (ji_process ji * L) :: map (fun id => PMulState N (id * L)) deps ++
            map (fun k => PAddRate N k) (firstn (ji_ndep ji + 1) ids) ++
            map (fun '(k, yl) => PSubRateYield N k yl) (combine (skipn (ji_ndep ji + 1) ids) yls))
      with ((PLoadRC N (ji_process ji * L) :: map (fun id => PMulState N (id * L)) deps) ++
            (map (fun k => PAddRate N k) (firstn (ji_ndep ji + 1) ids) ++
             map (fun '(k, yl) => PSubRateYield N k yl) (combine (skipn (ji_ndep ji + 1) ids) yls))).
    rewrite prun_app, prun_load_mul.
    rewrite prun_out.
    2:{ apply Forall_app; split; apply Forall_forall; intros ins Hin; apply in_map_iff in Hin;
        destruct Hin as [x [<- _]]; [exact I | destruct x; exact I]. }
    cbn [snd]. f_equal. cbv zeta. rewrite flat_map_app. f_equal.
    - rewrite flat_map_concat_map, map_map, <- flat_map_concat_map.
      apply flat_map_ext. intro k. cbn [out_ops]. unfold lane_ops.
      apply map_ext_in. intros l Hl. apply in_seq in Hl. rewrite nth_map_seq by lia. reflexivity.
    - rewrite flat_map_concat_map, map_map, <- flat_map_concat_map.
      apply flat_map_ext. intros [k yl]. cbn [out_ops]. unfold lane_ops.
      apply map_ext_in. intros l Hl. apply in_seq in Hl. rewrite nth_map_seq by lia.
      rewrite (mul_comm _ yl). reflexivity.
  Qed.

  Theorem jit_jacobian_correct L p fids ncells nspec nrxn nnz rc y jac :
    vm_groups L ncells = 1 ->
    jit_sub_jacobian N L p fids rc y jac = sub_jacobian N (Grouped L) p fids ncells nspec nrxn nnz rc y jac.
  Proof.
    intro Hg. unfold jit_sub_jacobian, sub_jacobian, jit_jac_prog, jac_ops_vec. rewrite Hg.
    cbn [seq flat_map]. rewrite app_nil_r.
    apply prun_flat_map_snd. intros [[[ji deps] yls] ids] scr out _.
    rewrite jac_block_correct. reflexivity.
  Qed.

  Theorem jit_alpha_minus_jacobian_correct L diag alpha jac :
    jit_alpha_minus_jacobian N L diag alpha jac = cpu_alpha_minus_jacobian_group N L diag alpha jac.
  Proof. reflexivity. Qed.

  (* ---------------- LU decomposition: no hypothesis on the arithmetic ---------------- *)
  Lemma lrun_app A a b st : lrun N A (a ++ b) st = lrun N A b (lrun N A a st).
  Proof. unfold lrun. apply fold_left_app. Qed.

  Lemma lrun_flat_map {X} A (F : X -> list (linstr N)) (l : list X) st :
    lrun N A (flat_map F l) st = fold_left (fun st x => lrun N A (F x) st) l st.
  Proof. revert st; induction l as [|x l IH]; intros st; cbn [flat_map fold_left]; [reflexivity|].
         rewrite lrun_app. apply IH. Qed.

  Lemma lrun_fms_U A i k js : forall Lm Um,
    lrun N A (map (fun j => LFms N MU i k i j j k) js) (Lm, Um)
    = (Lm, fold_left (fun U j => mset N U i k (nsub N (U i k) (nmul N (Lm i j) (U j k)))) js Um).
  Proof.
    induction js as [|j js IH]; intros Lm Um; [reflexivity|].
    cbn [map]. unfold lrun; cbn [fold_left]. fold (lrun N A (map (fun j => LFms N MU i k i j j k) js)).
    cbn [lstep lput lget fst snd]. apply IH.
  Qed.

  Lemma lrun_fms_L A k i js : forall Lm Um,
    lrun N A (map (fun j => LFms N ML k i k j j i) js) (Lm, Um)
    = (fold_left (fun Lx j => mset N Lx k i (nsub N (Lx k i) (nmul N (Lx k j) (Um j i)))) js Lm, Um).
  Proof.
    induction js as [|j js IH]; intros Lm Um; [reflexivity|].
    cbn [map]. unfold lrun; cbn [fold_left]. fold (lrun N A (map (fun j => LFms N ML k i k j j i) js)).
    cbn [lstep lput lget fst snd]. apply IH.
  Qed.

  Lemma lrun_cons A ins prog st : lrun N A (ins :: prog) st = lrun N A prog (lstep N A st ins).
  Proof. reflexivity. Qed.

  (* row i of U: the lower matrix is only read *)
  Lemma lu_upper_part A Ap Lp Up i Lm ks : forall Um,
    lrun N A (flat_map (fun k =>
        let js := filter (fun j => Lp i j && Up j k) (seq 0 i) in
        if negb (Ap i k) && (length js =? 0) && negb (k =? i) then []
        else (if Ap i k then LCopyA N MU i k else LConst N MU i k (n0 N)) :: map (fun j => LFms N MU i k i j j k) js) ks)
      (Lm, Um)
    = (Lm, fold_left (fun U k =>
        let js := filter (fun j => Lp i j && Up j k) (seq 0 i) in
        if negb (Ap i k) && (length js =? 0) && negb (k =? i) then U
        else
          let U' := mset N U i k (if Ap i k then A i k else n0 N) in
          fold_left (fun U j => mset N U i k (nsub N (U i k) (nmul N (Lm i j) (U j k)))) js U') ks Um).
  Proof.
    induction ks as [|k ks IH]; intros Um; [reflexivity|].
    cbn [flat_map fold_left]. rewrite lrun_app. cbv zeta.
    destruct (negb (Ap i k) && (length (filter (fun j => Lp i j && Up j k) (seq 0 i)) =? 0) && negb (k =? i)).
    - apply IH.
    - rewrite lrun_cons. destruct (Ap i k); cbn [lstep lput fst snd]; rewrite lrun_fms_U; apply IH.
  Qed.

  (* column i of L: the upper matrix is only read *)
  Lemma lu_lower_part A Ap Lp Up i Um ks : forall Lm,
    lrun N A (flat_map (fun k =>
        let js := filter (fun j => Lp k j && Up j i) (seq 0 i) in
        if negb (Ap k i) && (length js =? 0) then []
        else (if Ap k i then LCopyA N ML k i else LConst N ML k i (n0 N))
               :: map (fun j => LFms N ML k i k j j i) js ++ [LDivU N k i i i]) ks)
      (Lm, Um)
    = (fold_left (fun Lx k =>
        let js := filter (fun j => Lp k j && Up j i) (seq 0 i) in
        if negb (Ap k i) && (length js =? 0) then Lx
        else
          let L' := mset N Lx k i (if Ap k i then A k i else n0 N) in
          let L'' := fold_left (fun Lx j => mset N Lx k i (nsub N (Lx k i) (nmul N (Lx k j) (Um j i)))) js L' in
          mset N L'' k i (ndiv N (L'' k i) (Um i i))) ks Lm, Um).
  Proof.
    induction ks as [|k ks IH]; intros Lm; [reflexivity|].
    cbn [flat_map fold_left]. rewrite lrun_app. cbv zeta.
    destruct (negb (Ap k i) && (length (filter (fun j => Lp k j && Up j i) (seq 0 i)) =? 0)).
    - apply IH.
    - rewrite lrun_cons. rewrite lrun_app.
      destruct (Ap k i); cbn [lstep lput fst snd]; rewrite lrun_fms_L; rewrite lrun_cons;
        cbn [lstep lput fst snd]; unfold lrun at 1; cbn [fold_left]; apply IH.
  Qed.

  Theorem jit_lu_correct n A Ap Lp Up L0 U0 :
    jit_decompose N n A Ap Lp Up L0 U0 = doolittle_num N n A Ap Lp Up L0 U0.
  Proof.
    unfold jit_decompose, jit_lu_prog, doolittle_num. rewrite lrun_flat_map.
    apply fold_left_ext_in. intros [Lm Um] i _.
    unfold jit_lu_row. rewrite !lrun_app.
    rewrite lu_upper_part. rewrite lrun_cons. cbn [lstep lput fst snd lrun fold_left].
    fold (lrun N A). rewrite lu_lower_part. reflexivity.
  Qed.

  (* ---------------- linear solve ---------------- *)
  Lemma xrun_app Lm Um a b x :
    fold_left (xstep N Lm Um) (a ++ b) x = fold_left (xstep N Lm Um) b (fold_left (xstep N Lm Um) a x).
  Proof. apply fold_left_app. Qed.

  Lemma xrun_flat_map {X} Lm Um (F : X -> list xinstr) (l : list X) x :
    fold_left (xstep N Lm Um) (flat_map F l) x = fold_left (fun x e => fold_left (xstep N Lm Um) (F e) x) l x.
  Proof. revert x; induction l as [|e l IH]; intros x; cbn [flat_map fold_left]; [reflexivity|].
         rewrite xrun_app. apply IH. Qed.

  Lemma fold_left_map {A B C} (f : A -> C -> A) (g : B -> C) (l : list B) (a : A) :
    fold_left f (map g l) a = fold_left (fun a b => f a (g b)) l a.
  Proof. revert a; induction l as [|b l IH]; intros a; cbn [map fold_left]; [reflexivity | apply IH]. Qed.

  Lemma fold_left_ext2 {A B} (f g f' g' : A -> B -> A) (l l' : list B) (a : A) :
    (forall a b, f a b = g a b) -> (forall a b, f' a b = g' a b) ->
    fold_left f l (fold_left f' l' a) = fold_left g l (fold_left g' l' a).
  Proof.
    intros H H'. rewrite (fold_left_ext_in f' g' l' a) by (intros; apply H').
    apply fold_left_ext_in. intros; apply H.
  Qed.

  Theorem jit_lin_solve_correct n Lp Up Lm Um b :
    jit_lin_solve N n Lp Up Lm Um b = lin_solve N n Lp Up Lm Um b.
  Proof.
    unfold jit_lin_solve, jit_solve_prog, lin_solve. rewrite xrun_app, !xrun_flat_map.
    apply fold_left_ext2.
    - intros x i. rewrite xrun_app. cbn [fold_left xstep].
      rewrite fold_left_map, <- fold_left_filter. cbn [xstep].
      rewrite (fold_left_ext_in
                 (fun a b0 => if Up i b0 then vset N a i (nsub N (a i) (nmul N (a b0) (Um i b0))) else a)
                 (fun x0 j => if Up i j then vset N x0 i (nsub N (x0 i) (nmul N (Um i j) (x0 j))) else x0)).
      + reflexivity.
      + intros a j _. rewrite (mul_comm (a j)). reflexivity.
    - intros x i. rewrite xrun_app. cbn [fold_left xstep].
      rewrite fold_left_map, <- fold_left_filter. cbn [xstep]. reflexivity.
  Qed.
End JitProofs.

(* ---------------- cell-count guards ---------------- *)
Theorem jit_builder_serves_iff L cells : jit_builder_outcome L cells = JitServes <-> cells = L.
Proof.
  unfold jit_builder_outcome, jit_lu_guard, jit_linear_solver_guard.
  destruct (Nat.ltb_spec L cells) as [Hlt|Hge]; destruct (Nat.eqb_spec cells L) as [He|Hne]; split; intro H;
    try discriminate; try reflexivity; try assumption; try lia.
Qed.

Theorem jit_rosenbrock_serves_iff L cells : jit_rosenbrock_guard L cells = JitServes <-> cells = L.
Proof.
  unfold jit_rosenbrock_guard. destruct (Nat.eqb_spec L cells) as [He|Hne]; split; intro H;
    try discriminate; try reflexivity; try lia.
Qed.
