(* Properties_C20.v — C20: invalid configuration / input is rejected with the documented error.
   gen/ErrCodes.v is regenerated from util/error.hpp and the enum / category definitions on every
   run, so the table below is re-checked against what the headers say now. *)
From Coq Require Import String List Bool.
Import ListNotations.
From Model Require Import ErrCodes Errors.
Local Open Scope string_scope.

(* every condition named by the property has a documented (category, code) in the current
   headers, and these are the values the harness must observe *)
Theorem C20_every_condition_has_its_documented_code :
  map expected all_faults =
  [ Some ("MICM Solver Builder", 2); Some ("MICM Solver Builder", 3); Some ("MICM Solver Builder", 4);
    Some ("MICM Process Set", 1); Some ("MICM Process Set", 2); Some ("MICM Solver Builder", 1);
    Some ("MICM State", 1); Some ("MICM State", 3); Some ("MICM State", 3);
    Some ("MICM State", 2); Some ("MICM State", 5); Some ("MICM State", 5);
    Some ("MICM State", 5); Some ("MICM State", 4);
    Some ("MICM Process", 1); Some ("MICM Species", 1);
    Some ("MICM Matrix", 1); Some ("MICM Matrix", 2); Some ("MICM Matrix", 3); Some ("MICM Matrix", 5); Some ("MICM Matrix", 4);
    Some ("MICM Matrix", 1); Some ("MICM Matrix", 2); Some ("MICM Matrix", 3); None; None;
    Some ("MICM Matrix", 1); Some ("MICM Solver Builder", 3) ]%nat.
Proof. vm_compute. reflexivity. Qed.
Print Assumptions C20_every_condition_has_its_documented_code.

(* the builder reports the first failing check in its documented order; in particular an empty
   species list is reported as MissingChemicalSpecies whatever the reordering option *)
Theorem C20_builder_check_order :
  forall b, build_outcome b = None <->
    (bi_has_system b = true /\ bi_has_reactions b = true /\ bi_nspecies b <> 0%nat /\
     bi_unknown_reactant b = false /\ bi_unknown_product b = false /\
     (bi_unused_disallowed b && bi_has_unused b = false)).
Proof.
  intros b. unfold build_outcome.
  destruct (bi_has_system b), (bi_has_reactions b), (PeanoNat.Nat.eqb_spec (bi_nspecies b) 0),
           (bi_unknown_reactant b), (bi_unknown_product b), (bi_unused_disallowed b && bi_has_unused b); cbn;
    split; intros H; try discriminate; try tauto; try (repeat split; congruence);
    try (destruct H as [? [? [? [? [? ?]]]]]; congruence).
Qed.
Print Assumptions C20_builder_check_order.
