(* ProcessSetM.v — model of micm::ProcessSet (process/process_set.hpp):
   constructor (flattened tables), NonZeroJacobianElements, SetJacobianFlatIds,
   AddForcingTerms and SubtractJacobianTerms, row-major and grouped variants.
   Species names are naturals; the variable map is an association list name -> index. *)
From Model Require Export Base Dense Sparse.
Local Open Scope nat_scope.

Definition E_ReactantDoesNotExist := 1.
Definition E_ProductDoesNotExist := 2.

Section PS.
  Variable N : Num.
  Notation T := (T N).

  (* a species occurrence: name and IsParameterized() *)
  Record spc := mkSpc { s_name : nat; s_param : bool }.
  Record reaction := mkRxn { r_reactants : list spc; r_products : list (spc * T) }.

  Definition vmap := list (nat * nat).
  Fixpoint vlookup (m : vmap) (name : nat) : option nat :=
    match m with
    | [] => None
    | (k, v) :: t => if k =? name then Some v else vlookup t name
    end.

  (* ---------- flattened tables (the data members of ProcessSet) ---------- *)
  Record jinfo := mkJinfo { ji_process : nat; ji_ind : nat; ji_ndep : nat; ji_nprod : nat }.
  Record pstab := mkPs {
    ps_nreact : list nat;  ps_rids : list nat;
    ps_nprod  : list nat;  ps_pids : list nat;  ps_yields : list T;
    ps_jinfo  : list jinfo; ps_jrids : list nat; ps_jpids : list nat; ps_jyields : list T }.

  (* non-parameterised reactants resolved through the map; Err 1 on the first unknown *)
  Fixpoint resolve_reactants (m : vmap) (l : list spc) : res (list nat) :=
    match l with
    | [] => Ok []
    | s :: t =>
      if s_param s then resolve_reactants m t
      else match vlookup m (s_name s) with
           | None => Err E_ReactantDoesNotExist
           | Some i => match resolve_reactants m t with Ok r => Ok (i :: r) | Err c => Err c end
           end
    end.
  Fixpoint resolve_products (m : vmap) (l : list (spc * T)) : res (list (nat * T)) :=
    match l with
    | [] => Ok []
    | (s, y) :: t =>
      if s_param s then resolve_products m t
      else match vlookup m (s_name s) with
           | None => Err E_ProductDoesNotExist
           | Some i => match resolve_products m t with Ok r => Ok ((i, y) :: r) | Err c => Err c end
           end
    end.

  (* structured view of one reaction after resolution *)
  Definition rrxn := (list nat * list (nat * T))%type.

  Fixpoint resolve_all (m : vmap) (rxns : list reaction) : res (list rrxn) :=
    match rxns with
    | [] => Ok []
    | r :: t =>
      match resolve_reactants m (r_reactants r) with
      | Err c => Err c
      | Ok rs =>
        match resolve_products m (r_products r) with
        | Err c => Err c
        | Ok ps => match resolve_all m t with Ok l => Ok ((rs, ps) :: l) | Err c => Err c end
        end
      end
    end.

  (* drop the first occurrence of x *)
  Fixpoint remove_first (x : nat) (l : list nat) : list nat :=
    match l with
    | [] => []
    | h :: t => if h =? x then t else h :: remove_first x t
    end.

  (* variable_map sorted by index (std::sort on .second); insertion sort on (name,index) *)
  Fixpoint insert_by_index (e : nat * nat) (l : list (nat * nat)) : list (nat * nat) :=
    match l with
    | [] => [e]
    | h :: t => if snd e <=? snd h then e :: l else h :: insert_by_index e t
    end.
  Definition sort_by_index (m : vmap) : list (nat * nat) := fold_right insert_by_index [] m.

  (* Jacobian records: for every independent variable (by index), every process, every
     reactant occurrence *by name* of that variable: one record whose dependent reactants
     are the resolved reactants with the first occurrence of the variable's index removed. *)
  Definition jac_records (m : vmap) (rxns : list reaction) (rr : list rrxn)
    : list (jinfo * list nat * list (nat * T)) :=
    flat_map (fun iv =>
      flat_map (fun '(i_process, (r, (rs, ps))) =>
        flat_map (fun s =>
          if s_name s =? fst iv then
            let deps := remove_first (snd iv) rs in
            [(mkJinfo i_process (snd iv) (length deps) (length ps), deps, ps)]
          else [])
        (r_reactants r))
      (combine (seq 0 (length rxns)) (combine rxns rr)))
    (sort_by_index m).

  Definition ps_build (m : vmap) (rxns : list reaction) : res pstab :=
    match resolve_all m rxns with
    | Err c => Err c
    | Ok rr =>
      let jr := jac_records m rxns rr in
      Ok (mkPs (map (fun x => length (fst x)) rr) (concat (map fst rr))
               (map (fun x => length (snd x)) rr) (concat (map (fun x => map fst (snd x)) rr))
               (concat (map (fun x => map snd (snd x)) rr))
               (map (fun x => fst (fst x)) jr)
               (concat (map (fun x => snd (fst x)) jr))
               (concat (map (fun x => map fst (snd x)) jr))
               (concat (map (fun x => map snd (snd x)) jr)))
    end.

  (* ---------- iterator walks: counts + flat table -> structured list ---------- *)
  Fixpoint unflatten {A} (counts : list nat) (flat : list A) : list (list A) :=
    match counts with
    | [] => []
    | n :: cs => firstn n flat :: unflatten cs (skipn n flat)
    end.

  (* the reactions as the kernels see them: (reactant ids, (product id, yield)) *)
  Definition ps_rxns (p : pstab) : list rrxn :=
    combine (unflatten (ps_nreact p) (ps_rids p))
            (map (fun '(a, b) => combine a b)
                 (combine (unflatten (ps_nprod p) (ps_pids p)) (unflatten (ps_nprod p) (ps_yields p)))).

  (* ---------- NonZeroJacobianElements ---------- *)
  Definition nonzero_jac (p : pstab) : list (nat * nat) :=
    set_of (flat_map (fun '(rs, ps) =>
              flat_map (fun ind => map (fun dep => (dep, ind)) rs ++ map (fun pr => (fst pr, ind)) ps) rs)
              (ps_rxns p)).

  (* ---------- Jacobian records as the kernels see them ---------- *)
  Definition ps_jrecs (p : pstab) : list (jinfo * list nat * list T) :=
    combine (combine (ps_jinfo p) (unflatten (map ji_ndep (ps_jinfo p)) (ps_jrids p)))
            (unflatten (map ji_nprod (ps_jinfo p)) (ps_jyields p)).
  Definition ps_jprods (p : pstab) : list (list nat) :=
    unflatten (map ji_nprod (ps_jinfo p)) (ps_jpids p).

  (* SetJacobianFlatIds: vi = matrix.VectorIndex(0, row, col); an Err models the throw *)
  Fixpoint res_map {A B} (f : A -> res B) (l : list A) : res (list B) :=
    match l with
    | [] => Ok []
    | a :: t => match f a with
                | Err c => Err c
                | Ok b => match res_map f t with Ok r => Ok (b :: r) | Err c => Err c end
                end
    end.

  Definition flat_ids (vi : nat -> nat -> res nat) (p : pstab) : res (list nat) :=
    res_map (fun '(row, col) => vi row col)
      (flat_map (fun '((ji, deps, _), prods) =>
                   map (fun r => (r, ji_ind ji)) deps ++ [(ji_ind ji, ji_ind ji)] ++
                   map (fun r => (r, ji_ind ji)) prods)
                (combine (ps_jrecs p) (ps_jprods p))).

  (* ---------- update lists ---------- *)
  Definition op := (nat * (T -> T))%type.
  Definition run_ops (ops : list op) (f : list T) : list T :=
    fold_left (fun f o => modify (n0 N) (fst o) (snd o) f) ops f.

  Definition rate_of (rc : T) (rs : list nat) (y : nat -> T) : T :=
    fold_left (fun r id => nmul N r (y id)) rs rc.

  (* AddForcingTerms, row-major: for cell, for reaction: reactants then products *)
  Definition forcing_ops_rm (p : pstab) (ncells nspec nrxn : nat) (rc y : list T) : list op :=
    flat_map (fun c =>
      flat_map (fun '(i, (rs, ps)) =>
        let rate := rate_of (nth (rm_addr nrxn c i) rc (n0 N)) rs
                            (fun id => nth (rm_addr nspec c id) y (n0 N)) in
        map (fun id => (rm_addr nspec c id, fun v => nsub N v rate)) rs ++
        map (fun '(id, yl) => (rm_addr nspec c id, fun v => nadd N v (nmul N yl rate))) ps)
      (combine (seq 0 (length (ps_rxns p))) (ps_rxns p)))
    (seq 0 ncells).

  (* AddForcingTerms, grouped: for group, for reaction: a rate per lane (padding lanes
     included); for reactant, for lane ; for product, for lane *)
  Definition forcing_ops_vec (L : nat) (p : pstab) (ncells nspec nrxn : nat) (rc y : list T) : list op :=
    flat_map (fun g =>
      let off_rc := g * (L * nrxn) in
      let off_y := g * (L * nspec) in
      flat_map (fun '(i, (rs, ps)) =>
        let rate := fun lane =>
          rate_of (nth (off_rc + i * L + lane) rc (n0 N)) rs
                  (fun id => nth (off_y + id * L + lane) y (n0 N)) in
        flat_map (fun id => map (fun lane => (off_y + id * L + lane, fun v => nsub N v (rate lane)))
                                (seq 0 L)) rs ++
        flat_map (fun '(id, yl) =>
                    map (fun lane => (off_y + id * L + lane, fun v => nadd N v (nmul N yl (rate lane))))
                        (seq 0 L)) ps)
      (combine (seq 0 (length (ps_rxns p))) (ps_rxns p)))
    (seq 0 (vm_groups L ncells)).

  Definition add_forcing (ly : layout) (p : pstab) (ncells nspec nrxn : nat) (rc y f : list T) : list T :=
    match ly with
    | RowMajor => run_ops (forcing_ops_rm p ncells nspec nrxn rc y) f
    | Grouped L => run_ops (forcing_ops_vec L p ncells nspec nrxn rc y) f
    end.

  (* SubtractJacobianTerms: records with their flat ids (count ndep+1+nprod each) *)
  Definition jrec_ids (p : pstab) (fids : list nat) : list (list nat) :=
    unflatten (map (fun ji => ji_ndep ji + 1 + ji_nprod ji) (ps_jinfo p)) fids.

  (* scalar variant: cell offset = i_cell * FlatBlockSize *)
  Definition jac_ops_rm (p : pstab) (fids : list nat) (ncells nspec nrxn nnz : nat) (rc y : list T) : list op :=
    flat_map (fun c =>
      flat_map (fun '((ji, deps, yls), ids) =>
        let d := rate_of (nth (rm_addr nrxn c (ji_process ji)) rc (n0 N)) deps
                         (fun id => nth (rm_addr nspec c id) y (n0 N)) in
        map (fun k => (c * nnz + k, fun v => nadd N v d)) (firstn (ji_ndep ji + 1) ids) ++
        map (fun '(k, yl) => (c * nnz + k, fun v => nsub N v (nmul N yl d)))
            (combine (skipn (ji_ndep ji + 1) ids) yls))
      (combine (ps_jrecs p) (jrec_ids p fids)))
    (seq 0 ncells).

  (* vector variant: group offset = i_group * GroupSize ; slot = offset + flat_id + lane *)
  Definition jac_ops_vec (L : nat) (p : pstab) (fids : list nat) (ncells nspec nrxn nnz : nat)
             (rc y : list T) : list op :=
    flat_map (fun g =>
      let off_rc := g * (L * nrxn) in
      let off_y := g * (L * nspec) in
      let off_j := g * (L * nnz) in
      flat_map (fun '((ji, deps, yls), ids) =>
        let d := fun lane =>
          rate_of (nth (off_rc + ji_process ji * L + lane) rc (n0 N)) deps
                  (fun id => nth (off_y + id * L + lane) y (n0 N)) in
        flat_map (fun k => map (fun lane => (off_j + k + lane, fun v => nadd N v (d lane))) (seq 0 L))
                 (firstn (ji_ndep ji + 1) ids) ++
        flat_map (fun '(k, yl) =>
                    map (fun lane => (off_j + k + lane, fun v => nsub N v (nmul N yl (d lane)))) (seq 0 L))
                 (combine (skipn (ji_ndep ji + 1) ids) yls))
      (combine (ps_jrecs p) (jrec_ids p fids)))
    (seq 0 (vm_groups L ncells)).

  Definition sub_jacobian (ly : layout) (p : pstab) (fids : list nat) (ncells nspec nrxn nnz : nat)
             (rc y jac : list T) : list T :=
    match ly with
    | RowMajor => run_ops (jac_ops_rm p fids ncells nspec nrxn nnz rc y) jac
    | Grouped L => run_ops (jac_ops_vec L p fids ncells nspec nrxn nnz rc y) jac
    end.
End PS.
