(* Errors.v — the documented error of every invalid configuration / input condition named by
   property C20, as (error enumeration, member): the numeric code and the category string are
   looked up in gen/ErrCodes.v (regenerated from the headers).  Also the order in which
   SolverBuilder::Build performs its checks, and the State setters' validation. *)
From Coq Require Import String List Arith Bool.
Import ListNotations.
From Model Require Import ErrCodes.
Local Open Scope string_scope.

Inductive fault :=
  | BuildNoSystem | BuildNoReactions | BuildEmptySpecies | BuildUnknownReactant | BuildUnknownProduct
  | BuildUnusedSpecies
  | SetUnknownSpecies | SetConcWrongLength | SetConcScalarMultiCell
  | SetParamUnknownLabel | SetParamWrongLength | SetParamScalarMultiCell
  | UnsafeSetWrongCells | UnsafeSetWrongParams
  | SurfaceTwoReactants | SpeciesMissingProperty
  | MatrixRowSizeMismatch | MatrixRagged | SparseOutOfRange | SparseZeroElement | SparseMissingBlockIndex
  | VectorMatrixRowSizeMismatch | VectorMatrixRagged | BuilderElementOutOfRange
  | ToleranceOtherPhase | ToleranceParameterised
  | UnsafeSetRaggedRow | BuildReactionsCleared.

(* Some (enum, member) = the call raises std::system_error with that code; None = the call is valid *)
Definition documented (f : fault) : option (string * string) :=
  match f with
  | BuildNoSystem => Some ("MicmSolverBuilderErrc", "MissingChemicalSystem")
  | BuildNoReactions => Some ("MicmSolverBuilderErrc", "MissingReactions")
  | BuildEmptySpecies => Some ("MicmSolverBuilderErrc", "MissingChemicalSpecies")
  | BuildUnknownReactant => Some ("MicmProcessSetErrc", "ReactantDoesNotExist")
  | BuildUnknownProduct => Some ("MicmProcessSetErrc", "ProductDoesNotExist")
  | BuildUnusedSpecies => Some ("MicmSolverBuilderErrc", "UnusedSpecies")
  | SetUnknownSpecies => Some ("MicmStateErrc", "UnknownSpecies")
  | SetConcWrongLength | SetConcScalarMultiCell =>
    Some ("MicmStateErrc", "IncorrectNumberOfConcentrationValuesForMultiGridcellState")
  | SetParamUnknownLabel => Some ("MicmStateErrc", "UnknownRateConstantParameter")
  | SetParamWrongLength | SetParamScalarMultiCell | UnsafeSetWrongCells =>
    Some ("MicmStateErrc", "IncorrectNumberOfCustomRateParameterValuesForMultiGridcellState")
  | UnsafeSetWrongParams => Some ("MicmStateErrc", "IncorrectNumberOfCustomRateParameterValues")
  | SurfaceTwoReactants => Some ("MicmProcessErrc", "TooManyReactantsForSurfaceReaction")
  | SpeciesMissingProperty => Some ("MicmSpeciesErrc", "PropertyNotFound")
  | MatrixRowSizeMismatch | VectorMatrixRowSizeMismatch => Some ("MicmMatrixErrc", "RowSizeMismatch")
  | MatrixRagged | VectorMatrixRagged => Some ("MicmMatrixErrc", "InvalidVector")
  | SparseOutOfRange | BuilderElementOutOfRange => Some ("MicmMatrixErrc", "ElementOutOfRange")
  | SparseZeroElement => Some ("MicmMatrixErrc", "ZeroElementAccess")
  | SparseMissingBlockIndex => Some ("MicmMatrixErrc", "MissingBlockIndex")
  | ToleranceOtherPhase | ToleranceParameterised => None
  | UnsafeSetRaggedRow => Some ("MicmMatrixErrc", "RowSizeMismatch")      (* the row assignment of the parameter matrix *)
  | BuildReactionsCleared => Some ("MicmSolverBuilderErrc", "MissingReactions")
  end.

Definition all_faults : list fault :=
  [BuildNoSystem; BuildNoReactions; BuildEmptySpecies; BuildUnknownReactant; BuildUnknownProduct; BuildUnusedSpecies;
   SetUnknownSpecies; SetConcWrongLength; SetConcScalarMultiCell; SetParamUnknownLabel; SetParamWrongLength;
   SetParamScalarMultiCell; UnsafeSetWrongCells; UnsafeSetWrongParams; SurfaceTwoReactants; SpeciesMissingProperty;
   MatrixRowSizeMismatch; MatrixRagged; SparseOutOfRange; SparseZeroElement; SparseMissingBlockIndex;
   VectorMatrixRowSizeMismatch; VectorMatrixRagged; BuilderElementOutOfRange; ToleranceOtherPhase; ToleranceParameterised;
   UnsafeSetRaggedRow; BuildReactionsCleared].

Fixpoint lookup_code (e m : string) (l : list (string * string * nat)) : option nat :=
  match l with
  | [] => None
  | (e', m', c) :: t => if String.eqb e e' && String.eqb m m' then Some c else lookup_code e m t
  end.
Fixpoint lookup_cat (e : string) (l : list (string * string)) : option string :=
  match l with
  | [] => None
  | (e', c) :: t => if String.eqb e e' then Some c else lookup_cat e t
  end.

(* what the call raises, as the harness reports it: (category string, numeric code) *)
Definition expected (f : fault) : option (string * nat) :=
  match documented f with
  | None => None
  | Some (e, m) =>
    match lookup_cat e enum_category, lookup_code e m enum_entries with
    | Some c, Some k => Some (c, k)
    | _, _ => Some ("UNDOCUMENTED", 0)
    end
  end.

(* the fault numbering of the harness (harness/drv_errors.cpp) *)
Definition harness_faults : list fault :=
  [BuildNoSystem (* unused slot 0 *);
   BuildNoSystem; BuildNoReactions; BuildEmptySpecies; BuildUnknownReactant; BuildUnknownProduct; BuildUnusedSpecies;
   SetUnknownSpecies; SetConcWrongLength; SetConcScalarMultiCell; SetParamUnknownLabel; SetParamWrongLength;
   UnsafeSetWrongCells; UnsafeSetWrongParams; SurfaceTwoReactants; SpeciesMissingProperty;
   MatrixRowSizeMismatch; MatrixRagged; SparseOutOfRange; SparseZeroElement; SparseMissingBlockIndex;
   VectorMatrixRowSizeMismatch; VectorMatrixRagged; BuilderElementOutOfRange; SetParamScalarMultiCell;
   ToleranceOtherPhase; ToleranceParameterised; UnsafeSetRaggedRow; BuildReactionsCleared].
Definition fault_of_id (n : nat) : option fault := nth_error harness_faults n.

(* ---- order of the checks of SolverBuilder::Build (after the repair 93d1584) ---- *)
Record build_input := mkBuild {
  bi_has_system : bool; bi_has_reactions : bool; bi_nspecies : nat;
  bi_unused_disallowed : bool; bi_has_unused : bool; bi_unknown_reactant : bool; bi_unknown_product : bool }.

Definition build_outcome (b : build_input) : option fault :=
  if negb (bi_has_system b) then Some BuildNoSystem
  else if negb (bi_has_reactions b) then Some BuildNoReactions
  else if Nat.eqb (bi_nspecies b) 0 then Some BuildEmptySpecies
  else if (* GetSpeciesMap with reordering builds a ProcessSet first *) bi_unknown_reactant b then Some BuildUnknownReactant
  else if bi_unknown_product b then Some BuildUnknownProduct
  else if bi_unused_disallowed b && bi_has_unused b then Some BuildUnusedSpecies
  else None.
