(* ConcProofs.v — disjoint footprints serialise: any interleaving gives every thread its serial result. *)
From Coq Require Import List Arith Lia Bool.
Import ListNotations.
From Model Require Import Conc.

Lemma In_firstn {A} (x : A) n l : In x (firstn n l) -> In x l.
Proof. revert l; induction n as [|n IH]; intros [|y l] H; cbn in *; try contradiction. destruct H as [-> | H]; [left; reflexivity | right; apply IH; exact H]. Qed.

Section Proofs.
  Variable loc : Type.
  Variable V : Type.
  Variable own : nat -> loc -> Prop.
  Variable shared : loc -> Prop.
  Hypothesis own_disjoint : forall t u l, own t l -> own u l -> t = u.
  Hypothesis own_not_shared : forall t l, own t l -> ~ shared l.

  Notation store := (loc -> V).
  Notation action := (store -> store).
  Notation respects := (@respects loc V own shared).

  Definition agree (t : nat) (s s' : store) : Prop := forall l, own t l \/ shared l -> s l = s' l.

  Lemma action_keeps_agree t a s s' : respects t a -> agree t s s' -> agree t (a s) (a s').
  Proof.
    intros [Hw Hr] Hag l [Ho | Hs].
    - apply Hr; assumption.
    - assert (Hn : ~ own t l) by (intro Ho; exact (own_not_shared _ _ Ho Hs)).
      rewrite (Hw s l Hn), (Hw s' l Hn). apply Hag. right; exact Hs.
  Qed.

  Lemma serial_agree t acts : (forall a, In a acts -> respects t a) ->
    forall s s', agree t s s' -> agree t (serial acts s) (serial acts s').
  Proof.
    induction acts as [|a acts IH]; intros Hall s s' Hag; cbn [serial fold_left]; [exact Hag|].
    apply IH; [intros b Hb; apply Hall; right; exact Hb|].
    apply action_keeps_agree; [apply Hall; left; reflexivity | exact Hag].
  Qed.

  Lemma other_thread_invisible t u a s : t <> u -> respects u a -> agree t (a s) s.
  Proof.
    intros Hne [Hw _] l [Ho | Hs]; apply Hw.
    - intro Hu. apply Hne. exact (own_disjoint _ _ _ Ho Hu).
    - intro Hu. exact (own_not_shared _ _ Hu Hs).
  Qed.

  Lemma count_cons_eq t sched : count t (t :: sched) = S (count t sched).
  Proof. unfold count; cbn [filter]; rewrite Nat.eqb_refl; reflexivity. Qed.
  Lemma count_cons_ne t u sched : t <> u -> count t (u :: sched) = count t sched.
  Proof. intro H; unfold count; cbn [filter]. destruct (Nat.eqb_spec t u); [contradiction|reflexivity]. Qed.

  Lemma serial_cons a acts (s : store) : serial (a :: acts) s = serial acts (a s).
  Proof. reflexivity. Qed.

  (* every thread, every schedule: the locations the thread owns hold what its own calls, run alone
     from the initial store, would have left there; what is left of its program is the rest of it *)
  Theorem interleaving_equals_serial_prefix :
    forall sched (progs : nat -> list action) (s : store),
      (forall t a, In a (progs t) -> respects t a) ->
      forall t,
        agree t (snd (exec sched progs s)) (serial (firstn (count t sched) (progs t)) s)
        /\ fst (exec sched progs s) t = skipn (count t sched) (progs t).
  Proof.
    induction sched as [|u sched IH]; intros progs s Hall t.
    - cbn. split; [intros l _; reflexivity | reflexivity].
    - cbn [exec]. unfold sched_step. destruct (progs u) as [|a rest] eqn:Hpu.
      + (* thread u has finished: a no-op *)
        cbv beta iota.
        destruct (IH progs s Hall t) as [IHa IHb].
        destruct (Nat.eq_dec t u) as [-> | Hne].
        * rewrite count_cons_eq, Hpu in *. rewrite firstn_nil in *. rewrite skipn_nil in *.
          split; assumption.
        * rewrite (count_cons_ne _ _ _ Hne). split; assumption.
      + cbv beta iota. set (progs' := fun v => if Nat.eqb v u then rest else progs v).
        assert (Hall' : forall v b, In b (progs' v) -> respects v b).
        { intros v b Hb. unfold progs' in Hb. destruct (Nat.eqb_spec v u) as [-> | Hvu].
          - apply Hall. rewrite Hpu. right; exact Hb.
          - apply Hall; exact Hb. }
        fold progs'. destruct (IH progs' (a s) Hall' t) as [IHa IHb].
        destruct (Nat.eq_dec t u) as [-> | Hne].
        * rewrite count_cons_eq, Hpu. cbn [firstn skipn]. rewrite serial_cons.
          unfold progs' in IHa, IHb at 2. rewrite Nat.eqb_refl in IHa, IHb. split; assumption.
        * rewrite (count_cons_ne _ _ _ Hne).
          assert (Hpt : progs' t = progs t).
          { unfold progs'. destruct (Nat.eqb_spec t u); [contradiction|reflexivity]. }
          rewrite Hpt in IHa, IHb. split; [|exact IHb].
          intros l Hl. etransitivity; [exact (IHa l Hl)|].
          refine (serial_agree t _ _ (a s) s _ l Hl).
          -- intros b Hb. apply Hall. eapply In_firstn; exact Hb.
          -- apply other_thread_invisible with (u := u); [exact Hne | apply Hall; rewrite Hpu; left; reflexivity].
  Qed.

  Lemma serial_keeps_shared t acts : (forall a, In a acts -> respects t a) ->
    forall s l, shared l -> serial acts s l = s l.
  Proof.
    induction acts as [|a acts IH]; intros Hall s l Hs; cbn [serial fold_left]; [reflexivity|].
    change (serial acts (a s) l = s l). rewrite IH; [|intros b Hb; apply Hall; right; exact Hb | exact Hs].
    destruct (Hall a (or_introl eq_refl)) as [Hw _]. apply Hw. intro Ho. exact (own_not_shared _ _ Ho Hs).
  Qed.

  (* a schedule that lets every thread finish *)
  Definition complete (sched : list nat) (progs : nat -> list action) : Prop :=
    forall t, length (progs t) <= count t sched.

  Theorem every_thread_gets_its_serial_result :
    forall sched (progs : nat -> list action) (s : store),
      (forall t a, In a (progs t) -> respects t a) -> complete sched progs ->
      forall t l, own t l -> snd (exec sched progs s) l = serial (progs t) s l.
  Proof.
    intros sched progs s Hall Hc t l Ho.
    destruct (interleaving_equals_serial_prefix sched progs s Hall t) as [Ha _].
    rewrite (Ha l (or_introl Ho)). rewrite firstn_all2; [reflexivity | apply Hc].
  Qed.

  Theorem shared_object_unchanged :
    forall sched (progs : nat -> list action) (s : store),
      (forall t a, In a (progs t) -> respects t a) ->
      forall l, shared l -> snd (exec sched progs s) l = s l.
  Proof.
    intros sched progs s Hall l Hs.
    destruct (interleaving_equals_serial_prefix sched progs s Hall 0) as [Ha _].
    rewrite (Ha l (or_intror Hs)). apply serial_keeps_shared with (t := 0); [|exact Hs].
    intros b Hb. apply Hall. eapply In_firstn; exact Hb.
  Qed.

  (* in particular any two schedules that let every thread finish — a serial order among them —
     leave every State bit-identical *)
  Corollary schedules_agree :
    forall sched1 sched2 (progs : nat -> list action) (s : store),
      (forall t a, In a (progs t) -> respects t a) -> complete sched1 progs -> complete sched2 progs ->
      forall t l, own t l -> snd (exec sched1 progs s) l = snd (exec sched2 progs s) l.
  Proof.
    intros s1 s2 progs s Hall H1 H2 t l Ho.
    rewrite (every_thread_gets_its_serial_result s1 progs s Hall H1 t l Ho).
    rewrite (every_thread_gets_its_serial_result s2 progs s Hall H2 t l Ho). reflexivity.
  Qed.
End Proofs.

(* non-vacuity: two threads incrementing their own cell by the shared constant, schedule 0 1 1 0 *)
Example two_threads :
  let own := fun t l => l = S t in
  let shared := fun l => l = 0 in
  let inc t : (nat -> nat) -> (nat -> nat) := fun s l => if Nat.eqb l (S t) then s (S t) + s 0 else s l in
  let progs := fun t => [inc t; inc t] in
  let s0 := fun l => if Nat.eqb l 0 then 5 else l in
  (forall t a, In a (progs t) -> @Conc.respects nat nat own shared t a)
  /\ snd (exec [0; 1; 1; 0] progs s0) 1 = 11 /\ snd (exec [0; 1; 1; 0] progs s0) 2 = 12.
Proof.
  cbv zeta. split; [|split; reflexivity].
  intros t a [<- | [<- | []]]; (split; [intros s l Hn; destruct (Nat.eqb_spec l (S t)); [contradiction | reflexivity]
    | intros s s' Hag l ->; rewrite Nat.eqb_refl; rewrite (Hag (S t) (or_introl eq_refl)), (Hag 0 (or_intror eq_refl)); reflexivity]).
Qed.

