(* IntegratorProofs.v — invariants of the Rosenbrock and backward-Euler loops, for any policies
   (every operation is a Section variable of the model; nothing is assumed about them unless
   stated).  Induction over the number of trips around the loops (fuel), i.e. over every
   accept / reject history. *)
From Model Require Import Base Rosenbrock BackwardEulerM.
From Coq Require Import Ring QArith Qabs Lqa.
Local Open Scope nat_scope.

Section RosInvariants.
  Variable N : Num.
  Notation T := (T N).
  Variables (ltb leb : T -> T -> bool) (nabs : T -> T) (isnan isinf : T -> bool).
  Variable is_zero : T -> bool.
  Variable absorbed : T -> T -> bool.
  Variable pow_inv : T -> T -> T.
  Variables (ten delta_min : T).
  Variables V M F : Type.
  Variable vaxpy : T -> V -> V -> V.
  Variable vzero : V -> V.
  Variable mzero : M -> M.
  Variable add_diag : T -> M -> M.
  Variable forcing : V -> V -> V.
  Variable negjac : V -> M -> M.
  Variable in_place : bool.
  Variable factor_sep : M -> F -> F.
  Variable solve_sep : F -> V -> V.
  Variable factor_ip : M -> M.
  Variable solve_ip : M -> V -> V.
  Variable nerr : nat -> V -> V -> V -> T.
  Variable p : params N.

  Notation event := (event N V M).
  Notation rstate := (rstate V M F).
  Notation loop_state := (loop_state N V M F).
  Notation iter := (ros_iter N ltb leb nabs isnan isinf absorbed pow_inv V M F vaxpy vzero mzero add_diag forcing negjac
                             in_place factor_sep solve_sep factor_ip solve_ip nerr p).
  Notation loop := (ros_loop N ltb leb nabs isnan isinf absorbed pow_inv V M F vaxpy vzero mzero add_diag forcing negjac
                             in_place factor_sep solve_sep factor_ip solve_ip nerr p).
  Notation solve := (ros_solve N ltb leb nabs isnan isinf is_zero absorbed pow_inv ten delta_min V M F vaxpy vzero mzero
                               add_diag forcing negjac in_place factor_sep solve_sep factor_ip solve_ip nerr p).
  Notation stages := (stages_loop N V M F vaxpy vzero forcing in_place solve_sep solve_ip p).
  Notation stage1 := (stage_step N V M F vaxpy vzero forcing in_place solve_sep solve_ip p).

  (* ---------------- a generic induction principle over the loop ---------------- *)
  Section LoopInduction.
    Variables time_step h_max : T.
    Variable Inv : loop_state -> list event -> Prop.
    Variable Post : solver_state -> T -> stats -> rstate -> list event -> Prop.
    Hypothesis Hstep : forall l tr l' ev, Inv l tr -> iter time_step h_max l = inr (l', ev) -> Inv l' (tr ++ ev).
    Hypothesis Hstop : forall l tr st t sts s ev,
        Inv l tr -> iter time_step h_max l = inl (st, t, sts, s, ev) -> Post st t sts s (tr ++ ev).
    Hypothesis Hfuel : forall l tr, Inv l tr -> Post OutOfFuel (l_t l) (l_stats l) (l_s l) tr.

    Lemma loop_invariant fuel l tr :
      Inv l tr ->
      let r := loop fuel time_step h_max l tr in
      Post (r_state r) (r_final_time r) (r_stats r) (r_s r) (r_trace r).
    Proof.
      revert l tr; induction fuel as [|fuel IH]; intros l tr HI; cbn [ros_loop].
      - cbn. apply Hfuel; assumption.
      - destruct (iter time_step h_max l) as [[[[[st t] sts] s] ev]|[l' ev]] eqn:E.
        + cbn. eapply Hstop; eauto.
        + apply IH. eapply Hstep; eauto.
    Qed.
  End LoopInduction.

  (* ---------------- C06: the counters equal the operations performed ---------------- *)
  Definition isF (e : event) := match e with EvForcing _ => true | _ => false end.
  Definition isJ (e : event) := match e with EvNegJac _ => true | _ => false end.
  Definition isL (e : event) := match e with EvFactor _ _ _ => true | _ => false end.
  Definition isS (e : event) := match e with EvSolve _ => true | _ => false end.
  Definition isA (e : event) := match e with EvAttempt _ _ _ _ _ _ => true | _ => false end.
  Definition isOk (e : event) := match e with EvAttempt _ _ true _ _ _ => true | _ => false end.
  Definition isRej (e : event) := match e with EvAttempt _ _ false _ _ _ => true | _ => false end.
  Definition cnt (f : event -> bool) (tr : list event) : nat := length (filter f tr).

  Lemma cnt_app f a b : cnt f (a ++ b) = cnt f a + cnt f b.
  Proof. unfold cnt. rewrite filter_app, app_length. reflexivity. Qed.
  Lemma cnt_cons f e l : cnt f (e :: l) = (if f e then 1 else 0) + cnt f l.
  Proof. unfold cnt. simpl. destruct (f e); reflexivity. Qed.
  Lemma cnt_nil f : cnt f [] = 0.
  Proof. reflexivity. Qed.
  Ltac count_events :=
    repeat (rewrite cnt_app || rewrite cnt_cons || rewrite cnt_nil);
    cbn [isF isJ isL isS isA isOk isRej].

  Definition counters_ok (st : stats) (tr : list event) : Prop :=
    function_calls st = cnt isF tr /\ jacobian_updates st = cnt isJ tr /\ decompositions st = cnt isL tr /\
    solves st = cnt isS tr /\ number_of_steps st = cnt isA tr /\ accepted st = cnt isOk tr /\
    rejected st <= cnt isRej tr.

  Lemma stage1_counts H s lm lf k s' ev nf :
    stage1 H s lm lf k = (s', ev, nf) ->
    cnt isF ev = nf /\ cnt isS ev = 1 /\ cnt isJ ev = 0 /\ cnt isL ev = 0 /\ cnt isA ev = 0 /\ cnt isOk ev = 0 /\ cnt isRej ev = 0.
  Proof.
    unfold stage_step. intros E.
    destruct (k =? 0); [|destruct (nth k (p_newf p) false)];
      inversion E; subst; count_events; repeat split; reflexivity.
  Qed.

  Lemma stages_counts H s s' ev nf :
    stages H s = (s', ev, nf) ->
    cnt isF ev = nf /\ cnt isS ev = p_stages p /\ cnt isJ ev = 0 /\ cnt isL ev = 0 /\ cnt isA ev = 0 /\ cnt isOk ev = 0 /\ cnt isRej ev = 0.
  Proof.
    unfold stages_loop.
    assert (G : forall l (acc : rstate * list event * nat) s' ev nf,
               fold_left (fun (acc : rstate * list event * nat) stage =>
                  let '(s, ev, nf) := acc in
                  let '(s', ev', nf') := stage1 H s (sJac s) (sLU s) stage in
                  (s', ev ++ ev', nf + nf')) l acc = (s', ev, nf) ->
               cnt isF ev = cnt isF (snd (fst acc)) + (nf - snd acc) /\ snd acc <= nf /\
               cnt isS ev = cnt isS (snd (fst acc)) + length l /\
               cnt isJ ev = cnt isJ (snd (fst acc)) /\ cnt isL ev = cnt isL (snd (fst acc)) /\
               cnt isA ev = cnt isA (snd (fst acc)) /\ cnt isOk ev = cnt isOk (snd (fst acc)) /\
               cnt isRej ev = cnt isRej (snd (fst acc))).
    { induction l as [|k l IH]; intros [[s0 ev0] nf0] s1 ev1 nf1 E; cbn [fold_left] in E.
      - inversion E; subst. cbn [fst snd length]. repeat split; lia.
      - destruct (stage1 H s0 (sJac s0) (sLU s0) k) as [[s2 ev2] nf2] eqn:E2.
        destruct (stage1_counts _ _ _ _ _ _ _ _ E2) as [C1 [C2 [C3 [C4 [C5 [C6 C7]]]]]].
        specialize (IH _ _ _ _ E). cbn [fst snd] in IH. rewrite !cnt_app in IH. cbn [fst snd length].
        destruct IH as [I1 [I2 [I3 [I4 [I5 [I6 [I7 I8]]]]]]]. repeat split; lia. }
    intros E. specialize (G _ _ _ _ _ E). cbn in G. rewrite seq_length in G.
    destruct G as [I1 [I2 [I3 [I4 [I5 [I6 [I7 I8]]]]]]]. repeat split; lia.
  Qed.

  Lemma counters_bump st tr ev f j n a r d so :
    counters_ok st tr ->
    cnt isF ev = f -> cnt isJ ev = j -> cnt isL ev = d -> cnt isS ev = so -> cnt isA ev = n ->
    cnt isOk ev = a -> r <= cnt isRej ev ->
    counters_ok (bump st f j n a r d so) (tr ++ ev).
  Proof.
    unfold counters_ok, bump. intros [H1 [H2 [H3 [H4 [H5 [H6 H7]]]]]] E1 E2 E3 E4 E5 E6 E7.
    rewrite !cnt_app. cbn. repeat split; lia.
  Qed.

  Definition CInv (l : loop_state) (tr : list event) : Prop := counters_ok (l_stats l) tr.

  Ltac reduce_iter E :=
    cbv zeta in E;
    cbn beta iota delta [l_s l_t l_H l_stats l_reject_last l_reject_more l_last_alpha l_fresh l_attempt
                         sY sJac sLU sYnew sInitF sK sYerr fst snd] in E.

  Ltac split_ifs E :=
    repeat match type of E with
           | context [if ?b then _ else _] => destruct b
           end.

  Lemma iter_counters time_step h_max l tr :
    CInv l tr ->
    match iter time_step h_max l with
    | inr (l', ev) => CInv l' (tr ++ ev)
    | inl (st, t, sts, s, ev) => counters_ok sts (tr ++ ev)
    end.
  Proof.
    unfold CInv. intros HI.
    destruct (iter time_step h_max l) as [[[[[st t] sts] s] ev]|[l' ev]] eqn:E; unfold ros_iter in E.
    - (* the Solve ends *)
      destruct (l_fresh l).
      + destruct (negb (leb _ _)); [inversion E; subst; rewrite app_nil_r; exact HI|].
        destruct (_ <? _); [inversion E; subst; rewrite app_nil_r; exact HI|].
        destruct (absorbed _ _ || leb _ _); [inversion E; subst; rewrite app_nil_r; exact HI|].
        reduce_iter E;
          match type of E with context [stages ?H ?s1] => destruct (stages H s1) as [[s2 evs] nf] eqn:Est end;
          destruct (stages_counts _ _ _ _ _ Est) as [C1 [C2 [C3 [C4 [C5 [C6 C7]]]]]];
          reduce_iter E; split_ifs E; inversion E; subst; clear E;
          unfold counters_ok in *; unfold bump;
          cbn [function_calls jacobian_updates number_of_steps accepted rejected decompositions solves l_stats];
          count_events;
          destruct HI as [H1 [H2 [H3 [H4 [H5 [H6 H7]]]]]]; repeat split; lia.
      + reduce_iter E;
          match type of E with context [stages ?H ?s1] => destruct (stages H s1) as [[s2 evs] nf] eqn:Est end;
          destruct (stages_counts _ _ _ _ _ Est) as [C1 [C2 [C3 [C4 [C5 [C6 C7]]]]]];
          reduce_iter E; split_ifs E; inversion E; subst; clear E;
          unfold counters_ok in *; unfold bump;
          cbn [function_calls jacobian_updates number_of_steps accepted rejected decompositions solves l_stats];
          count_events;
          destruct HI as [H1 [H2 [H3 [H4 [H5 [H6 H7]]]]]]; repeat split; lia.
    - (* the loops go on *)
      destruct (l_fresh l).
      + destruct (negb (leb _ _)); [discriminate|].
        destruct (_ <? _); [discriminate|].
        destruct (absorbed _ _ || leb _ _); [discriminate|].
        reduce_iter E;
          match type of E with context [stages ?H ?s1] => destruct (stages H s1) as [[s2 evs] nf] eqn:Est end;
          destruct (stages_counts _ _ _ _ _ Est) as [C1 [C2 [C3 [C4 [C5 [C6 C7]]]]]];
          reduce_iter E; split_ifs E; inversion E; subst; clear E;
          unfold counters_ok in *; unfold bump;
          cbn [function_calls jacobian_updates number_of_steps accepted rejected decompositions solves l_stats];
          count_events;
          destruct HI as [H1 [H2 [H3 [H4 [H5 [H6 H7]]]]]]; repeat split; lia.
      + reduce_iter E;
          match type of E with context [stages ?H ?s1] => destruct (stages H s1) as [[s2 evs] nf] eqn:Est end;
          destruct (stages_counts _ _ _ _ _ Est) as [C1 [C2 [C3 [C4 [C5 [C6 C7]]]]]];
          reduce_iter E; split_ifs E; inversion E; subst; clear E;
          unfold counters_ok in *; unfold bump;
          cbn [function_calls jacobian_updates number_of_steps accepted rejected decompositions solves l_stats];
          count_events;
          destruct HI as [H1 [H2 [H3 [H4 [H5 [H6 H7]]]]]]; repeat split; lia.
  Qed.

  Theorem ros_counters_exact fuel time_step s :
    let r := solve fuel time_step s in counters_ok (r_stats r) (r_trace r).
  Proof.
    unfold ros_solve. cbv zeta. cbn [r_stats r_trace].
    match goal with |- context [loop fuel time_step ?hm ?l0 []] =>
      pose proof (loop_invariant time_step hm CInv (fun _ _ sts _ tr => counters_ok sts tr)) as LI;
      specialize (LI (fun l tr l' ev HI E => ltac:(pose proof (iter_counters time_step hm l tr HI) as X; rewrite E in X; exact X)));
      specialize (LI (fun l tr st t sts s0 ev HI E => ltac:(pose proof (iter_counters time_step hm l tr HI) as X; rewrite E in X; exact X)));
      specialize (LI (fun l tr HI => HI));
      apply (LI fuel l0 [])
    end.
    unfold CInv, counters_ok; cbn. repeat split; lia.
  Qed.

  (* ---------------- C05: the matrix handed to Factor is I/(gamma H) - J(y) at every attempt ---------------- *)
  Lemma stage1_preserves H s lm lf k s' ev nf :
    stage1 H s lm lf k = (s', ev, nf) -> sY s' = sY s /\ sJac s' = sJac s /\ sLU s' = sLU s.
  Proof.
    unfold stage_step. intros E.
    destruct (k =? 0); [|destruct (nth k (p_newf p) false)]; inversion E; subst; cbn; auto.
  Qed.

  Lemma stages_preserve H s s' ev nf :
    stages H s = (s', ev, nf) -> sY s' = sY s /\ sJac s' = sJac s /\ sLU s' = sLU s.
  Proof.
    unfold stages_loop.
    assert (G : forall l (acc : rstate * list event * nat) s' ev nf,
               fold_left (fun (acc : rstate * list event * nat) stage =>
                  let '(s, ev, nf) := acc in
                  let '(s', ev', nf') := stage1 H s (sJac s) (sLU s) stage in
                  (s', ev ++ ev', nf + nf')) l acc = (s', ev, nf) ->
               sY s' = sY (fst (fst acc)) /\ sJac s' = sJac (fst (fst acc)) /\ sLU s' = sLU (fst (fst acc))).
    { induction l as [|k l IH]; intros [[s0 ev0] nf0] s1 ev1 nf1 E; cbn [fold_left] in E.
      - inversion E; subst. cbn. auto.
      - destruct (stage1 H s0 (sJac s0) (sLU s0) k) as [[s2 ev2] nf2] eqn:E2.
        destruct (stage1_preserves _ _ _ _ _ _ _ _ E2) as [P1 [P2 P3]].
        specialize (IH _ _ _ _ E). cbn [fst snd] in *. destruct IH as [I1 [I2 I3]].
        repeat split; congruence. }
    intros E. apply (G _ _ _ _ _ E).
  Qed.

  Section Matrix.
    Hypothesis Nring : ring_theory (n0 N) (n1 N) (nadd N) (nmul N) (nsub N) (nopp N) eq.
    Variable Z : M.
    Hypothesis Hmz : forall m, mzero m = Z.                                  (* Fill(0) forgets the previous contents *)
    Hypothesis Hadd : forall a b m, add_diag a (add_diag b m) = add_diag (nadd N b a) m.
    Hypothesis Hadd0 : forall m, add_diag (n0 N) m = m.

    Definition shift (H : T) : T := ndiv N (n1 N) (nmul N H (p_gamma0 p)).   (* 1 / (gamma H) *)

    (* cur = the state at which the Jacobian was last evaluated *)
    Fixpoint trace_ok (cur : option V) (tr : list event) : Prop :=
      match tr with
      | [] => True
      | EvNegJac y :: t => trace_ok (Some y) t
      | EvFactor H _ m :: t =>
        match cur with Some y => m = add_diag (shift H) (negjac y Z) | None => False end /\ trace_ok cur t
      | _ :: t => trace_ok cur t
      end.
    Fixpoint cur_after (cur : option V) (tr : list event) : option V :=
      match tr with
      | [] => cur
      | EvNegJac y :: t => cur_after (Some y) t
      | _ :: t => cur_after cur t
      end.

    Lemma trace_ok_app cur a b : trace_ok cur (a ++ b) <-> trace_ok cur a /\ trace_ok (cur_after cur a) b.
    Proof.
      revert cur; induction a as [|e a IH]; intros cur; cbn [app trace_ok cur_after]; [tauto|].
      destruct e; try apply IH. rewrite IH. tauto.
    Qed.
    Lemma cur_after_app cur a b : cur_after cur (a ++ b) = cur_after (cur_after cur a) b.
    Proof. revert cur; induction a as [|e a IH]; intros cur; cbn; [reflexivity|]. destruct e; apply IH. Qed.

    Lemma stages_no_jac H s s' ev nf :
      stages H s = (s', ev, nf) -> forall cur, trace_ok cur ev /\ cur_after cur ev = cur.
    Proof.
      unfold stages_loop.
      assert (G : forall l (acc : rstate * list event * nat) s' ev nf,
                 fold_left (fun (acc : rstate * list event * nat) stage =>
                    let '(s, ev, nf) := acc in
                    let '(s', ev', nf') := stage1 H s (sJac s) (sLU s) stage in
                    (s', ev ++ ev', nf + nf')) l acc = (s', ev, nf) ->
                 (forall cur, trace_ok cur (snd (fst acc)) /\ cur_after cur (snd (fst acc)) = cur) ->
                 forall cur, trace_ok cur ev /\ cur_after cur ev = cur).
      { induction l as [|k l IH]; intros [[s0 ev0] nf0] s1 ev1 nf1 E Hacc; cbn [fold_left] in E.
        - inversion E; subst. exact Hacc.
        - destruct (stage1 H s0 (sJac s0) (sLU s0) k) as [[s2 ev2] nf2] eqn:E2.
          apply (IH _ _ _ _ E). cbn [fst snd] in *. intros cur.
          destruct (Hacc cur) as [A1 A2].
          assert (B : trace_ok cur ev2 /\ cur_after cur ev2 = cur).
          { unfold stage_step in E2.
            destruct (k =? 0); [|destruct (nth k (p_newf p) false)]; inversion E2; subst; cbn; auto. }
          rewrite trace_ok_app, cur_after_app, A2. tauto. }
      intros E cur. apply (G _ _ _ _ _ E). intros c; cbn; auto.
    Qed.

    Definition MInv (l : loop_state) (tr : list event) : Prop :=
      trace_ok None tr /\
      (l_fresh l = false ->
         cur_after None tr = Some (sY (l_s l)) /\
         sJac (l_s l) = if in_place then negjac (sY (l_s l)) Z
                        else add_diag (l_last_alpha l) (negjac (sY (l_s l)) Z)).

    Add Ring NRing : Nring.

    Ltac norm_trace Hnj :=
      repeat first [ rewrite trace_ok_app | rewrite cur_after_app | rewrite (proj2 (Hnj _))
                   | progress cbn [trace_ok cur_after app] ].

    Ltac close_matrix Htr Hnj :=
      repeat split; try exact Htr; try apply Hnj; try exact I; try reflexivity;
      rewrite ?Hmz, ?Hadd0, ?Hadd; try reflexivity; try (f_equal; unfold shift; ring).

    Lemma iter_matrix time_step h_max l tr :
      MInv l tr ->
      match iter time_step h_max l with
      | inr (l', ev) => MInv l' (tr ++ ev)
      | inl (st, t, sts, s, ev) => trace_ok None (tr ++ ev)
      end.
    Proof.
      unfold MInv. intros [Htr Hmid].
      destruct (iter time_step h_max l) as [[[[[st t] sts] s] ev]|[l' ev]] eqn:E; unfold ros_iter in E.
      - destruct (l_fresh l) eqn:Ef.
        + destruct (negb (leb _ _)); [inversion E; subst; rewrite app_nil_r; exact Htr|].
          destruct (_ <? _); [inversion E; subst; rewrite app_nil_r; exact Htr|].
          destruct (absorbed _ _ || leb _ _); [inversion E; subst; rewrite app_nil_r; exact Htr|].
          reduce_iter E;
          match type of E with context [stages ?H ?s1] => destruct (stages H s1) as [[s2 evs] nf] eqn:Est end;
          pose proof (stages_no_jac _ _ _ _ _ Est) as Hnj;
          reduce_iter E; split_ifs E; inversion E; subst; clear E;
          norm_trace Hnj; close_matrix Htr Hnj.
        + destruct (Hmid eq_refl) as [Hc Hj].
          reduce_iter E;
          match type of E with context [stages ?H ?s1] => destruct (stages H s1) as [[s2 evs] nf] eqn:Est end;
          pose proof (stages_no_jac _ _ _ _ _ Est) as Hnj;
          reduce_iter E; split_ifs E; inversion E; subst; clear E;
          norm_trace Hnj; rewrite ?Hc; repeat split; try exact Htr; try apply Hnj; try exact I;
          rewrite Hj, ?Hadd; try reflexivity; try (f_equal; unfold shift; ring).
      - destruct (l_fresh l) eqn:Ef.
        + destruct (negb (leb _ _)); [discriminate|].
          destruct (_ <? _); [discriminate|].
          destruct (absorbed _ _ || leb _ _); [discriminate|].
          reduce_iter E;
          match type of E with context [stages ?H ?s1] => destruct (stages H s1) as [[s2 evs] nf] eqn:Est end;
          pose proof (stages_no_jac _ _ _ _ _ Est) as Hnj;
          destruct (stages_preserve _ _ _ _ _ Est) as [PY [PJ PL]]; cbn [sY sJac sLU] in PY, PJ, PL;
          reduce_iter E; split_ifs E; inversion E; subst; clear E;
          cbn [l_fresh l_s l_last_alpha sY sJac swapY];
          norm_trace Hnj;
          (split; [close_matrix Htr Hnj | intros Hf; try discriminate]);
          rewrite ?PY, ?PJ, ?Hmz; split; try reflexivity;
          rewrite ?Hadd0, ?Hadd; try reflexivity; try (f_equal; unfold shift; ring).
        + destruct (Hmid eq_refl) as [Hc Hj].
          reduce_iter E;
          match type of E with context [stages ?H ?s1] => destruct (stages H s1) as [[s2 evs] nf] eqn:Est end;
          pose proof (stages_no_jac _ _ _ _ _ Est) as Hnj;
          destruct (stages_preserve _ _ _ _ _ Est) as [PY [PJ PL]]; cbn [sY sJac sLU] in PY, PJ, PL;
          reduce_iter E; split_ifs E; inversion E; subst; clear E;
          cbn [l_fresh l_s l_last_alpha sY sJac swapY];
          norm_trace Hnj; rewrite ?Hc;
          (split; [repeat split; try exact Htr; try apply Hnj; try exact I;
                   rewrite Hj, ?Hadd; try reflexivity; try (f_equal; unfold shift; ring)
                  | intros Hf; try discriminate]);
          rewrite ?PY, ?PJ, ?Hmz; split; try reflexivity;
          rewrite ?Hj, ?Hadd; try reflexivity; try (f_equal; unfold shift; ring).
    Qed.

    Theorem ros_matrix_every_attempt fuel time_step s :
      r_state (solve fuel time_step s) <> OutOfFuel ->
      trace_ok None (r_trace (solve fuel time_step s)).
    Proof.
      intros _. unfold ros_solve. cbv zeta. cbn [r_trace].
      match goal with |- context [loop fuel time_step ?hm ?l0 []] =>
        pose proof (loop_invariant time_step hm MInv (fun _ _ _ _ tr => trace_ok None tr)) as LI;
        specialize (LI (fun l tr l' ev HI E => ltac:(pose proof (iter_matrix time_step hm l tr HI) as X; rewrite E in X; exact X)));
        specialize (LI (fun l tr st t sts s0 ev HI E => ltac:(pose proof (iter_matrix time_step hm l tr HI) as X; rewrite E in X; exact X)));
        specialize (LI (fun l tr HI => proj1 HI));
        apply (LI fuel l0 [])
      end.
      unfold MInv; cbn. split; [exact I|discriminate].
    Qed.
  End Matrix.

  (* ---------------- C07: an attempt is accepted iff error < 1 or H < h_min ---------------- *)
  Definition attempt_rule (e : event) : Prop :=
    match e with
    | EvAttempt H err ok _ _ _ =>
      (isnan err = true \/ isinf err = true -> ok = false) /\
      (isnan err = false -> isinf err = false -> ok = (ltb err (n1 N) || ltb H (p_h_min p)))
    | _ => True
    end.

  Lemma stages_no_attempt H s s' ev nf : stages H s = (s', ev, nf) -> Forall attempt_rule ev.
  Proof.
    unfold stages_loop.
    assert (G : forall l (acc : rstate * list event * nat) s' ev nf,
               fold_left (fun (acc : rstate * list event * nat) stage =>
                  let '(s, ev, nf) := acc in
                  let '(s', ev', nf') := stage1 H s (sJac s) (sLU s) stage in
                  (s', ev ++ ev', nf + nf')) l acc = (s', ev, nf) ->
               Forall attempt_rule (snd (fst acc)) -> Forall attempt_rule ev).
    { induction l as [|k l IH]; intros [[s0 ev0] nf0] s1 ev1 nf1 E Hacc; cbn [fold_left] in E.
      - inversion E; subst. exact Hacc.
      - destruct (stage1 H s0 (sJac s0) (sLU s0) k) as [[s2 ev2] nf2] eqn:E2.
        apply (IH _ _ _ _ E). cbn [fst snd] in *. apply Forall_app. split; [exact Hacc|].
        unfold stage_step in E2.
        destruct (k =? 0); [|destruct (nth k (p_newf p) false)]; inversion E2; subst; repeat constructor. }
    intros E. apply (G _ _ _ _ _ E). constructor.
  Qed.

  Lemma iter_attempt_rule time_step h_max l tr :
    Forall attempt_rule tr ->
    match iter time_step h_max l with
    | inr (l', ev) => Forall attempt_rule (tr ++ ev)
    | inl (st, t, sts, s, ev) => Forall attempt_rule (tr ++ ev)
    end.
  Proof.
    intros HI.
    destruct (iter time_step h_max l) as [[[[[st t] sts] s] ev]|[l' ev]] eqn:E; unfold ros_iter in E;
      (destruct (l_fresh l);
       [ destruct (negb (leb _ _)); [try discriminate; inversion E; subst; rewrite app_nil_r; exact HI|];
         destruct (_ <? _); [try discriminate; inversion E; subst; rewrite app_nil_r; exact HI|];
         destruct (absorbed _ _ || leb _ _); [try discriminate; inversion E; subst; rewrite app_nil_r; exact HI|] | ]);
      reduce_iter E;
      match type of E with context [stages ?H ?s1] => destruct (stages H s1) as [[s2 evs] nf] eqn:Est end;
      pose proof (stages_no_attempt _ _ _ _ _ Est) as Hna;
      reduce_iter E;
      match type of E with context [isnan ?e] => destruct (isnan e) eqn:Enan end;
      try match type of E with context [isinf ?e] => destruct (isinf e) eqn:Einf end;
      try match type of E with context [ltb ?a ?b || ltb ?c ?d] => destruct (ltb a b || ltb c d) eqn:Eacc end;
      split_ifs E; inversion E; subst; clear E;
      repeat first [ exact HI | exact Hna | apply Forall_nil | apply Forall_cons | (apply Forall_app; split) ];
      cbn [attempt_rule]; try exact I; split; try (intros [X|X]; congruence); try (intros; congruence); auto.
  Qed.

  Theorem ros_accept_iff fuel time_step s : Forall attempt_rule (r_trace (solve fuel time_step s)).
  Proof.
    unfold ros_solve. cbv zeta. cbn [r_trace].
    match goal with |- context [loop fuel time_step ?hm ?l0 []] =>
      pose proof (loop_invariant time_step hm (fun _ tr => Forall attempt_rule tr) (fun _ _ _ _ tr => Forall attempt_rule tr)) as LI;
      specialize (LI (fun l tr l' ev HI E => ltac:(pose proof (iter_attempt_rule time_step hm l tr HI) as X; rewrite E in X; exact X)));
      specialize (LI (fun l tr st t sts s0 ev HI E => ltac:(pose proof (iter_attempt_rule time_step hm l tr HI) as X; rewrite E in X; exact X)));
      specialize (LI (fun l tr HI => HI));
      apply (LI fuel l0 [])
    end.
    constructor.
  Qed.

  (* ---------------- C10: a NaN or infinite error norm never yields Converged ---------------- *)
  Definition finite_attempt (e : event) : Prop :=
    match e with EvAttempt _ err _ _ _ _ => isnan err = false /\ isinf err = false | _ => True end.

  Lemma stages_finite H s s' ev nf : stages H s = (s', ev, nf) -> Forall finite_attempt ev.
  Proof.
    intros E. pose proof (stages_no_attempt _ _ _ _ _ E) as Hna.
    apply Forall_forall. intros e He. rewrite Forall_forall in Hna.
    specialize (Hna e He). destruct e; cbn; auto.
    (* an EvAttempt cannot be in ev: stages produce none *)
    exfalso. clear Hna. revert He. unfold stages_loop in E.
    assert (G : forall l (acc : rstate * list event * nat) s' ev nf,
               fold_left (fun (acc : rstate * list event * nat) stage =>
                  let '(s, ev, nf) := acc in
                  let '(s', ev', nf') := stage1 H s (sJac s) (sLU s) stage in
                  (s', ev ++ ev', nf + nf')) l acc = (s', ev, nf) ->
               (forall e, In e (snd (fst acc)) -> isA e = false) -> forall e, In e ev -> isA e = false).
    { induction l as [|k l IH]; intros [[s0 ev0] nf0] s1 ev1 nf1 E0 Hacc; cbn [fold_left] in E0.
      - inversion E0; subst. exact Hacc.
      - destruct (stage1 H s0 (sJac s0) (sLU s0) k) as [[s2 ev2] nf2] eqn:E2.
        apply (IH _ _ _ _ E0). cbn [fst snd] in *. intros e0 He0. rewrite in_app_iff in He0.
        destruct He0 as [He0|He0]; [apply Hacc; assumption|].
        unfold stage_step in E2.
        destruct (k =? 0); [|destruct (nth k (p_newf p) false)]; inversion E2; subst; cbn in He0;
          repeat (destruct He0 as [<-|He0]; [reflexivity|]); contradiction. }
    intros He. specialize (G _ _ _ _ _ E (fun _ F => match F with end) _ He). cbn in G. discriminate.
  Qed.

  Lemma iter_finite time_step h_max l tr :
    Forall finite_attempt tr ->
    match iter time_step h_max l with
    | inr (l', ev) => Forall finite_attempt (tr ++ ev)
    | inl (st, t, sts, s, ev) => st = Converged -> Forall finite_attempt (tr ++ ev)
    end.
  Proof.
    intros HI.
    destruct (iter time_step h_max l) as [[[[[st t] sts] s] ev]|[l' ev]] eqn:E; unfold ros_iter in E;
      (destruct (l_fresh l);
       [ destruct (negb (leb _ _)); [try discriminate; inversion E; subst; rewrite app_nil_r; intros; exact HI|];
         destruct (_ <? _); [try discriminate; inversion E; subst; discriminate|];
         destruct (absorbed _ _ || leb _ _); [try discriminate; inversion E; subst; discriminate|] | ]);
      reduce_iter E;
      match type of E with context [stages ?H ?s1] => destruct (stages H s1) as [[s2 evs] nf] eqn:Est end;
      pose proof (stages_finite _ _ _ _ _ Est) as Hna;
      reduce_iter E;
      match type of E with context [isnan ?e] => destruct (isnan e) eqn:Enan end;
      try match type of E with context [isinf ?e] => destruct (isinf e) eqn:Einf end;
      split_ifs E; inversion E; subst; clear E; try discriminate;
      repeat first [ exact HI | exact Hna | apply Forall_nil | apply Forall_cons | (apply Forall_app; split) ];
      cbn [finite_attempt]; auto.
  Qed.

  Lemma iter_never_running time_step h_max l st t sts s ev :
    iter time_step h_max l = inl (st, t, sts, s, ev) -> st <> Running /\ st <> OutOfFuel.
  Proof.
    intros E. unfold ros_iter in E.
    destruct (l_fresh l);
      [ destruct (negb (leb _ _)); [inversion E; subst; split; discriminate|];
        destruct (_ <? _); [inversion E; subst; split; discriminate|];
        destruct (absorbed _ _ || leb _ _); [inversion E; subst; split; discriminate|] | ];
      reduce_iter E;
      match type of E with context [stages ?H ?s1] => destruct (stages H s1) as [[s2 evs] nf] eqn:Est end;
      reduce_iter E; split_ifs E; inversion E; subst; split; discriminate.
  Qed.

  Theorem ros_converged_errors_finite fuel time_step s :
    r_state (solve fuel time_step s) = Converged -> Forall finite_attempt (r_trace (solve fuel time_step s)).
  Proof.
    unfold ros_solve. cbv zeta. cbn [r_state r_trace].
    match goal with |- context [loop fuel time_step ?hm ?l0 []] =>
      pose proof (loop_invariant time_step hm (fun _ tr => Forall finite_attempt tr)
                    (fun st _ _ _ tr => st <> Running /\ (st = Converged -> Forall finite_attempt tr))) as LI;
      specialize (LI (fun l tr l' ev HI E => ltac:(pose proof (iter_finite time_step hm l tr HI) as X; rewrite E in X; exact X)));
      specialize (LI (fun l tr st t sts s0 ev HI E =>
                        ltac:(pose proof (iter_finite time_step hm l tr HI) as X; rewrite E in X;
                              exact (conj (proj1 (iter_never_running time_step hm l st t sts s0 ev E)) X))));
      specialize (LI (fun l tr HI => ltac:(split; [discriminate | intros C; discriminate C])));
      specialize (LI fuel l0 [] (Forall_nil _))
    end.
    cbv zeta in LI. destruct LI as [NR HC].
    match goal with |- context [r_state ?r] => destruct (r_state r) eqn:Est end;
      intros C; try discriminate; try (apply HC; reflexivity). contradiction.
  Qed.

  (* ---------------- C07: no step is started once more than max_number_of_steps_ attempts have been made ---------------- *)
  (* steps_bounded n tr: with n attempts made before tr, every step start in tr has at most max_number_of_steps_ attempts before it *)
  Fixpoint steps_bounded (n : nat) (tr : list event) : Prop :=
    match tr with
    | [] => True
    | EvStep _ _ :: r => n <= p_max_steps p /\ steps_bounded n r
    | EvAttempt _ _ _ _ _ _ :: r => steps_bounded (S n) r
    | _ :: r => steps_bounded n r
    end.

  Lemma steps_bounded_app a : forall n b, steps_bounded n (a ++ b) <-> steps_bounded n a /\ steps_bounded (n + cnt isA a) b.
  Proof.
    induction a as [|e a IH]; intros n b.
    - cbn [app steps_bounded]. rewrite cnt_nil, Nat.add_0_r. tauto.
    - rewrite <- app_comm_cons. rewrite cnt_cons.
      destruct e; cbn [steps_bounded isA]; rewrite IH;
        try (replace (n + (0 + cnt isA a)) with (n + cnt isA a) by lia);
        try (replace (n + (1 + cnt isA a)) with (S n + cnt isA a) by lia); tauto.
  Qed.

  Definition not_step (e : event) : Prop := match e with EvStep _ _ => False | _ => True end.
  Lemma no_step_bounded tr : Forall not_step tr -> forall n, steps_bounded n tr.
  Proof.
    induction tr as [|e tr IH]; intros HF n; [exact I|].
    inversion HF as [|? ? He Ht]; subst. destruct e; cbn [steps_bounded not_step] in *; try (apply IH; exact Ht). contradiction.
  Qed.

  Lemma stages_no_step H s s' ev nf : stages H s = (s', ev, nf) -> Forall not_step ev.
  Proof.
    unfold stages_loop.
    assert (G : forall l (acc : rstate * list event * nat) s' ev nf,
               fold_left (fun (acc : rstate * list event * nat) stage =>
                  let '(s, ev, nf) := acc in
                  let '(s', ev', nf') := stage1 H s (sJac s) (sLU s) stage in
                  (s', ev ++ ev', nf + nf')) l acc = (s', ev, nf) ->
               Forall not_step (snd (fst acc)) -> Forall not_step ev).
    { induction l as [|k l IH]; intros [[s0 ev0] nf0] s1 ev1 nf1 E Hacc; cbn [fold_left] in E.
      - inversion E; subst. exact Hacc.
      - destruct (stage1 H s0 (sJac s0) (sLU s0) k) as [[s2 ev2] nf2] eqn:E2.
        apply (IH _ _ _ _ E). cbn [fst snd] in *. apply Forall_app. split; [exact Hacc|].
        unfold stage_step in E2.
        destruct (k =? 0); [|destruct (nth k (p_newf p) false)]; inversion E2; subst; repeat constructor. }
    intros E. apply (G _ _ _ _ _ E). constructor.
  Qed.

  Definition SInv (l : loop_state) (tr : list event) : Prop := counters_ok (l_stats l) tr /\ steps_bounded 0 tr.

  Lemma iter_steps_bounded time_step h_max l tr :
    SInv l tr ->
    match iter time_step h_max l with
    | inr (l', ev) => SInv l' (tr ++ ev)
    | inl (st, t, sts, s, ev) => steps_bounded 0 (tr ++ ev)
    end.
  Proof.
    intros [HC HS].
    pose proof (iter_counters time_step h_max l tr HC) as HC'.
    assert (Hn : number_of_steps (l_stats l) = cnt isA tr) by (destruct HC as (_ & _ & _ & _ & H5 & _); exact H5).
    assert (G : forall ev, steps_bounded (cnt isA tr) ev -> steps_bounded 0 (tr ++ ev)).
    { intros ev Hev. apply steps_bounded_app. split; [exact HS | exact Hev]. }
    destruct (iter time_step h_max l) as [[[[[st t] sts] s] ev]|[l' ev]] eqn:E; unfold ros_iter in E;
      [|split; [exact HC'|]]; apply G;
      (destruct (l_fresh l);
       [ destruct (negb (leb _ _)); [try discriminate; inversion E; subst; exact I|];
         destruct (_ <? _) eqn:Emax; [try discriminate; inversion E; subst; exact I|];
         destruct (absorbed _ _ || leb _ _); [try discriminate; inversion E; subst; exact I|];
         apply Nat.ltb_ge in Emax | ]);
      reduce_iter E;
      match type of E with context [stages ?H ?s1] => destruct (stages H s1) as [[s2 evs] nf] eqn:Est end;
      pose proof (no_step_bounded _ (stages_no_step _ _ _ _ _ Est)) as Hns;
      reduce_iter E; split_ifs E; inversion E; subst; clear E;
      repeat (rewrite steps_bounded_app || cbn [steps_bounded app]);
      repeat split; try exact I; try apply Hns; lia.
  Qed.

  Theorem ros_no_step_after_max_steps fuel time_step s : steps_bounded 0 (r_trace (solve fuel time_step s)).
  Proof.
    unfold ros_solve. cbv zeta. cbn [r_trace].
    match goal with |- context [loop fuel time_step ?hm ?l0 []] =>
      pose proof (loop_invariant time_step hm SInv (fun _ _ _ _ tr => steps_bounded 0 tr)) as LI;
      specialize (LI (fun l tr l' ev HI E => ltac:(pose proof (iter_steps_bounded time_step hm l tr HI) as X; rewrite E in X; exact X)));
      specialize (LI (fun l tr st t sts s0 ev HI E => ltac:(pose proof (iter_steps_bounded time_step hm l tr HI) as X; rewrite E in X; exact X)));
      specialize (LI (fun l tr HI => proj2 HI));
      apply (LI fuel l0 [])
    end.
    split; [unfold counters_ok; cbn; repeat split; lia | exact I].
  Qed.

  Corollary ros_attempts_before_every_step fuel time_step s a t H b :
    r_trace (solve fuel time_step s) = a ++ EvStep t H :: b -> cnt isA a <= p_max_steps p.
  Proof.
    intros E. pose proof (ros_no_step_after_max_steps fuel time_step s) as HB. rewrite E in HB.
    apply steps_bounded_app in HB. destruct HB as [_ HB]. cbn [steps_bounded] in HB. destruct HB as [HB _]. lia.
  Qed.

  (* ---------------- C06: the status returned is the one whose condition occurred ---------------- *)
  Definition status_reason (time_step : T) (st : solver_state) (t : T) (sts : stats) (tr : list event) : Prop :=
    match st with
    | Converged => leb (nadd N (nsub N t time_step) (p_round_off p)) (n0 N) = false     (* the end of the interval was reached *)
    | ConvergenceExceededMaxSteps => p_max_steps p < number_of_steps sts
    | StepSizeTooSmall => exists H, absorbed t H || leb H (p_round_off p) = true
    | NaNDetected => exists H e y yn ye, In (EvAttempt H e false y yn ye) tr /\ isnan e = true
    | InfDetected => exists H e y yn ye, In (EvAttempt H e false y yn ye) tr /\ isinf e = true
    | OutOfFuel => True
    | _ => False
    end.

  Ltac split_ifs_eqn E :=
    repeat match type of E with
           | context [if ?b then _ else _] => destruct b eqn:?
           end.

  Ltac find_in := first [ left; reflexivity | apply in_or_app; right; find_in | right; find_in ].

  Lemma iter_status time_step h_max l st t sts s ev :
    iter time_step h_max l = inl (st, t, sts, s, ev) -> status_reason time_step st t sts ev.
  Proof.
    intros E. unfold ros_iter in E.
    destruct (l_fresh l);
      [ destruct (negb (leb _ _)) eqn:E1;
          [inversion E; subst; cbn [status_reason]; apply Bool.negb_true_iff; exact E1|];
        destruct (_ <? _) eqn:E2; [inversion E; subst; cbn [status_reason]; apply Nat.ltb_lt; exact E2|];
        destruct (absorbed _ _ || leb _ _) eqn:E3; [inversion E; subst; cbn [status_reason]; eexists; exact E3|] | ];
      reduce_iter E;
      match type of E with context [stages ?H ?s1] => destruct (stages H s1) as [[s2 evs] nf] eqn:Est end;
      reduce_iter E; split_ifs_eqn E; inversion E; subst; cbn [status_reason];
      do 5 eexists; (split; [find_in | assumption]).
  Qed.

  Theorem ros_status_truthful fuel time_step s :
    let r := solve fuel time_step s in
    status_reason time_step (r_state r) (r_final_time r) (r_stats r) (r_trace r).
  Proof.
    unfold ros_solve. cbv zeta. cbn [r_state r_trace r_final_time r_stats].
    match goal with |- context [loop fuel time_step ?hm ?l0 []] =>
      pose proof (loop_invariant time_step hm (fun _ _ => True)
                    (fun st t sts _ tr => st <> Running /\ status_reason time_step st t sts tr)) as LI;
      assert (S1 : forall l (tr : list event) l' ev, True -> iter time_step hm l = inr (l', ev) -> True) by (intros; exact I);
      assert (S2 : forall l (tr : list event) st t sts s0 ev, True -> iter time_step hm l = inl (st, t, sts, s0, ev) ->
                     st <> Running /\ status_reason time_step st t sts (tr ++ ev));
      [ intros l tr st t sts s0 ev _ E; split; [exact (proj1 (iter_never_running time_step hm l st t sts s0 ev E))|];
        pose proof (iter_status time_step hm l st t sts s0 ev E) as X;
        destruct st; cbn [status_reason] in *; try exact X;
        destruct X as (H & e & y & yn & ye & Hin & Hb); exists H, e, y, yn, ye; (split; [apply in_or_app; right; exact Hin | exact Hb]) |];
      assert (S3 : forall (l : loop_state) (tr : list event), True ->
                     OutOfFuel <> Running /\ status_reason time_step OutOfFuel (l_t l) (l_stats l) tr)
        by (intros; split; [discriminate | exact I]);
      specialize (LI S1 S2 S3 fuel l0 [] I)
    end.
    cbv zeta in LI. destruct LI as [NR HR].
    match goal with |- context [r_state ?r] => destruct (r_state r) eqn:Est end; cbn [status_reason] in *; try exact HR.
    contradiction.
  Qed.
End RosInvariants.

(* ====================================================================================== *)
Section BEInvariants.
  Variable N : Num.
  Notation T := (T N).
  Variables (ltb : T -> T -> bool) (is_zero : T -> bool).
  Variables V M F : Type.
  Variable vzero : V -> V.
  Variable mzero : M -> M.
  Variable add_diag : T -> M -> M.
  Variable forcing : V -> V -> V.
  Variable negjac : V -> M -> M.
  Variable in_place : bool.
  Variable factor_sep : M -> F -> F.
  Variable solve_sep : F -> V -> V.
  Variable factor_ip : M -> M.
  Variable solve_ip : M -> V -> V.
  Variable vresid : T -> V -> V -> V -> V.
  Variable vclamp_add : V -> V -> V.
  Variable is_converged : V -> V -> bool.
  Variable two : T.
  Variable p : be_params N.

  Notation be_event := (be_event N V M).
  Notation bstate := (bstate V M F).
  Notation be_loop_state := (be_loop_state N V M F).
  Notation iter := (be_iter N ltb V M F vzero mzero add_diag forcing negjac in_place factor_sep solve_sep factor_ip solve_ip
                            vresid vclamp_add is_converged two p).
  Notation loop := (be_loop N ltb V M F vzero mzero add_diag forcing negjac in_place factor_sep solve_sep factor_ip solve_ip
                            vresid vclamp_add is_converged two p).
  Notation solve := (be_solve N ltb is_zero V M F vzero mzero add_diag forcing negjac in_place factor_sep solve_sep factor_ip
                              solve_ip vresid vclamp_add is_converged two p).

  Section LoopInduction.
    Variable time_step : T.
    Variable Inv : be_loop_state -> list be_event -> Prop.
    Variable Post : solver_state -> T -> stats -> bstate -> list be_event -> Prop.
    Hypothesis Hstep : forall l tr l' ev, Inv l tr -> iter time_step l = inr (l', ev) -> Inv l' (tr ++ ev).
    Hypothesis Hstop : forall l tr st t sts s ev,
        Inv l tr -> iter time_step l = inl (st, t, sts, s, ev) -> Post st t sts s (tr ++ ev).
    Hypothesis Hfuel : forall l tr, Inv l tr -> Post OutOfFuel (b_t l) (b_stats l) (b_s l) tr.

    Lemma be_loop_invariant fuel l tr :
      Inv l tr ->
      let r := loop fuel time_step l tr in
      Post (br_state r) (br_final_time r) (br_stats r) (br_s r) (br_trace r).
    Proof.
      revert l tr; induction fuel as [|fuel IH]; intros l tr HI; cbn [be_loop].
      - cbn. apply Hfuel; assumption.
      - destruct (iter time_step l) as [[[[[st t] sts] s] ev]|[l' ev]] eqn:E.
        + cbn. eapply Hstop; eauto.
        + apply IH. eapply Hstep; eauto.
    Qed.
  End LoopInduction.

  (* every iteration is a Newton iteration on y - yn - H f(y) = 0: matrix I/H - J(y), residual
     f(y) - (y - yn)/H, and nothing else; each of the five counters grows by one per iteration *)
  Definition newton_event (e : be_event) : Prop :=
    match e with
    | BeIter H y m rhs delta =>
      exists j0 f0 yn, m = add_diag (ndiv N (n1 N) H) (negjac y (mzero j0)) /\
                       rhs = vresid H (forcing y (vzero f0)) y yn
    | _ => True
    end.
  Definition is_iter (e : be_event) := match e with BeIter _ _ _ _ _ => true | _ => false end.
  Definition is_acc (e : be_event) := match e with BeAccept _ _ => true | _ => false end.
  Definition is_rej (e : be_event) := match e with BeReject _ | BeUnconverged _ _ => true | _ => false end.
  Definition bcnt (f : be_event -> bool) (tr : list be_event) : nat := length (filter f tr).
  Lemma bcnt_app f a b : bcnt f (a ++ b) = bcnt f a + bcnt f b.
  Proof. unfold bcnt. rewrite filter_app, app_length. reflexivity. Qed.

  Definition be_ok (st : stats) (tr : list be_event) : Prop :=
    Forall newton_event tr /\
    function_calls st = bcnt is_iter tr /\ jacobian_updates st = bcnt is_iter tr /\
    decompositions st = bcnt is_iter tr /\ solves st = bcnt is_iter tr /\ number_of_steps st = bcnt is_iter tr /\
    accepted st = bcnt is_acc tr /\ rejected st = bcnt is_rej tr.

  Lemma be_iter_ok time_step l tr :
    be_ok (b_stats l) tr ->
    match iter time_step l with
    | inr (l', ev) => be_ok (b_stats l') (tr ++ ev)
    | inl (st, t, sts, s, ev) => be_ok sts (tr ++ ev)
    end.
  Proof.
    intros [HF [H1 [H2 [H3 [H4 [H5 [H6 H7]]]]]]].
    assert (Hnew : forall H y j0 f0 yn d,
               newton_event (BeIter H y (add_diag (ndiv N (n1 N) H) (negjac y (mzero j0)))
                                    (vresid H (forcing y (vzero f0)) y yn) d)).
    { intros. cbn. eauto. }
    destruct (iter time_step l) as [[[[[st t] sts] s] ev]|[l' ev]] eqn:E; unfold be_iter in E;
      repeat match type of E with context [if ?b then _ else _] => destruct b end;
      inversion E; subst; clear E; unfold be_ok, bump; cbn [b_stats function_calls jacobian_updates number_of_steps accepted rejected decompositions solves];
      rewrite ?app_nil_r, ?bcnt_app; unfold bcnt; cbn [filter is_iter is_acc is_rej length app];
      (split; [ rewrite ?Forall_app; repeat split; try exact HF; repeat constructor; try apply Hnew | ]);
      unfold bcnt in *; repeat split; lia.
  Qed.

  Theorem be_counters_and_newton fuel time_step s :
    let r := solve fuel time_step s in be_ok (br_stats r) (br_trace r).
  Proof.
    unfold be_solve. cbv zeta.
    match goal with |- context [loop fuel time_step ?l0 []] =>
      pose proof (be_loop_invariant time_step (fun l tr => be_ok (b_stats l) tr) (fun _ _ sts _ tr => be_ok sts tr)) as LI;
      specialize (LI (fun l tr l' ev HI E => ltac:(pose proof (be_iter_ok time_step l tr HI) as X; rewrite E in X; exact X)));
      specialize (LI (fun l tr st t sts s0 ev HI E => ltac:(pose proof (be_iter_ok time_step l tr HI) as X; rewrite E in X; exact X)));
      specialize (LI (fun l tr HI => HI));
      apply (LI fuel l0 [])
    end.
    unfold be_ok, bcnt; cbn. repeat split; auto.
  Qed.

  (* ---------------- C06: Converged is returned only once the loop guard t < time_step has failed ---------------- *)
  Lemma be_iter_converged time_step l st t sts s ev :
    iter time_step l = inl (st, t, sts, s, ev) -> st = Converged -> ltb t time_step = false.
  Proof.
    intros E. unfold be_iter in E.
    destruct (b_fresh l && negb (ltb (b_t l) time_step)) eqn:E1.
    - inversion E; subst. intros _. apply andb_prop in E1. destruct E1 as [_ E1]. apply Bool.negb_true_iff in E1. exact E1.
    - repeat match type of E with context [if ?b then _ else _] => destruct b end; inversion E; subst; intros C; discriminate C.
  Qed.

  Theorem be_converged_means_interval_covered fuel time_step s :
    let r := solve fuel time_step s in
    br_state r = Converged -> ltb (br_final_time r) time_step = false.
  Proof.
    unfold be_solve. cbv zeta.
    match goal with |- context [loop fuel time_step ?l0 []] =>
      pose proof (be_loop_invariant time_step (fun _ _ => True)
                    (fun st t _ _ _ => st = Converged -> ltb t time_step = false)) as LI;
      assert (S1 : forall l (tr : list be_event) l' ev, True -> iter time_step l = inr (l', ev) -> True) by (intros; exact I);
      assert (S2 : forall l (tr : list be_event) st t sts s0 ev, True -> iter time_step l = inl (st, t, sts, s0, ev) ->
                     st = Converged -> ltb t time_step = false)
        by (intros l tr st t sts s0 ev _ E; exact (be_iter_converged time_step l st t sts s0 ev E));
      assert (S3 : forall (l : be_loop_state) (tr : list be_event), True -> OutOfFuel = Converged -> ltb (b_t l) time_step = false)
        by (intros l tr _ C; discriminate C);
      exact (LI S1 S2 S3 fuel l0 [] I)
    end.
  Qed.

  (* ---------------- C11: the scratch members of the State do not influence backward Euler ---------------- *)
  Section Scratch.
    Hypothesis Hvz : forall v v', vzero v = vzero v'.                      (* Fill(0) forgets *)
    Hypothesis Hmz : forall m m', mzero m = mzero m'.
    Hypothesis Hfs : forall m lu lu', factor_sep m lu = factor_sep m lu'.   (* Factor overwrites L and U (C03) *)

    (* two States that agree on the concentrations (and, mid-run, on the saved copy Yn) *)
    Definition bsim (s s' : bstate) : Prop := bYn1 s = bYn1 s' /\ bYn s = bYn s'.
    Definition lsim (l l' : be_loop_state) : Prop :=
      bsim (b_s l) (b_s l') /\ b_t l = b_t l' /\ b_H l = b_H l' /\ b_stats l = b_stats l' /\ b_state l = b_state l' /\
      b_nsucc l = b_nsucc l' /\ b_nfail l = b_nfail l' /\ b_fresh l = b_fresh l' /\ b_iter l = b_iter l'.

    Definition out_sim (a b : (solver_state * T * stats * bstate * list be_event) + (be_loop_state * list be_event)) : Prop :=
      match a, b with
      | inl (st, t, sts, s, ev), inl (st', t', sts', s', ev') =>
        st = st' /\ t = t' /\ sts = sts' /\ bsim s s' /\ ev = ev'
      | inr (l, ev), inr (l', ev') => lsim l l' /\ ev = ev'
      | _, _ => False
      end.

    Lemma be_iter_sim time_step l l' : lsim l l' -> out_sim (iter time_step l) (iter time_step l').
    Proof.
      destruct l as [s t H sts st ns nf fr it], l' as [s' t' H' sts' st' ns' nf' fr' it'].
      unfold lsim, bsim. cbn [b_s b_t b_H b_stats b_state b_nsucc b_nfail b_fresh b_iter].
      intros [[E1 E2] [-> [-> [-> [-> [-> [-> [-> ->]]]]]]]].
      unfold be_iter. cbn [b_s b_t b_H b_stats b_state b_nsucc b_nfail b_fresh b_iter].
      rewrite <- E1, <- E2. rewrite (Hvz (bForcing s') (bForcing s)), (Hmz (bJac s') (bJac s)).
      set (f := forcing (bYn1 s) (vzero (bForcing s))).
      set (j := add_diag (ndiv N (n1 N) H') (negjac (bYn1 s) (mzero (bJac s)))).
      assert (Ed : (if in_place then solve_ip (if in_place then factor_ip j else j) (vresid H' f (bYn1 s) (bYn s))
                    else solve_sep (if in_place then bLU s else factor_sep j (bLU s)) (vresid H' f (bYn1 s) (bYn s))) =
                   (if in_place then solve_ip (if in_place then factor_ip j else j) (vresid H' f (bYn1 s) (bYn s))
                    else solve_sep (if in_place then bLU s' else factor_sep j (bLU s')) (vresid H' f (bYn1 s) (bYn s)))).
      { destruct in_place; [reflexivity|]. rewrite (Hfs j (bLU s) (bLU s')). reflexivity. }
      rewrite <- Ed. clear Ed.
      repeat match goal with |- context [if ?b then _ else _] =>
               match b with in_place => fail 1 | _ => destruct b end end;
        cbn [out_sim lsim bsim b_s b_t b_H b_stats b_state b_nsucc b_nfail b_fresh b_iter bYn1 bYn];
        repeat split; try reflexivity; try assumption; congruence.
    Qed.

    Lemma be_loop_sim fuel time_step l l' tr :
      lsim l l' ->
      let r := loop fuel time_step l tr in
      let r' := loop fuel time_step l' tr in
      br_state r = br_state r' /\ br_final_time r = br_final_time r' /\ br_stats r = br_stats r' /\
      br_trace r = br_trace r' /\ bYn1 (br_s r) = bYn1 (br_s r').
    Proof.
      revert l l' tr; induction fuel as [|fuel IH]; intros l l' tr HR; cbn [be_loop].
      - destruct HR as [[E1 _] [Et [_ [Es _]]]]. cbn. repeat split; auto.
      - pose proof (be_iter_sim time_step l l' HR) as Hs.
        destruct (iter time_step l) as [[[[[st t] sts] s] ev]|[l1 ev]],
                 (iter time_step l') as [[[[[st' t'] sts'] s'] ev']|[l1' ev']]; cbn [out_sim] in Hs; try contradiction.
        + destruct Hs as [-> [-> [-> [[E1 _] ->]]]]. cbn. repeat split; auto.
        + destruct Hs as [HR' ->]. apply IH. exact HR'.
    Qed.

    (* the outcome of Solve is a function of the concentrations only: whatever the Jacobian, the
       L/U factors, Yn and the forcing scratch held before *)
    Theorem be_scratch_irrelevant fuel time_step (s s' : bstate) :
      bYn1 s = bYn1 s' ->
      let r := solve fuel time_step s in
      let r' := solve fuel time_step s' in
      br_state r = br_state r' /\ br_final_time r = br_final_time r' /\ br_stats r = br_stats r' /\
      br_trace r = br_trace r' /\ bYn1 (br_s r) = bYn1 (br_s r').
    Proof.
      intros E. unfold be_solve. apply be_loop_sim.
      unfold lsim, bsim. cbn. rewrite E. repeat split; reflexivity.
    Qed.
  End Scratch.

  (* ---------------- C09: backward Euler propagates linear invariants ----------------
     w . y is the same before and after Solve, whatever the status returned, as long as the clamp at zero did not
     change w . y in any Newton iteration of the run (the clamp is the one step of the method that is not linear;
     the premise is read off the trace of the run, it is not an assumption on the clamp for all arguments). *)
  Section Conservation.
    Hypothesis Nring : ring_theory (n0 N) (n1 N) (nadd N) (nmul N) (nsub N) (nopp N) eq.
    Add Ring BERing : Nring.
    Variable dotw : V -> T.
    Hypothesis Hforce : forall y z, dotw (forcing y z) = n0 N.      (* C09_forcing_conserves_linear_invariants *)
    (* forcing -= (Yn1 - Yn) / H element by element: if w.Yn1 = w.Yn and w.f = 0, the residual's weighted sum vanishes *)
    Hypothesis Hresid : forall H f y1 y0, dotw y1 = dotw y0 -> dotw f = n0 N -> dotw (vresid H f y1 y0) = n0 N.
    (* an exact solve with I/H - J, w^T J = 0: w.x = H w.rhs *)
    Hypothesis Hsolve_sep : forall lu rhs, dotw rhs = n0 N -> dotw (solve_sep lu rhs) = n0 N.
    Hypothesis Hsolve_ip : forall lu rhs, dotw rhs = n0 N -> dotw (solve_ip lu rhs) = n0 N.

    Definition clamp_neutral (e : be_event) : Prop :=
      match e with
      | BeIter H y m rhs delta => dotw (vclamp_add y delta) = nadd N (dotw y) (dotw delta)
      | _ => True
      end.

    Definition balanced (c : T) (l : be_loop_state) : Prop :=
      dotw (bYn1 (b_s l)) = c /\ dotw (bYn (b_s l)) = c.

    Lemma be_iter_balanced time_step c l :
      balanced c l ->
      match iter time_step l with
      | inr (l', ev) => Forall clamp_neutral ev -> balanced c l'
      | inl (st, t, sts, s, ev) => Forall clamp_neutral ev -> dotw (bYn1 s) = c
      end.
    Proof.
      intros [H1 H0].
      assert (Hd : forall H, dotw (if in_place
                     then solve_ip (if in_place then factor_ip (add_diag (ndiv N (n1 N) H) (negjac (bYn1 (b_s l)) (mzero (bJac (b_s l)))))
                                    else add_diag (ndiv N (n1 N) H) (negjac (bYn1 (b_s l)) (mzero (bJac (b_s l)))))
                            (vresid H (forcing (bYn1 (b_s l)) (vzero (bForcing (b_s l)))) (bYn1 (b_s l)) (bYn (b_s l)))
                     else solve_sep (if in_place then bLU (b_s l)
                                     else factor_sep (add_diag (ndiv N (n1 N) H) (negjac (bYn1 (b_s l)) (mzero (bJac (b_s l))))) (bLU (b_s l)))
                            (vresid H (forcing (bYn1 (b_s l)) (vzero (bForcing (b_s l)))) (bYn1 (b_s l)) (bYn (b_s l)))) = n0 N).
      { intros H. assert (Hr : dotw (vresid H (forcing (bYn1 (b_s l)) (vzero (bForcing (b_s l)))) (bYn1 (b_s l)) (bYn (b_s l))) = n0 N).
        { apply Hresid; [rewrite H1, H0; reflexivity | apply Hforce]. }
        destruct in_place; [apply Hsolve_ip | apply Hsolve_sep]; exact Hr. }
      assert (Hnew : forall H j rhs delta, dotw delta = n0 N ->
                 clamp_neutral (BeIter H (bYn1 (b_s l)) j rhs delta) -> dotw (vclamp_add (bYn1 (b_s l)) delta) = c).
      { intros H j rhs delta Hz HF. cbn in HF. rewrite HF, H1, Hz. ring. }
      revert H1 H0 Hd Hnew.
      destruct (iter time_step l) as [[[[[st t] sts] s] ev]|[l' ev]] eqn:E; unfold be_iter in E;
        repeat match type of E with context [if ?b then _ else _] => destruct b eqn:? end;
        inversion E; subst; clear E; intros H1 H0 Hd Hnew HF; unfold balanced; cbn [b_s bYn1 bYn];
        try exact H1; try (apply Forall_app in HF; destruct HF as [HF _]); apply Forall_inv in HF;
        try (split; [exact H0 | exact H0]);
        try (split; [|try exact H0]); try (eapply Hnew; [apply Hd | exact HF]).
    Qed.

    Theorem be_conserves_linear_invariants fuel time_step s :
      let r := solve fuel time_step s in
      Forall clamp_neutral (br_trace r) -> dotw (bYn1 (br_s r)) = dotw (bYn1 s).
    Proof.
      unfold be_solve. cbv zeta.
      set (c := dotw (bYn1 s)).
      match goal with |- context [loop fuel time_step ?l0 []] =>
        pose proof (be_loop_invariant time_step
                      (fun l tr => Forall clamp_neutral tr -> balanced c l)
                      (fun _ _ _ s1 tr => Forall clamp_neutral tr -> dotw (bYn1 s1) = c)) as LI;
        assert (S1 : forall l tr l' ev, (Forall clamp_neutral tr -> balanced c l) -> iter time_step l = inr (l', ev) ->
                        Forall clamp_neutral (tr ++ ev) -> balanced c l');
        [ intros l tr l' ev HI E HF; apply Forall_app in HF; destruct HF as [HF1 HF2];
          pose proof (be_iter_balanced time_step c l (HI HF1)) as X; rewrite E in X; exact (X HF2) |];
        assert (S2 : forall l tr st t sts s1 ev, (Forall clamp_neutral tr -> balanced c l) ->
                        iter time_step l = inl (st, t, sts, s1, ev) -> Forall clamp_neutral (tr ++ ev) -> dotw (bYn1 s1) = c);
        [ intros l tr st t sts s1 ev HI E HF; apply Forall_app in HF; destruct HF as [HF1 HF2];
          pose proof (be_iter_balanced time_step c l (HI HF1)) as X; rewrite E in X; exact (X HF2) |];
        specialize (LI S1 S2 (fun l tr HI HF => proj1 (HI HF)));
        apply (LI fuel l0 [])
      end.
      intros _. split; reflexivity.
    Qed.
  End Conservation.

  (* ---------------- C06: 0 <= final_time_ <= time_step for backward Euler in exact arithmetic ----------------
     (same embedding phi into the ordered rationals as for the Rosenbrock theorem; premises: h_start, the reduction
     factors and the doubling factor are not negative) *)
  Section TimeBounds.
    Local Open Scope Q_scope.
    Variable phi : T -> Q.
    Hypothesis Hadd : forall a b, phi (nadd N a b) == phi a + phi b.
    Hypothesis Hsub : forall a b, phi (nsub N a b) == phi a - phi b.
    Hypothesis Hmul : forall a b, phi (nmul N a b) == phi a * phi b.
    Hypothesis Hlt : forall a b, ltb a b = true <-> phi a < phi b.
    Hypothesis H0 : phi (n0 N) == 0.
    Hypothesis Hstart : 0 <= phi (bp_h_start p).
    Hypothesis Hred : forall r, In r (bp_reductions p) -> 0 <= phi r.
    Hypothesis Htwo : 0 <= phi two.

    Lemma be_ltb_false a b : ltb a b = false -> phi b <= phi a.
    Proof.
      intros E. destruct (Qlt_le_dec (phi a) (phi b)) as [Hl | Hl]; [|exact Hl].
      apply Hlt in Hl. rewrite Hl in E. discriminate E.
    Qed.
    Lemma bmin_cases a b : (bmin N ltb a b = a /\ phi a <= phi b) \/ (bmin N ltb a b = b /\ phi b < phi a).
    Proof.
      unfold bmin. destruct (ltb b a) eqn:E; [right; split; [reflexivity | apply Hlt; exact E] | left; split; [reflexivity | apply be_ltb_false; exact E]].
    Qed.

    Definition btinv (ts : T) (l : be_loop_state) : Prop :=
      (0 <= phi (b_t l) /\ phi (b_t l) <= phi ts) /\ (0 <= phi (b_H l) /\ phi (b_H l) <= phi ts - phi (b_t l)).

    Lemma nth_red_nonneg k : 0 <= phi (nth k (bp_reductions p) (n0 N)).
    Proof.
      destruct (Nat.lt_ge_cases k (length (bp_reductions p))) as [Hk | Hk].
      - apply Hred. apply nth_In. exact Hk.
      - rewrite nth_overflow by exact Hk. rewrite H0. lra.
    Qed.

    Lemma be_iter_time ts l : btinv ts l ->
      match iter ts l with
      | inr (l', _) => btinv ts l'
      | inl (_, t, _, _, _) => 0 <= phi t /\ phi t <= phi ts
      end.
    Proof.
      intros [[Ta Tb] [Ha Hb]].
      pose proof (nth_red_nonneg (b_nfail l)) as Rn. pose proof Htwo as Tw.
      destruct (iter ts l) as [[[[[st t] sts] s] ev]|[l' ev]] eqn:E; unfold be_iter in E;
        repeat match type of E with context [if ?b then _ else _] => destruct b eqn:? end;
        inversion E; subst; clear E; unfold btinv; cbn [b_t b_H];
        repeat match goal with |- context [bmin N ltb ?a ?b] =>
                 let Hc := fresh "Hc" in destruct (bmin_cases a b) as [[-> Hc] | [-> Hc]] end;
        repeat match goal with
               | H : context [phi (nmul N _ _)] |- _ => rewrite Hmul in H
               | H : context [phi (nsub N _ _)] |- _ => rewrite Hsub in H
               | H : context [phi (nadd N _ _)] |- _ => rewrite Hadd in H
               end;
        rewrite ?Hmul, ?Hsub, ?Hadd; repeat split; try assumption; try lra; try nra.
    Qed.

    Theorem be_final_time_within_the_interval fuel time_step s :
      0 <= phi time_step ->
      let r := solve fuel time_step s in
      0 <= phi (br_final_time r) /\ phi (br_final_time r) <= phi time_step.
    Proof.
      intros Hts. unfold be_solve. cbv zeta.
      match goal with |- context [loop fuel time_step ?l0 []] =>
        pose proof (be_loop_invariant time_step (fun l _ => btinv time_step l)
                      (fun _ t _ _ _ => 0 <= phi t /\ phi t <= phi time_step)) as LI;
        assert (S1 : forall l (tr : list be_event) l' ev, btinv time_step l -> iter time_step l = inr (l', ev) -> btinv time_step l');
        [ intros l tr l' ev HI E; pose proof (be_iter_time time_step l HI) as X; rewrite E in X; exact X |];
        assert (S2 : forall l (tr : list be_event) st t sts s0 ev, btinv time_step l -> iter time_step l = inl (st, t, sts, s0, ev) ->
                       0 <= phi t /\ phi t <= phi time_step);
        [ intros l tr st t sts s0 ev HI E; pose proof (be_iter_time time_step l HI) as X; rewrite E in X; exact X |];
        assert (S3 : forall (l : be_loop_state) (tr : list be_event), btinv time_step l -> 0 <= phi (b_t l) /\ phi (b_t l) <= phi time_step)
          by (intros l tr HI; exact (proj1 HI));
        apply (LI S1 S2 S3 fuel l0 [])
      end.
      unfold btinv. cbn [b_t b_H]. split; [rewrite H0; split; lra|].
      rewrite H0. destruct (is_zero (bp_h_start p)); [split; lra|].
      destruct (bmin_cases (bp_h_start p) time_step) as [[-> Hc] | [-> Hc]]; split; lra.
    Qed.

    (* ---------- C07: no backward-Euler step exceeds the remaining interval ---------- *)
    Definition be_size_ok (ts : T) (e : be_event) : Prop :=
      match e with
      | BeIter H _ _ _ _ => 0 <= phi H /\ phi H <= phi ts
      | BeReject H => 0 <= phi H /\ phi H <= phi ts
      | BeAccept t H => 0 <= phi t /\ 0 <= phi H /\ phi H <= phi ts - phi t
      | BeUnconverged t H => 0 <= phi t /\ 0 <= phi H /\ phi H <= phi ts - phi t
      end.

    Lemma be_iter_sizes ts l tr : btinv ts l -> Forall (be_size_ok ts) tr ->
      match iter ts l with
      | inr (_, ev) => Forall (be_size_ok ts) (tr ++ ev)
      | inl (_, _, _, _, ev) => Forall (be_size_ok ts) (tr ++ ev)
      end.
    Proof.
      intros [[Ta Tb] [Ha Hb]] HF.
      destruct (iter ts l) as [[[[[st t] sts] s] ev]|[l' ev]] eqn:E; unfold be_iter in E;
        repeat match type of E with context [if ?b then _ else _] => destruct b eqn:? end;
        inversion E; subst; clear E; apply Forall_app; (split; [exact HF|]);
        repeat constructor; cbn [be_size_ok]; repeat split; try assumption; lra.
    Qed.

    Theorem be_step_sizes_within_the_interval fuel time_step s :
      0 <= phi time_step ->
      Forall (be_size_ok time_step) (br_trace (solve fuel time_step s)).
    Proof.
      intros Hts. unfold be_solve. cbv zeta.
      match goal with |- context [loop fuel time_step ?l0 []] =>
        pose proof (be_loop_invariant time_step (fun l tr => btinv time_step l /\ Forall (be_size_ok time_step) tr)
                      (fun _ _ _ _ tr => Forall (be_size_ok time_step) tr)) as LI;
        assert (S1 : forall l (tr : list be_event) l' ev, btinv time_step l /\ Forall (be_size_ok time_step) tr ->
                       iter time_step l = inr (l', ev) -> btinv time_step l' /\ Forall (be_size_ok time_step) (tr ++ ev));
        [ intros l tr l' ev [HI HF] E; pose proof (be_iter_time time_step l HI) as X; pose proof (be_iter_sizes time_step l tr HI HF) as Y;
          rewrite E in X, Y; split; assumption |];
        assert (S2 : forall l (tr : list be_event) st t sts s0 ev, btinv time_step l /\ Forall (be_size_ok time_step) tr ->
                       iter time_step l = inl (st, t, sts, s0, ev) -> Forall (be_size_ok time_step) (tr ++ ev));
        [ intros l tr st t sts s0 ev [HI HF] E; pose proof (be_iter_sizes time_step l tr HI HF) as Y; rewrite E in Y; exact Y |];
        assert (S3 : forall (l : be_loop_state) (tr : list be_event), btinv time_step l /\ Forall (be_size_ok time_step) tr ->
                       Forall (be_size_ok time_step) tr)
          by (intros l tr HI; exact (proj2 HI));
        apply (LI S1 S2 S3 fuel l0 [])
      end.
      split; [|constructor].
      unfold btinv. cbn [b_t b_H]. split; [rewrite H0; split; lra|].
      rewrite H0. destruct (is_zero (bp_h_start p)); [split; lra|].
      destruct (bmin_cases (bp_h_start p) time_step) as [[-> Hc] | [-> Hc]]; split; lra.
    Qed.
  End TimeBounds.
End BEInvariants.
