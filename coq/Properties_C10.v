(* Properties_C10.v — C10: results are physically admissible.
   Proved: the clamp of Solver::Solve leaves no negative value, whatever the arithmetic (NaN
   included: std::max(y, 0.0) keeps a NaN, which is not negative); a Rosenbrock run whose error
   norm is NaN or infinite at any attempt is never reported Converged.
   Refuted on the implementation (known findings, see KNOWN_FINDINGS.txt): "Converged implies
   finite" — an inert species holding +Inf, and backward Euler with non-finite inputs. *)
From Model Require Import Base Rosenbrock IntegratorProofs.
Local Open Scope nat_scope.

(* variables_.Max(0.0): y := std::max(y, 0.0) = (y < 0) ? 0 : y, element by element *)
Definition clamp0 {A} (ltb : A -> A -> bool) (z : A) (y : A) : A := if ltb y z then z else y.

Theorem C10_no_negative_value_after_the_clamp :
  forall (A : Type) (ltb : A -> A -> bool) (z : A),
    ltb z z = false ->
    forall (data : list A) (k : nat) (d : A), k < length data -> ltb (nth k (map (clamp0 ltb z) data) d) z = false.
Proof.
  intros A ltb z Hz data k d Hk.
  rewrite (nth_indep _ d (clamp0 ltb z d)) by (rewrite map_length; exact Hk).
  rewrite map_nth. unfold clamp0. destruct (ltb (nth k data d) z) eqn:E; assumption.
Qed.
Print Assumptions C10_no_negative_value_after_the_clamp.

Theorem C10_nonfinite_error_norm_never_converged :
  forall (N : Num) ltb leb nabs isnan isinf is_zero absorbed pow_inv ten delta_min
         (V M F : Type) vaxpy vzero mzero add_diag forcing negjac in_place factor_sep solve_sep factor_ip solve_ip nerr
         (p : params N) fuel time_step s,
    r_state (ros_solve N ltb leb nabs isnan isinf is_zero absorbed pow_inv ten delta_min V M F vaxpy vzero mzero
                       add_diag forcing negjac in_place factor_sep solve_sep factor_ip solve_ip nerr p fuel time_step s)
      = Converged ->
    Forall (finite_attempt N isnan isinf V M)
      (r_trace (ros_solve N ltb leb nabs isnan isinf is_zero absorbed pow_inv ten delta_min V M F vaxpy vzero mzero
                          add_diag forcing negjac in_place factor_sep solve_sep factor_ip solve_ip nerr p fuel time_step s)).
Proof. exact ros_converged_errors_finite. Qed.
Print Assumptions C10_nonfinite_error_norm_never_converged.
