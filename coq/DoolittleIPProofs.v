(* DoolittleIPProofs.v — LuDecompositionDoolittleInPlace (LU.doolittle_ip_sym / LU.doolittle_ip_num): for every
   field, every pattern and every matrix stored on the filled pattern with zeros in the fill-in slots (the
   documented contract), the matrix left in place holds unit-lower L (below the diagonal) and upper U with
   L*U = A, provided no pivot is zero. *)
From Model Require Import Base LU LUProofs DoolittleProofs.
From Coq Require Import Ring Field Lia.
Local Open Scope nat_scope.

Section InPlace.
  Variable N : Num.
  Notation T := (T N).
  Hypothesis Nfield : field_theory (n0 N) (n1 N) (nadd N) (nmul N) (nsub N) (nopp N) (ndiv N) (ninv N) eq.
  Add Field NumFieldIP : Nfield.
  Notation "a +! b" := (nadd N a b) (at level 50, left associativity).
  Notation "a *! b" := (nmul N a b) (at level 40, left associativity).
  Notation "a -! b" := (nsub N a b) (at level 50, left associativity).
  Notation "0!" := (n0 N).
  Notation "1!" := (n1 N).
  Notation sum := (nsum N).
  Notation mat := (mat N).
  Notation lsum := (lsum N).

  Variable n : nat.
  Variable P : pat.
  Variable M0 : mat.
  Definition js (r c i : nat) := filter (fun j => P r j && P j c) (seq 0 i).

  Definition iu_step (i : nat) (M : mat) (k : nat) : mat :=
    if P i k then
      fold_left (fun M j => mset N M i k (M i k -! M i j *! M j k)) (filter (fun j => P i j && P j k) (seq 0 i)) M
    else M.
  Definition il_step (i : nat) (M : mat) (k : nat) : mat :=
    if P k i then
      let M' := fold_left (fun M j => mset N M k i (M k i -! M k j *! M j i))
                          (filter (fun j => P k j && P j i) (seq 0 i)) M in
      mset N M' k i (ndiv N (M' k i) (M' i i))
    else M.
  Definition ip_step (M : mat) (i : nat) : mat :=
    fold_left (il_step i) (range (i + 1) n) (fold_left (iu_step i) (range i n) M).

  Lemma doolittle_ip_num_steps : doolittle_ip_num N n P M0 = fold_left ip_step (seq 0 n) M0.
  Proof. reflexivity. Qed.

  Lemma in_js r c i j : In j (js r c i) -> j < i.
  Proof. unfold js. intros H. apply filter_In in H. destruct H as [H _]. apply in_seq in H. lia. Qed.

  (* row part: entry (i,k), i <= k *)
  Lemma iu_step_spec i M k : i <= k ->
    (P i k = true -> iu_step i M k i k = M i k -! lsum (fun j => M i j *! M j k) (js i k i))
    /\ (forall r c, r <> i \/ c <> k -> iu_step i M k r c = M r c).
  Proof.
    intros Hik. unfold iu_step. destruct (P i k) eqn:Hp.
    - pose proof (acc_entry N Nfield (fun (M : mat) j => M i j *! M j k) i k (js i k i) M) as Hacc.
      cbv zeta in Hacc. destruct Hacc as [H1 H2].
      { intros M' v j Hj. apply in_js in Hj. rewrite !mset_other by lia. reflexivity. }
      split; [intros _; exact H1 | exact H2].
    - split; [discriminate | reflexivity].
  Qed.

  Lemma iu_row_spec i ks : NoDup ks -> (forall k, In k ks -> i <= k) -> forall M,
    let M1 := fold_left (iu_step i) ks M in
    (forall k, In k ks -> P i k = true -> M1 i k = M i k -! lsum (fun j => M i j *! M j k) (js i k i))
    /\ (forall r c, r <> i \/ ~ In c ks -> M1 r c = M r c).
  Proof.
    induction ks as [|k ks IH]; intros Hnd Hks M; cbn [fold_left].
    - split; [intros k [] | reflexivity].
    - inversion Hnd as [|? ? Hnk Hnd']; subst.
      pose proof (Hks k (or_introl eq_refl)) as Hik.
      destruct (iu_step_spec i M k Hik) as [S1 S2].
      destruct (IH Hnd' (fun k' Hk' => Hks k' (or_intror Hk')) (iu_step i M k)) as [IH1 IH2].
      split.
      + intros k' [<- | Hk'] Hp.
        * rewrite IH2 by (right; exact Hnk). apply S1; exact Hp.
        * pose proof (Hks k' (or_intror Hk')) as Hik'.
          assert (Hkk : k' <> k) by (intros ->; contradiction).
          rewrite (IH1 k' Hk' Hp). rewrite S2 by (right; exact Hkk). f_equal.
          apply lsum_ext. intros j Hj. apply in_js in Hj.
          rewrite (S2 i j) by (right; lia). rewrite (S2 j k') by (left; lia). reflexivity.
      + intros r c Hne. rewrite IH2.
        * apply S2. destruct Hne as [Hr | Hc]; [left; exact Hr | right; intros ->; apply Hc; left; reflexivity].
        * destruct Hne as [Hr | Hc]; [left; exact Hr | right; intros Hin; apply Hc; right; exact Hin].
  Qed.

  (* column part: entry (k,i), i < k *)
  Lemma il_step_spec i M k : i < k ->
    (P k i = true -> il_step i M k k i = ndiv N (M k i -! lsum (fun j => M k j *! M j i) (js k i i)) (M i i))
    /\ (forall r c, r <> k \/ c <> i -> il_step i M k r c = M r c).
  Proof.
    intros Hik. unfold il_step. destruct (P k i) eqn:Hp.
    - pose proof (acc_entry N Nfield (fun (M : mat) j => M k j *! M j i) k i (js k i i) M) as Hacc.
      cbv zeta in Hacc. destruct Hacc as [H1 H2].
      { intros M' v j Hj. apply in_js in Hj. rewrite !mset_other by lia. reflexivity. }
      cbv zeta. split.
      + intros _. rewrite mset_same. unfold js in H1, H2. rewrite H1. rewrite (H2 i i) by (left; lia). reflexivity.
      + intros r c Hne. rewrite mset_other by exact Hne. unfold js in H2. apply H2. exact Hne.
    - split; [discriminate | reflexivity].
  Qed.

  Lemma il_col_spec i ks : NoDup ks -> (forall k, In k ks -> i < k) -> forall M,
    let M2 := fold_left (il_step i) ks M in
    (forall k, In k ks -> P k i = true ->
       M2 k i = ndiv N (M k i -! lsum (fun j => M k j *! M j i) (js k i i)) (M i i))
    /\ (forall r c, c <> i \/ ~ In r ks -> M2 r c = M r c).
  Proof.
    induction ks as [|k ks IH]; intros Hnd Hks M; cbn [fold_left].
    - split; [intros k [] | reflexivity].
    - inversion Hnd as [|? ? Hnk Hnd']; subst.
      pose proof (Hks k (or_introl eq_refl)) as Hik.
      destruct (il_step_spec i M k Hik) as [S1 S2].
      destruct (IH Hnd' (fun k' Hk' => Hks k' (or_intror Hk')) (il_step i M k)) as [IH1 IH2].
      split.
      + intros k' [<- | Hk'] Hp.
        * rewrite IH2 by (right; exact Hnk). apply S1; exact Hp.
        * pose proof (Hks k' (or_intror Hk')) as Hik'.
          assert (Hkk : k' <> k) by (intros ->; contradiction).
          rewrite (IH1 k' Hk' Hp). rewrite (S2 k' i) by (left; exact Hkk). rewrite (S2 i i) by (left; lia).
          f_equal. f_equal. apply lsum_ext. intros j Hj. apply in_js in Hj.
          rewrite (S2 k' j) by (left; exact Hkk). rewrite (S2 j i) by (left; lia). reflexivity.
      + intros r c Hne. rewrite IH2.
        * apply S2. destruct Hne as [Hc | Hr]; [right; exact Hc | left; intros ->; apply Hr; left; reflexivity].
        * destruct Hne as [Hc | Hr]; [left; exact Hc | right; intros Hin; apply Hr; right; exact Hin].
  Qed.

  (* ---------- invariant of the outer loop ---------- *)
  Definition IInv (i : nat) (M : mat) : Prop :=
    (forall r c, i <= r -> i <= c -> M r c = M0 r c) /\
    (forall r k, r < i -> r <= k -> k < n -> P r k = true ->
       M r k = M0 r k -! lsum (fun j => M r j *! M j k) (js r k r)) /\
    (forall c k, c < i -> c < k -> k < n -> P k c = true ->
       M k c = ndiv N (M0 k c -! lsum (fun j => M k j *! M j c) (js k c c)) (M c c)).

  Lemma ip_step_inv i M : i < n -> IInv i M -> IInv (S i) (ip_step M i).
  Proof.
    intros Hi (IZ & IU & IL). unfold ip_step.
    set (M1 := fold_left (iu_step i) (range i n) M).
    set (M2 := fold_left (il_step i) (range (i + 1) n) M1).
    destruct (iu_row_spec i (range i n) (range_NoDup i n)
                (fun k Hk => proj1 (proj1 (range_In i n k) Hk)) M) as [SU1 SU2]. fold M1 in SU1, SU2.
    destruct (il_col_spec i (range (i + 1) n) (range_NoDup (i + 1) n)
                (fun k Hk => Nat.lt_le_trans i (i + 1) k (Nat.lt_add_pos_r 1 i Nat.lt_0_1)
                                             (proj1 (proj1 (range_In (i + 1) n k) Hk))) M1) as [SL1 SL2].
    fold M2 in SL1, SL2.
    (* what the step leaves alone: everything except row i from the diagonal on and column i below it *)
    assert (F1 : forall r c, r <> i \/ c < i -> M1 r c = M r c).
    { intros r c [Hr | Hc]; apply SU2; [left; exact Hr | right; rewrite range_In; lia]. }
    assert (F2 : forall r c, c <> i \/ r <= i -> M2 r c = M1 r c).
    { intros r c [Hc | Hr]; apply SL2; [left; exact Hc | right; rewrite range_In; lia]. }
    repeat split.
    - intros r c Hr Hc. rewrite F2 by (left; lia). rewrite F1 by (left; lia). apply IZ; lia.
    - intros r k Hr Hrk Hk Hp. destruct (Nat.eq_dec r i) as [-> | Hne].
      + rewrite F2 by (right; lia).
        rewrite (SU1 k (proj2 (range_In i n k) (conj Hrk Hk)) Hp).
        rewrite (IZ i k (le_n i) Hrk). f_equal. apply lsum_ext. intros j Hj. apply in_js in Hj.
        rewrite (F2 i j) by (left; lia). rewrite (F1 i j) by (right; lia).
        rewrite (F2 j k) by (right; lia). rewrite (F1 j k) by (left; lia). reflexivity.
      + assert (Hlt : r < i) by lia.
        rewrite F2 by (right; lia). rewrite F1 by (left; lia). rewrite (IU r k Hlt Hrk Hk Hp). f_equal.
        apply lsum_ext. intros j Hj. apply in_js in Hj.
        rewrite (F2 r j) by (left; lia). rewrite (F1 r j) by (left; lia).
        rewrite (F2 j k) by (right; lia). rewrite (F1 j k) by (left; lia). reflexivity.
    - intros c k Hc Hck Hk Hp. destruct (Nat.eq_dec c i) as [-> | Hne].
      + assert (Hin : In k (range (i + 1) n)) by (apply range_In; lia).
        rewrite (SL1 k Hin Hp). rewrite (F2 i i) by (right; lia).
        rewrite (F1 k i) by (left; lia). rewrite (IZ k i ltac:(lia) (le_n i)).
        f_equal. f_equal. apply lsum_ext. intros j Hj. apply in_js in Hj.
        rewrite (F2 k j) by (left; lia). rewrite (F2 j i) by (right; lia). reflexivity.
      + assert (Hlt : c < i) by lia.
        rewrite (F2 k c) by (left; lia). rewrite (F1 k c) by (right; lia).
        rewrite (IL c k Hlt Hck Hk Hp).
        rewrite (F2 c c) by (left; lia). rewrite (F1 c c) by (left; lia). f_equal. f_equal.
        apply lsum_ext. intros j Hj. apply in_js in Hj.
        rewrite (F2 k j) by (left; lia). rewrite (F1 k j) by (right; lia).
        rewrite (F2 j c) by (left; lia). rewrite (F1 j c) by (left; lia). reflexivity.
  Qed.

  Lemma ip_steps_inv m : m <= n -> IInv m (fold_left ip_step (seq 0 m) M0).
  Proof.
    induction m as [|m IH]; intros Hm.
    - split; [intros; reflexivity | split; intros; lia].
    - rewrite seq_S, fold_left_app. cbn [fold_left plus]. apply ip_step_inv; [lia | apply IH; lia].
  Qed.

  (* ---------- the pattern is closed under the fill-in rule; the input respects the contract ---------- *)
  Variable Ap : pat.
  Variable A : mat.
  Hypothesis HPu : forall i k, i <= k -> k < n ->
    P i k = Ap i k || (k =? i) || existsb (fun j => P i j && P j k) (seq 0 i).
  Hypothesis HPl : forall i k, i < k -> k < n ->
    P k i = Ap k i || existsb (fun j => P k j && P j i) (seq 0 i).
  (* M0 holds A on A's pattern and zero in every other stored slot *)
  Hypothesis HM0 : forall r c, r < n -> c < n -> P r c = true -> M0 r c = view N Ap A r c.

  Theorem doolittle_ip_LU_eq_A :
    let M := doolittle_ip_num N n P M0 in
    let Lf := fun r c => if c <? r then view N P M r c else if c =? r then 1! else 0! in
    let Uf := fun r c => if r <=? c then view N P M r c else 0! in
    (forall i, i < n -> M i i <> 0!) ->
    forall r c, r < n -> c < n -> sum n (fun j => Lf r j *! Uf j c) = view N Ap A r c.
  Proof.
    intros M Lf Uf Hpiv.
    destruct (ip_steps_inv n (le_n n)) as (_ & IU & IL).
    rewrite <- doolittle_ip_num_steps in IU, IL. fold M in IU, IL.
    assert (Hsum : forall r c i, i <= r -> i <= c -> r < n -> c < n -> (i = r \/ i = c) ->
              lsum (fun j => M r j *! M j c) (js r c i) = sum i (fun j => Lf r j *! Uf j c)).
    { intros r c i Hir Hic Hr Hc _. unfold js. rewrite (lsum_filter_seq N Nfield). apply (sum_ext N). intros j Hj.
      unfold Lf, Uf, view. fold M.
      destruct (Nat.ltb_spec j r); [|lia]. destruct (Nat.leb_spec j c); [|lia].
      destruct (P r j), (P j c); cbn [andb]; ring. }
    apply (LU_eq_A N Nfield n (view N Ap A) Lf Uf).
    - intros i Hi. unfold Lf. rewrite Nat.ltb_irrefl, Nat.eqb_refl. reflexivity.
    - intros i j Hij Hj. unfold Lf. destruct (Nat.ltb_spec j i); [lia|]. destruct (Nat.eqb_spec j i); [lia|]. reflexivity.
    - intros i j Hji Hi. unfold Uf. destruct (Nat.leb_spec i j); [lia|]. reflexivity.
    - intros i k Hik Hk. rewrite <- (Hsum i k i (le_n i) Hik ltac:(lia) Hk (or_introl eq_refl)).
      unfold Uf at 1. destruct (Nat.leb_spec i k); [|lia]. unfold view at 1. fold M.
      destruct (P i k) eqn:Hp.
      + rewrite (IU i k ltac:(lia) Hik Hk Hp). rewrite (HM0 i k ltac:(lia) Hk Hp). reflexivity.
      + pose proof (HPu i k Hik Hk) as Hc. rewrite Hp in Hc. symmetry in Hc.
        apply Bool.orb_false_iff in Hc. destruct Hc as [Hc He]. apply Bool.orb_false_iff in Hc. destruct Hc as [Ha _].
        unfold view. rewrite Ha.
        assert (Hz : lsum (fun j => M i j *! M j k) (js i k i) = 0!).
        { unfold js. rewrite (lsum_filter_seq N Nfield). apply (sum_zero N Nfield). intros j Hj.
          rewrite (existsb_false _ _ He j) by (apply in_seq; lia). reflexivity. }
        rewrite Hz. ring.
    - intros i k Hik Hk. rewrite <- (Hsum k i i ltac:(lia) (le_n i) Hk ltac:(lia) (or_intror eq_refl)).
      assert (Hpii : P i i = true).
      { rewrite (HPu i i (le_n i) ltac:(lia)). rewrite Nat.eqb_refl. destruct (Ap i i); reflexivity. }
      assert (HUii : Uf i i = M i i).
      { unfold Uf. rewrite Nat.leb_refl. unfold view. fold M. rewrite Hpii. reflexivity. }
      rewrite HUii. unfold Lf at 1. destruct (Nat.ltb_spec i k); [|lia]. unfold view at 1. fold M.
      destruct (P k i) eqn:Hp.
      + rewrite (IL i k ltac:(lia) Hik Hk Hp). rewrite (HM0 k i Hk ltac:(lia) Hp).
        rewrite <- (field_mul_div N Nfield (view N Ap A k i -! lsum (fun j => M k j *! M j i) (js k i i)) (M i i)) at 2
          by (apply Hpiv; lia).
        ring.
      + pose proof (HPl i k Hik Hk) as Hc. rewrite Hp in Hc. symmetry in Hc.
        apply Bool.orb_false_iff in Hc. destruct Hc as [Ha He].
        unfold view. rewrite Ha.
        assert (Hz : lsum (fun j => M k j *! M j i) (js k i i) = 0!).
        { unfold js. rewrite (lsum_filter_seq N Nfield). apply (sum_zero N Nfield). intros j Hj.
          rewrite (existsb_false _ _ He j) by (apply in_seq; lia). reflexivity. }
        rewrite Hz. ring.
  Qed.
End InPlace.

(* ------------------------------------------------------------------------------------------
   The symbolic phase (GetLUMatrix) delivers one pattern closed under the fill-in rule. *)
Section SymbolicIP.
  Variable n : nat.
  Variable Ap : pat.

  Definition pu_step (i : nat) (P : pat) (k : nat) : pat :=
    if Ap i k || (k =? i) then pset P i k
    else if existsb (fun j => P i j && P j k) (seq 0 i) then pset P i k else P.
  Definition pl_step (i : nat) (P : pat) (k : nat) : pat :=
    if Ap k i || (k =? i) then pset P k i
    else if existsb (fun j => P k j && P j i) (seq 0 i) then pset P k i else P.
  Definition p_step (P : pat) (i : nat) : pat :=
    fold_left (pl_step i) (range i n) (fold_left (pu_step i) (range i n) P).

  Lemma doolittle_ip_sym_steps : doolittle_ip_sym n Ap = fold_left p_step (seq 0 n) pempty.
  Proof. reflexivity. Qed.

  Lemma pu_row_spec i ks : NoDup ks -> (forall k, In k ks -> i <= k) -> forall P,
    let P' := fold_left (pu_step i) ks P in
    (forall k, In k ks ->
       P' i k = P i k || (Ap i k || (k =? i) || existsb (fun j => P i j && P j k) (seq 0 i)))
    /\ (forall r c, r <> i \/ ~ In c ks -> P' r c = P r c).
  Proof.
    induction ks as [|k ks IH]; intros Hnd Hks P; cbn [fold_left].
    - split; [intros k [] | reflexivity].
    - inversion Hnd as [|? ? Hnk Hnd']; subst.
      pose proof (Hks k (or_introl eq_refl)) as Hik.
      destruct (IH Hnd' (fun k' Hk' => Hks k' (or_intror Hk')) (pu_step i P k)) as [IH1 IH2].
      assert (S2 : forall r c, r <> i \/ c <> k -> pu_step i P k r c = P r c).
      { intros r c Hne. unfold pu_step. destruct (Ap i k || (k =? i)); [apply pset_other; exact Hne|].
        destruct (existsb _ _); [apply pset_other; exact Hne | reflexivity]. }
      assert (S1 : pu_step i P k i k = P i k || (Ap i k || (k =? i) || existsb (fun j => P i j && P j k) (seq 0 i))).
      { unfold pu_step. destruct (Ap i k || (k =? i)); cbn [orb]; [rewrite pset_same, Bool.orb_true_r; reflexivity|].
        destruct (existsb _ _); [rewrite pset_same, Bool.orb_true_r | rewrite Bool.orb_false_r]; reflexivity. }
      split.
      + intros k' [<- | Hk'].
        * rewrite IH2 by (right; exact Hnk). exact S1.
        * pose proof (Hks k' (or_intror Hk')) as Hik'.
          assert (Hkk : k' <> k) by (intros ->; contradiction).
          rewrite (IH1 k' Hk'). rewrite S2 by (right; exact Hkk). f_equal. f_equal.
          apply existsb_ext_in. intros j Hj. apply in_seq in Hj.
          rewrite (S2 i j) by (right; lia). rewrite (S2 j k') by (left; lia). reflexivity.
      + intros r c Hne. rewrite IH2.
        * apply S2. destruct Hne as [Hr | Hc]; [left; exact Hr | right; intros ->; apply Hc; left; reflexivity].
        * destruct Hne as [Hr | Hc]; [left; exact Hr | right; intros Hin; apply Hc; right; exact Hin].
  Qed.

  Lemma pl_col_spec i ks : NoDup ks -> (forall k, In k ks -> i <= k) -> forall P,
    let P' := fold_left (pl_step i) ks P in
    (forall k, In k ks ->
       P' k i = P k i || (Ap k i || (k =? i) || existsb (fun j => P k j && P j i) (seq 0 i)))
    /\ (forall r c, c <> i \/ ~ In r ks -> P' r c = P r c).
  Proof.
    induction ks as [|k ks IH]; intros Hnd Hks P; cbn [fold_left].
    - split; [intros k [] | reflexivity].
    - inversion Hnd as [|? ? Hnk Hnd']; subst.
      pose proof (Hks k (or_introl eq_refl)) as Hik.
      destruct (IH Hnd' (fun k' Hk' => Hks k' (or_intror Hk')) (pl_step i P k)) as [IH1 IH2].
      assert (S2 : forall r c, r <> k \/ c <> i -> pl_step i P k r c = P r c).
      { intros r c Hne. unfold pl_step. destruct (Ap k i || (k =? i)); [apply pset_other; exact Hne|].
        destruct (existsb _ _); [apply pset_other; exact Hne | reflexivity]. }
      assert (S1 : pl_step i P k k i = P k i || (Ap k i || (k =? i) || existsb (fun j => P k j && P j i) (seq 0 i))).
      { unfold pl_step. destruct (Ap k i || (k =? i)); cbn [orb]; [rewrite pset_same, Bool.orb_true_r; reflexivity|].
        destruct (existsb _ _); [rewrite pset_same, Bool.orb_true_r | rewrite Bool.orb_false_r]; reflexivity. }
      split.
      + intros k' [<- | Hk'].
        * rewrite IH2 by (right; exact Hnk). exact S1.
        * pose proof (Hks k' (or_intror Hk')) as Hik'.
          assert (Hkk : k' <> k) by (intros ->; contradiction).
          rewrite (IH1 k' Hk'). rewrite S2 by (left; exact Hkk). f_equal. f_equal.
          apply existsb_ext_in. intros j Hj. apply in_seq in Hj.
          rewrite (S2 k' j) by (right; lia). rewrite (S2 j i) by (left; lia). reflexivity.
      + intros r c Hne. rewrite IH2.
        * apply S2. destruct Hne as [Hc | Hr]; [right; exact Hc | left; intros ->; apply Hr; left; reflexivity].
        * destruct Hne as [Hc | Hr]; [left; exact Hc | right; intros Hin; apply Hr; right; exact Hin].
  Qed.

  Definition PInv (m : nat) (P : pat) : Prop :=
    (forall r c, m <= r -> m <= c -> P r c = false) /\
    (forall i k, i < m -> i <= k -> k < n ->
       P i k = Ap i k || (k =? i) || existsb (fun j => P i j && P j k) (seq 0 i)) /\
    (forall i k, i < m -> i < k -> k < n ->
       P k i = Ap k i || existsb (fun j => P k j && P j i) (seq 0 i)).

  Lemma p_step_inv i P : i < n -> PInv i P -> PInv (S i) (p_step P i).
  Proof.
    intros Hi (Z & IU & IL). unfold p_step.
    set (P1 := fold_left (pu_step i) (range i n) P).
    set (P2 := fold_left (pl_step i) (range i n) P1).
    assert (Hge : forall k, In k (range i n) -> i <= k) by (intros k Hk; apply range_In in Hk; lia).
    destruct (pu_row_spec i (range i n) (range_NoDup i n) Hge P) as [SU1 SU2]. fold P1 in SU1, SU2.
    destruct (pl_col_spec i (range i n) (range_NoDup i n) Hge P1) as [SL1 SL2]. fold P2 in SL1, SL2.
    assert (F1 : forall r c, r <> i \/ c < i -> P1 r c = P r c).
    { intros r c [Hr | Hc]; apply SU2; [left; exact Hr | right; rewrite range_In; lia]. }
    assert (F2 : forall r c, c <> i \/ r < i -> P2 r c = P1 r c).
    { intros r c [Hc | Hr]; apply SL2; [left; exact Hc | right; rewrite range_In; lia]. }
    repeat split.
    - intros r c Hr Hc. rewrite F2 by (left; lia). rewrite F1 by (left; lia). apply Z; lia.
    - intros i' k Hi' Hik Hk. destruct (Nat.eq_dec i' i) as [-> | Hne].
      + (* entry (i,k): the column part rewrites only (i,i), which is already set *)
        assert (Hin : In k (range i n)) by (apply range_In; lia).
        assert (HP1 : P1 i k = Ap i k || (k =? i) || existsb (fun j => P i j && P j k) (seq 0 i)).
        { rewrite (SU1 k Hin). rewrite (Z i k (le_n i) Hik). reflexivity. }
        assert (HP2 : P2 i k = P1 i k).
        { destruct (Nat.eq_dec k i) as [-> | Hki].
          - rewrite (SL1 i (proj2 (range_In i n i) (conj (le_n i) Hi))). rewrite HP1, Nat.eqb_refl.
            destruct (Ap i i); reflexivity.
          - apply F2. left; exact Hki. }
        rewrite HP2, HP1. f_equal. apply existsb_ext_in. intros j Hj. apply in_seq in Hj.
        rewrite (F2 i j) by (left; lia). rewrite (F1 i j) by (right; lia).
        rewrite (F2 j k) by (right; lia). rewrite (F1 j k) by (left; lia). reflexivity.
      + assert (Hlt : i' < i) by lia.
        rewrite F2 by (right; lia). rewrite F1 by (left; lia). rewrite (IU i' k Hlt Hik Hk). f_equal.
        apply existsb_ext_in. intros j Hj. apply in_seq in Hj.
        rewrite (F2 i' j) by (left; lia). rewrite (F1 i' j) by (left; lia).
        rewrite (F2 j k) by (right; lia). rewrite (F1 j k) by (left; lia). reflexivity.
    - intros i' k Hi' Hik Hk. destruct (Nat.eq_dec i' i) as [-> | Hne].
      + assert (Hin : In k (range i n)) by (apply range_In; lia).
        rewrite (SL1 k Hin). rewrite (F1 k i) by (left; lia). rewrite (Z k i ltac:(lia) (le_n i)). cbn [orb].
        destruct (Nat.eqb_spec k i) as [E|_]; [lia|]. rewrite Bool.orb_false_r. f_equal.
        apply existsb_ext_in. intros j Hj. apply in_seq in Hj.
        rewrite (F2 k j) by (left; lia). rewrite (F2 j i) by (right; lia). reflexivity.
      + assert (Hlt : i' < i) by lia.
        rewrite (F2 k i') by (left; lia). rewrite (F1 k i') by (right; lia). rewrite (IL i' k Hlt Hik Hk). f_equal.
        apply existsb_ext_in. intros j Hj. apply in_seq in Hj.
        rewrite (F2 k j) by (left; lia). rewrite (F1 k j) by (right; lia).
        rewrite (F2 j i') by (left; lia). rewrite (F1 j i') by (left; lia). reflexivity.
  Qed.

  Lemma p_steps_inv m : m <= n -> PInv m (fold_left p_step (seq 0 m) pempty).
  Proof.
    induction m as [|m IH]; intros Hm.
    - split; [intros; reflexivity | split; intros; lia].
    - rewrite seq_S, fold_left_app. cbn [fold_left plus]. apply p_step_inv; [lia | apply IH; lia].
  Qed.

  Theorem doolittle_ip_sym_closed :
    let P := doolittle_ip_sym n Ap in
    (forall i k, i <= k -> k < n ->
       P i k = Ap i k || (k =? i) || existsb (fun j => P i j && P j k) (seq 0 i)) /\
    (forall i k, i < k -> k < n ->
       P k i = Ap k i || existsb (fun j => P k j && P j i) (seq 0 i)).
  Proof.
    cbv zeta. rewrite doolittle_ip_sym_steps.
    destruct (p_steps_inv n (le_n n)) as (_ & IU & IL).
    split; [intros i k Hik Hk; apply IU; lia | intros i k Hik Hk; apply IL; lia].
  Qed.
End SymbolicIP.

Theorem doolittle_in_place_decomposition_correct :
  forall (N : Num)
    (Nfield : field_theory (n0 N) (n1 N) (nadd N) (nmul N) (nsub N) (nopp N) (ndiv N) (ninv N) eq)
    n (A : mat N) (Ap : pat) (M0 : mat N),
    let P := doolittle_ip_sym n Ap in
    (* the contract of the in-place decomposition: the stored matrix holds A, and zero in the fill-in slots *)
    (forall r c, r < n -> c < n -> P r c = true -> M0 r c = view N Ap A r c) ->
    let M := doolittle_ip_num N n P M0 in
    let Lf := fun r c => if c <? r then view N P M r c else if c =? r then n1 N else n0 N in
    let Uf := fun r c => if r <=? c then view N P M r c else n0 N in
    (forall i, i < n -> M i i <> n0 N) ->
    forall r c, r < n -> c < n -> nsum N n (fun j => nmul N (Lf r j) (Uf j c)) = view N Ap A r c.
Proof.
  intros N Nfield n A Ap M0 P HM0 M Lf Uf Hpiv r c Hr Hc.
  destruct (doolittle_ip_sym_closed n Ap) as [HPu HPl].
  exact (doolittle_ip_LU_eq_A N Nfield n P M0 Ap A HPu HPl HM0 Hpiv r c Hr Hc).
Qed.

(* ------------------------------------------------------------------------------------------
   Factor, then solve (LuDecompositionDoolittleInPlace + LinearSolverInPlace): A x = b. *)
Theorem doolittle_in_place_factor_then_solve :
  forall (N : Num)
    (Nfield : field_theory (n0 N) (n1 N) (nadd N) (nmul N) (nsub N) (nopp N) (ndiv N) (ninv N) eq)
    n (A : mat N) (Ap : pat) (M0 : mat N) (b : vec N),
    let P := doolittle_ip_sym n Ap in
    (forall r c, r < n -> c < n -> P r c = true -> M0 r c = view N Ap A r c) ->
    let M := doolittle_ip_num N n P M0 in
    (forall i, i < n -> M i i <> n0 N) ->
    let x := lin_solve_ip N n P M b in
    forall r, r < n -> nsum N n (fun c => nmul N (view N Ap A r c) (x c)) = b r.
Proof.
  intros N Nfield n A Ap M0 b P HM0 M Hpiv x r Hr.
  destruct (doolittle_ip_sym_closed n Ap) as [HPu _]. fold P in HPu.
  apply (lin_solve_ip_Ax_b N Nfield n (view N Ap A) P M b).
  - intros i Hi. split; [|apply Hpiv; exact Hi].
    rewrite (HPu i i (le_n i) Hi). rewrite Nat.eqb_refl. destruct (Ap i i); reflexivity.
  - intros r0 c0 Hr0 Hc0.
    exact (doolittle_in_place_decomposition_correct N Nfield n A Ap M0 HM0 Hpiv r0 c0 Hr0 Hc0).
  - exact Hr.
Qed.
