(* Properties_C18.v — the JIT-compiled backend is observationally equivalent to the CPU backend.  PARTIAL:
   the theorems are about the model of the code GENERATORS (JitModel.v): the programs they emit, executed by
   the lane-loop semantics given there, perform the CPU kernels' operations.  LLVM (IR semantics, optimiser,
   code generator) is not modelled; the tie runs the real JIT against the model and against the CPU classes. *)
From Coq Require Import List Arith String.
Import ListNotations.
From Model Require Import Base Dense Sparse ProcessSetM LU JitModel JitProofs ErrCodes.

(* forcing and Jacobian: for ANY arithmetic whose multiplication is commutative (binary64's is), every mechanism,
   every vector length, every state / rate constants, one vector group (1 <= cells <= L): the generated function
   leaves in every slot what the vectorised C++ kernel leaves there - operation by operation, hence bit for bit *)
Theorem C18_forcing_function :
  forall (N : Num), (forall a b, nmul N a b = nmul N b a) ->
  forall L p ncells nspec nrxn rc y f, vm_groups L ncells = 1 ->
    jit_add_forcing N L p rc y f = add_forcing N (Grouped L) p ncells nspec nrxn rc y f.
Proof. exact jit_forcing_correct. Qed.
Print Assumptions C18_forcing_function.

Theorem C18_jacobian_function :
  forall (N : Num), (forall a b, nmul N a b = nmul N b a) ->
  forall L p fids ncells nspec nrxn nnz rc y jac, vm_groups L ncells = 1 ->
    jit_sub_jacobian N L p fids rc y jac = sub_jacobian N (Grouped L) p fids ncells nspec nrxn nnz rc y jac.
Proof. exact jit_jacobian_correct. Qed.
Print Assumptions C18_jacobian_function.

(* LU decomposition: any arithmetic at all, any pattern, any previous contents of L and U *)
Theorem C18_lu_decomposition :
  forall (N : Num) n A Ap Lp Up L0 U0,
    jit_decompose N n A Ap Lp Up L0 U0 = doolittle_num N n A Ap Lp Up L0 U0.
Proof. exact jit_lu_correct. Qed.
Print Assumptions C18_lu_decomposition.

Theorem C18_linear_solve :
  forall (N : Num), (forall a b, nmul N a b = nmul N b a) ->
  forall n Lp Up Lm Um b, jit_lin_solve N n Lp Up Lm Um b = lin_solve N n Lp Up Lm Um b.
Proof. exact jit_lin_solve_correct. Qed.
Print Assumptions C18_linear_solve.

Theorem C18_diagonal_shift :
  forall (N : Num) L diag alpha jac,
    jit_alpha_minus_jacobian N L diag alpha jac = cpu_alpha_minus_jacobian_group N L diag alpha jac.
Proof. exact jit_alpha_minus_jacobian_correct. Qed.
Print Assumptions C18_diagonal_shift.

(* a cell count different from the vector length is rejected when the solver is built, and again on every
   diagonal shift; the error is MicmJitErrc::InvalidMatrix = ("MICM JIT", 1) in the tables regenerated from the source *)
Theorem C18_cell_count_guard :
  forall L cells, (jit_builder_outcome L cells = JitServes <-> cells = L)
               /\ (jit_rosenbrock_guard L cells = JitServes <-> cells = L).
Proof. intros L cells; split; [apply jit_builder_serves_iff | apply jit_rosenbrock_serves_iff]. Qed.
Print Assumptions C18_cell_count_guard.

Theorem C18_invalid_matrix_code :
  existsb (fun e => String.eqb (fst (fst e)) "MicmJitErrc" && String.eqb (snd (fst e)) "InvalidMatrix" && Nat.eqb (snd e) 1)
          enum_entries
  && existsb (fun e => String.eqb (fst e) "MicmJitErrc" && String.eqb (snd e) "MICM JIT") enum_category = true.
Proof. vm_compute. reflexivity. Qed.
