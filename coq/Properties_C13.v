(* Properties_C13.v — C13: grid cells are computed independently, for any cell count.
   For any arithmetic (so bit for bit in binary64), every layout and every cell count including
   partial groups: the forcing and the Jacobian of cell c depend on cell c's inputs only. *)
From Model Require Import Base Dense ProcessSetM ProcessSetProofs ScatterProofs JacobianProofs CompositionProofs.
Local Open Scope nat_scope.

Theorem C13_forcing_of_a_cell_depends_on_that_cell_only :
  forall (N : Num) (ly : layout) p ncells nspec nrxn rc y f rc' y' f' K Y F0 K' Y' F0' c s,
    layout_ok ly -> rxns_ids_lt N (ps_rxns N p) nspec -> length (ps_rxns N p) <= nrxn ->
    represents N ly ncells nrxn rc K -> represents N ly ncells nspec y Y -> represents N ly ncells nspec f F0 ->
    represents N ly ncells nrxn rc' K' -> represents N ly ncells nspec y' Y' -> represents N ly ncells nspec f' F0' ->
    c < ncells -> s < nspec ->
    (forall i, K c i = K' c i) -> (forall id, Y c id = Y' c id) -> F0 c s = F0' c s ->
    mget (n0 N) ly nspec (add_forcing N ly p ncells nspec nrxn rc y f) c s =
    mget (n0 N) ly nspec (add_forcing N ly p ncells nspec nrxn rc' y' f') c s.
Proof. exact forcing_cell_local. Qed.
Print Assumptions C13_forcing_of_a_cell_depends_on_that_cell_only.

Theorem C13_jacobian_of_a_cell_depends_on_that_cell_only :
  forall (N : Num) (ly : layout) p eids ncells nspec nrxn nnz rc y jac rc' y' jac' K Y J0 K' Y' J0' c e,
    layout_ok ly -> items_ok N (jac_items N p eids) nspec nrxn nnz ->
    represents N ly ncells nrxn rc K -> represents N ly ncells nspec y Y -> represents N ly ncells nnz jac J0 ->
    represents N ly ncells nrxn rc' K' -> represents N ly ncells nspec y' Y' -> represents N ly ncells nnz jac' J0' ->
    c < ncells -> e < nnz ->
    (forall i, K c i = K' c i) -> (forall id, Y c id = Y' c id) -> J0 c e = J0' c e ->
    mget (n0 N) ly nnz (sub_jacobian N ly p (map (fun e => e * stride ly) eids) ncells nspec nrxn nnz rc y jac) c e =
    mget (n0 N) ly nnz (sub_jacobian N ly p (map (fun e => e * stride ly) eids) ncells nspec nrxn nnz rc' y' jac') c e.
Proof. exact jacobian_cell_local. Qed.
Print Assumptions C13_jacobian_of_a_cell_depends_on_that_cell_only.
