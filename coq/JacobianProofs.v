(* JacobianProofs.v — SubtractJacobianTerms.
   Part A (any Num): both variants are instances of the scatter kernel, so each stored element
            (cell c, element position e) holds a fold over the Jacobian records, computed from
            cell c's inputs only, identically in every layout.
   Part B (commutative ring): that fold is  J0 - sum_i stoich_i(row) * d/dy_col (k_i * prod y),
            with the derivative of the monomial given by the product rule. *)
From Model Require Import Base BaseProofs Dense DenseProofs Sparse SparseProofs ProcessSetM ProcessSetProofs ScatterProofs.
From Coq Require Import Ring Permutation.
Local Open Scope nat_scope.

Section JacAny.
  Variable N : Num.
  Notation T := (T N).

  Definition fadd (rate v : T) : T := nadd N v rate.
  Definition fsub (w rate v : T) : T := nsub N v (nmul N w rate).

  (* one Jacobian record as a scatter item; ids = element positions of its targets *)
  Definition jrec_item (x : (jinfo * list nat * list T) * list nat) : item N :=
    let '((ji, deps, yls), ids) := x in
    mkItem N (ji_process ji) deps (firstn (ji_ndep ji + 1) ids) (combine (skipn (ji_ndep ji + 1) ids) yls).

  Definition jac_items (p : pstab N) (eids : list nat) : list (item N) :=
    map jrec_item (combine (ps_jrecs N p) (jrec_ids N p eids)).

  Lemma flat_map_map {A B C} (f : B -> list C) (g : A -> B) l :
    flat_map f (map g l) = flat_map (fun x => f (g x)) l.
  Proof. induction l; simpl; congruence. Qed.

  Lemma jac_ops_rm_scatter p eids ncells nspec nrxn nnz rc y :
    jac_ops_rm N p eids ncells nspec nrxn nnz rc y =
    scatter_rm N fadd fsub (jac_items p eids) ncells nspec nrxn nnz rc y.
  Proof.
    unfold jac_ops_rm, scatter_rm, jac_items. apply flat_map_ext. intros c.
    rewrite flat_map_map. apply flat_map_ext. intros [[[ji deps] yls] ids]. cbn [jrec_item it_k it_ids it_a it_b].
    f_equal; try reflexivity; try (apply map_ext; intros [k yl]; reflexivity).
  Qed.

  (* the grouped variant receives flat ids = element position * L (VectorIndex of block 0) *)
  Lemma unflatten_map {A B} (f : A -> B) counts (l : list A) :
    unflatten counts (map f l) = map (map f) (unflatten counts l).
  Proof.
    revert l; induction counts as [|n cs IH]; intros l; simpl; auto.
    rewrite firstn_map, skipn_map, IH. reflexivity.
  Qed.

  Lemma combine_map_r {A B C} (f : B -> C) (l1 : list A) (l2 : list B) :
    combine l1 (map f l2) = map (fun x => (fst x, f (snd x))) (combine l1 l2).
  Proof. revert l2; induction l1 as [|a l1 IH]; intros [|b l2]; simpl; auto. f_equal; apply IH. Qed.
  Lemma combine_map_l {A B C} (f : A -> C) (l1 : list A) (l2 : list B) :
    combine (map f l1) l2 = map (fun x => (f (fst x), snd x)) (combine l1 l2).
  Proof. revert l2; induction l1 as [|a l1 IH]; intros [|b l2]; simpl; auto. f_equal; apply IH. Qed.

  Lemma jac_ops_vec_scatter L p eids ncells nspec nrxn nnz rc y :
    jac_ops_vec N L p (map (fun e => e * L) eids) ncells nspec nrxn nnz rc y =
    scatter_vec N fadd fsub L (jac_items p eids) ncells nspec nrxn nnz rc y.
  Proof.
    unfold jac_ops_vec, scatter_vec, jac_items, jrec_ids. apply flat_map_ext. intros g.
    rewrite unflatten_map, combine_map_r, !flat_map_map. apply flat_map_ext.
    intros [[[ji deps] yls] ids]. cbn [fst snd jrec_item it_k it_ids it_a it_b].
    rewrite firstn_map, skipn_map, combine_map_l, !flat_map_map.
    f_equal; try reflexivity; try (apply flat_map_ext; intros [k yl]; reflexivity).
  Qed.

  (* what the stored element e of cell c holds afterwards, for every layout *)
  Definition jac_slot (p : pstab N) (eids : list nat) (k y : nat -> T) (e : nat) (v0 : T) : T :=
    scatter_slot N fadd fsub (jac_items p eids) k y e v0.

  Definition stride (ly : layout) : nat := match ly with RowMajor => 1 | Grouped L => L end.

  Theorem jac_slot_any_layout (ly : layout) p eids ncells nspec nrxn nnz rc y jac K Y J0 c e :
    layout_ok ly ->
    items_ok N (jac_items p eids) nspec nrxn nnz ->
    represents N ly ncells nrxn rc K -> represents N ly ncells nspec y Y -> represents N ly ncells nnz jac J0 ->
    c < ncells -> e < nnz ->
    mget (n0 N) ly nnz (sub_jacobian N ly p (map (fun e => e * stride ly) eids) ncells nspec nrxn nnz rc y jac) c e =
    jac_slot p eids (K c) (Y c) e (J0 c e).
  Proof.
    intros Hly Hok Hrc Hy Hj Hc He. unfold mget, jac_slot. destruct ly as [|L]; cbn [sub_jacobian lay_addr stride].
    - replace (map (fun e0 => e0 * 1) eids) with eids by (rewrite <- (map_id eids) at 1; apply map_ext; intros; lia).
      rewrite jac_ops_rm_scatter. eapply scatter_rm_slot; eauto.
    - rewrite jac_ops_vec_scatter. eapply scatter_vec_slot; eauto.
  Qed.
End JacAny.

(* ====================================================================================== *)
Section JacRing.
  Variable N : Num.
  Notation T := (T N).
  Hypothesis Nring : ring_theory (n0 N) (n1 N) (nadd N) (nmul N) (nsub N) (nopp N) eq.
  Add Ring NumRingJ : Nring.
  Notation "a +! b" := (nadd N a b) (at level 50, left associativity).
  Notation "a *! b" := (nmul N a b) (at level 40, left associativity).
  Notation "a -! b" := (nsub N a b) (at level 50, left associativity).

  (* product rule on a monomial prod_{q in rs} y_q *)
  Fixpoint deriv_product (col : nat) (rs : list nat) (y : nat -> T) : T :=
    match rs with
    | [] => n0 N
    | id :: t => (if id =? col then conc_product N t y else n0 N) +! y id *! deriv_product col t y
    end.

  Lemma conc_product_remove_first col rs y :
    In col rs -> conc_product N rs y = y col *! conc_product N (remove_first col rs) y.
  Proof.
    induction rs as [|id rs IH]; simpl; [tauto|]. intros H.
    destruct (Nat.eqb_spec id col) as [->|NE]; [reflexivity|].
    destruct H as [E|H]; [congruence|]. simpl. rewrite (IH H). ring.
  Qed.

  (* the code's form of the derivative: (number of occurrences) * product with one occurrence removed *)
  Lemma deriv_product_code col rs y :
    nat_to N (multiplicity rs col) *! conc_product N (remove_first col rs) y = deriv_product col rs y.
  Proof.
    induction rs as [|id rs IH]; simpl; [ring|].
    unfold multiplicity in *. simpl.
    destruct (Nat.eq_dec id col) as [->|NE].
    - rewrite Nat.eqb_refl. simpl. rewrite <- IH.
      destruct (in_dec Nat.eq_dec col rs) as [Hin|Hnin].
      + rewrite (conc_product_remove_first col rs y Hin). ring.
      + rewrite (count_occ_not_In Nat.eq_dec) in Hnin. rewrite Hnin. simpl. ring.
    - destruct (Nat.eqb_spec id col); [contradiction|]. simpl. rewrite <- IH. ring.
  Qed.

  (* ---------- finite sums ---------- *)
  Fixpoint sum_list {A} (f : A -> T) (l : list A) : T :=
    match l with [] => n0 N | x :: t => f x +! sum_list f t end.

  Lemma sum_list_app {A} (f : A -> T) l1 l2 : sum_list f (l1 ++ l2) = sum_list f l1 +! sum_list f l2.
  Proof. induction l1 as [|x l1 IH]; simpl; [ring|]. rewrite IH. ring. Qed.

  Lemma sum_list_flat_map {A B} (f : B -> T) (g : A -> list B) l :
    sum_list f (flat_map g l) = sum_list (fun x => sum_list f (g x)) l.
  Proof. induction l as [|x l IH]; simpl; [reflexivity|]. rewrite sum_list_app, IH. reflexivity. Qed.

  Lemma sum_list_ext_in {A} (f g : A -> T) l : (forall x, In x l -> f x = g x) -> sum_list f l = sum_list g l.
  Proof.
    induction l as [|x l IH]; simpl; intros H; [reflexivity|].
    rewrite H by auto. rewrite IH; [reflexivity|]. intros; apply H; auto.
  Qed.

  Lemma sum_list_zero {A} (f : A -> T) l : (forall x, In x l -> f x = n0 N) -> sum_list f l = n0 N.
  Proof.
    induction l as [|x l IH]; simpl; intros H; [reflexivity|].
    rewrite H by auto. rewrite IH by (intros; apply H; auto). ring.
  Qed.

  Lemma sum_list_scale {A} (f : A -> T) c l : sum_list (fun x => c *! f x) l = c *! sum_list f l.
  Proof. induction l as [|x l IH]; simpl; [ring|]. rewrite IH. ring. Qed.

  (* a sum in which at most one key matches *)
  Lemma sum_list_pick {A} (key : A -> nat) (f : A -> T) l k x0 :
    NoDup (map key l) -> In x0 l -> key x0 = k ->
    sum_list (fun x => if key x =? k then f x else n0 N) l = f x0.
  Proof.
    induction l as [|x l IH]; simpl; intros Hnd Hin Hk; [contradiction|].
    inversion Hnd as [|? ? Hnotin Hnd']; subst.
    destruct Hin as [->|Hin].
    - rewrite Nat.eqb_refl. rewrite sum_list_zero; [ring|].
      intros x Hx. destruct (Nat.eqb_spec (key x) (key x0)) as [E|NE]; [|reflexivity].
      exfalso. apply Hnotin. rewrite <- E. apply in_map; auto.
    - destruct (Nat.eqb_spec (key x) (key x0)) as [E|NE].
      + exfalso. apply Hnotin. rewrite E. apply in_map; auto.
      + rewrite (IH Hnd' Hin eq_refl). ring.
  Qed.

  Lemma sum_list_none {A} (key : A -> nat) (f : A -> T) l k :
    ~ In k (map key l) -> sum_list (fun x => if key x =? k then f x else n0 N) l = n0 N.
  Proof.
    intros H. apply sum_list_zero. intros x Hx.
    destruct (Nat.eqb_spec (key x) k) as [E|NE]; [|reflexivity].
    exfalso. apply H. rewrite <- E. apply in_map; auto.
  Qed.

  (* fold of "add c at every matching element" = v + (number of matches) * c *)
  Lemma fold_add_count (P : nat -> bool) c l v :
    fold_left (fun v id => if P id then v +! c else v) l v =
    v +! nat_to N (length (filter P l)) *! c.
  Proof.
    revert v; induction l as [|id l IH]; intros v; simpl; [ring|].
    rewrite IH. destruct (P id); simpl; ring.
  Qed.

  Lemma fold_sub_weighted (P : nat -> bool) c (l : list (nat * T)) v :
    fold_left (fun v (p : nat * T) => if P (fst p) then v -! snd p *! c else v) l v =
    v -! sum_list (fun p : nat * T => if P (fst p) then snd p else n0 N) l *! c.
  Proof.
    revert v; induction l as [|p l IH]; intros v; simpl; [ring|].
    rewrite IH. destruct (P (fst p)); ring.
  Qed.

  (* ---------- the slot as a sum over records ---------- *)
  Definition jrecord := (jinfo * list nat * list (nat * T))%type.

  Section Records.
    Variable elem : nat -> nat -> nat.

    Definition rec_item (x : jrecord) : item N :=
      let '(ji, deps, prods) := x in
      mkItem N (ji_process ji) deps
             (map (fun r => elem r (ji_ind ji)) (deps ++ [ji_ind ji]))
             (map (fun pr : nat * T => (elem (fst pr) (ji_ind ji), snd pr)) prods).

    (* coefficient with which a record's rate enters the element (row, col) *)
    Definition rec_coeff (row col : nat) (x : jrecord) : T :=
      let '(ji, deps, prods) := x in
      if ji_ind ji =? col then
        nat_to N (multiplicity deps row + (if ji_ind ji =? row then 1 else 0)) -! yield_sum N prods row
      else n0 N.

    Definition rec_rate (k y : nat -> T) (x : jrecord) : T :=
      let '(ji, deps, _) := x in k (ji_process ji) *! conc_product N deps y.

    Definition rec_targets (x : jrecord) : list (nat * nat) :=
      let '(ji, deps, prods) := x in
      map (fun r => (r, ji_ind ji)) (deps ++ [ji_ind ji]) ++ map (fun pr : nat * T => (fst pr, ji_ind ji)) prods.

    Lemma fold_left_map {A B C} (f : A -> C -> A) (g : B -> C) l a :
      fold_left f (map g l) a = fold_left (fun a x => f a (g x)) l a.
    Proof. revert a; induction l as [|x l IH]; intros a; simpl; auto. Qed.

    Lemma filter_row_count deps ind row :
      length (filter (fun id => id =? row) (deps ++ [ind])) =
      multiplicity deps row + (if ind =? row then 1 else 0).
    Proof.
      unfold multiplicity. induction deps as [|d deps IH]; simpl.
      - destruct (ind =? row); reflexivity.
      - destruct (Nat.eq_dec d row) as [->|NE].
        + rewrite Nat.eqb_refl. simpl. rewrite IH. reflexivity.
        + destruct (Nat.eqb_spec d row); [contradiction|]. exact IH.
    Qed.

    Lemma yield_sum_as_sum prods row :
      sum_list (fun p : nat * T => if fst p =? row then snd p else n0 N) prods = yield_sum N prods row.
    Proof. induction prods as [|p l IH]; simpl; [reflexivity|]. rewrite IH. reflexivity. Qed.

    Lemma rec_item_slot row col (x : jrecord) rate v :
      (forall rc, In rc (rec_targets x) ->
         (elem (fst rc) (snd rc) = elem row col <-> fst rc = row /\ snd rc = col)) ->
      item_slot N (fadd N) (fsub N) (elem row col) rate (rec_item x) v = v +! rec_coeff row col x *! rate.
    Proof.
      destruct x as [[ji deps] prods]. intros Hinj. unfold item_slot, rec_item, rec_coeff. cbn [it_a it_b].
      rewrite !fold_left_map. cbn [fst snd]. unfold rec_targets in Hinj.
      (* reactant-like targets *)
      rewrite (fold_left_ext_in _
                 (fun v id => if (id =? row) && (ji_ind ji =? col) then v +! rate else v) (deps ++ [ji_ind ji])).
      2:{ intros a id Hid. unfold fadd.
          assert (Hrc : In (id, ji_ind ji) (map (fun r => (r, ji_ind ji)) (deps ++ [ji_ind ji]) ++
                                            map (fun pr : nat * T => (fst pr, ji_ind ji)) prods)).
          { apply in_or_app; left. apply in_map_iff. exists id; auto. }
          specialize (Hinj _ Hrc). cbn [fst snd] in Hinj.
          destruct (Nat.eqb_spec (elem id (ji_ind ji)) (elem row col)) as [E|NE];
            destruct (Nat.eqb_spec id row), (Nat.eqb_spec (ji_ind ji) col); cbn [andb]; auto; tauto. }
      rewrite (fold_left_ext_in _
                 (fun v (pr : nat * T) => if (fst pr =? row) && (ji_ind ji =? col) then v -! snd pr *! rate else v) prods).
      2:{ intros a pr Hpr. unfold fsub.
          assert (Hrc : In (fst pr, ji_ind ji) (map (fun r => (r, ji_ind ji)) (deps ++ [ji_ind ji]) ++
                                                map (fun pr : nat * T => (fst pr, ji_ind ji)) prods)).
          { apply in_or_app; right. apply in_map_iff. exists pr; auto. }
          specialize (Hinj _ Hrc). cbn [fst snd] in Hinj.
          destruct (Nat.eqb_spec (elem (fst pr) (ji_ind ji)) (elem row col)) as [E|NE];
            destruct (Nat.eqb_spec (fst pr) row), (Nat.eqb_spec (ji_ind ji) col); cbn [andb]; auto; tauto. }
      destruct (Nat.eqb_spec (ji_ind ji) col) as [Ec|NEc].
      - rewrite (fold_left_ext_in _ (fun v id => if id =? row then v +! rate else v) (deps ++ [ji_ind ji]))
          by (intros; rewrite andb_true_r; reflexivity).
        rewrite (fold_left_ext_in _ (fun v (pr : nat * T) => if fst pr =? row then v -! snd pr *! rate else v) prods)
          by (intros; rewrite andb_true_r; reflexivity).
        rewrite (fold_add_count (fun id => id =? row)), (fold_sub_weighted (fun id => id =? row)).
        rewrite filter_row_count, yield_sum_as_sum. ring.
      - rewrite (fold_left_id _ (deps ++ [ji_ind ji])) by (intros; rewrite andb_false_r; reflexivity).
        rewrite (fold_left_id _ prods) by (intros; rewrite andb_false_r; reflexivity). ring.
    Qed.

    Theorem records_slot row col (jr : list jrecord) k y v0 :
      (forall x rc, In x jr -> In rc (rec_targets x) ->
         (elem (fst rc) (snd rc) = elem row col <-> fst rc = row /\ snd rc = col)) ->
      scatter_slot N (fadd N) (fsub N) (map rec_item jr) k y (elem row col) v0 =
      v0 +! sum_list (fun x => rec_coeff row col x *! rec_rate k y x) jr.
    Proof.
      unfold scatter_slot. revert v0; induction jr as [|x jr IH]; intros v0 Hinj; simpl; [ring|].
      rewrite IH by (intros; eapply Hinj; simpl; eauto).
      rewrite rec_item_slot by (intros; eapply Hinj; simpl; eauto).
      destruct x as [[ji deps] prods]. cbn [rec_item it_k it_ids rec_rate].
      rewrite (rate_of_product N Nring). ring.
    Qed.
  End Records.


  (* ---------- the records the constructor builds, summed: minus the derivative ---------- *)
  Definition map_wf (m : vmap) : Prop := NoDup (map fst m) /\ NoDup (map snd m).
  (* parameterised reactants do not carry the name of a state variable *)
  Definition params_apart (m : vmap) (rxns : list (reaction N)) : Prop :=
    forall r s, In r rxns -> In s (r_reactants N r) -> s_param s = true -> vlookup m (s_name s) = None.

  Lemma vlookup_spec m name v : NoDup (map fst m) -> (vlookup m name = Some v <-> In (name, v) m).
  Proof.
    induction m as [|[k0 v0] m IH]; simpl; intros Hnd; [split; [discriminate|tauto]|].
    inversion Hnd as [|? ? Hnotin Hnd']; subst.
    destruct (Nat.eqb_spec k0 name) as [->|NE].
    - split.
      + intros H; inversion H; auto.
      + intros [E|Hin]; [inversion E; auto|]. exfalso. apply Hnotin. apply (in_map fst) in Hin. exact Hin.
    - rewrite (IH Hnd'). split; [auto|]. intros [E|Hin]; [inversion E; contradiction|auto].
  Qed.


  Lemma insert_by_index_perm e l : Permutation (insert_by_index e l) (e :: l).
  Proof.
    induction l as [|h t IH]; simpl; [apply Permutation_refl|].
    destruct (snd e <=? snd h); [apply Permutation_refl|].
    eapply Permutation_trans; [apply perm_skip, IH|apply perm_swap].
  Qed.
  Lemma sort_by_index_perm m : Permutation (sort_by_index m) m.
  Proof.
    unfold sort_by_index. induction m as [|e m IH]; simpl; [constructor|].
    eapply Permutation_trans; [apply insert_by_index_perm|]. apply perm_skip, IH.
  Qed.

  (* number of reactants carrying the name = multiplicity of its index among the resolved ids *)
  Lemma name_matches_multiplicity m name col (l : list spc) rs :
    map_wf m -> In (name, col) m ->
    (forall s, In s l -> s_param s = true -> vlookup m (s_name s) = None) ->
    resolve_reactants m l = Ok rs ->
    length (filter (fun s => s_name s =? name) l) = multiplicity rs col.
  Proof.
    intros [Hf Hi] Hin. revert rs; induction l as [|s l IH]; intros rs Hp H; simpl in *.
    - inversion H; reflexivity.
    - assert (Hl : vlookup m name = Some col) by (apply vlookup_spec; auto).
      destruct (s_param s) eqn:Ep.
      + assert (vlookup m (s_name s) = None) by (apply Hp; auto).
        destruct (Nat.eqb_spec (s_name s) name) as [E|NE]; [rewrite E in *; congruence|].
        apply IH; auto.
      + destruct (vlookup m (s_name s)) as [i|] eqn:El; [|discriminate].
        destruct (resolve_reactants m l) as [r|] eqn:Er; [|discriminate].
        inversion H; subst rs. unfold multiplicity in *. simpl.
        specialize (IH r (fun s0 Hs0 => Hp s0 (or_intror Hs0)) eq_refl).
        destruct (Nat.eqb_spec (s_name s) name) as [E|NE].
        * rewrite E in El. assert (i = col) by congruence. subst i.
          destruct (Nat.eq_dec col col); [|contradiction]. simpl. f_equal. exact IH.
        * destruct (Nat.eq_dec i col) as [->|NEi]; [|exact IH].
          exfalso. apply NE. apply vlookup_spec in El; auto.
          (* two names with the same index *)
          clear -Hi El Hin. induction m as [|[k0 v0] m IHm]; simpl in *; [contradiction|].
          inversion Hi as [|? ? Hnotin Hnd']; subst.
          destruct El as [E1|E1], Hin as [E2|E2].
          -- congruence.
          -- inversion E1; subst. exfalso. apply Hnotin. apply (in_map snd) in E2. exact E2.
          -- inversion E2; subst. exfalso. apply Hnotin. apply (in_map snd) in E1. exact E1.
          -- apply IHm; auto.
    Qed.

  Lemma multiplicity_remove_first col row rs :
    In col rs -> multiplicity (remove_first col rs) row + (if col =? row then 1 else 0) = multiplicity rs row.
  Proof.
    unfold multiplicity. induction rs as [|id rs IH]; simpl; [tauto|]. intros H.
    destruct (Nat.eqb_spec id col) as [->|NE].
    - destruct (Nat.eq_dec col row) as [->|NE2].
      + rewrite Nat.eqb_refl. lia.
      + destruct (Nat.eqb_spec col row); [contradiction|]. lia.
    - destruct H as [E|H]; [congruence|]. simpl. specialize (IH H).
      destruct (Nat.eq_dec id row); lia.
  Qed.

  (* d f_row / d y_col as a sum over the resolved reactions *)
  Fixpoint jac_deriv (l : list (nat * rrxn N)) (k y : nat -> T) (row col : nat) : T :=
    match l with
    | [] => n0 N
    | (i, rx) :: t => stoich N rx row *! (k i *! deriv_product col (fst rx) y) +! jac_deriv t k y row col
    end.

  (* contribution of all records of one (independent variable, reaction) pair *)
  Lemma one_reaction_records row col i idx (rs : list nat) (ps : list (nat * T)) k y cnt :
    cnt = multiplicity rs idx ->
    nat_to N cnt *!
      (rec_coeff row col (mkJinfo i idx (length (remove_first idx rs)) (length ps), remove_first idx rs, ps) *!
       rec_rate k y (mkJinfo i idx (length (remove_first idx rs)) (length ps), remove_first idx rs, ps)) =
    if idx =? col then n0 N -! stoich N (rs, ps) row *! (k i *! deriv_product col rs y) else n0 N.
  Proof.
    intros ->. unfold rec_coeff, rec_rate. cbn [ji_ind ji_process].
    destruct (Nat.eqb_spec idx col) as [->|NE]; [|ring].
    rewrite <- deriv_product_code. unfold stoich. cbn [fst snd].
    destruct (in_dec Nat.eq_dec col rs) as [Hin|Hnin].
    - rewrite (multiplicity_remove_first col row rs Hin). ring.
    - assert (E0 : multiplicity rs col = 0) by (apply (count_occ_not_In Nat.eq_dec); exact Hnin).
      rewrite !E0. change (nat_to N 0) with (n0 N). ring.
  Qed.

  Lemma sum_const_filter {A} (P : A -> bool) (c : T) l :
    sum_list (fun _ : A => c) (filter P l) = nat_to N (length (filter P l)) *! c.
  Proof. induction (filter P l) as [|x t IH]; simpl; [ring|]. rewrite IH. ring. Qed.

  Lemma sum_flat_map_if {A B} (P : A -> bool) (g : A -> B) (f : B -> T) l :
    sum_list f (flat_map (fun s => if P s then [g s] else []) l) = sum_list (fun s => f (g s)) (filter P l).
  Proof.
    induction l as [|s l IH]; simpl; [reflexivity|].
    destruct (P s); simpl; rewrite ?sum_list_app; simpl; rewrite IH; ring.
  Qed.

  Lemma resolve_all_combine m rxns rr :
    resolve_all N m rxns = Ok rr ->
    forall r rx, In (r, rx) (combine rxns rr) ->
      resolve_reactants m (r_reactants N r) = Ok (fst rx) /\ resolve_products N m (r_products N r) = Ok (snd rx).
  Proof.
    revert rr; induction rxns as [|r0 rxns IH]; simpl; intros rr H r rx Hin.
    - inversion H; subst. simpl in Hin. contradiction.
    - destruct (resolve_reactants m (r_reactants N r0)) as [rs0|] eqn:E1; [|discriminate].
      destruct (resolve_products N m (r_products N r0)) as [ps0|] eqn:E2; [|discriminate].
      destruct (resolve_all N m rxns) as [l|] eqn:E3; [|discriminate].
      inversion H; subst rr. simpl in Hin. destruct Hin as [E|Hin].
      + inversion E; subst. simpl. auto.
      + eapply IH; eauto.
  Qed.

  Lemma resolve_reactants_in_map m l rs id :
    resolve_reactants m l = Ok rs -> In id rs -> In id (map snd m).
  Proof.
    revert rs; induction l as [|s l IH]; simpl; intros rs H Hid.
    - inversion H; subst; contradiction.
    - destruct (s_param s); [eapply IH; eauto|].
      destruct (vlookup m (s_name s)) as [i|] eqn:E; [|discriminate].
      destruct (resolve_reactants m l) as [r|]; [|discriminate].
      inversion H; subst. destruct Hid as [<-|Hid]; [|eapply IH; eauto].
      destruct (vlookup_in _ _ _ E) as [k0 Hk]. apply (in_map snd) in Hk. exact Hk.
  Qed.

  Lemma sum_combine_skip {A B} (F : nat -> B -> T) (la : list A) (lb : list B) start :
    length la = length lb ->
    sum_list (fun x : nat * (A * B) => F (fst x) (snd (snd x))) (combine (seq start (length la)) (combine la lb)) =
    sum_list (fun x : nat * B => F (fst x) (snd x)) (combine (seq start (length lb)) lb).
  Proof.
    revert lb start; induction la as [|a la IH]; intros [|b lb] start Hlen; simpl in *; try discriminate; [reflexivity|].
    rewrite IH by lia. reflexivity.
  Qed.

  Lemma jac_deriv_as_sum l k y row col :
    jac_deriv l k y row col =
    sum_list (fun x : nat * rrxn N => stoich N (snd x) row *! (k (fst x) *! deriv_product col (fst (snd x)) y)) l.
  Proof. induction l as [|[i rx] l IH]; simpl; [reflexivity|]. rewrite IH. reflexivity. Qed.

  Lemma sum_list_neg {A} (f : A -> T) l : sum_list (fun x => n0 N -! f x) l = n0 N -! sum_list f l.
  Proof. induction l as [|x l IH]; simpl; [ring|]. rewrite IH. ring. Qed.

  Theorem jac_records_sum m rxns rr row col k y :
    map_wf m -> params_apart m rxns -> resolve_all N m rxns = Ok rr ->
    sum_list (fun x => rec_coeff row col x *! rec_rate k y x) (jac_records N m rxns rr) =
    n0 N -! jac_deriv (combine (seq 0 (length rr)) rr) k y row col.
  Proof.
    intros Hwf Hpa Hres. pose proof Hwf as [Hf Hi].
    set (F := fun x : jrecord => rec_coeff row col x *! rec_rate k y x).
    set (L := combine (seq 0 (length rxns)) (combine rxns rr)).
    set (G := sum_list (fun x : nat * (reaction N * rrxn N) =>
                n0 N -! stoich N (snd (snd x)) row *! (k (fst x) *! deriv_product col (fst (snd (snd x))) y)) L).
    unfold jac_records. fold L. rewrite sum_list_flat_map.
    (* per independent variable *)
    assert (Hinner : forall iv, In iv m ->
      sum_list F (flat_map (fun '(i_process, (r, (rs, ps))) =>
         flat_map (fun s : spc => if s_name s =? fst iv then
             [(mkJinfo i_process (snd iv) (length (remove_first (snd iv) rs)) (length ps), remove_first (snd iv) rs, ps)]
           else []) (r_reactants N r)) L) =
      if snd iv =? col then G else n0 N).
    { intros [name idx] Hiv. cbn [fst snd]. rewrite sum_list_flat_map.
      transitivity (sum_list (fun x : nat * (reaction N * rrxn N) =>
                      if idx =? col then n0 N -! stoich N (snd (snd x)) row *! (k (fst x) *! deriv_product col (fst (snd (snd x))) y)
                      else n0 N) L).
      - apply sum_list_ext_in. intros [i [r [rs ps]]] Hx. cbn [fst snd].
        rewrite (sum_flat_map_if (fun s => s_name s =? name)
                   (fun _ => (mkJinfo i idx (length (remove_first idx rs)) (length ps), remove_first idx rs, ps)) F).
        rewrite sum_const_filter. unfold F.
        apply one_reaction_records.
        assert (Hc : In (r, (rs, ps)) (combine rxns rr)) by (apply in_combine_r in Hx; exact Hx).
        destruct (resolve_all_combine m rxns rr Hres r (rs, ps) Hc) as [Hrr _]. cbn [fst] in Hrr.
        eapply name_matches_multiplicity; eauto.
        intros s Hs Hp. eapply Hpa; eauto. apply in_combine_l in Hc. exact Hc.
      - destruct (idx =? col); [reflexivity|]. apply sum_list_zero. reflexivity. }
    rewrite (sum_list_ext_in _ (fun iv => if snd iv =? col then G else n0 N)).
    2:{ intros iv Hiv. apply Hinner. eapply Permutation_in; [apply sort_by_index_perm|exact Hiv]. }
    assert (HG : G = n0 N -! jac_deriv (combine (seq 0 (length rr)) rr) k y row col).
    { unfold G, L. rewrite sum_list_neg. f_equal. rewrite jac_deriv_as_sum.
      rewrite (sum_combine_skip (fun i (rx : rrxn N) => stoich N rx row *! (k i *! deriv_product col (fst rx) y)) rxns rr 0).
      - reflexivity.
      - symmetry. eapply resolve_all_length; eauto. }
    destruct (in_dec Nat.eq_dec col (map snd m)) as [Hin|Hnin].
    - rewrite in_map_iff in Hin. destruct Hin as [iv0 [E0 Hin0]].
      rewrite (sum_list_pick snd (fun _ => G) (sort_by_index m) col iv0); auto.
      + eapply Permutation_NoDup; [apply Permutation_map, Permutation_sym, sort_by_index_perm|exact Hi].
      + eapply Permutation_in; [apply Permutation_sym, sort_by_index_perm|exact Hin0].
    - rewrite sum_list_none.
      2:{ intros Hc. apply Hnin. eapply Permutation_in; [apply Permutation_map, sort_by_index_perm|exact Hc]. }
      rewrite <- HG. unfold G. symmetry. apply sum_list_zero.
      intros [i [r [rs ps]]] Hx. cbn [fst snd].
      assert (Hc : In (r, (rs, ps)) (combine rxns rr)) by (apply in_combine_r in Hx; exact Hx).
      destruct (resolve_all_combine m rxns rr Hres r (rs, ps) Hc) as [Hrr _]. cbn [fst] in Hrr.
      rewrite <- deriv_product_code.
      assert (E0 : multiplicity rs col = 0).
      { apply (count_occ_not_In Nat.eq_dec). intros Hcol. apply Hnin. eapply resolve_reactants_in_map; eauto. }
      rewrite E0. change (nat_to N 0) with (n0 N). ring.
  Qed.
End JacRing.

(* ====================================================================================== *)
(* Part C: the Jacobian tables of the constructor, walked by the kernels' iterators.       *)
Section JacTables.
  Variable N : Num.
  Notation T := (T N).
  Notation jrecord := (jrecord N).

  Definition jrec_wf (x : jrecord) : Prop :=
    let '(ji, deps, prods) := x in ji_ndep ji = length deps /\ ji_nprod ji = length prods.

  Definition jtables (F1 : list nat) (F2 : list nat) (F3 : list nat) (F4 : list nat) (F5 : list T)
             (jr : list jrecord) : pstab N :=
    mkPs N F1 F2 F3 F4 F5
         (map (fun x : jrecord => fst (fst x)) jr)
         (concat (map (fun x : jrecord => snd (fst x)) jr))
         (concat (map (fun x : jrecord => map fst (snd x)) jr))
         (concat (map (fun x : jrecord => map snd (snd x)) jr)).

  Lemma ps_jrecs_of_tables F1 F2 F3 F4 F5 jr :
    (forall x, In x jr -> jrec_wf x) ->
    ps_jrecs N (jtables F1 F2 F3 F4 F5 jr) = map (fun x : jrecord => (fst (fst x), snd (fst x), map snd (snd x))) jr /\
    ps_jprods N (jtables F1 F2 F3 F4 F5 jr) = map (fun x : jrecord => map fst (snd x)) jr.
  Proof.
    unfold ps_jrecs, ps_jprods, jtables. cbn [ps_jinfo ps_jrids ps_jpids ps_jyields].
    induction jr as [|[[ji deps] prods] jr IH]; intros Hwf; [split; reflexivity|].
    destruct (Hwf _ (or_introl eq_refl)) as [Hd Hp].
    destruct (IH (fun x Hx => Hwf x (or_intror Hx))) as [IH1 IH2].
    cbn [map concat fst snd unflatten]. rewrite Hd, Hp.
    rewrite !firstn_len_app, !skipn_len_app by (rewrite ?map_length; reflexivity).
    cbn [combine]. split; f_equal; assumption.
  Qed.

  Lemma jac_records_wf m rxns rr : forall x, In x (jac_records N m rxns rr) -> jrec_wf x.
  Proof.
    intros x Hx. unfold jac_records in Hx.
    rewrite in_flat_map in Hx. destruct Hx as [iv [_ Hx]].
    rewrite in_flat_map in Hx. destruct Hx as [[i [r [rs ps]]] [_ Hx]].
    rewrite in_flat_map in Hx. destruct Hx as [s [_ Hx]].
    destruct (s_name s =? fst iv); [|contradiction].
    destruct Hx as [<-|[]]. simpl. auto.
  Qed.

  Lemma ps_build_jtables m rxns p :
    ps_build N m rxns = Ok p ->
    exists rr F1 F2 F3 F4 F5, resolve_all N m rxns = Ok rr /\ p = jtables F1 F2 F3 F4 F5 (jac_records N m rxns rr).
  Proof.
    unfold ps_build. destruct (resolve_all N m rxns) as [rr|]; [|discriminate].
    intros H; inversion H; subst. exists rr. do 5 eexists. split; [reflexivity|]. unfold jtables. reflexivity.
  Qed.

  (* ---- element positions of the flat ids ---- *)
  Variable elem : nat -> nat -> nat.
  Definition targets_of (jr : list jrecord) : list (nat * nat) := flat_map (rec_targets N) jr.
  Definition eids_of (jr : list jrecord) : list nat :=
    map (fun rc : nat * nat => elem (fst rc) (snd rc)) (targets_of jr).

  Lemma res_map_ok {A B} (f : A -> res B) (g : A -> B) l :
    (forall a, In a l -> f a = Ok (g a)) -> res_map f l = Ok (map g l).
  Proof.
    induction l as [|a l IH]; simpl; intros H; [reflexivity|].
    rewrite H by auto. rewrite IH by (intros; apply H; auto). reflexivity.
  Qed.

  Lemma flat_ids_targets F1 F2 F3 F4 F5 jr :
    (forall x, In x jr -> jrec_wf x) ->
    flat_map (fun '((ji, deps, _), prods) =>
                map (fun r => (r, ji_ind ji)) deps ++ [(ji_ind ji, ji_ind ji)] ++ map (fun r => (r, ji_ind ji)) prods)
             (combine (ps_jrecs N (jtables F1 F2 F3 F4 F5 jr)) (ps_jprods N (jtables F1 F2 F3 F4 F5 jr))) =
    targets_of jr.
  Proof.
    intros Hwf. destruct (ps_jrecs_of_tables F1 F2 F3 F4 F5 jr Hwf) as [-> ->].
    unfold targets_of. clear Hwf. induction jr as [|[[ji deps] prods] jr IH]; [reflexivity|].
    cbn [map combine flat_map fst snd rec_targets]. rewrite IH. f_equal.
    rewrite map_app, map_map. cbn [map]. rewrite <- app_assoc. reflexivity.
  Qed.

  Theorem flat_ids_built (vi : nat -> nat -> res nat) (st : nat) F1 F2 F3 F4 F5 jr :
    (forall x, In x jr -> jrec_wf x) ->
    (forall rc, In rc (targets_of jr) -> vi (fst rc) (snd rc) = Ok (elem (fst rc) (snd rc) * st)) ->
    flat_ids N vi (jtables F1 F2 F3 F4 F5 jr) = Ok (map (fun e => e * st) (eids_of jr)).
  Proof.
    intros Hwf Hvi. unfold flat_ids. rewrite flat_ids_targets by assumption.
    unfold eids_of. rewrite map_map.
    apply (res_map_ok (fun '(row, col) => vi row col) (fun rc => elem (fst rc) (snd rc) * st)).
    intros [r c] Hin. apply (Hvi (r, c) Hin).
  Qed.

  Lemma concat_map_map {A B} (f : A -> B) (ls : list (list A)) : map f (concat ls) = concat (map (map f) ls).
  Proof. induction ls as [|l ls IH]; simpl; [reflexivity|]. rewrite map_app, IH. reflexivity. Qed.

  Lemma unflatten_concat_gen {A X} (cnt : X -> nat) (g : X -> list A) l :
    (forall x, In x l -> cnt x = length (g x)) -> unflatten (map cnt l) (concat (map g l)) = map g l.
  Proof.
    induction l as [|x l IH]; intros H; [reflexivity|]. cbn [map concat unflatten].
    rewrite firstn_len_app, skipn_len_app by (symmetry; apply H; simpl; auto).
    rewrite IH by (intros; apply H; simpl; auto). reflexivity.
  Qed.

  Theorem jac_items_built F1 F2 F3 F4 F5 jr :
    (forall x, In x jr -> jrec_wf x) ->
    jac_items N (jtables F1 F2 F3 F4 F5 jr) (eids_of jr) = map (rec_item N elem) jr.
  Proof.
    intros Hwf. unfold jac_items, jrec_ids.
    destruct (ps_jrecs_of_tables F1 F2 F3 F4 F5 jr Hwf) as [-> _].
    assert (Hids : unflatten (map (fun ji => ji_ndep ji + 1 + ji_nprod ji) (ps_jinfo N (jtables F1 F2 F3 F4 F5 jr))) (eids_of jr) =
                   map (fun x : jrecord => map (fun rc : nat * nat => elem (fst rc) (snd rc)) (rec_targets N x)) jr).
    { unfold jtables; cbn [ps_jinfo]. unfold eids_of, targets_of.
      rewrite flat_map_concat_map, concat_map_map, !map_map.
      apply (unflatten_concat_gen (fun x : jrecord => ji_ndep (fst (fst x)) + 1 + ji_nprod (fst (fst x)))
               (fun x : jrecord => map (fun rc : nat * nat => elem (fst rc) (snd rc)) (rec_targets N x))).
      intros [[ji deps] prods] Hx.
      destruct (Hwf _ Hx) as [Hd Hp]. cbn [fst snd rec_targets].
      rewrite map_length, app_length, !map_length, app_length. simpl. lia. }
    rewrite Hids. clear Hids.
    induction jr as [|[[ji deps] prods] jr IH]; [reflexivity|].
    destruct (Hwf _ (or_introl eq_refl)) as [Hd Hp].
    cbn [map combine fst snd]. rewrite IH by (intros; apply Hwf; simpl; auto). f_equal.
    unfold jrec_item, rec_item, rec_targets. cbn [fst snd]. rewrite Hd.
    rewrite map_app, !map_map. cbn [fst snd].
    rewrite firstn_len_app, skipn_len_app by (rewrite map_length, app_length; simpl; lia).
    f_equal. rewrite combine_map_l, combine_map_r, map_map.
    rewrite <- (map_id prods) at 3. rewrite <- (combine_fst_snd prods) at 1.
    clear. induction prods as [|[a b] l IH]; simpl; [reflexivity|]. f_equal. exact IH.
  Qed.
End JacTables.

(* ====================================================================================== *)
(* Assembly                                                                                *)
Section JacAssembly.
  Variable N : Num.
  Notation T := (T N).

  Lemma remove_first_incl x l y : In y (remove_first x l) -> In y l.
  Proof.
    induction l as [|h t IH]; simpl; [tauto|]. destruct (h =? x); simpl; [auto|]. intros [E|H]; auto.
  Qed.

  Lemma jac_records_facts m rxns rr x :
    In x (jac_records N m rxns rr) ->
    ji_process (fst (fst x)) < length rxns /\
    (exists name, In (name, ji_ind (fst (fst x))) m) /\
    exists r rs ps, In (r, (rs, ps)) (combine rxns rr) /\
                    snd (fst x) = remove_first (ji_ind (fst (fst x))) rs /\ snd x = ps.
  Proof.
    intros Hx. unfold jac_records in Hx.
    rewrite in_flat_map in Hx. destruct Hx as [iv [Hiv Hx]].
    rewrite in_flat_map in Hx. destruct Hx as [[i [r [rs ps]]] [Hin Hx]].
    rewrite in_flat_map in Hx. destruct Hx as [s [_ Hx]].
    destruct (s_name s =? fst iv); [|contradiction].
    destruct Hx as [<-|[]]. cbn [fst snd ji_process ji_ind]. split; [|split].
    - apply in_combine_l in Hin. rewrite in_seq in Hin. lia.
    - exists (fst iv). destruct iv; simpl. eapply Permutation_in; [apply sort_by_index_perm|exact Hiv].
    - exists r, rs, ps. split; [apply in_combine_r in Hin; exact Hin|auto].
  Qed.

  Lemma combine_in_rr {A B} (la : list A) (lb : list B) a b : In (a, b) (combine la lb) -> In b lb.
  Proof. apply in_combine_r. Qed.

  Theorem jacobian_is_derivative
    (Nring : ring_theory (n0 N) (n1 N) (nadd N) (nmul N) (nsub N) (nopp N) eq)
    (ly : layout) (m : vmap) (rxns : list (reaction N)) p nspec ncells nnz
    (vi : nat -> nat -> res nat) (elem : nat -> nat -> nat) rc y jac fids K Y J0 c row col rr :
    layout_ok ly -> map_wf m -> params_apart N m rxns -> vmap_range_lt m nspec ->
    ps_build N m rxns = Ok p -> resolve_all N m rxns = Ok rr ->
    (forall t, In t (targets_of N (jac_records N m rxns rr)) ->
       vi (fst t) (snd t) = Ok (elem (fst t) (snd t) * stride ly) /\ elem (fst t) (snd t) < nnz) ->
    (forall t, In t (targets_of N (jac_records N m rxns rr)) ->
       (elem (fst t) (snd t) = elem row col <-> fst t = row /\ snd t = col)) ->
    elem row col < nnz ->
    flat_ids N vi p = Ok fids ->
    represents N ly ncells (length rxns) rc K -> represents N ly ncells nspec y Y ->
    represents N ly ncells nnz jac J0 -> c < ncells ->
    mget (n0 N) ly nnz (sub_jacobian N ly p fids ncells nspec (length rxns) nnz rc y jac) c (elem row col) =
    nsub N (J0 c (elem row col)) (jac_deriv N (combine (seq 0 (length rr)) rr) (K c) (Y c) row col).
  Proof.
    intros Hly Hwf Hpa Hrange Hb Hres Hvi Hinj He Hfid Hrc Hy Hj Hc.
    destruct (ps_build_jtables N m rxns p Hb) as [rr' [F1 [F2 [F3 [F4 [F5 [Hres' Hp]]]]]]].
    assert (rr' = rr) by congruence. subst rr'. subst p.
    set (jr := jac_records N m rxns rr) in *.
    assert (Hwfr : forall x, In x jr -> jrec_wf N x) by (apply jac_records_wf).
    rewrite (flat_ids_built N elem vi (stride ly) F1 F2 F3 F4 F5 jr Hwfr (fun t Ht => proj1 (Hvi t Ht))) in Hfid.
    inversion Hfid; subst fids. clear Hfid.
    rewrite (jac_slot_any_layout N ly _ (eids_of N elem jr) ncells nspec (length rxns) nnz rc y jac K Y J0 c (elem row col)); auto.
    - unfold jac_slot. rewrite (jac_items_built N elem F1 F2 F3 F4 F5 jr Hwfr).
      rewrite (records_slot N Nring elem row col jr).
      + unfold jr. rewrite (jac_records_sum N Nring m rxns rr row col (K c) (Y c) Hwf Hpa Hres).
        pose proof Nring as R. destruct R. 
        rewrite Rsub_def, (Rsub_def (J0 c (elem row col))), Radd_0_l. reflexivity.
      + intros x t Hx Ht. apply Hinj. unfold targets_of. apply in_flat_map. exists x; auto.
    - (* items_ok *)
      rewrite (jac_items_built N elem F1 F2 F3 F4 F5 jr Hwfr).
      intros it Hit. rewrite in_map_iff in Hit. destruct Hit as [x [<- Hx]].
      destruct (jac_records_facts m rxns rr x Hx) as [Hproc [_ [r [rs [ps [Hin [Hdeps Hps]]]]]]].
      destruct x as [[ji deps] prods]. cbn [fst snd] in *. cbn [rec_item it_k it_ids it_a it_b].
      pose proof (resolve_all_lt N m nspec rxns rr Hrange Hres (rs, ps) (combine_in_rr _ _ _ _ Hin)) as [Hrs _].
      cbn [fst] in Hrs.
      assert (Htg : forall t, In t (rec_targets N (ji, deps, prods)) -> elem (fst t) (snd t) < nnz).
      { intros t Ht. apply Hvi. unfold targets_of. apply in_flat_map. exists (ji, deps, prods); auto. }
      split; [exact Hproc|]. split; [|split].
      + intros id Hid. apply Hrs. subst deps. eapply remove_first_incl; eauto.
      + intros e Hein. rewrite in_map_iff in Hein. destruct Hein as [r0 [<- Hr0]].
        apply (Htg (r0, ji_ind ji)). unfold rec_targets. apply in_or_app; left. apply in_map_iff. exists r0; auto.
      + intros pr Hpr. rewrite in_map_iff in Hpr. destruct Hpr as [pr0 [<- Hpr0]]. cbn [fst].
        apply (Htg (fst pr0, ji_ind ji)). unfold rec_targets. apply in_or_app; right. apply in_map_iff. exists pr0; auto.
  Qed.

  (* ---------- the declared pattern is complete ---------- *)
  Theorem pattern_complete p rs ps ind dep :
    In (rs, ps) (ps_rxns N p) -> In ind rs -> (In dep rs \/ In dep (map fst ps)) ->
    In (dep, ind) (nonzero_jac N p).
  Proof.
    intros Hrx Hind Hdep. unfold nonzero_jac. apply (proj2 (set_of_spec _)).
    apply in_flat_map. exists (rs, ps). split; [exact Hrx|].
    apply in_flat_map. exists ind. split; [exact Hind|].
    apply in_or_app. destruct Hdep as [H|H].
    - left. apply in_map_iff. exists dep; auto.
    - right. rewrite in_map_iff in H. destruct H as [pr [E Hpr]]. apply in_map_iff. exists pr. subst; auto.
  Qed.

  (* every element SetJacobianFlatIds asks for lies in the declared pattern or on the diagonal *)
  Theorem targets_in_pattern m rxns rr p t :
    map_wf m -> params_apart N m rxns ->
    ps_build N m rxns = Ok p -> resolve_all N m rxns = Ok rr ->
    In t (targets_of N (jac_records N m rxns rr)) ->
    In t (nonzero_jac N p) \/ fst t = snd t.
  Proof.
    intros [Hf Hi] Hpa Hb Hres Ht.
    destruct (ps_build_rxns N m rxns p Hb) as [rr' [Hres' Hp]]. assert (Err : rr' = rr) by congruence. rewrite Err in Hp. clear Err Hres' rr'.
    unfold targets_of in Ht. rewrite in_flat_map in Ht. destruct Ht as [x [Hx Ht]].
    unfold jac_records in Hx.
    rewrite in_flat_map in Hx. destruct Hx as [iv [Hiv Hx]].
    rewrite in_flat_map in Hx. destruct Hx as [[i [r [rs ps]]] [Hin Hx]].
    rewrite in_flat_map in Hx. destruct Hx as [s [Hs Hx]].
    destruct (Nat.eqb_spec (s_name s) (fst iv)) as [En|]; [|contradiction].
    destruct Hx as [<-|[]]. cbn [rec_targets ji_ind] in Ht.
    assert (Hc : In (r, (rs, ps)) (combine rxns rr)) by (apply in_combine_r in Hin; exact Hin).
    assert (Hrx : In (rs, ps) (ps_rxns N p)) by (rewrite Hp; eapply in_combine_r; eauto).
    rewrite in_app_iff, !in_map_iff in Ht.
    destruct Ht as [[r0 [<- Hr0]]|[pr [<- Hpr]]].
    - rewrite in_app_iff in Hr0. destruct Hr0 as [Hr0|[<-|[]]]; [|right; reflexivity].
      destruct (in_dec Nat.eq_dec (snd iv) rs) as [Hind|Hnind].
      + left. eapply pattern_complete; eauto. left. eapply remove_first_incl; eauto.
      + (* the name matched a reactant that resolved elsewhere: impossible for a well-formed map *)
        exfalso. apply Hnind.
        destruct (resolve_all_combine N m rxns rr Hres r (rs, ps) Hc) as [Hrr _]. cbn [fst] in Hrr.
        assert (Hivm : In (fst iv, snd iv) m).
        { destruct iv; simpl. eapply Permutation_in; [apply sort_by_index_perm|exact Hiv]. }
        assert (Hcnt := name_matches_multiplicity m (fst iv) (snd iv) (r_reactants N r) rs (conj Hf Hi) Hivm
                          (fun s0 Hs0 Hp0 => Hpa r s0 (in_combine_l _ _ _ _ Hc) Hs0 Hp0) Hrr).
        assert (0 < length (filter (fun s0 => s_name s0 =? fst iv) (r_reactants N r))).
        { assert (In s (filter (fun s0 => s_name s0 =? fst iv) (r_reactants N r))).
          { apply filter_In. split; [exact Hs|]. apply Nat.eqb_eq. exact En. }
          destruct (filter (fun s0 => s_name s0 =? fst iv) (r_reactants N r)); [contradiction|simpl; lia]. }
        unfold multiplicity in Hcnt. apply (count_occ_In Nat.eq_dec). lia.
    - destruct (in_dec Nat.eq_dec (snd iv) rs) as [Hind|Hnind].
      + left. eapply pattern_complete; eauto. right. apply in_map. exact Hpr.
      + exfalso. apply Hnind.
        destruct (resolve_all_combine N m rxns rr Hres r (rs, ps) Hc) as [Hrr _]. cbn [fst] in Hrr.
        assert (Hivm : In (fst iv, snd iv) m).
        { destruct iv; simpl. eapply Permutation_in; [apply sort_by_index_perm|exact Hiv]. }
        assert (Hcnt := name_matches_multiplicity m (fst iv) (snd iv) (r_reactants N r) rs (conj Hf Hi) Hivm
                          (fun s0 Hs0 Hp0 => Hpa r s0 (in_combine_l _ _ _ _ Hc) Hs0 Hp0) Hrr).
        assert (0 < length (filter (fun s0 => s_name s0 =? fst iv) (r_reactants N r))).
        { assert (In s (filter (fun s0 => s_name s0 =? fst iv) (r_reactants N r))).
          { apply filter_In. split; [exact Hs|]. apply Nat.eqb_eq. exact En. }
          destruct (filter (fun s0 => s_name s0 =? fst iv) (r_reactants N r)); [contradiction|simpl; lia]. }
        unfold multiplicity in Hcnt. apply (count_occ_In Nat.eq_dec). lia.
  Qed.
End JacAssembly.

(* ====================================================================================== *)
(* The real sparse matrix supplies the element positions.                                  *)
Section WithSparse.
  Variable N : Num.
  Variables (o : ordering) (n : nat) (pat : list (nat * nat)) (nb : nat).
  Hypothesis Ho : ord_ok o.
  Hypothesis Hn : 0 < n.
  Hypothesis Hnb : 0 < nb.
  Hypothesis Hpat : forall x, In x pat -> fst x < n /\ snd x < n.
  Notation s := (sp_build (o_csc o) n pat).

  Definition sp_elem (r c : nat) : nat :=
    match sp_find (o_csc o) s r c with Some e => e | None => 0 end.

  Lemma stride_ord : stride (ord_layout o) = match o_L o with None => 1 | Some L => L end.
  Proof. unfold stride, ord_layout. destruct (o_L o); reflexivity. Qed.

  Lemma sparse_elem_ok r c :
    In (r, c) pat ->
    sp_index o s nb 0 r c = Ok (sp_elem r c * stride (ord_layout o)) /\ sp_elem r c < sp_nnz s.
  Proof.
    intros Hin. destruct (Hpat _ Hin) as [Hr Hc]. simpl in Hr, Hc.
    destruct (proj2 (sp_find_some_iff (o_csc o) n pat Hn Hpat r c Hr Hc) Hin) as [e He].
    unfold sp_elem. rewrite He. split.
    - apply sp_index_dense. repeat split; auto. exists e. split; [exact He|].
      unfold ord_layout, stride, ord_ok in *. destruct (o_L o) as [L|]; simpl.
      + unfold vm_addr. rewrite Nat.div_0_l, Nat.mod_0_l by lia. lia.
      + unfold rm_addr. lia.
    - apply (sp_find_position (o_csc o) n pat Hn Hpat r c e Hr Hc He).
  Qed.

  Lemma sparse_elem_inj r c r' c' :
    In (r, c) pat -> In (r', c') pat -> (sp_elem r c = sp_elem r' c' <-> r = r' /\ c = c').
  Proof.
    intros Hin Hin'. split; [|intros [-> ->]; reflexivity].
    destruct (Hpat _ Hin) as [Hr Hc]. destruct (Hpat _ Hin') as [Hr' Hc']. simpl in *.
    destruct (proj2 (sp_find_some_iff (o_csc o) n pat Hn Hpat r c Hr Hc) Hin) as [e He].
    destruct (proj2 (sp_find_some_iff (o_csc o) n pat Hn Hpat r' c' Hr' Hc') Hin') as [e' He'].
    unfold sp_elem. rewrite He, He'. intros E. subst e'.
    exact (sp_find_inj (o_csc o) n pat Hn Hpat r c r' c' e Hr Hc Hr' Hc' He He').
  Qed.
End WithSparse.

Lemma scatter_slot_untouched (N : Num) f1 f2 (items : list (item N)) k y e v0 :
  (forall it, In it items -> ~ In e (it_a N it) /\ ~ In e (map fst (it_b N it))) ->
  scatter_slot N f1 f2 items k y e v0 = v0.
Proof.
  intros H. unfold scatter_slot. apply fold_left_id. intros v it Hit.
  destruct (H it Hit) as [Ha Hb]. unfold item_slot.
  rewrite (fold_left_id _ (it_a N it)).
  - apply fold_left_id. intros a pr Hpr. destruct (Nat.eqb_spec (fst pr) e) as [E|NE]; [|reflexivity].
    exfalso. apply Hb. rewrite <- E. apply in_map. exact Hpr.
  - intros a id Hid. destruct (Nat.eqb_spec id e) as [E|NE]; [|reflexivity]. subst. contradiction.
Qed.

(* the full statement for a Jacobian stored in a real sparse matrix whose pattern contains
   the declared non-zero elements and the diagonal *)
Theorem jacobian_in_sparse_matrix (N : Num)
  (Nring : ring_theory (n0 N) (n1 N) (nadd N) (nmul N) (nsub N) (nopp N) eq)
  (o : ordering) (m : vmap) (rxns : list (reaction N)) p nspec ncells pat rc y jac fids K Y J0 c row col rr :
  ord_ok o -> 0 < nspec -> 0 < ncells ->
  map_wf m -> params_apart N m rxns -> vmap_range_lt m nspec ->
  ps_build N m rxns = Ok p -> resolve_all N m rxns = Ok rr ->
  (forall x, In x pat -> fst x < nspec /\ snd x < nspec) ->
  (forall x, In x (nonzero_jac N p) -> In x pat) -> (forall i, i < nspec -> In (i, i) pat) ->
  In (row, col) pat ->
  let s := sp_build (o_csc o) nspec pat in
  let ly := ord_layout o in
  flat_ids N (fun r c => sp_index o s ncells 0 r c) p = Ok fids ->
  represents N ly ncells (length rxns) rc K -> represents N ly ncells nspec y Y ->
  represents N ly ncells (sp_nnz s) jac J0 -> c < ncells ->
  exists k, sp_index o s ncells c row col = Ok k /\
    nth k (sub_jacobian N ly p fids ncells nspec (length rxns) (sp_nnz s) rc y jac) (n0 N) =
    nsub N (J0 c (sp_elem o nspec pat row col)) (jac_deriv N (combine (seq 0 (length rr)) rr) (K c) (Y c) row col).
Proof.
  intros Ho Hns Hnc Hwf Hpa Hrange Hb Hres Hpat Hsub Hdiag Hrc s ly Hfid Hrcs Hys Hjs Hc.
  assert (Hly : layout_ok ly) by (unfold ly, layout_ok, ord_layout, ord_ok in *; destruct (o_L o); auto).
  assert (Htp : forall t, In t (targets_of N (jac_records N m rxns rr)) -> In t pat).
  { intros t Ht. destruct (targets_in_pattern N m rxns rr p t Hwf Hpa Hb Hres Ht) as [H|H].
    - apply Hsub; exact H.
    - destruct t as [a b]; simpl in H; subst b.
      (* a diagonal target: its index is a value of the map, hence below nspec *)
      apply Hdiag.
      unfold targets_of in Ht. rewrite in_flat_map in Ht. destruct Ht as [x [Hx Ht]].
      destruct (jac_records_facts N m rxns rr x Hx) as [_ [[nm Hnm] [r [rs [ps [Hin [Hdeps Hps]]]]]]].
      pose proof (resolve_all_lt N m nspec rxns rr Hrange Hres (rs, ps) (in_combine_r _ _ _ _ Hin)) as [Hrs Hpsl].
      destruct x as [[ji deps] prods]. cbn [fst snd] in *. unfold rec_targets in Ht.
      rewrite in_app_iff, !in_map_iff in Ht.
      destruct Ht as [[r0 [E Hr0]]|[pr [E Hpr]]]; inversion E; subst.
      + eapply Hrange; eauto.
      + eapply Hrange; eauto. }
  destruct (sparse_elem_ok o nspec pat ncells Ho Hns Hnc Hpat row col Hrc) as [Hidx Hlt].
  exists (lay_addr ly (sp_nnz s) c (sp_elem o nspec pat row col)). split.
  - apply sp_index_dense. destruct (Hpat _ Hrc) as [Hr0 Hc0]. simpl in Hr0, Hc0.
    repeat split; auto.
    destruct (proj2 (sp_find_some_iff (o_csc o) nspec pat Hns Hpat row col Hr0 Hc0) Hrc) as [e He].
    exists e. split; [exact He|]. unfold sp_elem. unfold s in *. rewrite He. reflexivity.
  - apply (jacobian_is_derivative N Nring ly m rxns p nspec ncells (sp_nnz s)
             (fun r c => sp_index o s ncells 0 r c) (sp_elem o nspec pat) rc y jac fids K Y J0 c row col rr); auto.
    + intros [a b] Ht. cbn [fst snd]. pose proof (Htp (a, b) Ht) as Hab.
      exact (sparse_elem_ok o nspec pat ncells Ho Hns Hnc Hpat a b Hab).
    + intros [a b] Ht. cbn [fst snd]. pose proof (Htp (a, b) Ht) as Hab.
      exact (sparse_elem_inj o nspec pat Hns Hpat a b row col Hab Hrc).
Qed.
