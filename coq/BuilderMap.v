(* BuilderMap.v — SolverBuilder::GetSpeciesMap (solver_builder.inl) composed from its parts: the listing-order map,
   the non-zero Jacobian elements of the process set built with that map, the reordering DiagonalMarkowitzReorder
   computes on their pattern (MarkowitzReal), the final name -> index map and the list of variable names.
   Executable (the correspondence check runs it against built solvers) and, for duplicate-free names, a bijection. *)
From Model Require Import Base BaseProofs LU ProcessSetM Assembly AssemblyProofs MarkowitzReal.
From Coq Require Import Permutation List.
Import ListNotations.
Local Open Scope nat_scope.

(* variable_names_[map[name]] = name over the final listing gives back that listing *)
Lemma firstn_S_nth {A} (l : list A) d : forall k, k < length l -> firstn (S k) l = firstn k l ++ [nth k l d].
Proof.
  induction l as [|a l IH]; intros k Hk; [cbn in Hk; lia|].
  destruct k as [|k]; [reflexivity|]. cbn [firstn nth app]. f_equal. apply IH. cbn in Hk. lia.
Qed.

Lemma variable_names_spec n keys m :
  length keys = n -> (forall i, i < n -> map_lookup m (nth i keys 0) = Some i) -> variable_names n keys m = keys.
Proof.
  intros Hlen Hidx. unfold variable_names.
  set (step := fun acc k => match map_lookup m k with Some i => upd i k acc | None => acc end).
  assert (G : forall k, k <= n ->
            length (fold_left step (firstn k keys) (repeat 0 n)) = n /\
            forall j, nth j (fold_left step (firstn k keys) (repeat 0 n)) 0 = if j <? k then nth j keys 0 else 0).
  { induction k as [|k IH]; intros Hk.
    - cbn [firstn fold_left]. split; [apply repeat_length|]. intros j. cbn [Nat.ltb Nat.leb].
      destruct (Nat.lt_ge_cases j n) as [Hj | Hj]; [apply nth_repeat | apply nth_overflow; rewrite repeat_length; exact Hj].
    - assert (Hk' : k <= n) by lia. destruct (IH Hk') as [IL IN].
      rewrite (firstn_S_nth keys 0 k) by lia. rewrite fold_left_app. cbn [fold_left].
      assert (Es : forall acc, step acc (nth k keys 0) = upd k (nth k keys 0) acc)
        by (intros acc; unfold step; rewrite (Hidx k) by lia; reflexivity).
      rewrite Es.
      split; [rewrite upd_length; exact IL|].
      intros j. rewrite nth_upd. rewrite IL.
      destruct (Nat.eqb_spec k j) as [<- | Hne]; cbn [andb].
      + destruct (Nat.ltb_spec k n); [|lia]. destruct (Nat.ltb_spec k (S k)); [reflexivity | lia].
      + rewrite IN. destruct (Nat.ltb_spec j k); destruct (Nat.ltb_spec j (S k)); try lia; reflexivity. }
  destruct (G n (le_n n)) as [GL GN].
  assert (Ef : firstn n keys = keys) by (rewrite <- Hlen; apply firstn_all).
  rewrite Ef in GL, GN.
  apply (nth_ext _ _ 0 0); [rewrite GL; symmetry; exact Hlen|].
  intros j Hj. rewrite GN. rewrite GL in Hj. destruct (Nat.ltb_spec j n); [reflexivity | lia].
Qed.

Section BuilderMap.
  Variable N : Num.

  Definition pat_of_pairs (nz : list (nat * nat)) : pat2 :=
    fun r c => existsb (fun e => (fst e =? r) && (snd e =? c)) nz.

  (* the permutation of the listing the builder applies (None: SetReorderState(false)) *)
  Definition builder_reordering (names : list nat) (rxns : list (reaction N)) (reorder : bool) : res (option (list nat)) :=
    let first := combine names (seq 0 (length names)) in
    match ps_build N first rxns with
    | Err c => Err c
    | Ok p => Ok (if reorder then Some (markowitz_real (length names) (pat_of_pairs (nonzero_jac N p))) else None)
    end.

  Definition builder_species_map (names : list nat) (rxns : list (reaction N)) (reorder : bool)
    : res (list (nat * nat) * list nat) :=
    match builder_reordering names rxns reorder with
    | Err c => Err c
    | Ok ro =>
      let m := species_map names ro in
      let final := match ro with Some perm => reordered_names names perm | None => names end in
      Ok (m, variable_names (length names) final m)
    end.

  (* whatever the mechanism and the reordering option: duplicate-free names get a bijective map that agrees with the
     variable names (C14_species_map_is_a_bijection applied to the permutation the real heuristic returns) *)
  Theorem builder_map_bijection names rxns reorder m vn :
    NoDup names -> builder_species_map names rxns reorder = Ok (m, vn) ->
    exists final, NoDup final /\ Permutation final names /\
      (forall i, i < length names -> map_lookup m (nth i final 0) = Some i) /\ vn = final.
  Proof.
    intros Hnd E. unfold builder_species_map in E.
    destruct (builder_reordering names rxns reorder) as [ro | c] eqn:Er; [|discriminate E].
    inversion E; subst; clear E.
    assert (Hperm : match ro with Some perm => Permutation perm (seq 0 (length names)) | None => True end).
    { unfold builder_reordering in Er. destruct (ps_build N _ rxns); [|discriminate Er]. inversion Er; subst.
      destruct reorder; [|exact I]. apply markowitz_is_permutation. }
    pose proof (species_map_bijection names ro Hnd Hperm) as HB. cbv zeta in HB.
    destruct HB as (H1 & H2 & H3).
    eexists. split; [exact H1 | split; [exact H2 | split; [exact H3|]]].
    apply variable_names_spec; [|exact H3].
    rewrite (Permutation_length H2). reflexivity.
  Qed.
End BuilderMap.
