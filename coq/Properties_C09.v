(* Properties_C09.v — C09: linear invariants of the mechanism are conserved.
   Proved here (every commutative ring): the forcing lies in the column space of the
   stoichiometric matrix, so every conservation law w annihilates it, for every state and rate
   constants.  The propagation through the stages of the integrators (w . K_i = 0) is checked on
   the implementation by the conservation oracle over random conservative mechanisms; it is not
   yet a theorem (see DESIGN 6 C09). *)
From Model Require Import Base ProcessSetM ProcessSetProofs CompositionProofs.
From Coq Require Import Ring.
Local Open Scope nat_scope.

Theorem C09_forcing_conserves_linear_invariants :
  forall (N : Num) (Nring : ring_theory (n0 N) (n1 N) (nadd N) (nmul N) (nsub N) (nopp N) eq)
         nspec (w : nat -> T N) (l : list (nat * rrxn N)) k y,
    (forall irx, In irx l -> conserves N nspec w (snd irx)) ->
    nsum N nspec (fun s => nmul N (w s) (mass_action N l k y s)) = n0 N.
Proof. exact forcing_conserves. Qed.
Print Assumptions C09_forcing_conserves_linear_invariants.
