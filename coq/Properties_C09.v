(* Properties_C09.v — C09: linear invariants of the mechanism are conserved.
   Proved here (every commutative ring): the forcing lies in the column space of the
   stoichiometric matrix, so every conservation law w annihilates it, for every state and rate
   constants.  And: the Rosenbrock integrator propagates every such invariant through every stage, every attempt
   (accepted or rejected) and every kind of exit, for any coefficient table and any history, given what the two
   policies guarantee in exact arithmetic: the forcing is annihilated by w (the first theorem) and the linear solve
   with alpha I - J, w^T J = 0, maps a right-hand side with w . rhs = 0 to a solution with w . x = 0.
   Backward Euler clips negative iterates inside its Newton loop; the third theorem states its conservation for every
   run in whose Newton iterations the clamp left w . y alone (read off the run's own trace), whatever status is
   returned; the implementation oracle uses the clip hook to recognise those runs. *)
From Model Require Import Base ProcessSetM ProcessSetProofs CompositionProofs Rosenbrock RosScratchProofs BackwardEulerM IntegratorProofs.
From Coq Require Import Ring.
Local Open Scope nat_scope.

Theorem C09_forcing_conserves_linear_invariants :
  forall (N : Num) (Nring : ring_theory (n0 N) (n1 N) (nadd N) (nmul N) (nsub N) (nopp N) eq)
         nspec (w : nat -> T N) (l : list (nat * rrxn N)) k y,
    (forall irx, In irx l -> conserves N nspec w (snd irx)) ->
    nsum N nspec (fun s => nmul N (w s) (mass_action N l k y s)) = n0 N.
Proof. exact forcing_conserves. Qed.
Print Assumptions C09_forcing_conserves_linear_invariants.

Theorem C09_rosenbrock_propagates_linear_invariants :
  forall (N : Num) ltb leb nabs isnan isinf is_zero absorbed pow_inv ten delta_min
         (V M F : Type) vaxpy vzero mzero add_diag forcing negjac in_place factor_sep solve_sep factor_ip solve_ip nerr
         (p : params N),
    ring_theory (n0 N) (n1 N) (nadd N) (nmul N) (nsub N) (nopp N) eq ->
    forall (dotw : V -> T N),
      (forall a x y, dotw (vaxpy a x y) = nadd N (nmul N a (dotw x)) (dotw y)) ->     (* w . is linear *)
      (forall y z, dotw (forcing y z) = n0 N) ->                                       (* w . f(y) = 0 *)
      (forall lu rhs, dotw rhs = n0 N -> dotw (solve_sep lu rhs) = n0 N) ->            (* exact conservative solves *)
      (forall lu rhs, dotw rhs = n0 N -> dotw (solve_ip lu rhs) = n0 N) ->
      forall fuel time_step (s : rstate V M F),
        p_stages p <= length (sK s) ->
        dotw (sY (r_s (ros_solve N ltb leb nabs isnan isinf is_zero absorbed pow_inv ten delta_min V M F vaxpy vzero mzero
                                 add_diag forcing negjac in_place factor_sep solve_sep factor_ip solve_ip nerr p
                                 fuel time_step s))) = dotw (sY s).
Proof. exact ros_conserves_linear_invariants. Qed.
Print Assumptions C09_rosenbrock_propagates_linear_invariants.

Theorem C09_backward_euler_propagates_linear_invariants :
  forall (N : Num) ltb is_zero (V M F : Type) vzero mzero add_diag forcing negjac in_place factor_sep solve_sep
         factor_ip solve_ip vresid vclamp_add is_converged two (p : be_params N),
    ring_theory (n0 N) (n1 N) (nadd N) (nmul N) (nsub N) (nopp N) eq ->
    forall (dotw : V -> T N),
      (forall y z, dotw (forcing y z) = n0 N) ->                                       (* w . f(y) = 0 *)
      (forall H f y1 y0, dotw y1 = dotw y0 -> dotw f = n0 N -> dotw (vresid H f y1 y0) = n0 N) ->
      (forall lu rhs, dotw rhs = n0 N -> dotw (solve_sep lu rhs) = n0 N) ->            (* exact conservative solves *)
      (forall lu rhs, dotw rhs = n0 N -> dotw (solve_ip lu rhs) = n0 N) ->
      forall fuel time_step (s : bstate V M F),
        let r := be_solve N ltb is_zero V M F vzero mzero add_diag forcing negjac in_place factor_sep solve_sep factor_ip
                          solve_ip vresid vclamp_add is_converged two p fuel time_step s in
        Forall (clamp_neutral N V M vclamp_add dotw) (br_trace r) ->
        dotw (bYn1 (br_s r)) = dotw (bYn1 s).
Proof. exact be_conserves_linear_invariants. Qed.
Print Assumptions C09_backward_euler_propagates_linear_invariants.
