(* RateConst.v — model of Process::CalculateRateConstants (process/process.hpp), row-major and
   grouped variants: the custom-parameter columns are walked with an offset advanced by each
   process's SizeCustomParameters(); the result is multiplied by the values of the process's
   parameterised reactants.  The rate-constant formulas themselves are oracles (calc). *)
From Model Require Export Base Dense ProcessSetM.
Local Open Scope nat_scope.

Section RC.
  Variable N : Num.
  Notation T := (T N).
  Variable C : Type.                       (* Conditions of one grid cell *)

  Record rproc := mkRProc {
    rp_calc : C -> list T -> T;            (* rate_constant_->Calculate(conditions, custom parameters) *)
    rp_size : nat;                         (* SizeCustomParameters() *)
    rp_fixed : C -> T }.                   (* product of the parameterised reactants' values *)

  (* column offset of process r: sum of the sizes before it *)
  Fixpoint offsets_from (start : nat) (ps : list rproc) : list nat :=
    match ps with
    | [] => []
    | p :: t => start :: offsets_from (start + rp_size p) t
    end.
  Definition offsets (ps : list rproc) : list nat := offsets_from 0 ps.

  Definition rc_value (p : rproc) (cond : C) (params : list T) : T := nmul N (rp_calc p cond params) (rp_fixed p cond).

  (* row-major: for each cell, the row of custom parameters is copied and walked with an iterator *)
  Definition rc_ops_rm (ps : list rproc) (ncells nparams : nat) (conds : nat -> C) (P : list T) : list (op N) :=
    flat_map (fun c =>
      let row := map (fun k => nth (rm_addr nparams c k) P (n0 N)) (seq 0 nparams) in
      map (fun '(r, (p, off)) =>
             (rm_addr (length ps) c r, fun _ : T => rc_value p (conds c) (firstn (rp_size p) (skipn off row))))
          (combine (seq 0 (length ps)) (combine ps (offsets ps))))
    (seq 0 ncells).

  (* grouped: for each group, for each process, for each REAL cell of the group (min(L, rows - g L)),
     gather params[i] = v[offset_params + i*L + lane] *)
  Definition rc_ops_vec (L : nat) (ps : list rproc) (ncells nparams : nat) (conds : nat -> C) (P : list T) : list (op N) :=
    flat_map (fun g =>
      let n_real := Nat.min L (ncells - g * L) in
      flat_map (fun '(r, (p, off)) =>
        map (fun lane =>
               let params := map (fun i => nth (g * (L * nparams) + (off + i) * L + lane) P (n0 N)) (seq 0 (rp_size p)) in
               (g * (L * length ps) + r * L + lane, fun _ : T => rc_value p (conds (g * L + lane)) params))
            (seq 0 n_real))
      (combine (seq 0 (length ps)) (combine ps (offsets ps))))
    (seq 0 (vm_groups L ncells)).

  Definition calc_rate_constants (ly : layout) (ps : list rproc) (ncells nparams : nat) (conds : nat -> C)
             (P : list T) (rc : list T) : list T :=
    match ly with
    | RowMajor => run_ops N (rc_ops_rm ps ncells nparams conds P) rc
    | Grouped L => run_ops N (rc_ops_vec L ps ncells nparams conds P) rc
    end.
End RC.
