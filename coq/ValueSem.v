(* ValueSem.v — object-level model of State / Solver copies and moves (solver/state.hpp,
   solver/solver.hpp): what matters for memory safety is the dynamic type of the State's
   temporary_variables_ (null / base-class object / the solver's own scratch type), which
   Solve() downcasts without a check.  The model is parametric in what a copy does to it. *)
From Model Require Import Base.
Local Open Scope nat_scope.

Inductive tmpk := TNull | TBase | TDerived.

(* one State variable of the test program: live = holds a State that was not moved from *)
Record sobj := mkSObj { so_live : bool; so_tmp : tmpk; so_data : nat }.

Inductive vop :=
  | OGet (i : nat) | OCopyC (i j : nat) | OCopyA (i j : nat) | OMoveC (i j : nat) | OMoveA (i j : nat)
  | OSet (i v : nat) | OSolve (i : nat) | OSMove.

Inductive vtok := TkGet | TkCC | TkCA | TkMC | TkMA | TkSet | TkSolve (data : nat) | TkSMove | TkSkip | TkUB.

Section VS.
  (* what copy construction / assignment does to the scratch pointer, given the source's:
     None = undefined behaviour (dereferencing a null pointer) *)
  Variable copy_tmp : tmpk -> option tmpk.

  Definition slot (st : list sobj) (i : nat) : sobj := nth i st (mkSObj false TNull 0).

  Definition vstep (st : list sobj) (o : vop) : list sobj * vtok :=
    match o with
    | OGet i => (upd i (mkSObj true TDerived i) st, TkGet)
    | OCopyC i j | OCopyA i j =>
      if (i =? j) || negb (so_live (slot st j)) then (st, TkSkip)
      else match copy_tmp (so_tmp (slot st j)) with
           | None => (st, TkUB)
           | Some t => (upd i (mkSObj true t (so_data (slot st j))) st,
                        match o with OCopyC _ _ => TkCC | _ => TkCA end)
           end
    | OMoveC i j | OMoveA i j =>
      if (i =? j) || negb (so_live (slot st j)) then (st, TkSkip)
      else (upd j (mkSObj false TNull 0) (upd i (mkSObj true (so_tmp (slot st j)) (so_data (slot st j))) st),
            match o with OMoveC _ _ => TkMC | _ => TkMA end)
    | OSet i v => if so_live (slot st i) then (upd i (mkSObj true (so_tmp (slot st i)) v) st, TkSet) else (st, TkSkip)
    | OSolve i =>
      if so_live (slot st i) then
        match so_tmp (slot st i) with
        | TDerived => (st, TkSolve (so_data (slot st i)))     (* the result is a function of the State's own data *)
        | _ => (st, TkUB)                                     (* static_cast of a base object / null pointer *)
        end
      else (st, TkSkip)
    | OSMove => (st, TkSMove)
    end.

  Fixpoint vrun (st : list sobj) (ops : list vop) : list vtok :=
    match ops with
    | [] => []
    | o :: t => let '(st', tk) := vstep st o in
                match tk with TkUB => [TkUB] | _ => tk :: vrun st' t end
    end.
End VS.

(* the repaired code: a copy keeps the dynamic type, a null pointer is copied as null *)
Definition copy_fixed (t : tmpk) : option tmpk := Some t.
(* the code before the repair: a base-class TemporaryVariables copy-constructed from the dereferenced pointer *)
Definition copy_sliced (t : tmpk) : option tmpk := match t with TNull => None | _ => Some TBase end.

Definition store0 (n : nat) : list sobj := repeat (mkSObj false TNull 0) n.
