(* ValueSem.v — object-level model of State / Solver copies and moves (solver/state.hpp,
   solver/solver.hpp): what matters for memory safety is the dynamic type of the State's
   temporary_variables_ (null / base-class object / the solver's own scratch type), which
   Solve() downcasts without a check, and the number of stage vectors that scratch holds, which the
   Rosenbrock stage loop indexes up to the stage count of the parameters in use.  The model is parametric
   in what a copy does to the scratch and in whether Solve provides missing stage vectors. *)
From Model Require Import Base.
Local Open Scope nat_scope.

(* TDerived owner nk: the scratch of the solver `owner` (0: the solver used for solving; 1: another solver of the same
   C++ type with another number of grid cells), holding nk stage vectors (0 for backward Euler) *)
Inductive tmpk := TNull | TBase | TDerived (owner nk : nat).

(* one State variable of the test program: live = holds a State that was not moved from *)
(* so_shape: which solver's dimensions the State's matrices have (the solver only solves States of its own shape) *)
Record sobj := mkSObj { so_live : bool; so_tmp : tmpk; so_data : nat; so_shape : nat }.

Inductive vop :=
  | OGet (i : nat) | OCopyC (i j : nat) | OCopyA (i j : nat) | OMoveC (i j : nat) | OMoveA (i j : nat)
  | OSet (i v : nat) | OSolve (i : nat) | OSMove
  | OGet2 (i : nat)          (* state[i] = other_solver.GetState() *)
  | OPSolve (i m : nat).     (* Solve(time_step, state, parameters) with parameters of m stages: also becomes the solver's set *)

Inductive vtok := TkGet | TkCC | TkCA | TkMC | TkMA | TkSet | TkSolve (data : nat) | TkSMove | TkSkip | TkUB.

Section VS.
  (* what copy construction / assignment does to the scratch pointer, given the source's:
     None = undefined behaviour (dereferencing a null pointer) *)
  Variable copy_tmp : tmpk -> option tmpk.
  (* does Solve provide the stage vectors a State created for fewer stages lacks? *)
  Variable grows : bool.

  Definition slot (st : list sobj) (i : nat) : sobj := nth i st (mkSObj false TNull 0 0).

  (* a solve on State i with a parameter set of m stages: the new State (scratch possibly enlarged) or UB *)
  Definition solve_on (st : list sobj) (i m : nat) : option (list sobj) :=
    match so_tmp (slot st i) with
    | TDerived 0 nk =>
      if m <=? nk then Some st
      else if grows then Some (upd i (mkSObj true (TDerived 0 m) (so_data (slot st i)) 0) st)
      else None                                            (* K[nk] and beyond: heap overflow *)
    | _ => None                      (* static_cast of a base object / null pointer / scratch of other dimensions *)
    end.

  (* the store, and the stage count of the solver's current parameter set (GetState sizes the scratch with it) *)
  Definition vstate := (list sobj * nat)%type.

  Definition vstep (vs : vstate) (o : vop) : vstate * vtok :=
    let st := fst vs in
    let stages := snd vs in
    let keep (r : list sobj * vtok) : vstate * vtok := ((fst r, stages), snd r) in
    match o with
    | OPSolve i m =>
      if so_live (slot st i) && (so_shape (slot st i) =? 0) then
        match solve_on st i m with
        | Some st' => ((st', m), TkSolve (so_data (slot st i)))
        | None => ((st, m), TkUB)
        end
      else ((st, stages), TkSkip)
    | _ => keep (match o with
    | OGet i => (upd i (mkSObj true (TDerived 0 stages) i 0) st, TkGet)
    | OGet2 i => (upd i (mkSObj true (TDerived 1 stages) i 1) st, TkGet)
    | OCopyC i j | OCopyA i j =>
      if (i =? j) || negb (so_live (slot st j)) then (st, TkSkip)
      else match copy_tmp (so_tmp (slot st j)) with
           | None => (st, TkUB)
           | Some t => (upd i (mkSObj true t (so_data (slot st j)) (so_shape (slot st j))) st,
                        match o with OCopyC _ _ => TkCC | _ => TkCA end)
           end
    | OMoveC i j | OMoveA i j =>
      if (i =? j) || negb (so_live (slot st j)) then (st, TkSkip)
      else (upd j (mkSObj false TNull 0 0) (upd i (mkSObj true (so_tmp (slot st j)) (so_data (slot st j)) (so_shape (slot st j))) st),
            match o with OMoveC _ _ => TkMC | _ => TkMA end)
    | OSet i v => if so_live (slot st i) then (upd i (mkSObj true (so_tmp (slot st i)) v (so_shape (slot st i))) st, TkSet)
                  else (st, TkSkip)
    | OSolve i =>
      if so_live (slot st i) && (so_shape (slot st i) =? 0) then
        match solve_on st i stages with
        | Some st' => (st', TkSolve (so_data (slot st i)))    (* the result is a function of the State's own data *)
        | None => (st, TkUB)
        end
      else (st, TkSkip)
    | OSMove => (st, TkSMove)
    | OPSolve _ _ => (st, TkSkip)
    end)
    end.

  Fixpoint vrun (st : vstate) (ops : list vop) : list vtok :=
    match ops with
    | [] => []
    | o :: t => let '(st', tk) := vstep st o in
                match tk with TkUB => [TkUB] | _ => tk :: vrun st' t end
    end.
End VS.

(* the repaired code: a copy keeps the dynamic type, a null pointer is copied as null *)
Definition copy_fixed (t : tmpk) : option tmpk := Some t.
(* the code before the repair: a base-class TemporaryVariables copy-constructed from the dereferenced pointer *)
Definition copy_sliced (t : tmpk) : option tmpk := match t with TNull => None | _ => Some TBase end.

(* n empty State variables and a solver whose parameter set has `stages` stages *)
Definition store0 (n stages : nat) : list sobj * nat := (repeat (mkSObj false TNull 0 0) n, stages).
