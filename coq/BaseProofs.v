(* BaseProofs.v — general list lemmas used by the proofs. *)
From Model Require Import Base.
Local Open Scope nat_scope.

Lemma NoDup_app {A} (l1 l2 : list A) :
  NoDup l1 -> NoDup l2 -> (forall x, In x l1 -> ~ In x l2) -> NoDup (l1 ++ l2).
Proof.
  induction l1 as [|a l1 IH]; simpl; intros H1 H2 H; auto.
  inversion H1; subst. constructor.
  - rewrite in_app_iff. intros [E|E]; [tauto|]. apply (H a); auto.
  - apply IH; auto.
Qed.

Lemma NoDup_map_inj {A B} (f : A -> B) (l : list A) :
  (forall x y, In x l -> In y l -> f x = f y -> x = y) -> NoDup l -> NoDup (map f l).
Proof.
  induction l as [|a l IH]; simpl; intros Hinj Hnd; [constructor|].
  inversion Hnd; subst. constructor.
  - rewrite in_map_iff. intros [x [Hx Hin]]. assert (x = a) by (apply Hinj; auto). subst; tauto.
  - apply IH; auto.
Qed.

(* NoDup of a grid enumeration *)
Lemma NoDup_grid (f : nat -> nat -> nat) (k m : nat) :
  (forall y x y' x', y < k -> x < m -> y' < k -> x' < m -> f y x = f y' x' -> y = y' /\ x = x') ->
  NoDup (flat_map (fun y => map (f y) (seq 0 m)) (seq 0 k)).
Proof.
  induction k as [|k IH]; intros H; [simpl; constructor|].
  rewrite seq_S, flat_map_app. cbn [flat_map plus]. rewrite app_nil_r.
  apply NoDup_app.
  - apply IH. intros; apply H; auto.
  - apply NoDup_map_inj; [|apply seq_NoDup].
    intros x y Hx Hy E. rewrite in_seq in Hx, Hy. destruct (H k x k y) as [_ ?]; auto; lia.
  - intros v Hv Hv'. rewrite in_flat_map in Hv. destruct Hv as [y [Hy Hv]].
    rewrite in_map_iff in Hv, Hv'. destruct Hv as [x [Ex Hx]]. destruct Hv' as [x' [Ex' Hx']].
    rewrite in_seq in Hy, Hx, Hx'. destruct (H y x k x') as [? _]; try lia.
Qed.

Lemma in_grid (f : nat -> nat -> nat) (k m v : nat) :
  In v (flat_map (fun y => map (f y) (seq 0 m)) (seq 0 k)) <->
  exists y x, y < k /\ x < m /\ v = f y x.
Proof.
  rewrite in_flat_map. split.
  - intros [y [Hy Hv]]. rewrite in_map_iff in Hv. destruct Hv as [x [E Hx]].
    rewrite in_seq in Hy, Hx. exists y, x. repeat split; try lia; auto.
  - intros [y [x [Hy [Hx E]]]]. exists y. split; [apply in_seq; lia|].
    apply in_map_iff. exists x. split; [auto|apply in_seq; lia].
Qed.

