(* JitModel.v — model of the LLVM-JIT backend (include/micm/jit/...).
   Every generated function is a straight-line sequence of lane loops ("for l in 0..L-1") whose
   bounds, offsets and yields are constants baked in at generation time.  The model has
     * an instruction per kind of lane loop the generators emit, with its semantics;
     * the generators, as Gallina functions from the same tables the C++ generators read
       (ProcessSet's flattened tables; the LU / linear-solver index streams, at the logical level
       of LU.v: what enters a stream is decided by the same IsZero tests on the same patterns);
     * the cell-count guards.
   LLVM itself (IR semantics, optimiser, code generator) is not modelled.
   jit/process/jit_process_set.hpp, jit/solver/jit_lu_decomposition_doolittle.inl,
   jit/solver/jit_linear_solver.inl, jit/solver/jit_rosenbrock.hpp *)
From Model Require Export Base Dense Sparse ProcessSetM LU.
Local Open Scope nat_scope.

Section Jit.
  Variable N : Num.
  Notation T := (T N).

  (* ------------------------------------------------------------------------------------------
     process set: arguments rc, y (read only) and out (forcing or Jacobian); an alloca'd lane array *)
  Inductive pinstr :=
  | PLoadRC (base : nat)                    (* "rate constant":    scr[l] := rc[base + l] *)
  | PMulState (base : nat)                  (* "rate calc":        scr[l] := scr[l] * y[base + l] *)
  | PSubRate (base : nat)                   (* "reactant forcing": out[base + l] := out[base + l] - scr[l] *)
  | PAddRateYield (base : nat) (yl : T)     (* "product forcing":  out[base + l] := out[base + l] + scr[l] * yl *)
  | PAddRate (base : nat)                   (* "reactant term":    out[base + l] := out[base + l] + scr[l] *)
  | PSubRateYield (base : nat) (yl : T).    (* "product term":     out[base + l] := out[base + l] - scr[l] * yl *)

  Definition lane_ops (L base : nat) (g : nat -> T -> T) : list (op N) :=
    map (fun l => (base + l, g l)) (seq 0 L).

  Definition pstep (L : nat) (rc y : list T) (st : list T * list T) (ins : pinstr) : list T * list T :=
    let scr := fst st in
    let out := snd st in
    let s := fun l => nth l scr (n0 N) in
    match ins with
    | PLoadRC base => (map (fun l => nth (base + l) rc (n0 N)) (seq 0 L), out)
    | PMulState base => (map (fun l => nmul N (s l) (nth (base + l) y (n0 N))) (seq 0 L), out)
    | PSubRate base => (scr, run_ops N (lane_ops L base (fun l v => nsub N v (s l))) out)
    | PAddRateYield base yl => (scr, run_ops N (lane_ops L base (fun l v => nadd N v (nmul N (s l) yl))) out)
    | PAddRate base => (scr, run_ops N (lane_ops L base (fun l v => nadd N v (s l))) out)
    | PSubRateYield base yl => (scr, run_ops N (lane_ops L base (fun l v => nsub N v (nmul N (s l) yl))) out)
    end.

  Definition prun (L : nat) (rc y : list T) (prog : list pinstr) (st : list T * list T) : list T * list T :=
    fold_left (pstep L rc y) prog st.

  (* GenerateForcingFunction: per reaction — load, multiply by every reactant, subtract from every reactant,
     add yield * rate to every product *)
  Definition jit_forcing_block (L : nat) (e : nat * rrxn N) : list pinstr :=
    let '(i, (rs, ps)) := e in
    PLoadRC (i * L) :: map (fun id => PMulState (id * L)) rs
      ++ map (fun id => PSubRate (id * L)) rs
      ++ map (fun '(id, yl) => PAddRateYield (id * L) yl) ps.
  Definition jit_forcing_prog (L : nat) (p : pstab N) : list pinstr :=
    flat_map (jit_forcing_block L) (combine (seq 0 (length (ps_rxns N p))) (ps_rxns N p)).

  (* GenerateJacobianFunction: per (reaction, independent reactant) record *)
  Definition jit_jac_block (L : nat) (e : (jinfo * list nat * list T) * list nat) : list pinstr :=
    let '((ji, deps, yls), ids) := e in
    PLoadRC (ji_process ji * L) :: map (fun id => PMulState (id * L)) deps
      ++ map (fun k => PAddRate k) (firstn (ji_ndep ji + 1) ids)
      ++ map (fun '(k, yl) => PSubRateYield k yl) (combine (skipn (ji_ndep ji + 1) ids) yls).
  Definition jit_jac_prog (L : nat) (p : pstab N) (fids : list nat) : list pinstr :=
    flat_map (jit_jac_block L) (combine (ps_jrecs N p) (jrec_ids N p fids)).

  Definition jit_add_forcing (L : nat) (p : pstab N) (rc y f : list T) : list T :=
    snd (prun L rc y (jit_forcing_prog L p) ([], f)).
  Definition jit_sub_jacobian (L : nat) (p : pstab N) (fids : list nat) (rc y jac : list T) : list T :=
    snd (prun L rc y (jit_jac_prog L p fids) ([], jac)).

  (* ------------------------------------------------------------------------------------------
     alpha_minus_jacobian: for every diagonal element of block 0, for every lane: jac[elem + l] += alpha *)
  Definition jit_alpha_minus_jacobian (L : nat) (diag : list nat) (alpha : T) (jac : list T) : list T :=
    run_ops N (flat_map (fun e => lane_ops L e (fun _ v => nadd N v alpha)) diag) jac.
  (* AbstractRosenbrockSolver::AlphaMinusJacobian, vectorised variant, one group *)
  Definition cpu_alpha_minus_jacobian_group (L : nat) (diag : list nat) (alpha : T) (jac : list T) : list T :=
    run_ops N (flat_map (fun e => map (fun l => (e + l, fun v => nadd N v alpha)) (seq 0 L)) diag) jac.

  (* ------------------------------------------------------------------------------------------
     LU decomposition and linear solve: one lane = one block; logical elements as in LU.v *)
  Inductive which := MA | ML | MU.
  Inductive linstr :=
  | LCopyA (dst : which) (r c : nat)                      (* dst(r,c) := A(r,c) *)
  | LConst (dst : which) (r c : nat) (v : T)              (* dst(r,c) := v *)
  | LFms (dst : which) (r c : nat) (ra ca rb cb : nat)    (* dst(r,c) := dst(r,c) - L(ra,ca) * U(rb,cb) *)
  | LDivU (r c : nat) (ru cu : nat).                      (* L(r,c) := L(r,c) / U(ru,cu) *)

  Definition lstate := (mat N * mat N)%type.     (* (L, U) of one lane; A is read only *)
  Definition lget (st : lstate) (w : which) (A : mat N) : mat N :=
    match w with MA => A | ML => fst st | MU => snd st end.
  Definition lput (st : lstate) (w : which) (r c : nat) (v : T) : lstate :=
    match w with
    | ML => (mset N (fst st) r c v, snd st)
    | MU => (fst st, mset N (snd st) r c v)
    | MA => st
    end.
  Definition lstep (A : mat N) (st : lstate) (ins : linstr) : lstate :=
    match ins with
    | LCopyA dst r c => lput st dst r c (A r c)
    | LConst dst r c v => lput st dst r c v
    | LFms dst r c ra ca rb cb =>
        lput st dst r c (nsub N (lget st dst A r c) (nmul N (fst st ra ca) (snd st rb cb)))
    | LDivU r c ru cu => lput st ML r c (ndiv N (fst st r c) (snd st ru cu))
    end.
  Definition lrun (A : mat N) (prog : list linstr) (st : lstate) : lstate := fold_left (lstep A) prog st.

  (* GenerateDecomposeFunction over the streams Initialize builds (same tests as LU.doolittle_num) *)
  Definition jit_lu_row (n : nat) (Ap Lp Up : pat) (i : nat) : list linstr :=
    flat_map (fun k =>
      let js := filter (fun j => Lp i j && Up j k) (seq 0 i) in
      if negb (Ap i k) && (length js =? 0) && negb (k =? i) then []
      else (if Ap i k then LCopyA MU i k else LConst MU i k (n0 N))
             :: map (fun j => LFms MU i k i j j k) js)
      (range i n)
    ++ [LConst ML i i (n1 N)]
    ++ flat_map (fun k =>
      let js := filter (fun j => Lp k j && Up j i) (seq 0 i) in
      if negb (Ap k i) && (length js =? 0) then []
      else (if Ap k i then LCopyA ML k i else LConst ML k i (n0 N))
             :: map (fun j => LFms ML k i k j j i) js ++ [LDivU k i i i])
      (range (i + 1) n).
  Definition jit_lu_prog (n : nat) (Ap Lp Up : pat) : list linstr :=
    flat_map (jit_lu_row n Ap Lp Up) (seq 0 n).
  Definition jit_decompose (n : nat) (A : mat N) (Ap Lp Up : pat) (L0 U0 : mat N) : mat N * mat N :=
    lrun A (jit_lu_prog n Ap Lp Up) (L0, U0).

  (* GenerateSolveFunction *)
  Inductive xinstr :=
  | XFmsL (i j : nat)      (* "yi_seq_Lij_yj": x_i := x_i - L(i,j) * x_j *)
  | XDivL (i : nat)        (* "yi_deq_Lii":    x_i := x_i / L(i,i) *)
  | XFmsU (i j : nat)      (* "xi_seq_Uij_xj": x_i := x_i - x_j * U(i,j) *)
  | XDivU (i : nat).       (* "xi_deq_Uii":    x_i := x_i / U(i,i) *)
  Definition xstep (Lm Um : mat N) (x : vec N) (ins : xinstr) : vec N :=
    match ins with
    | XFmsL i j => vset N x i (nsub N (x i) (nmul N (Lm i j) (x j)))
    | XDivL i => vset N x i (ndiv N (x i) (Lm i i))
    | XFmsU i j => vset N x i (nsub N (x i) (nmul N (x j) (Um i j)))
    | XDivU i => vset N x i (ndiv N (x i) (Um i i))
    end.
  Definition jit_solve_prog (n : nat) (Lp Up : pat) : list xinstr :=
    flat_map (fun i => map (fun j => XFmsL i j) (filter (fun j => Lp i j) (seq 0 i)) ++ [XDivL i]) (seq 0 n)
    ++ flat_map (fun i => map (fun j => XFmsU i j) (filter (fun j => Up i j) (range (i + 1) n)) ++ [XDivU i])
                (rev (seq 0 n)).
  Definition jit_lin_solve (n : nat) (Lp Up : pat) (Lm Um : mat N) (b : vec N) : vec N :=
    fold_left (xstep Lm Um) (jit_solve_prog n Lp Up) b.
End Jit.

(* ------------------------------------------------------------------------------------------
   cell-count guards: what each JIT class does with `cells` grid cells when generated for vector length L *)
Inductive jit_outcome := JitServes | JitInvalidMatrix.
(* JitLuDecompositionDoolittle's constructor: more blocks than lanes is rejected *)
Definition jit_lu_guard (L cells : nat) : jit_outcome := if L <? cells then JitInvalidMatrix else JitServes.
(* JitLinearSolver's constructor *)
Definition jit_linear_solver_guard (L cells : nat) : jit_outcome := if cells =? L then JitServes else JitInvalidMatrix.
(* JitRosenbrockSolver::AlphaMinusJacobian, on every call *)
Definition jit_rosenbrock_guard (L cells : nat) : jit_outcome := if L =? cells then JitServes else JitInvalidMatrix.
(* a solver built by JitSolverBuilder constructs the linear solver (which constructs the LU) first *)
Definition jit_builder_outcome (L cells : nat) : jit_outcome :=
  match jit_lu_guard L cells with
  | JitInvalidMatrix => JitInvalidMatrix
  | JitServes => jit_linear_solver_guard L cells
  end.
