(* ErrorNormProofs.v — NormalizedError and IsConverged visit every real (cell, species) element exactly once
   and pair it with that species' tolerance, for every layout, vector length and cell count (full groups,
   a trailing partial group, fewer cells than lanes); hence the error norm is the RMS the documentation states. *)
From Model Require Import Base Dense DenseProofs ErrorNorm.
From Coq Require Import Lia Permutation Ring.
Local Open Scope nat_scope.

(* ---------- lists ---------- *)
Lemma NoDup_app_intro {A} (l1 l2 : list A) :
  NoDup l1 -> NoDup l2 -> (forall x, In x l1 -> ~ In x l2) -> NoDup (l1 ++ l2).
Proof.
  induction l1 as [|a l1 IH]; intros H1 H2 H; [exact H2|].
  inversion H1 as [|? ? Ha H1']; subst. cbn [app]. constructor.
  - intros Hin. apply in_app_or in Hin. destruct Hin as [Hin | Hin]; [contradiction | exact (H a (or_introl eq_refl) Hin)].
  - apply IH; [exact H1' | exact H2 | intros x Hx; apply H; right; exact Hx].
Qed.

Lemma NoDup_map_inj_in {A B} (f : A -> B) l :
  (forall x y, In x l -> In y l -> f x = f y -> x = y) -> NoDup l -> NoDup (map f l).
Proof.
  induction l as [|a l IH]; intros Hinj Hnd; [constructor|].
  inversion Hnd as [|? ? Ha Hnd']; subst. cbn [map]. constructor.
  - intros Hin. apply in_map_iff in Hin. destruct Hin as [x [Hfx Hx]].
    assert (x = a) by (apply Hinj; [right; exact Hx | left; reflexivity | exact Hfx]). subst. contradiction.
  - apply IH; [intros x y Hx Hy; apply Hinj; right; assumption | exact Hnd'].
Qed.

Lemma NoDup_list_prod {A B} (l1 : list A) (l2 : list B) : NoDup l1 -> NoDup l2 -> NoDup (list_prod l1 l2).
Proof.
  induction l1 as [|a l1 IH]; intros H1 H2; [constructor|].
  inversion H1 as [|? ? Ha H1']; subst. cbn [list_prod]. apply NoDup_app_intro.
  - apply NoDup_map_inj_in; [intros x y _ _ E; inversion E; reflexivity | exact H2].
  - apply IH; assumption.
  - intros [x y] Hin Hin2. apply in_map_iff in Hin. destruct Hin as [b [E _]]. inversion E; subst.
    apply in_prod_iff in Hin2. destruct Hin2 as [Hin2 _]. contradiction.
Qed.

Lemma fold_left_map_gen {A B C} (f : A -> C -> A) (g : B -> C) (l : list B) (a : A) :
  fold_left f (map g l) a = fold_left (fun a b => f a (g b)) l a.
Proof. revert a; induction l as [|b l IH]; intros a; cbn [map fold_left]; [reflexivity | apply IH]. Qed.

Lemma flat_map_map_prod {A B C} (h : A * B -> C) (l1 : list A) (l2 : list B) :
  flat_map (fun a => map (fun b => h (a, b)) l2) l1 = map h (list_prod l1 l2).
Proof.
  induction l1 as [|a l1 IH]; [reflexivity|]. cbn [flat_map list_prod]. rewrite map_app, map_map, IH. reflexivity.
Qed.

(* ---------- the slots visited are the real elements, each once, with its species' tolerance ---------- *)
Definition logical_slots (ly : layout) (ncells nspec : nat) : list (nat * nat) :=
  map (fun cs => (lay_addr ly nspec (fst cs) (snd cs), snd cs)) (list_prod (seq 0 ncells) (seq 0 nspec)).

Lemma logical_slots_in ly ncells nspec p :
  In p (logical_slots ly ncells nspec) <-> exists c s, c < ncells /\ s < nspec /\ p = (lay_addr ly nspec c s, s).
Proof.
  unfold logical_slots. rewrite in_map_iff. split.
  - intros [[c s] [E Hin]]. apply in_prod_iff in Hin. destruct Hin as [Hc Hs]. apply in_seq in Hc. apply in_seq in Hs.
    exists c, s. cbn [fst snd] in E. repeat split; [lia | lia | symmetry; exact E].
  - intros [c [s [Hc [Hs E]]]]. exists (c, s). split; [symmetry; exact E|].
    apply in_prod_iff. split; apply in_seq; lia.
Qed.

Lemma logical_slots_NoDup ly ncells nspec :
  match ly with RowMajor => True | Grouped L => 0 < L end -> NoDup (logical_slots ly ncells nspec).
Proof.
  intros Hly. unfold logical_slots. apply NoDup_map_inj_in.
  - intros [c s] [c' s'] Hin Hin' E. apply in_prod_iff in Hin. apply in_prod_iff in Hin'.
    destruct Hin as [_ Hs]. destruct Hin' as [_ Hs']. apply in_seq in Hs. apply in_seq in Hs'.
    cbn [fst snd] in E. inversion E as [[Ea Es]]. subst s'.
    destruct (lay_addr_inj ly nspec c s c' s Hly ltac:(lia) ltac:(lia) Ea) as [-> _]. reflexivity.
  - apply NoDup_list_prod; apply seq_NoDup.
Qed.

Lemma div_mod_decompose L q l : 0 < L -> l < L -> (q * L + l) / L = q /\ (q * L + l) mod L = l.
Proof.
  intros HL Hl. split.
  - symmetry. apply (Nat.div_unique (q * L + l) L q l); lia.
  - symmetry. apply (Nat.mod_unique (q * L + l) L q l); lia.
Qed.

Theorem norm_slots_rowmajor ncells nspec : 0 < nspec ->
  Permutation (norm_slots RowMajor ncells nspec nspec) (logical_slots RowMajor ncells nspec).
Proof.
  intros Hn. apply NoDup_Permutation.
  - unfold norm_slots. apply NoDup_map_inj_in; [intros x y _ _ E; inversion E; reflexivity | apply seq_NoDup].
  - apply logical_slots_NoDup. exact I.
  - intros p. rewrite logical_slots_in. unfold norm_slots. rewrite in_map_iff. split.
    + intros [i [E Hi]]. apply in_seq in Hi. exists (i / nspec), (i mod nspec).
      pose proof (Nat.div_mod i nspec ltac:(lia)) as Ed.
      pose proof (Nat.mod_upper_bound i nspec ltac:(lia)) as Hm.
      repeat split; [|exact Hm|].
      * apply Nat.div_lt_upper_bound; lia.
      * rewrite <- E. cbn [lay_addr]. unfold rm_addr. f_equal. lia.
    + intros [c [s [Hc [Hs E]]]]. exists (c * nspec + s). cbn [lay_addr] in E. unfold rm_addr in E.
      destruct (div_mod_decompose nspec c s Hn Hs) as [_ Hm].
      split; [rewrite Hm; symmetry; exact E | apply in_seq; nia].
Qed.

Theorem norm_slots_grouped L ncells nspec : 0 < L -> 0 < nspec ->
  Permutation (norm_slots (Grouped L) ncells nspec nspec) (logical_slots (Grouped L) ncells nspec).
Proof.
  intros HL Hn.
  set (G := ncells / L). set (rem := ncells mod L). set (nw := G * (L * nspec)).
  pose proof (Nat.div_mod ncells L ltac:(lia)) as Ecells. fold G rem in Ecells.
  pose proof (Nat.mod_upper_bound ncells L ltac:(lia)) as Hrem. fold rem in Hrem.
  assert (Hslots : norm_slots (Grouped L) ncells nspec nspec =
                   map (fun i => (i, (i / L) mod nspec)) (seq 0 nw) ++
                   map (fun yx => (nw + fst yx * L + snd yx, fst yx)) (list_prod (seq 0 nspec) (seq 0 rem))).
  { unfold norm_slots. fold G rem nw. f_equal.
    rewrite <- (flat_map_map_prod (fun yx => (nw + fst yx * L + snd yx, fst yx))). reflexivity. }
  rewrite Hslots. apply NoDup_Permutation.
  - apply NoDup_app_intro.
    + apply NoDup_map_inj_in; [intros x y _ _ E; inversion E; reflexivity | apply seq_NoDup].
    + apply NoDup_map_inj_in; [|apply NoDup_list_prod; apply seq_NoDup].
      intros [y x] [y' x'] _ _ E. cbn [fst snd] in E. inversion E as [[Ea Ey]]. subst y'. f_equal. lia.
    + intros p H1 H2. apply in_map_iff in H1. destruct H1 as [i [E1 Hi]]. apply in_seq in Hi.
      apply in_map_iff in H2. destruct H2 as [[y x] [E2 _]]. cbn [fst snd] in E2. subst p. inversion E2. lia.
  - apply logical_slots_NoDup. exact HL.
  - intros p. rewrite logical_slots_in, in_app_iff, !in_map_iff. cbn [lay_addr]. unfold vm_addr. split.
    + intros [[i [E Hi]] | [[y x] [E Hin]]].
      * (* a slot of a full group *)
        apply in_seq in Hi. unfold nw in Hi.
        set (q := i / L). set (l := i mod L).
        pose proof (Nat.div_mod i L ltac:(lia)) as Ei. fold q l in Ei.
        pose proof (Nat.mod_upper_bound i L ltac:(lia)) as Hl. fold l in Hl.
        set (g := q / nspec). set (s := q mod nspec).
        pose proof (Nat.div_mod q nspec ltac:(lia)) as Eq. fold g s in Eq.
        pose proof (Nat.mod_upper_bound q nspec ltac:(lia)) as Hs. fold s in Hs.
        assert (Hq : q < G * nspec) by (apply Nat.div_lt_upper_bound; lia).
        assert (Hg : g < G) by (apply Nat.div_lt_upper_bound; lia).
        exists (g * L + l), s.
        destruct (div_mod_decompose L g l HL Hl) as [Hd Hm]. rewrite Hd, Hm.
        repeat split; [nia | exact Hs|]. rewrite <- E. fold q s. f_equal. nia.
      * (* a slot of the trailing partial group *)
        apply in_prod_iff in Hin. destruct Hin as [Hy Hx]. apply in_seq in Hy. apply in_seq in Hx.
        cbn [fst snd] in E. exists (G * L + x), y.
        destruct (div_mod_decompose L G x HL ltac:(lia)) as [Hd Hm]. rewrite Hd, Hm.
        repeat split; [lia | lia|]. rewrite <- E. f_equal. unfold nw. nia.
    + intros [c [s [Hc [Hs E]]]].
      set (g := c / L) in *. set (l := c mod L) in *.
      pose proof (Nat.div_mod c L ltac:(lia)) as Ec. fold g l in Ec.
      pose proof (Nat.mod_upper_bound c L ltac:(lia)) as Hl. fold l in Hl.
      destruct (Nat.lt_ge_cases g G) as [Hg | Hg].
      * left. exists ((g * nspec + s) * L + l). split.
        -- destruct (div_mod_decompose L (g * nspec + s) l HL Hl) as [Hd _]. rewrite Hd.
           destruct (div_mod_decompose nspec g s Hn Hs) as [_ Hm]. rewrite Hm. symmetry; exact E.
        -- apply in_seq. unfold nw. nia.
      * right. assert (g = G) by nia. subst g. exists (s, l). cbn [fst snd]. split.
        -- rewrite E. f_equal. unfold nw. nia.
        -- apply in_prod_iff. split; apply in_seq; [lia | nia].
Qed.

(* ---------- consequence for the norm: a sum over the visited slots is the sum over all real elements ---------- *)
Section Norm.
  Variable N : Num.
  Notation T := (T N).
  Hypothesis Nring : ring_theory (n0 N) (n1 N) (nadd N) (nmul N) (nsub N) (nopp N) eq.
  Add Ring NormRing : Nring.

  Lemma fold_add_perm {X} (f : X -> T) (l l' : list X) : Permutation l l' -> forall s,
    fold_left (fun s p => nadd N s (f p)) l s = fold_left (fun s p => nadd N s (f p)) l' s.
  Proof.
    induction 1 as [|x l l' _ IH|x y l|l l' l'' _ IH1 _ IH2]; intros s; cbn [fold_left].
    - reflexivity.
    - apply IH.
    - f_equal. ring.
    - rewrite IH1. apply IH2.
  Qed.

  Variables (ltb : T -> T -> bool) (nabs : T -> T) (sqrt : T -> T) (of_nat : nat -> T).

  (* the scaled error of one real element *)
  Definition scaled (ly : layout) (nspec : nat) (atol : list T) (rtol : T) (y ynew err : list T) (cs : nat * nat) : T :=
    let i := lay_addr ly nspec (fst cs) (snd cs) in
    let z := n0 N in
    ndiv N (nth i err z)
         (nadd N (nth (snd cs) atol z) (nmul N rtol (emax N ltb (nabs (nth i y z)) (nabs (nth i ynew z))))).

  Theorem normalized_error_is_rms ly ncells nspec atol rtol error_min y ynew err :
    match ly with RowMajor => True | Grouped L => 0 < L end -> 0 < nspec -> length atol = nspec ->
    normalized_error N ltb nabs sqrt of_nat ly ncells nspec atol rtol error_min y ynew err =
    emax N ltb
      (sqrt (ndiv N
               (fold_left (fun s cs => let r := scaled ly nspec atol rtol y ynew err cs in nadd N s (nmul N r r))
                          (list_prod (seq 0 ncells) (seq 0 nspec)) (n0 N))
               (of_nat (ncells * nspec))))
      error_min.
  Proof.
    intros Hly Hn Hlen. unfold normalized_error. rewrite Hlen. cbv zeta.
    f_equal. f_equal. f_equal.
    assert (Hperm : Permutation (norm_slots ly ncells nspec nspec) (logical_slots ly ncells nspec)).
    { destruct ly as [|L]; [apply norm_slots_rowmajor; exact Hn | apply norm_slots_grouped; assumption]. }
    rewrite (fold_add_perm
               (fun p : nat * nat =>
                  let r := ndiv N (nth (fst p) err (n0 N))
                                (nadd N (nth (snd p) atol (n0 N))
                                      (nmul N rtol (emax N ltb (nabs (nth (fst p) y (n0 N))) (nabs (nth (fst p) ynew (n0 N)))))) in
                  nmul N r r) _ _ Hperm).
    unfold logical_slots. rewrite fold_left_map_gen. reflexivity.
  Qed.

  (* BackwardEuler::IsConverged is a test on every real (cell, species) element, with that species' tolerance *)
  Theorem is_converged_tests_every_element ly ncells nspec atol rtol small resid yn1 :
    match ly with RowMajor => True | Grouped L => 0 < L end -> 0 < nspec -> length atol = nspec ->
    (is_converged N ltb nabs ly ncells nspec atol rtol small resid yn1 = true <->
     forall c s, c < ncells -> s < nspec ->
       let i := lay_addr ly nspec c s in
       let r := nabs (nth i resid (n0 N)) in
       (ltb small r && ltb (nth s atol (n0 N)) r && ltb (nmul N rtol (nabs (nth i yn1 (n0 N)))) r) = false).
  Proof.
    intros Hly Hn Hlen. unfold is_converged. rewrite Hlen. cbv zeta. rewrite forallb_forall.
    assert (Hperm : Permutation (norm_slots ly ncells nspec nspec) (logical_slots ly ncells nspec)).
    { destruct ly as [|L]; [apply norm_slots_rowmajor; exact Hn | apply norm_slots_grouped; assumption]. }
    split.
    - intros H c s Hc Hs.
      assert (Hin : In (lay_addr ly nspec c s, s) (norm_slots ly ncells nspec nspec)).
      { apply (Permutation_in _ (Permutation_sym Hperm)). apply logical_slots_in. exists c, s. repeat split; assumption. }
      specialize (H _ Hin). cbn [fst snd] in H. apply Bool.negb_true_iff in H. exact H.
    - intros H p Hin. apply (Permutation_in _ Hperm) in Hin. apply logical_slots_in in Hin.
      destruct Hin as [c [s [Hc [Hs ->]]]]. cbn [fst snd]. apply Bool.negb_true_iff. apply H; assumption.
  Qed.
End Norm.
