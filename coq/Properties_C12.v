(* Properties_C12.v — C12: the answer does not depend on the storage / algorithm configuration.
   Proved (ingredients, each for any arithmetic or any ring): forcing and Jacobian do not depend on
   the dense layout; the matrix handed to the linear solver is the same expression for the
   separate-L/U and the in-place variant (C05); the solution of the linear system is the same for the four LU
   algorithms and the two linear solvers (any field, any pattern with its diagonal, any previous storage
   contents).  The composition of these through a whole Solve is compared on the implementation by the oracle. *)
From Model Require Import Base LU LUProofs Dense ProcessSetM ProcessSetProofs ScatterProofs JacobianProofs CompositionProofs UniqueSolve.
From Coq Require Import Field.
Local Open Scope nat_scope.

Theorem C12_forcing_does_not_depend_on_layout :
  forall (N : Num) (ly1 ly2 : layout) p ncells nspec nrxn rc1 y1 f1 rc2 y2 f2 K Y F0 c s,
    layout_ok ly1 -> layout_ok ly2 -> rxns_ids_lt N (ps_rxns N p) nspec -> length (ps_rxns N p) <= nrxn ->
    represents N ly1 ncells nrxn rc1 K -> represents N ly1 ncells nspec y1 Y -> represents N ly1 ncells nspec f1 F0 ->
    represents N ly2 ncells nrxn rc2 K -> represents N ly2 ncells nspec y2 Y -> represents N ly2 ncells nspec f2 F0 ->
    c < ncells -> s < nspec ->
    mget (n0 N) ly1 nspec (add_forcing N ly1 p ncells nspec nrxn rc1 y1 f1) c s =
    mget (n0 N) ly2 nspec (add_forcing N ly2 p ncells nspec nrxn rc2 y2 f2) c s.
Proof. exact forcing_layout_independent. Qed.
Print Assumptions C12_forcing_does_not_depend_on_layout.

Theorem C12_jacobian_does_not_depend_on_layout :
  forall (N : Num) (ly1 ly2 : layout) p eids ncells nspec nrxn nnz rc1 y1 j1 rc2 y2 j2 K Y J0 c e,
    layout_ok ly1 -> layout_ok ly2 -> items_ok N (jac_items N p eids) nspec nrxn nnz ->
    represents N ly1 ncells nrxn rc1 K -> represents N ly1 ncells nspec y1 Y -> represents N ly1 ncells nnz j1 J0 ->
    represents N ly2 ncells nrxn rc2 K -> represents N ly2 ncells nspec y2 Y -> represents N ly2 ncells nnz j2 J0 ->
    c < ncells -> e < nnz ->
    mget (n0 N) ly1 nnz (sub_jacobian N ly1 p (map (fun e => e * stride ly1) eids) ncells nspec nrxn nnz rc1 y1 j1) c e =
    mget (n0 N) ly2 nnz (sub_jacobian N ly2 p (map (fun e => e * stride ly2) eids) ncells nspec nrxn nnz rc2 y2 j2) c e.
Proof. exact jacobian_layout_independent. Qed.
Print Assumptions C12_jacobian_does_not_depend_on_layout.

(* the four decompositions with their solvers compute the same x: each returns a solution of A x = b (C04), and a
   matrix with an LU factorisation with non-vanishing diagonals has only one (UniqueSolve.solution_unique) *)
Theorem C12_linear_solution_does_not_depend_on_lu_algorithm :
  forall (N : Num)
    (Nfield : field_theory (n0 N) (n1 N) (nadd N) (nmul N) (nsub N) (nopp N) (ndiv N) (ninv N) eq)
    n (A : mat N) (Ap : pat) (L0 U0 L1 U1 M0 M1 : mat N) (b : vec N),
    (forall i, i < n -> Ap i i = true) ->
    let DLp := fst (doolittle_sym n Ap) in
    let DUp := snd (doolittle_sym n Ap) in
    let DLU := doolittle_num N n A Ap DLp DUp L0 U0 in
    let MLp := fst (mozart_sym n Ap) in
    let MUp := snd (mozart_sym n Ap) in
    let MLU := mozart_num N n A Ap MLp MUp L1 U1 in
    let DP := doolittle_ip_sym n Ap in
    let DM := doolittle_ip_num N n DP M0 in
    let MP := mozart_ip_sym n Ap in
    let MM := mozart_ip_num N n MP M1 in
    (forall r c, r < n -> c < n -> DP r c = true -> M0 r c = view N Ap A r c) ->
    (forall r c, r < n -> c < n -> MP r c = true -> M1 r c = view N Ap A r c) ->
    (forall i, i < n -> snd DLU i i <> n0 N) -> (forall i, i < n -> snd MLU i i <> n0 N) ->
    (forall i, i < n -> DM i i <> n0 N) -> (forall i, i < n -> MM i i <> n0 N) ->
    let x := lin_solve N n DLp DUp (fst DLU) (snd DLU) b in
    forall r, r < n ->
      lin_solve N n MLp MUp (fst MLU) (snd MLU) b r = x r /\
      lin_solve_ip N n DP DM b r = x r /\
      lin_solve_ip N n MP MM b r = x r.
Proof. exact solution_independent_of_lu_algorithm. Qed.
Print Assumptions C12_linear_solution_does_not_depend_on_lu_algorithm.
