(* Properties_C12.v — C12: the answer does not depend on the storage / algorithm configuration.
   Proved (ingredients, each for any arithmetic or any ring): forcing and Jacobian do not depend on
   the dense layout; the matrix handed to the linear solver is the same expression for the
   separate-L/U and the in-place variant (C05).  The composition through the LU algorithms needs
   C03's missing part; the full cross product is compared on the implementation by the oracle. *)
From Model Require Import Base Dense ProcessSetM ProcessSetProofs ScatterProofs JacobianProofs CompositionProofs.
Local Open Scope nat_scope.

Theorem C12_forcing_does_not_depend_on_layout :
  forall (N : Num) (ly1 ly2 : layout) p ncells nspec nrxn rc1 y1 f1 rc2 y2 f2 K Y F0 c s,
    layout_ok ly1 -> layout_ok ly2 -> rxns_ids_lt N (ps_rxns N p) nspec -> length (ps_rxns N p) <= nrxn ->
    represents N ly1 ncells nrxn rc1 K -> represents N ly1 ncells nspec y1 Y -> represents N ly1 ncells nspec f1 F0 ->
    represents N ly2 ncells nrxn rc2 K -> represents N ly2 ncells nspec y2 Y -> represents N ly2 ncells nspec f2 F0 ->
    c < ncells -> s < nspec ->
    mget (n0 N) ly1 nspec (add_forcing N ly1 p ncells nspec nrxn rc1 y1 f1) c s =
    mget (n0 N) ly2 nspec (add_forcing N ly2 p ncells nspec nrxn rc2 y2 f2) c s.
Proof. exact forcing_layout_independent. Qed.
Print Assumptions C12_forcing_does_not_depend_on_layout.

Theorem C12_jacobian_does_not_depend_on_layout :
  forall (N : Num) (ly1 ly2 : layout) p eids ncells nspec nrxn nnz rc1 y1 j1 rc2 y2 j2 K Y J0 c e,
    layout_ok ly1 -> layout_ok ly2 -> items_ok N (jac_items N p eids) nspec nrxn nnz ->
    represents N ly1 ncells nrxn rc1 K -> represents N ly1 ncells nspec y1 Y -> represents N ly1 ncells nnz j1 J0 ->
    represents N ly2 ncells nrxn rc2 K -> represents N ly2 ncells nspec y2 Y -> represents N ly2 ncells nnz j2 J0 ->
    c < ncells -> e < nnz ->
    mget (n0 N) ly1 nnz (sub_jacobian N ly1 p (map (fun e => e * stride ly1) eids) ncells nspec nrxn nnz rc1 y1 j1) c e =
    mget (n0 N) ly2 nnz (sub_jacobian N ly2 p (map (fun e => e * stride ly2) eids) ncells nspec nrxn nnz rc2 y2 j2) c e.
Proof. exact jacobian_layout_independent. Qed.
Print Assumptions C12_jacobian_does_not_depend_on_layout.
