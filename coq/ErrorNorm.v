(* ErrorNorm.v — model of AbstractRosenbrockSolver::NormalizedError and BackwardEuler::IsConverged,
   row-major and grouped variants, visiting the storage slots and indexing the absolute
   tolerances exactly as the code does. *)
From Model Require Export Base Dense.
Local Open Scope nat_scope.

Section Norm.
  Variable N : Num.
  Notation T := (T N).
  Variables (ltb : T -> T -> bool) (nabs : T -> T) (sqrt : T -> T) (of_nat : nat -> T).
  Definition emax (a b : T) : T := if ltb a b then b else a.

  (* (storage slot, index into the absolute-tolerance vector) in visiting order *)
  Definition norm_slots (ly : layout) (ncells nspec nv : nat) : list (nat * nat) :=
    match ly with
    | RowMajor => map (fun i => (i, i mod nv)) (seq 0 (ncells * nspec))
    | Grouped L =>
      let n := (ncells / L) * (L * nspec) in
      map (fun i => (i, (i / L) mod nv)) (seq 0 n) ++
      flat_map (fun y => map (fun x => (n + y * L + x, y)) (seq 0 (ncells mod L))) (seq 0 nspec)
    end.

  Definition normalized_error (ly : layout) (ncells nspec : nat) (atol : list T) (rtol error_min : T)
             (y ynew err : list T) : T :=
    let z := n0 N in
    let sum := fold_left (fun s (p : nat * nat) =>
                 let i := fst p in
                 let ymax := emax (nabs (nth i y z)) (nabs (nth i ynew z)) in
                 let r := ndiv N (nth i err z) (nadd N (nth (snd p) atol z) (nmul N rtol ymax)) in
                 nadd N s (nmul N r r))
               (norm_slots ly ncells nspec (length atol)) z in
    emax (sqrt (ndiv N sum (of_nat (ncells * nspec)))) error_min.

  (* IsConverged: false as soon as a visited element violates all three tests *)
  Definition is_converged (ly : layout) (ncells nspec : nat) (atol : list T) (rtol small : T)
             (resid yn1 : list T) : bool :=
    let z := n0 N in
    forallb (fun (p : nat * nat) =>
               let r := nabs (nth (fst p) resid z) in
               negb (ltb small r && ltb (nth (snd p) atol z) r && ltb (nmul N rtol (nabs (nth (fst p) yn1 z))) r))
            (norm_slots ly ncells nspec (length atol)).
End Norm.
