(* Sparse.v — model of micm::SparseMatrix<T, Ordering> for the four orderings
   (util/sparse_matrix.hpp, util/sparse_matrix_{standard,vector}_ordering_compressed_sparse_{row,column}.hpp).
   A block-diagonal matrix: nblocks blocks of n x n sharing one sparsity pattern. *)
From Model Require Export Base Dense.
Local Open Scope nat_scope.

(* result of an access: the std::system_error codes of MicmMatrixErrc *)
Inductive res (A : Type) := Ok (a : A) | Err (code : nat).
Arguments Ok {A}. Arguments Err {A}.
Definition E_RowSizeMismatch := 1.
Definition E_InvalidVector := 2.
Definition E_ElementOutOfRange := 3.
Definition E_MissingBlockIndex := 4.
Definition E_ZeroElementAccess := 5.

(* ---------- std::set<std::pair<size_t,size_t>> : sorted, duplicate free ---------- *)
Definition pair_ltb (a b : nat * nat) : bool :=
  (fst a <? fst b) || ((fst a =? fst b) && (snd a <? snd b)).
Definition pair_eqb (a b : nat * nat) : bool := (fst a =? fst b) && (snd a =? snd b).

Fixpoint set_insert (x : nat * nat) (l : list (nat * nat)) : list (nat * nat) :=
  match l with
  | [] => [x]
  | h :: t => if pair_eqb x h then l
              else if pair_ltb x h then x :: l
              else h :: set_insert x t
  end.
Definition set_of (l : list (nat * nat)) : list (nat * nat) := fold_left (fun s x => set_insert x s) l [].
Definition swap_pair (p : nat * nat) := (snd p, fst p).

(* ---------- compressed tables ---------- *)
(* ordering = (csc?, vector length): standard orderings have vector length None *)
Record ordering := mkOrd { o_csc : bool; o_L : option nat }.

Record sptab := mkSp { sp_n : nat; sp_ids : list nat; sp_start : list nat }.

(* Row/ColumnStartVector, the loop as coded:
     starts(block_size+1, 0); total=0; curr=0;
     for elem in set: while (curr < elem.first) starts[(curr++)+1] = total;  ++total;
     starts[curr+1] = total                                                        *)
Fixpoint start_loop (elems : list (nat * nat)) (curr total : nat) (starts : list nat)
  : nat * nat * list nat :=
  match elems with
  | [] => (curr, total, starts)
  | e :: es =>
    let k := fst e - curr in
    let starts' := for_n k (fun i s => upd (curr + i + 1) total s) starts in
    start_loop es (curr + k) (S total) starts'
  end.

Definition start_vector (n : nat) (major_sorted : list (nat * nat)) : list nat :=
  let '(curr, total, starts) := start_loop major_sorted 0 0 (repeat 0 (n + 1)) in
  upd (curr + 1) total starts.

(* major-ordered element list: CSR = the set itself; CSC = set of swapped pairs *)
Definition major_sorted (csc : bool) (pat : list (nat * nat)) : list (nat * nat) :=
  if csc then set_of (map swap_pair (set_of pat)) else set_of pat.

Definition sp_build (csc : bool) (n : nat) (pat : list (nat * nat)) : sptab :=
  let ms := major_sorted csc pat in
  mkSp n (map snd ms) (start_vector n ms).

Definition sp_nnz (s : sptab) := length (sp_ids s).

(* position of (row, column) in the ids table (the std::find over [start[maj], start[maj+1]) ) *)
Definition sp_find (csc : bool) (s : sptab) (row col : nat) : option nat :=
  let (maj, mnr) := if csc then (col, row) else (row, col) in
  let b := nth maj (sp_start s) 0 in
  let e := nth (maj + 1) (sp_start s) 0 in
  match index_of mnr (slice b e (sp_ids s)) with
  | Some k => Some (b + k)
  | None => None
  end.

(* IsZero(row, column) *)
Definition sp_is_zero (csc : bool) (s : sptab) (row col : nat) : res bool :=
  if (sp_n s <=? row) || (sp_n s <=? col) then Err E_ElementOutOfRange
  else match sp_find csc s row col with Some _ => Ok false | None => Ok true end.

(* VectorSize(number_of_blocks) *)
Definition sp_size (o : ordering) (s : sptab) (nblocks : nat) : nat :=
  match o_L o with
  | None => nblocks * sp_nnz s
  | Some L => ceil_div nblocks L * L * sp_nnz s
  end.

(* VectorIndex(number_of_blocks, block, row, column) *)
Definition sp_index (o : ordering) (s : sptab) (nblocks block row col : nat) : res nat :=
  if (sp_n s <=? row) || (sp_n s <=? col) || (nblocks <=? block) then Err E_ElementOutOfRange
  else match sp_find (o_csc o) s row col with
       | None => Err E_ZeroElementAccess
       | Some e =>
         match o_L o with
         | None => Ok (e + block * sp_nnz s)
         | Some L => Ok (e * L + block mod L + (block / L) * L * sp_nnz s)
         end
       end.

(* VectorIndex(row, column): only for single-block matrices *)
Definition sp_index1 (o : ordering) (s : sptab) (nblocks row col : nat) : res nat :=
  if negb (nblocks =? 1) then Err E_MissingBlockIndex else sp_index o s nblocks 0 row col.

(* DiagonalIndices(number_of_blocks, block_id) : Err if VectorIndex throws *)
Definition sp_diag (o : ordering) (s : sptab) (nblocks block : nat) : res (list nat) :=
  fold_left (fun acc i =>
               match acc with
               | Err c => Err c
               | Ok l =>
                 match sp_find (o_csc o) s i i with
                 | None => Ok l
                 | Some _ => match sp_index o s nblocks block i i with
                             | Ok k => Ok (l ++ [k])
                             | Err c => Err c
                             end
                 end
               end) (seq 0 (sp_n s)) (Ok []).

(* AddToDiagonal: storage slots visited (diagonal_ids_ = DiagonalIndices(nblocks, 0)) *)
Definition sp_add_diag_slots (o : ordering) (s : sptab) (nblocks : nat) (diag0 : list nat) : list nat :=
  match o_L o with
  | None =>
    flat_map (fun b => map (fun i => b * sp_nnz s + i) diag0) (seq 0 nblocks)
  | Some L =>
    (* for (i_group = 0; i_group < nblocks; i_group += L) for i in diag: for lane < L *)
    flat_map (fun g => flat_map (fun i => map (fun lane => g * L * sp_nnz s + i + lane) (seq 0 L)) diag0)
             (seq 0 (ceil_div nblocks L))
  end.

Definition sp_add_diag {A} (d : A) (add : A -> A -> A) (o : ordering) (s : sptab) (nblocks : nat)
           (diag0 : list nat) (v : A) (data : list A) : list A :=
  apply_at d (sp_add_diag_slots o s nblocks diag0) (fun _ x => add x v) data.

(* logical read: structural zeros read as z *)
Definition sp_get {A} (z : A) (o : ordering) (s : sptab) (nblocks : nat) (data : list A)
           (block row col : nat) : A :=
  match sp_index o s nblocks block row col with
  | Ok k => nth k data z
  | Err _ => z
  end.
