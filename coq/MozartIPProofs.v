(* MozartIPProofs.v — LuDecompositionMozartInPlace (LU.mozart_ip_sym / LU.mozart_ip_num): the right-looking
   (outer-product) elimination.  For every field, every pattern with a full diagonal and every matrix stored on the
   filled pattern with zeros in the fill-in slots, the matrix left in place holds unit-lower L below the diagonal and
   upper U on and above it with L*U = A, provided no pivot is zero. *)
From Model Require Import Base LU LUProofs DoolittleProofs.
From Coq Require Import Ring Field Lia.
Local Open Scope nat_scope.

Section MozartInPlace.
  Variable N : Num.
  Notation T := (T N).
  Hypothesis Nfield : field_theory (n0 N) (n1 N) (nadd N) (nmul N) (nsub N) (nopp N) (ndiv N) (ninv N) eq.
  Add Field NumFieldMIP : Nfield.
  Notation "a +! b" := (nadd N a b) (at level 50, left associativity).
  Notation "a *! b" := (nmul N a b) (at level 40, left associativity).
  Notation "a -! b" := (nsub N a b) (at level 50, left associativity).
  Notation "0!" := (n0 N).
  Notation "1!" := (n1 N).
  Notation sum := (nsum N).
  Notation mat := (mat N).
  Notation lsum := (lsum N).

  Variable n : nat.
  Variable P : pat.
  Variable M0 : mat.

  (* ---------- the algorithm, step by step (definitionally LU.mozart_ip_num) ---------- *)
  Definition ms_step (i : nat) (inv : T) (M : mat) (j : nat) : mat :=
    if P j i then mset N M j i (M j i *! inv) else M.
  Definition mu_inner (i k : nat) (aik : T) (M : mat) (j : nat) : mat :=
    if P j i then mset N M j k (M j k -! M j i *! aik) else M.
  Definition mu_step (i : nat) (M : mat) (k : nat) : mat :=
    if P i k then fold_left (mu_inner i k (M i k)) (range (i + 1) n) M else M.
  Definition m_step (M : mat) (i : nat) : mat :=
    fold_left (mu_step i) (range (i + 1) n) (fold_left (ms_step i (ndiv N 1! (M i i))) (range (i + 1) n) M).

  Lemma mozart_ip_num_steps : mozart_ip_num N n P M0 = fold_left m_step (seq 0 n) M0.
  Proof. reflexivity. Qed.

  (* ---------- scaling of column i ---------- *)
  Lemma scale_spec i inv js : NoDup js -> forall M,
    let M1 := fold_left (ms_step i inv) js M in
    (forall j, In j js -> P j i = true -> M1 j i = M j i *! inv) /\
    (forall r c, c <> i \/ ~ In r js \/ P r i = false -> M1 r c = M r c).
  Proof.
    induction js as [|j js IH]; intros Hnd M; cbn [fold_left].
    - split; [intros j [] | reflexivity].
    - inversion Hnd as [|? ? Hnj Hnd']; subst.
      destruct (IH Hnd' (ms_step i inv M j)) as [IH1 IH2].
      assert (S2 : forall r c, r <> j \/ c <> i \/ P r i = false -> ms_step i inv M j r c = M r c).
      { intros r c Hne. unfold ms_step. destruct (P j i) eqn:Hp; [|reflexivity].
        apply mset_other. destruct Hne as [Hr | [Hc | Hp']]; [left; exact Hr | right; exact Hc|].
        left. intros ->. congruence. }
      split.
      + intros j' [<- | Hj'] Hp.
        * rewrite IH2 by (right; left; exact Hnj). unfold ms_step. rewrite Hp. apply mset_same.
        * assert (Hjj : j' <> j) by (intros ->; contradiction).
          rewrite (IH1 j' Hj' Hp). rewrite S2 by (left; exact Hjj). reflexivity.
      + intros r c Hne. rewrite IH2.
        * apply S2. destruct Hne as [Hc | [Hr | Hp]];
            [right; left; exact Hc | left; intros ->; apply Hr; left; reflexivity | right; right; exact Hp].
        * destruct Hne as [Hc | [Hr | Hp]];
            [left; exact Hc | right; left; intros Hin; apply Hr; right; exact Hin | right; right; exact Hp].
  Qed.

  (* ---------- the rank-one update of the trailing block ---------- *)
  Lemma inner_spec i k aik js : i < k -> NoDup js -> forall M,
    let M' := fold_left (mu_inner i k aik) js M in
    (forall j, In j js -> P j i = true -> M' j k = M j k -! M j i *! aik) /\
    (forall r c, c <> k \/ ~ In r js \/ P r i = false -> M' r c = M r c).
  Proof.
    intros Hik. induction js as [|j js IH]; intros Hnd M; cbn [fold_left].
    - split; [intros j [] | reflexivity].
    - inversion Hnd as [|? ? Hnj Hnd']; subst.
      destruct (IH Hnd' (mu_inner i k aik M j)) as [IH1 IH2].
      assert (S2 : forall r c, r <> j \/ c <> k \/ P r i = false -> mu_inner i k aik M j r c = M r c).
      { intros r c Hne. unfold mu_inner. destruct (P j i) eqn:Hp; [|reflexivity].
        apply mset_other. destruct Hne as [Hr | [Hc | Hp']]; [left; exact Hr | right; exact Hc|].
        left. intros ->. congruence. }
      split.
      + intros j' [<- | Hj'] Hp.
        * rewrite IH2 by (right; left; exact Hnj). unfold mu_inner. rewrite Hp. apply mset_same.
        * assert (Hjj : j' <> j) by (intros ->; contradiction).
          rewrite (IH1 j' Hj' Hp). rewrite (S2 j' k) by (left; exact Hjj).
          rewrite (S2 j' i) by (left; exact Hjj). reflexivity.
      + intros r c Hne. rewrite IH2.
        * apply S2. destruct Hne as [Hc | [Hr | Hp]];
            [right; left; exact Hc | left; intros ->; apply Hr; left; reflexivity | right; right; exact Hp].
        * destruct Hne as [Hc | [Hr | Hp]];
            [left; exact Hc | right; left; intros Hin; apply Hr; right; exact Hin | right; right; exact Hp].
  Qed.

  Lemma outer_spec i ks : NoDup ks -> (forall k, In k ks -> i < k) -> forall M,
    let J := range (i + 1) n in
    let M' := fold_left (mu_step i) ks M in
    (forall k j, In k ks -> In j J -> P i k = true -> P j i = true -> M' j k = M j k -! M j i *! M i k) /\
    (forall r c, ~ In c ks \/ ~ In r J \/ P i c = false \/ P r i = false -> M' r c = M r c).
  Proof.
    induction ks as [|k ks IH]; intros Hnd Hks M; cbn [fold_left].
    - split; [intros k j [] | reflexivity].
    - inversion Hnd as [|? ? Hnk Hnd']; subst.
      pose proof (Hks k (or_introl eq_refl)) as Hik.
      destruct (IH Hnd' (fun k' Hk' => Hks k' (or_intror Hk')) (mu_step i M k)) as [IH1 IH2].
      (* this column *)
      assert (S : (P i k = true -> forall j, In j (range (i + 1) n) -> P j i = true ->
                     mu_step i M k j k = M j k -! M j i *! M i k) /\
                  (forall r c, c <> k \/ ~ In r (range (i + 1) n) \/ P i k = false \/ P r i = false ->
                     mu_step i M k r c = M r c)).
      { unfold mu_step. destruct (P i k) eqn:Hp.
        - destruct (inner_spec i k (M i k) (range (i + 1) n) Hik (range_NoDup (i + 1) n) M) as [I1 I2].
          split; [intros _ j Hj Hpj; apply I1; assumption|].
          intros r c [Hc | [Hr | [Hf | Hpr]]]; [apply I2; left; exact Hc | apply I2; right; left; exact Hr
                                               | discriminate | apply I2; right; right; exact Hpr].
        - split; [discriminate | reflexivity]. }
      destruct S as [S1 S2].
      assert (Hrow : forall c, mu_step i M k i c = M i c).
      { intros c. apply S2. right; left. rewrite range_In. lia. }
      assert (Hcol : forall r, mu_step i M k r i = M r i).
      { intros r. apply S2. left. lia. }
      cbv zeta. split.
      + intros k' j [<- | Hk'] Hj Hpk Hpj.
        * rewrite IH2 by (left; exact Hnk). apply S1; assumption.
        * assert (Hkk : k' <> k) by (intros ->; contradiction).
          rewrite (IH1 k' j Hk' Hj). 2:{ rewrite <- Hpk. f_equal. } 2: exact Hpj.
          rewrite (S2 j k') by (left; exact Hkk). rewrite Hcol, Hrow. reflexivity.
      + intros r c Hne. rewrite IH2.
        * apply S2. destruct Hne as [Hc | [Hr | [Hpc | Hpr]]];
            [left; intros ->; apply Hc; left; reflexivity | right; left; exact Hr| |right; right; right; exact Hpr].
          destruct (Nat.eq_dec c k) as [-> | Hck]; [right; right; left; exact Hpc | left; exact Hck].
        * destruct Hne as [Hc | [Hr | [Hpc | Hpr]]];
            [left; intros Hin; apply Hc; right; exact Hin | right; left; exact Hr
             | right; right; left; exact Hpc | right; right; right; exact Hpr].
  Qed.

  (* ---------- the pattern: full diagonal, closed under the elimination's fill-in ---------- *)
  Hypothesis Hdiag : forall i, i < n -> P i i = true.
  Hypothesis Hclosed : forall i j k, i < j -> i < k -> j < n -> k < n -> P j i = true -> P i k = true -> P j k = true.

  Definition jsm (r c m : nat) := filter (fun j => P r j && P j c) (seq 0 m).
  Definition Ssum (M : mat) (m r c : nat) : T := lsum (fun j => M r j *! M j c) (jsm r c m).

  Lemma in_jsm r c m j : In j (jsm r c m) -> j < m.
  Proof. unfold jsm. intros H. apply filter_In in H. destruct H as [H _]. apply in_seq in H. lia. Qed.

  Lemma Ssum_S (M : mat) m r c :
    Ssum M (S m) r c = Ssum M m r c +! (if P r m && P m c then M r m *! M m c else 0!).
  Proof.
    unfold Ssum, jsm. rewrite seq_S, filter_app. cbn [filter plus].
    unfold DoolittleProofs.lsum. rewrite fold_left_app.
    destruct (P r m && P m c); cbn [fold_left]; ring.
  Qed.

  Lemma Ssum_ext (M M' : mat) m r c :
    (forall j, j < m -> M' r j = M r j /\ M' j c = M j c) -> Ssum M' m r c = Ssum M m r c.
  Proof.
    intros H. unfold Ssum. apply lsum_ext. intros j Hj. apply in_jsm in Hj.
    destruct (H j Hj) as [-> ->]. reflexivity.
  Qed.

  (* after the first i elimination steps *)
  Definition MInv (i : nat) (M : mat) : Prop :=
    (* rows of U that are final *)
    (forall r c, r < i -> r <= c -> c < n -> P r c = true -> M r c = M0 r c -! Ssum M r r c) /\
    (* columns of L that are final *)
    (forall r c, c < i -> c < r -> r < n -> P r c = true ->
       M r c = (M0 r c -! Ssum M c r c) *! ndiv N 1! (M c c)) /\
    (* the trailing block: the Schur complement so far *)
    (forall r c, i <= r -> i <= c -> r < n -> c < n -> P r c = true -> M r c = M0 r c -! Ssum M i r c).

  Lemma m_step_inv i M : i < n -> MInv i M -> MInv (S i) (m_step M i).
  Proof.
    intros Hi (IU & IL & IT). unfold m_step.
    set (inv := ndiv N 1! (M i i)).
    set (J := range (i + 1) n).
    set (M1 := fold_left (ms_step i inv) J M).
    set (M2 := fold_left (mu_step i) J M1).
    assert (HJ : forall k, In k J <-> i < k /\ k < n) by (intros k; unfold J; rewrite range_In; lia).
    destruct (scale_spec i inv J (range_NoDup (i + 1) n) M) as [SC1 SC2]. fold M1 in SC1, SC2.
    destruct (outer_spec i J (range_NoDup (i + 1) n) (fun k Hk => proj1 (proj1 (HJ k) Hk)) M1) as [UP1 UP2].
    fold J M2 in UP1, UP2.
    (* what each phase leaves alone *)
    assert (F1 : forall r c, c <> i \/ r <= i -> M1 r c = M r c).
    { intros r c [Hc | Hr]; apply SC2; [left; exact Hc | right; left; rewrite HJ; lia]. }
    assert (F2 : forall r c, c <= i \/ r <= i -> M2 r c = M1 r c).
    { intros r c [Hc | Hr]; apply UP2; [left; rewrite HJ; lia | right; left; rewrite HJ; lia]. }
    (* sums over j < i read only final rows / columns *)
    assert (FS : forall m r c, m <= i -> Ssum M2 m r c = Ssum M m r c).
    { intros m r c Hm. apply Ssum_ext. intros j Hj.
      split; [rewrite F2 by (left; lia); apply F1; left; lia | rewrite F2 by (right; lia); apply F1; right; lia]. }
    repeat split.
    - (* U rows *)
      intros r c Hr Hrc Hc Hp.
      rewrite F2 by (right; lia). rewrite F1 by (right; lia).
      rewrite (FS r r c) by lia.
      destruct (Nat.eq_dec r i) as [-> | Hne]; [apply IT; try lia; exact Hp | apply IU; try lia; exact Hp].
    - (* L columns *)
      intros r c Hc Hcr Hr Hp. rewrite F2 by (left; lia).
      rewrite (FS c r c) by lia.
      destruct (Nat.eq_dec c i) as [-> | Hne].
      + rewrite (SC1 r (proj2 (HJ r) (conj Hcr Hr)) Hp).
        rewrite (F2 i i) by (left; lia). rewrite (F1 i i) by (right; lia).
        rewrite (IT r i (Nat.lt_le_incl _ _ Hcr) (le_n i) Hr Hi Hp). reflexivity.
      + rewrite F1 by (left; exact Hne). rewrite (F2 c c) by (left; lia). rewrite (F1 c c) by (left; exact Hne).
        apply IL; try lia; exact Hp.
    - (* trailing block *)
      intros r c Hr Hc Hrn Hcn Hp.
      rewrite Ssum_S. rewrite (FS i r c (le_n i)).
      assert (Hri : M2 r i = M1 r i) by (apply F2; left; lia).
      assert (Hic : M2 i c = M i c) by (rewrite F2 by (right; lia); apply F1; right; lia).
      rewrite Hri, Hic.
      destruct (P r i) eqn:Hpri; destruct (P i c) eqn:Hpic; cbn [andb].
      + rewrite (UP1 c r (proj2 (HJ c) (conj Hc Hcn)) (proj2 (HJ r) (conj Hr Hrn)) Hpic Hpri).
        rewrite (F1 r c) by (left; lia). rewrite (F1 i c) by (right; lia).
        rewrite (IT r c ltac:(lia) ltac:(lia) Hrn Hcn Hp). ring.
      + rewrite UP2 by (right; right; left; exact Hpic). rewrite F1 by (left; lia).
        rewrite (IT r c ltac:(lia) ltac:(lia) Hrn Hcn Hp). ring.
      + rewrite UP2 by (right; right; right; exact Hpri). rewrite F1 by (left; lia).
        rewrite (IT r c ltac:(lia) ltac:(lia) Hrn Hcn Hp). ring.
      + rewrite UP2 by (right; right; right; exact Hpri). rewrite F1 by (left; lia).
        rewrite (IT r c ltac:(lia) ltac:(lia) Hrn Hcn Hp). ring.
  Qed.

  Lemma m_steps_inv m : m <= n -> MInv m (fold_left m_step (seq 0 m) M0).
  Proof.
    induction m as [|m IH]; intros Hm.
    - split; [intros; lia | split; [intros; lia|]].
      intros r c _ _ _ _ _. unfold Ssum, jsm. cbn. unfold DoolittleProofs.lsum. cbn [fold_left]. ring.
    - rewrite seq_S, fold_left_app. cbn [fold_left plus]. apply m_step_inv; [lia | apply IH; lia].
  Qed.

  (* ---------- the theorem ---------- *)
  Variable Ap : pat.
  Variable A : mat.
  Hypothesis HM0 : forall r c, r < n -> c < n -> P r c = true -> M0 r c = view N Ap A r c.
  Hypothesis HAp : forall r c, r < n -> c < n -> Ap r c = true -> P r c = true.

  Theorem mozart_ip_LU_eq_A :
    let M := mozart_ip_num N n P M0 in
    let Lf := fun r c => if c <? r then view N P M r c else if c =? r then 1! else 0! in
    let Uf := fun r c => if r <=? c then view N P M r c else 0! in
    (forall i, i < n -> M i i <> 0!) ->
    forall r c, r < n -> c < n -> sum n (fun j => Lf r j *! Uf j c) = view N Ap A r c.
  Proof.
    intros M Lf Uf Hpiv.
    destruct (m_steps_inv n (le_n n)) as (IU & IL & _).
    rewrite <- mozart_ip_num_steps in IU, IL. fold M in IU, IL.
    assert (Hsum : forall r c m, m <= r -> m <= c -> r < n -> c < n ->
              Ssum M m r c = sum m (fun j => Lf r j *! Uf j c)).
    { intros r c m Hmr Hmc Hr Hc. unfold Ssum, jsm. rewrite (lsum_filter_seq N Nfield). apply (sum_ext N). intros j Hj.
      unfold Lf, Uf, view. fold M.
      destruct (Nat.ltb_spec j r); [|lia]. destruct (Nat.leb_spec j c); [|lia].
      destruct (P r j), (P j c); cbn [andb]; ring. }
    assert (Hzero : forall r c m, m <= r -> m <= c -> r < n -> c < n -> P r c = false -> Ssum M m r c = 0!).
    { intros r c m Hmr Hmc Hr Hc Hp. unfold Ssum, jsm. rewrite (lsum_filter_seq N Nfield). apply (sum_zero N Nfield).
      intros j Hj. destruct (P r j) eqn:E1; destruct (P j c) eqn:E2; cbn [andb]; try reflexivity.
      rewrite (Hclosed j r c ltac:(lia) ltac:(lia) Hr Hc E1 E2) in Hp. discriminate. }
    assert (HA0 : forall r c, r < n -> c < n -> P r c = false -> view N Ap A r c = 0!).
    { intros r c Hr Hc Hp. unfold view. destruct (Ap r c) eqn:E; [|reflexivity].
      rewrite (HAp r c Hr Hc E) in Hp. discriminate. }
    apply (LU_eq_A N Nfield n (view N Ap A) Lf Uf).
    - intros i Hi. unfold Lf. rewrite Nat.ltb_irrefl, Nat.eqb_refl. reflexivity.
    - intros i j Hij Hj. unfold Lf. destruct (Nat.ltb_spec j i); [lia|]. destruct (Nat.eqb_spec j i); [lia|]. reflexivity.
    - intros i j Hji Hi. unfold Uf. destruct (Nat.leb_spec i j); [lia|]. reflexivity.
    - intros i k Hik Hk. assert (Hi : i < n) by lia.
      rewrite <- (Hsum i k i (le_n i) Hik Hi Hk).
      unfold Uf at 1. destruct (Nat.leb_spec i k); [|lia]. unfold view at 1. fold M.
      destruct (P i k) eqn:Hp.
      + rewrite (IU i k Hi Hik Hk Hp). rewrite (HM0 i k Hi Hk Hp). reflexivity.
      + rewrite (HA0 i k Hi Hk Hp), (Hzero i k i (le_n i) Hik Hi Hk Hp). ring.
    - intros i k Hik Hk. assert (Hi : i < n) by lia.
      rewrite <- (Hsum k i i ltac:(lia) (le_n i) Hk Hi).
      assert (HUii : Uf i i = M i i).
      { unfold Uf. rewrite Nat.leb_refl. unfold view. fold M. rewrite (Hdiag i Hi). reflexivity. }
      rewrite HUii. unfold Lf at 1. destruct (Nat.ltb_spec i k); [|lia]. unfold view at 1. fold M.
      destruct (P k i) eqn:Hp.
      + rewrite (IL k i Hi Hik Hk Hp). rewrite (HM0 k i Hk Hi Hp).
        assert (Hinv : ndiv N 1! (M i i) *! M i i = 1!) by (field; apply Hpiv; exact Hi).
        transitivity ((view N Ap A k i -! Ssum M i k i) *! (ndiv N 1! (M i i) *! M i i)); [ring|].
        rewrite Hinv. ring.
      + rewrite (HA0 k i Hk Hi Hp), (Hzero k i i ltac:(lia) (le_n i) Hk Hi Hp). ring.
  Qed.
End MozartInPlace.

(* ------------------------------------------------------------------------------------------
   The symbolic phase (GetLUMatrix): A's pattern, closed under the elimination's fill-in. *)
Section SymbolicMIP.
  Variable n : nat.
  Variable Ap : pat.

  Definition qi_step (i k : nat) (P : pat) (j : nat) : pat := if P j i then pset P j k else P.
  Definition qo_step (i : nat) (P : pat) (k : nat) : pat :=
    if P i k then fold_left (qi_step i k) (range (i + 1) n) P else P.
  Definition q_step (P : pat) (i : nat) : pat := fold_left (qo_step i) (range (i + 1) n) P.
  Definition P0 : pat := fun r c => (r <? n) && (c <? n) && Ap r c.

  Lemma mozart_ip_sym_steps : mozart_ip_sym n Ap = fold_left q_step (seq 0 n) P0.
  Proof. reflexivity. Qed.

  Lemma pset_mono (P : pat) r c r' c' : P r' c' = true -> pset P r c r' c' = true.
  Proof. intros H. unfold pset. rewrite H. apply Bool.orb_true_r. Qed.

  Lemma qi_spec i k js : i < k -> NoDup js -> forall P,
    let P' := fold_left (qi_step i k) js P in
    (forall j, In j js -> P j i = true -> P' j k = true) /\
    (forall r c, P r c = true -> P' r c = true) /\
    (forall r c, c <> k \/ ~ In r js \/ P r i = false -> P' r c = P r c).
  Proof.
    intros Hik. induction js as [|j js IH]; intros Hnd P; cbn [fold_left].
    - split; [intros j [] | split; [auto | reflexivity]].
    - inversion Hnd as [|? ? Hnj Hnd']; subst.
      destruct (IH Hnd' (qi_step i k P j)) as [IH1 [IHm IH2]].
      assert (S2 : forall r c, r <> j \/ c <> k \/ P r i = false -> qi_step i k P j r c = P r c).
      { intros r c Hne. unfold qi_step. destruct (P j i) eqn:Hp; [|reflexivity].
        apply pset_other. destruct Hne as [Hr | [Hc | Hp']]; [left; exact Hr | right; exact Hc|].
        left. intros ->. congruence. }
      assert (Sm : forall r c, P r c = true -> qi_step i k P j r c = true).
      { intros r c H. unfold qi_step. destruct (P j i); [apply pset_mono; exact H | exact H]. }
      split; [|split].
      + intros j' [<- | Hj'] Hp.
        * apply IHm. unfold qi_step. rewrite Hp. apply pset_same.
        * apply (IH1 j' Hj'). rewrite S2 by (right; left; lia). exact Hp.
      + intros r c H. apply IHm. apply Sm. exact H.
      + intros r c Hne. rewrite IH2.
        * apply S2. destruct Hne as [Hc | [Hr | Hp]];
            [right; left; exact Hc | left; intros ->; apply Hr; left; reflexivity | right; right; exact Hp].
        * destruct Hne as [Hc | [Hr | Hp]];
            [left; exact Hc | right; left; intros Hin; apply Hr; right; exact Hin|].
          right; right. rewrite S2 by (right; left; lia). exact Hp.
  Qed.

  Lemma qo_spec i ks : NoDup ks -> (forall k, In k ks -> i < k) -> forall P,
    let J := range (i + 1) n in
    let P' := fold_left (qo_step i) ks P in
    (forall k j, In k ks -> In j J -> P i k = true -> P j i = true -> P' j k = true) /\
    (forall r c, P r c = true -> P' r c = true) /\
    (forall r c, ~ In c ks \/ ~ In r J \/ P i c = false \/ P r i = false -> P' r c = P r c).
  Proof.
    induction ks as [|k ks IH]; intros Hnd Hks P; cbn [fold_left].
    - split; [intros k j [] | split; [auto | reflexivity]].
    - inversion Hnd as [|? ? Hnk Hnd']; subst.
      pose proof (Hks k (or_introl eq_refl)) as Hik.
      destruct (IH Hnd' (fun k' Hk' => Hks k' (or_intror Hk')) (qo_step i P k)) as [IH1 [IHm IH2]].
      assert (S : (P i k = true -> forall j, In j (range (i + 1) n) -> P j i = true -> qo_step i P k j k = true) /\
                  (forall r c, P r c = true -> qo_step i P k r c = true) /\
                  (forall r c, c <> k \/ ~ In r (range (i + 1) n) \/ P i k = false \/ P r i = false ->
                     qo_step i P k r c = P r c)).
      { unfold qo_step. destruct (P i k) eqn:Hp.
        - destruct (qi_spec i k (range (i + 1) n) Hik (range_NoDup (i + 1) n) P) as [I1 [Im I2]].
          split; [intros _ j Hj Hpj; apply I1; assumption|]. split; [exact Im|].
          intros r c [Hc | [Hr | [Hf | Hpr]]]; [apply I2; left; exact Hc | apply I2; right; left; exact Hr
                                               | discriminate | apply I2; right; right; exact Hpr].
        - split; [discriminate | split; [auto | reflexivity]]. }
      destruct S as [S1 [Sm S2]].
      assert (Hrow : forall c, qo_step i P k i c = P i c).
      { intros c. apply S2. right; left. rewrite range_In. lia. }
      assert (Hcol : forall r, qo_step i P k r i = P r i).
      { intros r. apply S2. left. lia. }
      cbv zeta. split; [|split].
      + intros k' j [<- | Hk'] Hj Hpk Hpj.
        * apply IHm. apply S1; assumption.
        * apply (IH1 k' j Hk' Hj); [rewrite Hrow; exact Hpk | rewrite Hcol; exact Hpj].
      + intros r c H. apply IHm. apply Sm. exact H.
      + intros r c Hne. rewrite IH2.
        * apply S2. destruct Hne as [Hc | [Hr | [Hpc | Hpr]]];
            [left; intros ->; apply Hc; left; reflexivity | right; left; exact Hr| |right; right; right; exact Hpr].
          destruct (Nat.eq_dec c k) as [-> | Hck]; [right; right; left; exact Hpc | left; exact Hck].
        * destruct Hne as [Hc | [Hr | [Hpc | Hpr]]];
            [left; intros Hin; apply Hc; right; exact Hin | right; left; exact Hr
             | right; right; left; rewrite Hrow; exact Hpc | right; right; right; rewrite Hcol; exact Hpr].
  Qed.

  Definition QInv (m : nat) (P : pat) : Prop :=
    (forall r c, P0 r c = true -> P r c = true) /\
    (forall i j k, i < m -> i < j -> i < k -> j < n -> k < n -> P j i = true -> P i k = true -> P j k = true).

  Lemma q_step_inv i P : i < n -> QInv i P -> QInv (S i) (q_step P i).
  Proof.
    intros Hi [Hmono Hclo]. unfold q_step.
    set (J := range (i + 1) n).
    destruct (qo_spec i J (range_NoDup (i + 1) n)
                (fun k Hk => Nat.lt_le_trans i (i + 1) k (Nat.lt_add_pos_r 1 i Nat.lt_0_1) (proj1 (proj1 (range_In (i + 1) n k) Hk))) P)
      as [Q1 [Qm Q2]]. fold J in Q1, Qm, Q2.
    set (P' := fold_left (qo_step i) J P) in *.
    assert (HJ : forall k, In k J <-> i < k /\ k < n) by (intros k; unfold J; rewrite range_In; lia).
    assert (F : forall r c, r <= i \/ c <= i -> P' r c = P r c).
    { intros r c [Hr | Hc]; apply Q2; [right; left; rewrite HJ; lia | left; rewrite HJ; lia]. }
    split.
    - intros r c H. apply Qm. apply Hmono. exact H.
    - intros i0 j k Hi0 Hj Hk Hjn Hkn Hp1 Hp2.
      destruct (Nat.eq_dec i0 i) as [-> | Hne].
      + rewrite F in Hp1 by (right; lia). rewrite F in Hp2 by (left; lia).
        apply (Q1 k j); [apply HJ; lia | apply HJ; lia | exact Hp2 | exact Hp1].
      + rewrite F in Hp1 by (right; lia). rewrite F in Hp2 by (left; lia).
        apply Qm. apply (Hclo i0 j k); try lia; assumption.
  Qed.

  Lemma q_steps_inv m : m <= n -> QInv m (fold_left q_step (seq 0 m) P0).
  Proof.
    induction m as [|m IH]; intros Hm.
    - split; [auto | intros; lia].
    - rewrite seq_S, fold_left_app. cbn [fold_left plus]. apply q_step_inv; [lia | apply IH; lia].
  Qed.

  Theorem mozart_ip_sym_closed :
    let P := mozart_ip_sym n Ap in
    (forall r c, r < n -> c < n -> Ap r c = true -> P r c = true) /\
    (forall i j k, i < j -> i < k -> j < n -> k < n -> P j i = true -> P i k = true -> P j k = true).
  Proof.
    cbv zeta. rewrite mozart_ip_sym_steps.
    destruct (q_steps_inv n (le_n n)) as [Hmono Hclo].
    split.
    - intros r c Hr Hc Ha. apply Hmono. unfold P0.
      destruct (Nat.ltb_spec r n); [|lia]. destruct (Nat.ltb_spec c n); [|lia]. exact Ha.
    - intros i j k Hij Hik Hj Hk. apply Hclo; lia.
  Qed.
End SymbolicMIP.

Theorem mozart_in_place_decomposition_correct :
  forall (N : Num)
    (Nfield : field_theory (n0 N) (n1 N) (nadd N) (nmul N) (nsub N) (nopp N) (ndiv N) (ninv N) eq)
    n (A : mat N) (Ap : pat) (M0 : mat N),
    (forall i, i < n -> Ap i i = true) ->                     (* the diagonal is part of the pattern *)
    let P := mozart_ip_sym n Ap in
    (forall r c, r < n -> c < n -> P r c = true -> M0 r c = view N Ap A r c) ->
    let M := mozart_ip_num N n P M0 in
    let Lf := fun r c => if c <? r then view N P M r c else if c =? r then n1 N else n0 N in
    let Uf := fun r c => if r <=? c then view N P M r c else n0 N in
    (forall i, i < n -> M i i <> n0 N) ->
    forall r c, r < n -> c < n -> nsum N n (fun j => nmul N (Lf r j) (Uf j c)) = view N Ap A r c.
Proof.
  intros N Nfield n A Ap M0 Hd P HM0 M Lf Uf Hpiv r c Hr Hc.
  destruct (mozart_ip_sym_closed n Ap) as [HAp Hclo]. fold P in HAp, Hclo.
  apply (mozart_ip_LU_eq_A N Nfield n P M0 (fun i Hi => HAp i i Hi Hi (Hd i Hi)) Hclo Ap A HM0 HAp Hpiv r c Hr Hc).
Qed.

(* Factor, then solve (LuDecompositionMozartInPlace + LinearSolverInPlace): A x = b. *)
Theorem mozart_in_place_factor_then_solve :
  forall (N : Num)
    (Nfield : field_theory (n0 N) (n1 N) (nadd N) (nmul N) (nsub N) (nopp N) (ndiv N) (ninv N) eq)
    n (A : mat N) (Ap : pat) (M0 : mat N) (b : vec N),
    (forall i, i < n -> Ap i i = true) ->
    let P := mozart_ip_sym n Ap in
    (forall r c, r < n -> c < n -> P r c = true -> M0 r c = view N Ap A r c) ->
    let M := mozart_ip_num N n P M0 in
    (forall i, i < n -> M i i <> n0 N) ->
    let x := lin_solve_ip N n P M b in
    forall r, r < n -> nsum N n (fun c => nmul N (view N Ap A r c) (x c)) = b r.
Proof.
  intros N Nfield n A Ap M0 b Hd P HM0 M Hpiv x r Hr.
  destruct (mozart_ip_sym_closed n Ap) as [HAp _]. fold P in HAp.
  apply (lin_solve_ip_Ax_b N Nfield n (view N Ap A) P M b).
  - intros i Hi. split; [apply HAp; [exact Hi | exact Hi | apply Hd; exact Hi] | apply Hpiv; exact Hi].
  - intros r0 c0 Hr0 Hc0.
    exact (mozart_in_place_decomposition_correct N Nfield n A Ap M0 Hd HM0 Hpiv r0 c0 Hr0 Hc0).
  - exact Hr.
Qed.
