(* Properties_C19.v — C19: matrix containers address every logical element exactly once.
   Property theorems only; proofs live in DenseProofs.v / SparseProofs.v. *)
From Model Require Import Base Dense DenseProofs Sparse SparseProofs.
Local Open Scope nat_scope.

(* every logical element of a dense matrix has its own in-range storage slot,
   for the row-major layout and for every group length L > 0 *)
Theorem C19_dense_slot_in_range :
  forall ly nrow ncol r c,
    (match ly with Grouped L => 0 < L | RowMajor => True end) ->
    r < nrow -> c < ncol -> lay_addr ly ncol r c < lay_size ly nrow ncol.
Proof. exact lay_addr_range. Qed.
Print Assumptions C19_dense_slot_in_range.

Theorem C19_dense_no_alias :
  forall ly ncol r c r' c',
    (match ly with Grouped L => 0 < L | RowMajor => True end) ->
    c < ncol -> c' < ncol -> lay_addr ly ncol r c = lay_addr ly ncol r' c' -> r = r' /\ c = c'.
Proof. exact lay_addr_inj. Qed.
Print Assumptions C19_dense_no_alias.

(* the loops of Axpy / ForEach visit exactly the slots of the logical elements, once each *)
Theorem C19_dense_visited_slots :
  forall ly nrow ncol k,
    (match ly with Grouped L => 0 < L | RowMajor => True end) ->
    NoDup (lay_real ly nrow ncol) /\
    (In k (lay_real ly nrow ncol) <-> exists r c, r < nrow /\ c < ncol /\ k = lay_addr ly ncol r c).
Proof. intros; split; [apply lay_real_NoDup | apply lay_real_in]; assumption. Qed.
Print Assumptions C19_dense_visited_slots.

(* Axpy and ForEach act on exactly the addressed logical elements, identically in every
   layout (the right-hand sides do not mention the layout); nothing is assumed about the
   element operations, so this is a statement about bit-identical results *)
Theorem C19_axpy_logical :
  forall (A : Type) (d : A) ly, (match ly with Grouped L => 0 < L | RowMajor => True end) ->
  forall nrow ncol add mul alpha x y r c,
    length y = lay_size ly nrow ncol -> r < nrow -> c < ncol ->
    mget d ly ncol (axpy d add mul (lay_real ly nrow ncol) alpha x y) r c =
    add (mget d ly ncol y r c) (mul alpha (mget d ly ncol x r c)).
Proof. exact @axpy_spec. Qed.
Print Assumptions C19_axpy_logical.

Theorem C19_foreach_logical :
  forall (A : Type) (d : A) ly, (match ly with Grouped L => 0 < L | RowMajor => True end) ->
  forall nrow ncol f a b y r c,
    length y = lay_size ly nrow ncol -> r < nrow -> c < ncol ->
    mget d ly ncol (foreach3 d f (lay_real ly nrow ncol) a b y) r c =
    f (mget d ly ncol y r c) (mget d ly ncol a r c) (mget d ly ncol b r c).
Proof. exact @foreach3_spec. Qed.
Print Assumptions C19_foreach_logical.

Theorem C19_padding_untouched :
  forall (A : Type) (d : A) ly, (match ly with Grouped L => 0 < L | RowMajor => True end) ->
  forall nrow ncol g y k,
    (forall r c, r < nrow -> c < ncol -> k <> lay_addr ly ncol r c) ->
    nth k (apply_at d (lay_real ly nrow ncol) g y) d = nth k y d.
Proof. exact @apply_real_padding. Qed.
Print Assumptions C19_padding_untouched.

(* ---- sparse matrices: four orderings (CSR/CSC x standard/vector L>0), every pattern with
   in-range elements, every block count.  The tables are the model of the constructors
   (ordered element set, start table with the loop as coded, std::find lookup). ---- *)

(* every pattern element of every block has a storage slot *)
Theorem C19_sparse_defined :
  forall o n pat nb, 0 < n -> (forall x, In x pat -> fst x < n /\ snd x < n) ->
  forall b r c, b < nb -> In (r, c) pat -> exists k, sp_index o (sp_build (o_csc o) n pat) nb b r c = Ok k.
Proof. exact sp_index_defined. Qed.
Print Assumptions C19_sparse_defined.

(* the slot is inside the storage vector *)
Theorem C19_sparse_in_range :
  forall o n pat nb, ord_ok o -> 0 < n -> (forall x, In x pat -> fst x < n /\ snd x < n) ->
  forall b r c k, sp_index o (sp_build (o_csc o) n pat) nb b r c = Ok k ->
                  k < sp_size o (sp_build (o_csc o) n pat) nb.
Proof. exact sp_index_range. Qed.
Print Assumptions C19_sparse_in_range.

(* distinct (block, row, column) never alias *)
Theorem C19_sparse_no_alias :
  forall o n pat nb, ord_ok o -> 0 < n -> (forall x, In x pat -> fst x < n /\ snd x < n) ->
  forall b r c b' r' c' k,
    sp_index o (sp_build (o_csc o) n pat) nb b r c = Ok k ->
    sp_index o (sp_build (o_csc o) n pat) nb b' r' c' = Ok k -> b = b' /\ r = r' /\ c = c'.
Proof. exact sp_index_inj. Qed.
Print Assumptions C19_sparse_no_alias.

(* structural zeros are reported as zero and refuse access; out-of-range indices are refused *)
Theorem C19_sparse_zero_and_range_errors :
  forall o n pat nb, 0 < n -> (forall x, In x pat -> fst x < n /\ snd x < n) ->
  forall b r c,
    ((n <= r \/ n <= c -> sp_is_zero (o_csc o) (sp_build (o_csc o) n pat) r c = Err E_ElementOutOfRange) /\
     (r < n -> c < n -> In (r, c) pat -> sp_is_zero (o_csc o) (sp_build (o_csc o) n pat) r c = Ok false) /\
     (r < n -> c < n -> ~ In (r, c) pat -> sp_is_zero (o_csc o) (sp_build (o_csc o) n pat) r c = Ok true)) /\
    ((n <= r \/ n <= c \/ nb <= b -> sp_index o (sp_build (o_csc o) n pat) nb b r c = Err E_ElementOutOfRange) /\
     (r < n -> c < n -> b < nb -> ~ In (r, c) pat ->
      sp_index o (sp_build (o_csc o) n pat) nb b r c = Err E_ZeroElementAccess)).
Proof.
  intros o n pat nb Hn Hpat b r c. split.
  - apply (sp_is_zero_spec o n pat Hn Hpat).
  - apply (sp_index_refused o n pat nb Hn Hpat).
Qed.
Print Assumptions C19_sparse_zero_and_range_errors.

(* the start table as the code's loop leaves it: counts of smaller majors up to the last
   non-empty major + 1, zero beyond (the "trailing empty rows" of DESIGN 8-7) *)
Theorem C19_start_table :
  forall n ms, 0 < n -> sorted_fst ms -> (forall x, In x ms -> fst x < n) ->
    length (start_vector n ms) = n + 1 /\
    (forall j, j <= last_major ms 0 + 1 -> nth j (start_vector n ms) 0 = count_lt ms j) /\
    (forall j, last_major ms 0 + 1 < j -> nth j (start_vector n ms) 0 = 0).
Proof. exact start_vector_spec. Qed.
Print Assumptions C19_start_table.

Example C19_sparse_example :
  let o := mkOrd true (Some 2) in
  let s := sp_build true 3 [(0,0); (2,0); (1,1); (0,0)] in
  sp_start s = [0; 2; 3; 0] /\ sp_ids s = [0; 2; 1] /\
  sp_index o s 3 2 2 0 = Ok 8 /\ sp_index o s 3 2 1 2 = Err E_ZeroElementAccess /\ sp_size o s 3 = 12.
Proof. vm_compute. repeat split. Qed.

(* non-vacuity: a 7 x 3 matrix in groups of 4 has a partial group; row 6 lives in group 1 lane 2 *)
Example C19_example : vm_addr 4 3 6 1 = 18 /\ vm_size 4 7 3 = 24 /\
                      vm_real 4 7 3 = seq 0 12 ++ [12;13;14;16;17;18;20;21;22].
Proof. vm_compute. repeat split. Qed.
