(* Properties_C19.v — C19: matrix containers address every logical element exactly once.
   Property theorems only; proofs live in DenseProofs.v / SparseProofs.v. *)
From Model Require Import Base Dense DenseProofs.
Local Open Scope nat_scope.

(* every logical element of a dense matrix has its own in-range storage slot,
   for the row-major layout and for every group length L > 0 *)
Theorem C19_dense_slot_in_range :
  forall ly nrow ncol r c,
    (match ly with Grouped L => 0 < L | RowMajor => True end) ->
    r < nrow -> c < ncol -> lay_addr ly ncol r c < lay_size ly nrow ncol.
Proof. exact lay_addr_range. Qed.
Print Assumptions C19_dense_slot_in_range.

Theorem C19_dense_no_alias :
  forall ly ncol r c r' c',
    (match ly with Grouped L => 0 < L | RowMajor => True end) ->
    c < ncol -> c' < ncol -> lay_addr ly ncol r c = lay_addr ly ncol r' c' -> r = r' /\ c = c'.
Proof. exact lay_addr_inj. Qed.
Print Assumptions C19_dense_no_alias.

(* the loops of Axpy / ForEach visit exactly the slots of the logical elements, once each *)
Theorem C19_dense_visited_slots :
  forall ly nrow ncol k,
    (match ly with Grouped L => 0 < L | RowMajor => True end) ->
    NoDup (lay_real ly nrow ncol) /\
    (In k (lay_real ly nrow ncol) <-> exists r c, r < nrow /\ c < ncol /\ k = lay_addr ly ncol r c).
Proof. intros; split; [apply lay_real_NoDup | apply lay_real_in]; assumption. Qed.
Print Assumptions C19_dense_visited_slots.

(* Axpy and ForEach act on exactly the addressed logical elements, identically in every
   layout (the right-hand sides do not mention the layout); nothing is assumed about the
   element operations, so this is a statement about bit-identical results *)
Theorem C19_axpy_logical :
  forall (A : Type) (d : A) ly, (match ly with Grouped L => 0 < L | RowMajor => True end) ->
  forall nrow ncol add mul alpha x y r c,
    length y = lay_size ly nrow ncol -> r < nrow -> c < ncol ->
    mget d ly ncol (axpy d add mul (lay_real ly nrow ncol) alpha x y) r c =
    add (mget d ly ncol y r c) (mul alpha (mget d ly ncol x r c)).
Proof. exact @axpy_spec. Qed.
Print Assumptions C19_axpy_logical.

Theorem C19_foreach_logical :
  forall (A : Type) (d : A) ly, (match ly with Grouped L => 0 < L | RowMajor => True end) ->
  forall nrow ncol f a b y r c,
    length y = lay_size ly nrow ncol -> r < nrow -> c < ncol ->
    mget d ly ncol (foreach3 d f (lay_real ly nrow ncol) a b y) r c =
    f (mget d ly ncol y r c) (mget d ly ncol a r c) (mget d ly ncol b r c).
Proof. exact @foreach3_spec. Qed.
Print Assumptions C19_foreach_logical.

Theorem C19_padding_untouched :
  forall (A : Type) (d : A) ly, (match ly with Grouped L => 0 < L | RowMajor => True end) ->
  forall nrow ncol g y k,
    (forall r c, r < nrow -> c < ncol -> k <> lay_addr ly ncol r c) ->
    nth k (apply_at d (lay_real ly nrow ncol) g y) d = nth k y d.
Proof. exact @apply_real_padding. Qed.
Print Assumptions C19_padding_untouched.

(* non-vacuity: a 7 x 3 matrix in groups of 4 has a partial group; row 6 lives in group 1 lane 2 *)
Example C19_example : vm_addr 4 3 6 1 = 18 /\ vm_size 4 7 3 = 24 /\
                      vm_real 4 7 3 = seq 0 12 ++ [12;13;14;16;17;18;20;21;22].
Proof. vm_compute. repeat split. Qed.
