(* RosDiag.v — when a coefficient table no longer passes RosOrder.check_table, which of its clauses fails and by how
   much.  Used by the C08 check to report a concrete failing configuration (the table and the residual of the
   violated condition) instead of only "the theorem no longer checks".  diagnose_empty shows the diagnosis is
   complete: a table with no reported clause passes check_table. *)
From Coq Require Import QArith Qabs List Lia NArith Bool.
From Model Require Import RosOrder.
Import ListNotations.
Local Open Scope Q_scope.

Definition failing (tol : Q) (base : nat) (xs : list Q) : list (nat * Q) :=
  filter (fun c => negb (Qle_bool (Qabs (snd c)) tol)) (combine (seq base (length xs)) xs).

(* codes: 100+i order condition i of the main weights (i = 0..7: 1, 2, 3a, 3b, 4a, 4b, 4c, 4d); 190 the main method
   also satisfies the next order; 200+i conditions of the embedded weights; 290 the embedded method also satisfies
   the next order; 300+i alpha_[i] vs its row sum; 400+i gamma_[i] vs its row sum; 500 R(inf); 600 packed index range;
   700 estimator_of_local_order_ *)
Definition diagnose (t : ros_table) (p : nat) (rtol : Q) : list (nat * Q) :=
  let k := compute_coeffs t in
  let s := rt_stages t in
  failing tol40 100 (conditions t k p (b k)) ++
  (if Nat.ltb p 4 then if not_higher t k (1 # 1000) p (b k) then [] else [(190%nat, 0)] else []) ++
  failing tol40 200 (conditions t k (p - 1) (bhat k)) ++
  (if not_higher t k (1 # 1000) (p - 1) (bhat k) then [] else [(290%nat, 0)]) ++
  failing tol40 300 (map (fun i => qnth (rt_alpha t) i - alpha_i k i) (seq 0 s)) ++
  failing tol40 400 (map (fun i => qnth (rt_gamma t) i - gamma_row k i) (seq 0 s)) ++
  failing rtol 500 [R_inf t k (b k)] ++
  (if packed_in_range t then [] else [(600%nat, 0)]) ++
  (if Qeq_bool (rt_elo t) (inject_Z (Z.of_nat p)) then [] else [(700%nat, rt_elo t)]).

Lemma failing_nil tol base xs : failing tol base xs = [] -> forallb (fun x => Qle_bool (Qabs x) tol) xs = true.
Proof.
  unfold failing. revert base. induction xs as [|x xs IH]; intros base H; [reflexivity|].
  cbn [length seq combine filter snd] in H. cbn [forallb].
  destruct (Qle_bool (Qabs x) tol) eqn:E; cbn [negb] in H; [|discriminate H].
  cbn [andb]. apply (IH (S base)). exact H.
Qed.

Lemma forallb_map_eq {A B} (h : A -> B) (f : B -> bool) l : forallb f (map h l) = forallb (fun x => f (h x)) l.
Proof. induction l as [|x l IH]; cbn [map forallb]; [reflexivity | rewrite IH; reflexivity]. Qed.

Lemma forallb_both {A} (f g : A -> bool) l :
  forallb f l = true -> forallb g l = true -> forallb (fun x => f x && g x) l = true.
Proof.
  induction l as [|x l IH]; cbn [forallb]; intros Hf Hg; [reflexivity|].
  apply andb_true_iff in Hf. apply andb_true_iff in Hg. destruct Hf as [Hf1 Hf2]. destruct Hg as [Hg1 Hg2].
  rewrite Hf1, Hg1. cbn [andb]. apply IH; assumption.
Qed.

Lemma if_nil {A} (c : bool) (l : list A) : (if c then [] else l) = [] -> l <> [] -> c = true.
Proof. destruct c; [reflexivity | intros H Hl; contradiction]. Qed.

Lemma diagnose_empty t p rtol : diagnose t p rtol = [] -> check_table t p rtol = true.
Proof.
  unfold diagnose, check_table. cbv zeta. intros H.
  apply app_eq_nil in H. destruct H as [H1 H].
  apply app_eq_nil in H. destruct H as [H2 H].
  apply app_eq_nil in H. destruct H as [H3 H].
  apply app_eq_nil in H. destruct H as [H4 H].
  apply app_eq_nil in H. destruct H as [H5 H].
  apply app_eq_nil in H. destruct H as [H6 H].
  apply app_eq_nil in H. destruct H as [H7 H].
  apply app_eq_nil in H. destruct H as [H8 H9].
  apply failing_nil in H1. apply failing_nil in H3. apply failing_nil in H5. apply failing_nil in H6.
  apply failing_nil in H7.
  assert (E4 : not_higher t (compute_coeffs t) (1 # 1000) (p - 1) (bhat (compute_coeffs t)) = true)
    by (apply (if_nil _ _ H4); discriminate).
  assert (E8 : packed_in_range t = true) by (apply (if_nil _ _ H8); discriminate).
  assert (E9 : Qeq_bool (rt_elo t) (inject_Z (Z.of_nat p)) = true) by (apply (if_nil _ _ H9); discriminate).
  assert (E2 : (if (p <? 4)%nat then not_higher t (compute_coeffs t) (1 # 1000) p (b (compute_coeffs t)) else true) = true).
  { destruct (p <? 4)%nat; [|reflexivity]. apply (if_nil _ _ H2); discriminate. }
  assert (E5 : rows_consistent t (compute_coeffs t) tol40 = true).
  { unfold rows_consistent, small. rewrite forallb_map_eq in H5, H6. apply forallb_both; assumption. }
  assert (E7 : small rtol (R_inf t (compute_coeffs t) (b (compute_coeffs t))) = true).
  { cbn [forallb] in H7. apply andb_true_iff in H7. destruct H7 as [H7 _]. exact H7. }
  unfold has_order, small. unfold small in E7.
  rewrite H1, E2, H3, E4, E5, E7, E8, E9. reflexivity.
Qed.
