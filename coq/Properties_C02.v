(* Properties_C02.v — C02: the Jacobian is the exact derivative of the forcing at the declared
   sparse positions.  Property theorems only; proofs in JacobianProofs.v / SparseProofs.v. *)
From Model Require Import Base Dense Sparse SparseProofs ProcessSetM ProcessSetProofs ScatterProofs JacobianProofs NumInst.
From Coq Require Import Ring QArith.
Local Open Scope nat_scope.

(* For every commutative ring, mechanism, well-formed name->index map (names and indices
   distinct; parameterised reactants do not reuse a state name), each of the four sparse
   orderings (CSR/CSC x standard/vector L>0) with the matching dense layout, every pattern
   that contains the declared non-zero elements and the diagonal, every cell count > 0 and
   every cell c and pattern element (row, col): after SubtractJacobianTerms the stored
   element holds
        J0 - d f_row / d y_col ,   d f_row / d y_col = sum_i stoich_i(row) * k_i * D_col(prod_{q in reactants_i} y_q)
   with D_col the product-rule derivative of the monomial (so A+A+B gets its factor 2). *)
Theorem C02_jacobian_is_minus_derivative :
  forall (N : Num) (Nring : ring_theory (n0 N) (n1 N) (nadd N) (nmul N) (nsub N) (nopp N) eq)
    (o : ordering) (m : vmap) (rxns : list (reaction N)) p nspec ncells pat rc y jac fids K Y J0 c row col rr,
  ord_ok o -> 0 < nspec -> 0 < ncells ->
  map_wf m -> params_apart N m rxns -> vmap_range_lt m nspec ->
  ps_build N m rxns = Ok p -> resolve_all N m rxns = Ok rr ->
  (forall x, In x pat -> fst x < nspec /\ snd x < nspec) ->
  (forall x, In x (nonzero_jac N p) -> In x pat) -> (forall i, i < nspec -> In (i, i) pat) ->
  In (row, col) pat ->
  let s := sp_build (o_csc o) nspec pat in
  let ly := ord_layout o in
  flat_ids N (fun r c => sp_index o s ncells 0 r c) p = Ok fids ->
  represents N ly ncells (length rxns) rc K -> represents N ly ncells nspec y Y ->
  represents N ly ncells (sp_nnz s) jac J0 -> c < ncells ->
  exists k, sp_index o s ncells c row col = Ok k /\
    nth k (sub_jacobian N ly p fids ncells nspec (length rxns) (sp_nnz s) rc y jac) (n0 N) =
    nsub N (J0 c (sp_elem o nspec pat row col)) (jac_deriv N (combine (seq 0 (length rr)) rr) (K c) (Y c) row col).
Proof. exact jacobian_in_sparse_matrix. Qed.
Print Assumptions C02_jacobian_is_minus_derivative.

(* the code's form of the monomial derivative (multiplicity times the product with one
   occurrence removed) is the product-rule derivative *)
Theorem C02_monomial_derivative :
  forall (N : Num) (Nring : ring_theory (n0 N) (n1 N) (nadd N) (nmul N) (nsub N) (nopp N) eq) col rs y,
    nmul N (nat_to N (multiplicity rs col)) (conc_product N (remove_first col rs) y) = deriv_product N col rs y.
Proof. exact deriv_product_code. Qed.
Print Assumptions C02_monomial_derivative.

(* every structurally possible non-zero derivative is in the declared pattern *)
Theorem C02_pattern_complete :
  forall (N : Num) p rs ps ind dep,
    In (rs, ps) (ps_rxns N p) -> In ind rs -> (In dep rs \/ In dep (map fst ps)) ->
    In (dep, ind) (nonzero_jac N p).
Proof. exact pattern_complete. Qed.
Print Assumptions C02_pattern_complete.

(* SetJacobianFlatIds only asks for elements of the declared pattern or of the diagonal, so it
   never meets a structural zero on a matrix built from that pattern plus the diagonal (or any superset) *)
Theorem C02_flat_ids_in_pattern :
  forall (N : Num) m rxns rr p t,
    map_wf m -> params_apart N m rxns -> ps_build N m rxns = Ok p -> resolve_all N m rxns = Ok rr ->
    In t (targets_of N (jac_records N m rxns rr)) -> In t (nonzero_jac N p) \/ fst t = snd t.
Proof. exact targets_in_pattern. Qed.
Print Assumptions C02_flat_ids_in_pattern.

(* with no assumption on the arithmetic: each stored element of cell c is one fixed operation
   sequence on cell c's inputs, the same in every layout; elements no record targets are not written *)
Theorem C02_slot_value_any_arithmetic :
  forall (N : Num) (ly : layout) p eids ncells nspec nrxn nnz rc y jac K Y J0 c e,
    layout_ok ly -> items_ok N (jac_items N p eids) nspec nrxn nnz ->
    represents N ly ncells nrxn rc K -> represents N ly ncells nspec y Y -> represents N ly ncells nnz jac J0 ->
    c < ncells -> e < nnz ->
    mget (n0 N) ly nnz (sub_jacobian N ly p (map (fun e => e * stride ly) eids) ncells nspec nrxn nnz rc y jac) c e =
    jac_slot N p eids (K c) (Y c) e (J0 c e).
Proof. exact jac_slot_any_layout. Qed.
Print Assumptions C02_slot_value_any_arithmetic.

Theorem C02_untouched_elements :
  forall (N : Num) f1 f2 (items : list (item N)) k y e v0,
    (forall it, In it items -> ~ In e (it_a N it) /\ ~ In e (map fst (it_b N it))) ->
    scatter_slot N f1 f2 items k y e v0 = v0.
Proof. exact scatter_slot_untouched. Qed.
Print Assumptions C02_untouched_elements.

(* non-vacuity: A + A + B -> 0.5 C + A on one cell, CSC vector ordering of length 2 *)
Local Open Scope Q_scope.
Definition ex_mech : list (reaction NumQ) :=
  [ mkRxn NumQ [mkSpc 10 false; mkSpc 10 false; mkSpc 11 false; mkSpc 50 true]
               [(mkSpc 12 false, 1#2); (mkSpc 10 false, 1)] ].
Definition ex_map : vmap := [(10, 2); (11, 0); (12, 1)]%nat.
Example C02_example :
  match ps_build NumQ ex_map ex_mech with
  | Ok p =>
    nonzero_jac NumQ p = [(0,0); (0,2); (1,0); (1,2); (2,0); (2,2)]%nat /\
    (* d/dA (k A^2 B) = 2 k A B : with k=3, A=2, B=5: 60 ; f_A has stoichiometry -2+1 = -1 *)
    jac_deriv NumQ (combine (seq 0 1) (ps_rxns NumQ p)) (fun _ => 3) (fun i => nth i [5;0;2] 0) 2%nat 2%nat == -60
  | Err _ => False
  end.
Proof. vm_compute. split; reflexivity. Qed.
