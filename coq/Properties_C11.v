(* Properties_C11.v — C11: a State can be reused indefinitely.
   Proved for backward Euler, for any policies satisfying: Fill(0) forgets the previous contents,
   Factor overwrites L and U (C03): the outcome of Solve (status, final time, statistics, every
   call made to the policies, resulting concentrations) is the same for two States that agree on
   the concentrations, whatever their Jacobian, L/U, Yn and forcing scratch held.
   The same for the Rosenbrock integrator (every stage vector is written before it is read, for every coefficient
   table: any number of stages, any new-function pattern), for two States whose stage-vector lists have the same
   length (the shape of the scratch is fixed by the solver that created the State). *)
From Model Require Import Base Rosenbrock BackwardEulerM IntegratorProofs RosScratchProofs.
Local Open Scope nat_scope.

Theorem C11_backward_euler_ignores_scratch :
  forall (N : Num) ltb is_zero (V M F : Type) vzero mzero add_diag forcing negjac in_place factor_sep solve_sep
         factor_ip solve_ip vresid vclamp_add is_converged two (p : be_params N),
    (forall v v', vzero v = vzero v') -> (forall m m', mzero m = mzero m') ->
    (forall m lu lu', factor_sep m lu = factor_sep m lu') ->
    forall fuel time_step (s s' : bstate V M F),
      bYn1 s = bYn1 s' ->
      let r := be_solve N ltb is_zero V M F vzero mzero add_diag forcing negjac in_place factor_sep solve_sep factor_ip
                        solve_ip vresid vclamp_add is_converged two p fuel time_step s in
      let r' := be_solve N ltb is_zero V M F vzero mzero add_diag forcing negjac in_place factor_sep solve_sep factor_ip
                         solve_ip vresid vclamp_add is_converged two p fuel time_step s' in
      br_state r = br_state r' /\ br_final_time r = br_final_time r' /\ br_stats r = br_stats r' /\
      br_trace r = br_trace r' /\ bYn1 (br_s r) = bYn1 (br_s r').
Proof. exact be_scratch_irrelevant. Qed.
Print Assumptions C11_backward_euler_ignores_scratch.

Theorem C11_rosenbrock_ignores_scratch :
  forall (N : Num) ltb leb nabs isnan isinf is_zero absorbed pow_inv ten delta_min
         (V M F : Type) vaxpy vzero mzero add_diag forcing negjac in_place factor_sep solve_sep factor_ip solve_ip nerr
         (p : params N),
    (forall v v', vzero v = vzero v') -> (forall m m', mzero m = mzero m') ->
    (forall m lu lu', factor_sep m lu = factor_sep m lu') ->
    forall fuel time_step (s s' : rstate V M F),
      sY s = sY s' -> length (sK s) = length (sK s') ->
      let r := ros_solve N ltb leb nabs isnan isinf is_zero absorbed pow_inv ten delta_min V M F vaxpy vzero mzero
                         add_diag forcing negjac in_place factor_sep solve_sep factor_ip solve_ip nerr p fuel time_step s in
      let r' := ros_solve N ltb leb nabs isnan isinf is_zero absorbed pow_inv ten delta_min V M F vaxpy vzero mzero
                          add_diag forcing negjac in_place factor_sep solve_sep factor_ip solve_ip nerr p fuel time_step s' in
      r_state r = r_state r' /\ r_final_time r = r_final_time r' /\ r_stats r = r_stats r' /\
      r_trace r = r_trace r' /\ sY (r_s r) = sY (r_s r').
Proof. exact ros_scratch_irrelevant. Qed.
Print Assumptions C11_rosenbrock_ignores_scratch.
