(* Extract.v — the one extraction command of the development.
   ExtrOcamlBasic only: bool, option, unit, list, prod, sumbool, sumor map to OCaml's;
   nat, positive, Z, Q stay the extracted inductive types. *)
From Coq Require Import Extraction ExtrOcamlBasic.
From Coq Require Import QArith.
From Model Require Import Base Dense Sparse ProcessSetM NumInst LU Rosenbrock BackwardEulerM ErrorNorm RateConst ValueSem Errors JitModel Assembly MarkowitzReal BuilderMap.

Extraction Language OCaml.
Set Extraction KeepSingleton.
Extraction "model.ml"
  Base.upd Base.modify Base.for_n
  Dense.lay_size Dense.lay_addr Dense.lay_real Dense.lay_all Dense.axpy Dense.foreach2 Dense.foreach3
  Dense.row_assign Dense.row_extract Dense.from_rows Dense.copy_from Dense.swap_with
  NumQ NumZ NumZp
  Sparse.sp_build Sparse.sp_is_zero Sparse.sp_size Sparse.sp_index Sparse.sp_index1 Sparse.sp_diag
  Sparse.sp_add_diag Sparse.set_of
  ProcessSetM.ps_build ProcessSetM.nonzero_jac ProcessSetM.flat_ids ProcessSetM.add_forcing
  ProcessSetM.sub_jacobian
  LU.doolittle_sym LU.doolittle_ip_sym LU.mozart_sym LU.mozart_ip_sym
  LU.doolittle_num LU.doolittle_ip_num LU.mozart_num LU.mozart_ip_num LU.lin_solve LU.lin_solve_ip
  LU.pat_of LU.mat_of
  Rosenbrock.ros_solve BackwardEulerM.be_solve ErrorNorm.normalized_error ErrorNorm.is_converged
  RateConst.calc_rate_constants
  ValueSem.vrun ValueSem.copy_fixed ValueSem.store0
  Errors.expected Errors.fault_of_id
  JitModel.jit_add_forcing JitModel.jit_sub_jacobian JitModel.jit_decompose JitModel.jit_lin_solve
  JitModel.jit_lu_guard JitModel.jit_builder_outcome JitModel.jit_rosenbrock_guard
  Assembly.map_lookup MarkowitzReal.markowitz_real BuilderMap.builder_species_map
  Qred Qplus Qmult Qminus Qdiv Qcompare Z.of_nat Z.to_nat Z.compare Pos.to_nat.
