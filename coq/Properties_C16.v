(* Properties_C16.v — one solver shared by many threads, each with its own State.  PARTIAL: the theorems are about
   the interleaving model (Conc.v) and about the footprint table regenerated from the source on this run
   (gen/Footprint.v, translator tools/footprint.py); the C++ memory model, the allocator and libm are not
   modelled — the ThreadSanitizer runs of the tie cover them on the sampled schedules only. *)
From Coq Require Import List Arith Bool String.
Import ListNotations.
From Model Require Import Conc ConcProofs Footprint.

(* any number of threads, any schedule: if every call of thread t writes only t's own State and reads only that
   and the shared solver, then after any interleaving that lets the threads finish every State holds bit for
   bit what the thread's own calls, executed alone, leave there ... *)
Theorem C16_every_thread_gets_its_serial_result :
  forall (loc V : Type) (own : nat -> loc -> Prop) (shared : loc -> Prop),
    (forall t u l, own t l -> own u l -> t = u) -> (forall t l, own t l -> ~ shared l) ->
    forall sched (progs : nat -> list ((loc -> V) -> (loc -> V))) s,
      (forall t a, In a (progs t) -> respects own shared t a) -> complete loc V sched progs ->
      forall t l, own t l -> snd (exec sched progs s) l = serial (progs t) s l.
Proof. exact every_thread_gets_its_serial_result. Qed.
Print Assumptions C16_every_thread_gets_its_serial_result.

(* ... at every point of every schedule, complete or not, each thread sees exactly the prefix it has executed ... *)
Theorem C16_interleaving_equals_serial_prefix :
  forall (loc V : Type) (own : nat -> loc -> Prop) (shared : loc -> Prop),
    (forall t u l, own t l -> own u l -> t = u) -> (forall t l, own t l -> ~ shared l) ->
    forall sched (progs : nat -> list ((loc -> V) -> (loc -> V))) s,
      (forall t a, In a (progs t) -> respects own shared t a) ->
      forall t,
        agree loc V own shared t (snd (exec sched progs s)) (serial (firstn (count t sched) (progs t)) s)
        /\ fst (exec sched progs s) t = skipn (count t sched) (progs t).
Proof. exact interleaving_equals_serial_prefix. Qed.
Print Assumptions C16_interleaving_equals_serial_prefix.

(* ... and the shared solver is never modified *)
Theorem C16_shared_solver_unchanged :
  forall (loc V : Type) (own : nat -> loc -> Prop) (shared : loc -> Prop),
    (forall t u l, own t l -> own u l -> t = u) -> (forall t l, own t l -> ~ shared l) ->
    forall sched (progs : nat -> list ((loc -> V) -> (loc -> V))) s,
      (forall t a, In a (progs t) -> respects own shared t a) ->
      forall l, shared l -> snd (exec sched progs s) l = s l.
Proof. exact shared_object_unchanged. Qed.
Print Assumptions C16_shared_solver_unchanged.

(* the premise "writes only its own State", on the code as it is now: no function reachable from
   Solver::GetState / CalculateRateConstants / Solve(time_step, state) assigns a member of the object it belongs to
   or keeps a function-local static, and the CPU headers hold no mutable member, const_cast, shared_ptr or
   non-const variable with static storage *)
Theorem C16_footprint_ok : footprint_ok reached hazards entries_found = true.
Proof. vm_compute. reflexivity. Qed.
Print Assumptions C16_footprint_ok.

(* the table is not empty: the integrators, the process set, the linear solvers and the LU decompositions are in it *)
Theorem C16_footprint_covers_the_call_chain :
  forallb (fun nm => existsb (fun e => String.eqb (fe_name e) nm) reached)
          ["GetState"; "CalculateRateConstants"; "Solve"; "AddForcingTerms"; "SubtractJacobianTerms"; "Factor";
           "Decompose"; "Calculate"; "NormalizedError"; "AlphaMinusJacobian"; "IsConverged"]%string = true.
Proof. vm_compute. reflexivity. Qed.
