(* RosTimeQ.v — the time-bound theorem of RosScratchProofs.TimeBounds instantiated at the exact rationals NumQ (the
   instance the correspondence check executes), and a concrete parameter / oracle choice that meets its premises. *)
From Model Require Import Base Rosenbrock RosScratchProofs NumInst.
From Coq Require Import QArith Qabs Lqa.
Local Open Scope Q_scope.

Definition qlt (a b : Q) : bool := match a ?= b with Lt => true | _ => false end.
Definition qle (a b : Q) : bool := match a ?= b with Gt => false | _ => true end.

Lemma qlt_iff a b : qlt a b = true <-> a < b.
Proof. unfold qlt. rewrite Qlt_alt. destruct (a ?= b); split; intros H; try reflexivity; try discriminate H. Qed.
Lemma qle_iff a b : qle a b = true <-> a <= b.
Proof.
  unfold qle. rewrite Qle_alt. destruct (a ?= b); split; intros H; try reflexivity; try discriminate;
    try (exfalso; apply H; reflexivity).
Qed.

Theorem ros_final_time_within_the_interval_Q :
  forall isnan isinf is_zero absorbed (pow_inv : Q -> Q -> Q) ten delta_min
         (V M F : Type) vaxpy vzero mzero add_diag forcing negjac in_place factor_sep solve_sep factor_ip solve_ip nerr
         (p : params NumQ),
    0 <= p_round_off p -> 0 <= p_factor_min p <= 1 -> 0 <= p_factor_max p -> 0 <= p_rej_dec p <= 1 ->
    (forall err, qlt err 1 = false -> Qred (p_safety p / pow_inv err (p_elo p)) <= 1) ->
    forall fuel (time_step : Q) (s : rstate V M F), 0 <= time_step ->
      let r := ros_solve NumQ qlt qle Qabs isnan isinf is_zero absorbed pow_inv ten delta_min V M F vaxpy vzero mzero
                         add_diag forcing negjac in_place factor_sep solve_sep factor_ip solve_ip nerr p fuel time_step s in
      0 <= r_final_time r <= time_step.
Proof.
  intros isnan isinf is_zero absorbed pow_inv ten delta_min V M F vaxpy vzero mzero add_diag forcing negjac in_place
         factor_sep solve_sep factor_ip solve_ip nerr p Hro Hfmin Hfmax Hrd Hraw fuel ts s Hts.
  apply (ros_final_time_within_the_interval NumQ qlt qle Qabs isnan isinf is_zero absorbed pow_inv ten delta_min V M F
           vaxpy vzero mzero add_diag forcing negjac in_place factor_sep solve_sep factor_ip solve_ip nerr p (fun x => x)).
  - intros a b. exact (Qred_correct _).
  - intros a b. exact (Qred_correct _).
  - intros a b. exact (Qred_correct _).
  - exact qlt_iff.
  - exact qle_iff.
  - intros a. reflexivity.
  - exact Hro.
  - exact Hfmin.
  - exact Hfmax.
  - exact Hrd.
  - exact Hraw.
  - reflexivity.
  - exact Hts.
Qed.

(* the premises can be met: safety 9/10, an order-1 power oracle (err^(1/1) = err), factors 1/5 .. 6, decrease 1/10 *)
Example time_bound_premises_are_satisfiable :
  let pow_inv := fun (e _ : Q) => e in
  forall err, qlt err 1 = false -> Qred ((9 # 10) / pow_inv err 1) <= 1.
Proof.
  intros pow_inv err E. unfold pow_inv. rewrite Qred_correct.
  assert (H1 : 1 <= err).
  { destruct (Qlt_le_dec err 1) as [Hl | Hl]; [|exact Hl]. apply qlt_iff in Hl. rewrite Hl in E. discriminate E. }
  apply Qle_shift_div_r; lra.
Qed.

(* C07: the step-size theorem at the rationals of the tie *)
Theorem ros_attempt_sizes_within_the_interval_Q :
  forall isnan isinf is_zero absorbed (pow_inv : Q -> Q -> Q) ten delta_min
         (V M F : Type) vaxpy vzero mzero add_diag forcing negjac in_place factor_sep solve_sep factor_ip solve_ip nerr
         (p : params NumQ),
    0 <= p_round_off p -> 0 <= p_factor_min p <= 1 -> 0 <= p_factor_max p -> 0 <= p_rej_dec p <= 1 ->
    (forall err, qlt err 1 = false -> Qred (p_safety p / pow_inv err (p_elo p)) <= 1) ->
    forall fuel (time_step : Q) (s : rstate V M F), 0 <= time_step ->
      sizes_ok NumQ V M (fun x => x) time_step 0
        (r_trace (ros_solve NumQ qlt qle Qabs isnan isinf is_zero absorbed pow_inv ten delta_min V M F vaxpy vzero mzero
                            add_diag forcing negjac in_place factor_sep solve_sep factor_ip solve_ip nerr p fuel time_step s)).
Proof.
  intros isnan isinf is_zero absorbed pow_inv ten delta_min V M F vaxpy vzero mzero add_diag forcing negjac in_place
         factor_sep solve_sep factor_ip solve_ip nerr p Hro Hfmin Hfmax Hrd Hraw fuel ts s Hts.
  apply (ros_attempt_sizes_within_the_interval NumQ qlt qle Qabs isnan isinf is_zero absorbed pow_inv ten delta_min V M F
           vaxpy vzero mzero add_diag forcing negjac in_place factor_sep solve_sep factor_ip solve_ip nerr p (fun x => x)).
  - intros a b. exact (Qred_correct _).
  - intros a b. exact (Qred_correct _).
  - intros a b. exact (Qred_correct _).
  - exact qlt_iff.
  - exact qle_iff.
  - intros a. reflexivity.
  - exact Hro.
  - exact Hfmin.
  - exact Hfmax.
  - exact Hrd.
  - exact Hraw.
  - reflexivity.
  - exact Hts.
Qed.

(* sizes_ok is not trivially true: it accepts a step of 1/2 retried with 1/4 inside [0, 1] and refuses a retry that
   grows, a step start beyond the remaining interval and a negative size *)
Example sizes_ok_discriminates :
  let A H := @EvAttempt NumQ unit unit H 2 false tt tt tt in
  let S t H := @EvStep NumQ unit unit t H in
  sizes_ok NumQ unit unit (fun x => x) 1 0 [S (1#2) (1#2); @EvForcing NumQ unit unit tt; A (1#2); A (1#4)] /\
  ~ sizes_ok NumQ unit unit (fun x => x) 1 0 [S (1#2) (1#2); A (1#2); A 1] /\
  ~ sizes_ok NumQ unit unit (fun x => x) 1 0 [S (1#2) (3#4)] /\
  ~ sizes_ok NumQ unit unit (fun x => x) 1 0 [S 0 (1#2); A (-1#4)].
Proof.
  cbn [sizes_ok]. repeat split; try lra; try (intro X; lra).
Qed.
