(* Assembly.v — name -> index bookkeeping of SolverBuilder (solver_builder.inl: GetSpeciesMap,
   Build) and the schema of DiagonalMarkowitzReorder (linear_solver.inl):
     perm = identity; for row in 0..n-2: pick max_row in [row, n) by a heuristic; swap(perm[row], perm[max_row]).
   The heuristic is a parameter: whatever it picks, the result is a permutation. *)
From Model Require Import Base BaseProofs.
From Coq Require Import Permutation.
Local Open Scope nat_scope.

(* std::swap(perm[i], perm[j]) *)
Definition swap_at (l : list nat) (i j : nat) : list nat :=
  upd j (nth i l 0) (upd i (nth j l 0) l).

(* the reordering schema: choose row perm = the pivot row picked for this row (the code's choice
   depends on the evolving fill pattern; any function of the row and the current permutation and
   an arbitrary extra state S covers it) *)
Section Markowitz.
  Variable S : Type.
  Variable choose : S -> nat -> list nat -> nat * S.

  Definition markowitz_step (acc : list nat * S) (row : nat) : list nat * S :=
    let '(perm, st) := acc in
    let '(pick, st') := choose st row perm in
    (* the code's max_row always lies in [row, n): a pick outside is clamped to row (no swap) *)
    let mr := if (row <=? pick) && (pick <? length perm) then pick else row in
    (if mr =? row then perm else swap_at perm row mr, st').

  Definition markowitz (n : nat) (st0 : S) : list nat :=
    fst (fold_left markowitz_step (seq 0 (n - 1)) (seq 0 n, st0)).
End Markowitz.

(* GetSpeciesMap + Build: names in listing order, reordered names[i] = orig[perm[i]],
   map[name] = position ; variable_names_[map[name]] = name *)
Definition reordered_names (names : list nat) (perm : list nat) : list nat :=
  map (fun i => nth (nth i perm 0) names 0) (seq 0 (length names)).

(* std::map assignment in order: later assignments to the same key win; lookup *)
Fixpoint map_lookup (m : list (nat * nat)) (key : nat) : option nat :=
  match m with
  | [] => None
  | (k, v) :: t => match map_lookup t key with Some x => Some x | None => if k =? key then Some v else None end
  end.

Definition species_map (names : list nat) (reorder : option (list nat)) : list (nat * nat) :=
  let first := combine names (seq 0 (length names)) in
  match reorder with
  | None => first
  | Some perm => first ++ combine (reordered_names names perm) (seq 0 (length names))
  end.

(* variable_names_[pair.second] = pair.first for every pair of the map, starting from n empty slots *)
Definition variable_names (n : nat) (keys : list nat) (m : list (nat * nat)) : list nat :=
  fold_left (fun acc k => match map_lookup m k with Some i => upd i k acc | None => acc end) keys (repeat 0 n).
