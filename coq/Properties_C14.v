(* Properties_C14.v — C14: species are addressed by name consistently, whatever internal ordering.
   Property theorems only; proofs in AssemblyProofs.v. *)
From Model Require Import Base LU ProcessSetM Assembly AssemblyProofs MarkowitzReal BuilderMap.
From Coq Require Import Permutation.
Local Open Scope nat_scope.

(* the reordering routine's schema — start from the identity, at each row swap the current row
   with a row picked among the later ones, by ANY heuristic with any internal state (the code's
   Markowitz counts, their unsigned wrap-around, the evolving fill pattern: all covered by the
   parameter) — returns a permutation of 0..n-1, for every n *)
Theorem C14_reordering_returns_a_permutation :
  forall (S : Type) (choose : S -> nat -> list nat -> nat * S) n st0,
    Permutation (markowitz S choose n st0) (seq 0 n).
Proof. exact markowitz_is_permutation. Qed.
Print Assumptions C14_reordering_returns_a_permutation.

(* with duplicate-free names and any permutation (or no reordering): the listed names after
   reordering are a duplicate-free rearrangement of the species, and the name -> index map sends
   the i-th of them to i — a bijection onto 0..N-1 that agrees with the variable names *)
Theorem C14_species_map_is_a_bijection :
  forall names (reorder : option (list nat)),
    NoDup names ->
    (match reorder with Some perm => Permutation perm (seq 0 (length names)) | None => True end) ->
    let final := match reorder with Some perm => reordered_names names perm | None => names end in
    NoDup final /\ Permutation final names /\
    forall i, i < length names -> map_lookup (species_map names reorder) (nth i final 0) = Some i.
Proof. exact species_map_bijection. Qed.
Print Assumptions C14_species_map_is_a_bijection.

Example C14_example :
  species_map [10; 20; 30] (Some [2; 0; 1]) = [(10,0); (20,1); (30,2); (30,0); (10,1); (20,2)] /\
  map_lookup (species_map [10; 20; 30] (Some [2; 0; 1])) 10 = Some 1.
Proof. vm_compute. split; reflexivity. Qed.

(* the heuristic DiagonalMarkowitzReorder actually uses (MarkowitzReal.real_choose: Markowitz counts in size_t arithmetic
   with their wrap-around, strict minimum from (n-1)^2, partial swaps and fill-in of the working pattern) is one
   instance of the parameter above; this instance is the function the correspondence check runs against the real
   routine on every 0/1 pattern up to 3x3 (4x4 thorough) and random larger ones *)
Theorem C14_real_reordering_returns_a_permutation :
  forall n (P : pat2), Permutation (markowitz_real n P) (seq 0 n).
Proof. intros n P. exact (markowitz_is_permutation pat2 (real_choose n) n P). Qed.
Print Assumptions C14_real_reordering_returns_a_permutation.

(* SolverBuilder::GetSpeciesMap composed from its parts (BuilderMap.builder_species_map: listing-order map -> process
   set -> non-zero Jacobian elements -> the real reordering -> final map and variable names; run against built solvers
   by the correspondence check): for duplicate-free species names, any mechanism and either reordering option, the
   map is a bijection onto 0..N-1 and the variable names are exactly the names listed by it *)
Theorem C14_builder_map_is_a_bijection :
  forall (N : Num) names (rxns : list (reaction N)) reorder m vn,
    NoDup names -> builder_species_map N names rxns reorder = Ok (m, vn) ->
    exists final, NoDup final /\ Permutation final names /\
      (forall i, i < length names -> map_lookup m (nth i final 0) = Some i) /\ vn = final.
Proof. exact builder_map_bijection. Qed.
Print Assumptions C14_builder_map_is_a_bijection.
