(* Properties_C15.v — C15: each reaction gets the rate constant of its own parameters and cell conditions.
   For any arithmetic, any rate-constant formulas (oracles), any mix of parameter counts, both
   layouts and any cell count (partial groups included): the value stored for reaction r of cell c is
        calc_r (conditions of c) [custom parameters of c at columns off_r .. off_r + size_r - 1]
          * (product of r's parameterised reactants at the conditions of c),
   off_r = sum of the sizes of the reactions before r — the column order of the labels. *)
From Model Require Import Base Dense ProcessSetM ProcessSetProofs RateConst RateConstProofs.
Local Open Scope nat_scope.

Theorem C15_rate_constant_association_row_major :
  forall (N : Num) (C : Type) (ps : list (rproc N C)) ncells nparams conds P rc Pm,
    0 < length ps ->
    forall c r p off,
      represents N RowMajor ncells nparams P Pm -> length rc = rm_size ncells (length ps) ->
      c < ncells -> nth_error ps r = Some p -> nth_error (offsets N C ps) r = Some off ->
      off + rp_size N C p <= nparams ->
      nth (rm_addr (length ps) c r) (calc_rate_constants N C RowMajor ps ncells nparams conds P rc) (n0 N) =
      rc_value N C p (conds c) (own_params N Pm c off (rp_size N C p)).
Proof. exact rc_association_rm. Qed.
Print Assumptions C15_rate_constant_association_row_major.

Theorem C15_rate_constant_association_grouped :
  forall (N : Num) (C : Type) (ps : list (rproc N C)) ncells nparams conds P rc Pm,
    0 < length ps ->
    forall L c r p off,
      0 < L -> represents N (Grouped L) ncells nparams P Pm -> length rc = vm_size L ncells (length ps) ->
      c < ncells -> nth_error ps r = Some p -> nth_error (offsets N C ps) r = Some off ->
      off + rp_size N C p <= nparams ->
      nth (vm_addr L (length ps) c r) (calc_rate_constants N C (Grouped L) ps ncells nparams conds P rc) (n0 N) =
      rc_value N C p (conds c) (own_params N Pm c off (rp_size N C p)).
Proof. exact rc_association_vec. Qed.
Print Assumptions C15_rate_constant_association_grouped.
