(* UniqueSolve.v — a matrix with an LU factorisation whose diagonals do not vanish has at most one solution of
   A x = b.  With the four factor-then-solve theorems this gives: the computed solution does not depend on which of
   the four decompositions (and which of the two linear solvers) was configured. *)
From Model Require Import Base LU LUProofs DoolittleProofs DoolittleIPProofs MozartIPProofs MozartProofs.
From Coq Require Import Ring Field Lia.
Local Open Scope nat_scope.

Section Unique.
  Variable N : Num.
  Notation T := (T N).
  Hypothesis Nfield : field_theory (n0 N) (n1 N) (nadd N) (nmul N) (nsub N) (nopp N) (ndiv N) (ninv N) eq.
  Add Field NumFieldUQ : Nfield.
  Notation "a +! b" := (nadd N a b) (at level 50, left associativity).
  Notation "a *! b" := (nmul N a b) (at level 40, left associativity).
  Notation "a -! b" := (nsub N a b) (at level 50, left associativity).
  Notation "0!" := (n0 N).
  Notation "1!" := (n1 N).
  Notation sum := (nsum N).
  Variable n : nat.

  Lemma mul_zero_r (a b : T) : a <> 0! -> a *! b = 0! -> b = 0!.
  Proof.
    intros Ha H. transitivity (ndiv N 1! a *! (a *! b)); [field; exact Ha | rewrite H; ring].
  Qed.

  Lemma lower_injective (L : nat -> nat -> T) (w : nat -> T) :
    (forall i j, i < j -> j < n -> L i j = 0!) -> (forall i, i < n -> L i i <> 0!) ->
    (forall r, r < n -> sum n (fun j => L r j *! w j) = 0!) -> forall r, r < n -> w r = 0!.
  Proof.
    intros Hlow Hd H r. induction r as [r IH] using lt_wf_ind. intros Hr.
    pose proof (H r Hr) as E. rewrite (sum_around N Nfield n r _ Hr) in E.
    assert (E1 : sum r (fun j => L r j *! w j) = 0!).
    { apply (sum_zero N Nfield). intros j Hj. rewrite (IH j Hj) by lia. ring. }
    assert (E2 : tail_sum N n r (fun j => L r j *! w j) = 0!).
    { rewrite (tail_sum_ext N n r _ (fun _ => 0!)).
      - unfold tail_sum. apply (sum_zero N Nfield). reflexivity.
      - intros j Hrj Hj. rewrite (Hlow r j Hrj Hj). ring. }
    rewrite E1, E2 in E. apply (mul_zero_r (L r r)); [apply Hd; exact Hr|].
    rewrite <- E. ring.
  Qed.

  Lemma upper_injective (U : nat -> nat -> T) (z : nat -> T) :
    (forall i j, j < i -> i < n -> U i j = 0!) -> (forall i, i < n -> U i i <> 0!) ->
    (forall r, r < n -> sum n (fun j => U r j *! z j) = 0!) -> forall r, r < n -> z r = 0!.
  Proof.
    intros Hup Hd H.
    assert (G : forall k, k <= n -> forall r, n - k <= r -> r < n -> z r = 0!).
    { induction k as [|k IH]; intros Hk r Hlo Hr; [lia|].
      assert (Hk' : k <= n) by lia.
      destruct (Nat.le_gt_cases (n - k) r) as [Hge | Hlt]; [apply (IH Hk' r Hge Hr)|].
      pose proof (H r Hr) as E. rewrite (sum_around N Nfield n r _ Hr) in E.
      assert (E1 : sum r (fun j => U r j *! z j) = 0!).
      { apply (sum_zero N Nfield). intros j Hj. rewrite (Hup r j Hj Hr). ring. }
      assert (E2 : tail_sum N n r (fun j => U r j *! z j) = 0!).
      { rewrite (tail_sum_ext N n r _ (fun _ => 0!)).
        - unfold tail_sum. apply (sum_zero N Nfield). reflexivity.
        - intros j Hrj Hj. rewrite (IH Hk' j) by lia. ring. }
      rewrite E1, E2 in E. apply (mul_zero_r (U r r)); [apply Hd; exact Hr|].
      rewrite <- E. ring. }
    intros r Hr. apply (G n (le_n n) r); [lia | exact Hr].
  Qed.

  Lemma sum_sub m f g : sum m (fun j => f j -! g j) = sum m f -! sum m g.
  Proof. induction m as [|m IH]; simpl; [ring | rewrite IH; ring]. Qed.

  Theorem solution_unique (A L U : nat -> nat -> T) :
    (forall i j, i < j -> j < n -> L i j = 0!) -> (forall i, i < n -> L i i <> 0!) ->
    (forall i j, j < i -> i < n -> U i j = 0!) -> (forall i, i < n -> U i i <> 0!) ->
    (forall r c, r < n -> c < n -> sum n (fun j => L r j *! U j c) = A r c) ->
    forall x x' : nat -> T,
      (forall r, r < n -> sum n (fun c => A r c *! x c) = sum n (fun c => A r c *! x' c)) ->
      forall r, r < n -> x r = x' r.
  Proof.
    intros HLlow HLd HUup HUd HLU x x' Hx.
    set (z := fun c => x c -! x' c).
    assert (HAz : forall r, r < n -> sum n (fun c => A r c *! z c) = 0!).
    { intros r Hr. unfold z.
      rewrite (sum_ext N n _ (fun c => A r c *! x c -! A r c *! x' c)) by (intros; ring).
      rewrite sum_sub. rewrite (Hx r Hr). ring. }
    set (w := fun j => sum n (fun c => U j c *! z c)).
    assert (Hw : forall r, r < n -> w r = 0!).
    { apply (lower_injective L w HLlow HLd). intros r Hr. unfold w.
      rewrite <- (HAz r Hr).
      rewrite (sum_ext N n (fun c => A r c *! z c) (fun c => sum n (fun j => L r j *! U j c *! z c))).
      2:{ intros c Hc. rewrite <- (HLU r c Hr Hc). rewrite <- (sum_scale_r N Nfield). reflexivity. }
      rewrite (sum_swap N Nfield). apply (sum_ext N). intros j Hj.
      rewrite <- (sum_scale N Nfield). apply (sum_ext N). intros c _. ring. }
    assert (Hz : forall r, r < n -> z r = 0!) by (apply (upper_injective U z HUup HUd); exact Hw).
    intros r Hr. specialize (Hz r Hr). unfold z in Hz.
    transitivity ((x r -! x' r) +! x' r); [ring | rewrite Hz; ring].
  Qed.
End Unique.

(* ------------------------------------------------------------------------------------------
   The solution does not depend on the configured decomposition / linear solver. *)
Theorem solution_independent_of_lu_algorithm :
  forall (N : Num)
    (Nfield : field_theory (n0 N) (n1 N) (nadd N) (nmul N) (nsub N) (nopp N) (ndiv N) (ninv N) eq)
    n (A : mat N) (Ap : pat) (L0 U0 L1 U1 M0 M1 : mat N) (b : vec N),
    (forall i, i < n -> Ap i i = true) ->
    let DLp := fst (doolittle_sym n Ap) in
    let DUp := snd (doolittle_sym n Ap) in
    let DLU := doolittle_num N n A Ap DLp DUp L0 U0 in
    let MLp := fst (mozart_sym n Ap) in
    let MUp := snd (mozart_sym n Ap) in
    let MLU := mozart_num N n A Ap MLp MUp L1 U1 in
    let DP := doolittle_ip_sym n Ap in
    let DM := doolittle_ip_num N n DP M0 in
    let MP := mozart_ip_sym n Ap in
    let MM := mozart_ip_num N n MP M1 in
    (forall r c, r < n -> c < n -> DP r c = true -> M0 r c = view N Ap A r c) ->
    (forall r c, r < n -> c < n -> MP r c = true -> M1 r c = view N Ap A r c) ->
    (forall i, i < n -> snd DLU i i <> n0 N) -> (forall i, i < n -> snd MLU i i <> n0 N) ->
    (forall i, i < n -> DM i i <> n0 N) -> (forall i, i < n -> MM i i <> n0 N) ->
    let x := lin_solve N n DLp DUp (fst DLU) (snd DLU) b in
    forall r, r < n ->
      lin_solve N n MLp MUp (fst MLU) (snd MLU) b r = x r /\
      lin_solve_ip N n DP DM b r = x r /\
      lin_solve_ip N n MP MM b r = x r.
Proof.
  intros N Nfield n A Ap L0 U0 L1 U1 M0 M1 b Hd DLp DUp DLU MLp MUp MLU DP DM MP MM HM0 HM1 HpD HpM HpDI HpMI x r Hr.
  pose proof (doolittle_factor_then_solve N Nfield n A Ap L0 U0 b HpD) as SD.
  pose proof (mozart_factor_then_solve N Nfield n A Ap L1 U1 b Hd HpM) as SM.
  pose proof (doolittle_in_place_factor_then_solve N Nfield n A Ap M0 b HM0 HpDI) as SDI.
  pose proof (mozart_in_place_factor_then_solve N Nfield n A Ap M1 b Hd HM1 HpMI) as SMI.
  cbv zeta in SD, SM, SDI, SMI. fold DLp DUp DLU in SD. fold x in SD.
  fold MLp MUp MLU in SM. fold DP DM in SDI. fold MP MM in SMI.
  pose proof (doolittle_decomposition_correct N Nfield n A Ap L0 U0 HpD) as HLU. cbv zeta in HLU.
  fold DLp DUp DLU in HLU.
  destruct (doolittle_sym_closed n Ap) as [HUc _]. fold DLp DUp in HUc.
  assert (Hupii : forall i, i < n -> DUp i i = true).
  { intros i Hi. rewrite (HUc i i (le_n i) Hi). rewrite Nat.eqb_refl. destruct (Ap i i); reflexivity. }
  assert (H10 : n1 N <> n0 N) by (destruct Nfield as [_ H _ _]; exact H).
  set (Lf := fun r c => if c <? r then view N DLp (fst DLU) r c else if c =? r then n1 N else n0 N) in HLU.
  set (Uf := fun r c => if r <=? c then view N DUp (snd DLU) r c else n0 N) in HLU.
  assert (U : forall x' : vec N, (forall r0, r0 < n -> nsum N n (fun c => nmul N (view N Ap A r0 c) (x' c)) = b r0) ->
                x' r = x r).
  { intros x' Hx'.
    apply (solution_unique N Nfield n (view N Ap A) Lf Uf).
    - intros i j Hij Hj. unfold Lf. destruct (Nat.ltb_spec j i); [lia|]. destruct (Nat.eqb_spec j i); [lia|]. reflexivity.
    - intros i Hi. unfold Lf. rewrite Nat.ltb_irrefl, Nat.eqb_refl. exact H10.
    - intros i j Hji Hi. unfold Uf. destruct (Nat.leb_spec i j); [lia|]. reflexivity.
    - intros i Hi. unfold Uf. rewrite Nat.leb_refl. unfold view. rewrite (Hupii i Hi). apply HpD. exact Hi.
    - exact HLU.
    - intros r0 Hr0. rewrite (Hx' r0 Hr0). symmetry. apply SD. exact Hr0.
    - exact Hr. }
  split; [apply U; exact SM | split; [apply U; exact SDI | apply U; exact SMI]].
Qed.
