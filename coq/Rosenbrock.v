(* Rosenbrock.v — model of AbstractRosenbrockSolver::Solve (solver/rosenbrock.inl).
   The integrator is a template over RatesPolicy and LinearSolverPolicy; the model takes the
   corresponding operations as Section variables, as well as the dense-matrix operations
   (Axpy, Fill) and the error norm (CRTP customisation point NormalizedError).  The two nested
   loops (steps, attempts) are one recursion on explicit fuel; running out of fuel is the
   distinguished status OutOfFuel, excluded by every theorem. *)
From Model Require Export Base.
Local Open Scope nat_scope.

Inductive solver_state :=
  | Running | Converged | ConvergenceExceededMaxSteps | StepSizeTooSmall
  | NaNDetected | InfDetected | AcceptingUnconvergedIntegration | NotYetCalled | OutOfFuel.

Record stats := mkStats {
  function_calls : nat; jacobian_updates : nat; number_of_steps : nat;
  accepted : nat; rejected : nat; decompositions : nat; solves : nat }.
Definition stats0 := mkStats 0 0 0 0 0 0 0.

Section Ros.
  Variable N : Num.
  Notation T := (T N).
  (* ordered-field operations on the step-size scalars (binary64 in the code) *)
  Variables (ltb leb : T -> T -> bool) (nabs : T -> T) (isnan isinf : T -> bool).
  Definition tmin (a b : T) : T := if ltb b a then b else a.   (* std::min(a, b) *)
  Definition tmax (a b : T) : T := if ltb a b then b else a.   (* std::max(a, b) *)
  Variable is_zero : T -> bool.                                 (* x == 0.0 *)
  Variable absorbed : T -> T -> bool.                           (* (t + 0.1 * H) == t *)
  Variable pow_inv : T -> T -> T.                               (* std::pow(error, 1 / order) *)
  Variables (ten delta_min : T).                                (* 10.0, DELTA_MIN *)

  (* dense matrices (cells x species) and the Jacobian / factor storage, abstract *)
  Variables V M F : Type.
  Variable vaxpy : T -> V -> V -> V.        (* y.Axpy(a, x): vaxpy a x y = y + a x *)
  Variable vzero : V -> V.                  (* Fill(0) (keeps the shape) *)
  Variable mzero : M -> M.                  (* jacobian_.Fill(0) *)
  Variable add_diag : T -> M -> M.          (* AlphaMinusJacobian: add alpha on the diagonal *)
  (* RatesPolicy *)
  Variable forcing : V -> V -> V.           (* AddForcingTerms(rate_constants, Y, F): F + f(Y) *)
  Variable negjac : V -> M -> M.            (* SubtractJacobianTerms(rate_constants, Y, J): J - df/dy(Y) *)
  (* LinearSolverPolicy: separate L/U storage or in place *)
  Variable in_place : bool.
  Variable factor_sep : M -> F -> F.        (* Factor(jacobian, L, U) *)
  Variable solve_sep : F -> V -> V.         (* Solve(K, L, U) *)
  Variable factor_ip : M -> M.              (* Factor(jacobian) *)
  Variable solve_ip : M -> V -> V.          (* Solve(K, jacobian) *)
  (* NormalizedError(Y, Ynew, Yerror, state) ; the attempt counter lets a scripted norm be expressed *)
  Variable nerr : nat -> V -> V -> V -> T.

  Record params := mkParams {
    p_stages : nat; p_a : list T; p_c : list T; p_m : list T; p_e : list T;
    p_gamma0 : T; p_newf : list bool; p_elo : T;
    p_max_steps : nat; p_round_off : T; p_factor_min : T; p_factor_max : T;
    p_rej_dec : T; p_safety : T; p_h_min : T; p_h_max : T; p_h_start : T }.

  (* the State members the solver touches *)
  Record rstate := mkRState {
    sY : V; sJac : M; sLU : F;
    sYnew : V; sInitF : V; sK : list V; sYerr : V }.

  Inductive event :=
    | EvForcing (y : V)                       (* AddForcingTerms evaluated at y *)
    | EvNegJac (y : V)                        (* SubtractJacobianTerms evaluated at y *)
    | EvFactor (H alpha : T) (m : M)          (* LinearFactor: step size, alpha passed, matrix handed to Factor *)
    | EvSolve (rhs : V)                       (* linear solve with this right-hand side *)
    | EvAttempt (H error : T) (ok : bool) (y ynew yerr : V)   (* end of an attempt: H, error norm, accepted?, the norm's arguments *)
    | EvStep (t H : T).                       (* start of a step at present_time t with step size H *)

  Variable p : params.
  Notation "a +! b" := (nadd N a b) (at level 50, left associativity).
  Notation "a -! b" := (nsub N a b) (at level 50, left associativity).
  Notation "a *! b" := (nmul N a b) (at level 40, left associativity).
  Notation "a /! b" := (ndiv N a b) (at level 40, left associativity).
  Definition qn (l : list T) (i : nat) : T := nth i l (n0 N).

  Definition kset (K : list V) (i : nat) (v : V) : list V := upd i v K.
  Definition kget (K : list V) (i : nat) (d : V) : V := nth i K d.

  (* one stage of the stage loop; returns K, Ynew, events, counters (forcing evaluations) *)
  Definition stage_step (H : T) (s : rstate) (lu_m : M) (lu_f : F) (stage : nat)
    : rstate * list event * nat :=
    let comb := stage * (stage - 1) / 2 in
    let d := sY s in
    (* function value *)
    let '(K1, Ynew1, ev1, nf) :=
      if stage =? 0 then (kset (sK s) 0 (sInitF s), sYnew s, [], 0)
      else if nth stage (p_newf p) false then
        let yn := fold_left (fun y j => vaxpy (qn (p_a p) (comb + j)) (kget (sK s) j d) y) (seq 0 stage) (sY s) in
        (kset (sK s) stage (forcing yn (vzero (kget (sK s) stage d))), yn, [EvForcing yn], 1)
      else (sK s, sYnew s, [], 0) in
    (* hand the function value on to the next stage when that one re-uses it *)
    let K2 := if (stage + 1 <? p_stages p) && negb (nth (stage + 1) (p_newf p) false)
              then kset K1 (stage + 1) (kget K1 stage d) else K1 in
    let rhs := fold_left (fun k j => vaxpy (qn (p_c p) (comb + j) /! H) (kget K2 j d) k) (seq 0 stage) (kget K2 stage d) in
    let sol := if in_place then solve_ip lu_m rhs else solve_sep lu_f rhs in
    (mkRState (sY s) (sJac s) (sLU s) Ynew1 (sInitF s) (kset K2 stage sol) (sYerr s),
     ev1 ++ [EvSolve rhs], nf).

  Definition stages_loop (H : T) (s : rstate) : rstate * list event * nat :=
    fold_left (fun (acc : rstate * list event * nat) stage =>
                 let '(s, ev, nf) := acc in
                 let '(s', ev', nf') := stage_step H s (sJac s) (sLU s) stage in
                 (s', ev ++ ev', nf + nf'))
              (seq 0 (p_stages p)) (s, [], 0).

  Record loop_state := mkLoop {
    l_s : rstate; l_t : T; l_H : T; l_stats : stats;
    l_reject_last : bool; l_reject_more : bool; l_last_alpha : T;
    l_fresh : bool;                      (* at the top of the outer loop *)
    l_attempt : nat }.                   (* attempts made so far in this Solve *)

  Record result := mkResult { r_state : solver_state; r_final_time : T; r_stats : stats; r_s : rstate; r_trace : list event }.

  Definition swapY (s : rstate) : rstate :=
    mkRState (sYnew s) (sJac s) (sLU s) (sY s) (sInitF s) (sK s) (sYerr s).

  Definition bump (st : stats) (f j n a r d so : nat) : stats :=
    mkStats (function_calls st + f) (jacobian_updates st + j) (number_of_steps st + n)
            (accepted st + a) (rejected st + r) (decompositions st + d) (solves st + so).

  (* one trip around the loops: the top-of-step part when l_fresh, then one attempt.
     inl = the Solve ends here with (status, final time, stats, state, events of this trip);
     inr = the loops go on *)
  Definition ros_iter (time_step h_max : T) (l : loop_state)
    : (solver_state * T * stats * rstate * list event) + (loop_state * list event) :=
      (* ---- top of the outer loop ---- *)
      let top :=
        if l_fresh l then
          if negb (leb ((l_t l -! time_step) +! p_round_off p) (n0 N)) then inl Converged
          else if p_max_steps p <? number_of_steps (l_stats l) then inl ConvergenceExceededMaxSteps
          else if absorbed (l_t l) (l_H l) || leb (l_H l) (p_round_off p) then inl StepSizeTooSmall
          else
            let H := tmin (l_H l) (nabs (time_step -! l_t l)) in
            let s := l_s l in
            let f0 := forcing (sY s) (vzero (sInitF s)) in
            let j0 := negjac (sY s) (mzero (sJac s)) in
            inr (mkLoop (mkRState (sY s) j0 (sLU s) (sYnew s) f0 (sK s) (sYerr s))
                        (l_t l) H (bump (l_stats l) 1 1 0 0 0 0 0)
                        (l_reject_last l) (l_reject_more l) (n0 N) false (l_attempt l),
                 [EvStep (l_t l) H; EvForcing (sY s); EvNegJac (sY s)])
        else inr (l, []) in
      match top with
      | inl st => inl (st, l_t l, l_stats l, l_s l, [])
      | inr (l1, ev0) =>
        (* ---- one attempt ---- *)
        let H := l_H l1 in
        let alpha_full := n1 N /! (H *! p_gamma0 p) in
        let alpha := if in_place then alpha_full else alpha_full -! l_last_alpha l1 in
        let last_alpha := if in_place then l_last_alpha l1 else alpha_full in   (* the total shift on the diagonal *)
        let s := l_s l1 in
        let jac1 := add_diag alpha (sJac s) in
        let jac2 := if in_place then factor_ip jac1 else jac1 in
        let lu2 := if in_place then sLU s else factor_sep jac1 (sLU s) in
        let s1 := mkRState (sY s) jac2 lu2 (sYnew s) (sInitF s) (sK s) (sYerr s) in
        let '(s2, evs, nf) := stages_loop H s1 in
        let d := sY s in
        let ynew := fold_left (fun y i => vaxpy (qn (p_m p) i) (kget (sK s2) i d) y) (seq 0 (p_stages p)) (sY s2) in
        let yerr := fold_left (fun y i => vaxpy (qn (p_e p) i) (kget (sK s2) i d) y) (seq 0 (p_stages p)) (vzero (sYerr s2)) in
        let s3 := mkRState (sY s2) (sJac s2) (sLU s2) ynew (sInitF s2) (sK s2) yerr in
        let error := nerr (l_attempt l1) (sY s3) ynew yerr in
        let fac := tmin (p_factor_max p) (tmax (p_factor_min p) (p_safety p /! pow_inv error (p_elo p))) in
        let Hnew := H *! fac in
        let st1 := bump (l_stats l1) nf 0 1 0 0 1 (p_stages p) in
        let tr1 := ev0 ++ [EvFactor H alpha jac1] ++ evs in
        if isnan error then
          inl (NaNDetected, l_t l1, st1, swapY s3, tr1 ++ [EvAttempt H error false (sY s3) ynew yerr])
        else if isinf error then
          inl (InfDetected, l_t l1, st1, swapY s3, tr1 ++ [EvAttempt H error false (sY s3) ynew yerr])
        else if ltb error (n1 N) || ltb H (p_h_min p) then
          let Hn1 := tmax (p_h_min p) (tmin Hnew h_max) in
          let Hn2 := if l_reject_last l1 then tmin Hn1 H else Hn1 in
          inr (mkLoop (swapY s3) (l_t l1 +! H) Hn2 (bump st1 0 0 0 1 0 0 0) false false last_alpha true
                      (S (l_attempt l1)),
               tr1 ++ [EvAttempt H error true (sY s3) ynew yerr])
        else
          let Hn := if l_reject_more l1 then H *! p_rej_dec p else Hnew in
          let st2 := if 1 <=? accepted st1 then bump st1 0 0 0 0 1 0 0 else st1 in
          let s4 := if in_place
                    then mkRState (sY s3) (negjac (sY s3) (mzero (sJac s3))) (sLU s3) (sYnew s3) (sInitF s3) (sK s3) (sYerr s3)
                    else s3 in
          let st3 := if in_place then bump st2 0 1 0 0 0 0 0 else st2 in
          let ev4 := if in_place then [EvNegJac (sY s3)] else [] in
          inr (mkLoop s4 (l_t l1) Hn st3 true (l_reject_last l1) last_alpha false (S (l_attempt l1)),
               tr1 ++ [EvAttempt H error false (sY s3) ynew yerr] ++ ev4)
      end.

  Fixpoint ros_loop (fuel : nat) (time_step h_max : T) (l : loop_state) (tr : list event) : result :=
    match fuel with
    | O => mkResult OutOfFuel (l_t l) (l_stats l) (l_s l) tr
    | S fuel' =>
      match ros_iter time_step h_max l with
      | inl (st, t, sts, s, ev) => mkResult st t sts s (tr ++ ev)
      | inr (l', ev) => ros_loop fuel' time_step h_max l' (tr ++ ev)
      end
    end.

  Definition ros_solve (fuel : nat) (time_step : T) (s : rstate) : result :=
    let h_max := if is_zero (p_h_max p) then time_step else tmin time_step (p_h_max p) in
    let h_start := if is_zero (p_h_start p) then tmax (p_h_min p) delta_min else tmin h_max (p_h_start p) in
    let H0 := tmin (tmax (nabs (p_h_min p)) (nabs h_start)) (nabs h_max) in
    let H := if leb (nabs H0) (ten *! p_round_off p) then delta_min else H0 in
    let r := ros_loop fuel time_step h_max
                      (mkLoop s (n0 N) H stats0 false false (n0 N) true 0) [] in
    mkResult (match r_state r with Running => Converged | st => st end)
             (r_final_time r) (r_stats r) (r_s r) (r_trace r).
End Ros.

Arguments sY {V M F}. Arguments sJac {V M F}. Arguments sLU {V M F}. Arguments sYnew {V M F}.
Arguments sInitF {V M F}. Arguments sK {V M F}. Arguments sYerr {V M F}.
Arguments l_s {N V M F}. Arguments l_t {N V M F}. Arguments l_H {N V M F}. Arguments l_stats {N V M F}.
Arguments l_reject_last {N V M F}. Arguments l_reject_more {N V M F}. Arguments l_last_alpha {N V M F}.
Arguments l_fresh {N V M F}. Arguments l_attempt {N V M F}.
Arguments r_state {N V M F}. Arguments r_final_time {N V M F}. Arguments r_stats {N V M F}.
Arguments r_s {N V M F}. Arguments r_trace {N V M F}.
Arguments EvForcing {N V M}. Arguments EvNegJac {N V M}. Arguments EvFactor {N V M}. Arguments EvSolve {N V M}.
Arguments EvAttempt {N V M}. Arguments EvStep {N V M}.
Arguments p_stages {N}. Arguments p_a {N}. Arguments p_c {N}. Arguments p_m {N}. Arguments p_e {N}.
Arguments p_gamma0 {N}. Arguments p_newf {N}. Arguments p_elo {N}. Arguments p_max_steps {N}.
Arguments p_round_off {N}. Arguments p_factor_min {N}. Arguments p_factor_max {N}. Arguments p_rej_dec {N}.
Arguments p_safety {N}. Arguments p_h_min {N}. Arguments p_h_max {N}. Arguments p_h_start {N}.
