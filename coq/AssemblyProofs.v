(* AssemblyProofs.v — the reordering schema returns a permutation for every pivot heuristic;
   the species map of a built solver is a bijection that agrees with the variable names. *)
From Model Require Import Base BaseProofs Assembly.
From Coq Require Import Permutation.
Local Open Scope nat_scope.

Lemma upd_nth_same {A} i (l : list A) d : upd i (nth i l d) l = l.
Proof.
  revert i; induction l as [|h t IH]; intros [|i]; simpl; auto. f_equal. apply IH.
Qed.

Lemma swap_at_perm l i j : i < length l -> j < length l -> Permutation (swap_at l i j) l.
Proof.
  intros Hi Hj. unfold swap_at.
  destruct (Nat.eq_dec i j) as [->|NE].
  { rewrite !upd_nth_same. apply Permutation_refl. }
  (* l = a ++ x :: b ++ y :: c (wlog i < j), swapped = a ++ y :: b ++ x :: c *)
  assert (G : forall (l : list nat) i j, i < j -> j < length l -> Permutation (swap_at l i j) l).
  { clear. intros l i j Hij Hj. unfold swap_at.
    revert i j Hij Hj; induction l as [|h t IH]; intros i j Hij Hj; simpl in Hj; [lia|].
    destruct j as [|j]; [lia|]. destruct i as [|i].
    - simpl. clear IH.
      (* swap head with position j of the tail *)
      revert h Hj; generalize dependent j. induction t as [|h' t' IHt]; intros j Hij h Hj; simpl in Hj; [lia|].
      destruct j as [|j]; simpl.
      + apply perm_swap.
      + eapply Permutation_trans.
        2:{ apply perm_swap. }
        eapply Permutation_trans.
        { apply perm_swap. }
        apply perm_skip. specialize (IHt j ltac:(lia) h ltac:(lia)). simpl in IHt. exact IHt.
    - simpl. apply perm_skip. apply IH; lia. }
  destruct (Nat.lt_ge_cases i j) as [Hlt|Hge].
  - apply G; assumption.
  - assert (Hji : j < i) by lia.
    assert (E : upd j (nth i l 0) (upd i (nth j l 0) l) = upd i (nth j l 0) (upd j (nth i l 0) l)).
    { apply nth_ext with (d := 0) (d' := 0); [rewrite !upd_length; reflexivity|].
      intros k Hk. rewrite !nth_upd, !upd_length.
      destruct (Nat.eqb_spec j k), (Nat.eqb_spec i k); subst; simpl; try lia; auto. }
    rewrite E. apply (G l j i Hji Hi).
Qed.

Section MarkowitzProofs.
  Variable S : Type.
  Variable choose : S -> nat -> list nat -> nat * S.

  Lemma markowitz_step_perm acc row :
    row < length (fst acc) ->
    Permutation (fst (markowitz_step S choose acc row)) (fst acc) /\
    length (fst (markowitz_step S choose acc row)) = length (fst acc).
  Proof.
    destruct acc as [perm st]. unfold markowitz_step. cbn [fst]. intros Hrow.
    destruct (choose st row perm) as [pick st'].
    set (mr := if (row <=? pick) && (pick <? length perm) then pick else row).
    assert (Hmr : mr < length perm).
    { unfold mr. destruct (Nat.leb_spec row pick); cbn [andb]; [|assumption].
      destruct (Nat.ltb_spec pick (length perm)); assumption. }
    destruct (mr =? row); cbn [fst].
    - split; [apply Permutation_refl|reflexivity].
    - split; [apply swap_at_perm; assumption|]. unfold swap_at. rewrite !upd_length. reflexivity.
  Qed.

  Theorem markowitz_is_permutation n st0 : Permutation (markowitz S choose n st0) (seq 0 n).
  Proof.
    unfold markowitz.
    assert (G : forall rows acc, (forall r, In r rows -> r < length (fst acc)) ->
               Permutation (fst (fold_left (markowitz_step S choose) rows acc)) (fst acc) /\
               length (fst (fold_left (markowitz_step S choose) rows acc)) = length (fst acc)).
    { induction rows as [|r rows IH]; intros acc Hr; cbn [fold_left]; [split; [apply Permutation_refl|reflexivity]|].
      destruct (markowitz_step_perm acc r (Hr r (or_introl eq_refl))) as [P1 L1].
      destruct (IH (markowitz_step S choose acc r)) as [P2 L2].
      { intros r' Hr'. rewrite L1. apply Hr; simpl; auto. }
      split; [eapply Permutation_trans; eassumption|congruence]. }
    destruct (G (seq 0 (n - 1)) (seq 0 n, st0)) as [P _]; [|exact P].
    intros r Hr. rewrite in_seq in Hr. cbn [fst]. rewrite seq_length. lia.
  Qed.
End MarkowitzProofs.

(* ---------------- the species map ---------------- *)
Lemma map_lookup_app m1 m2 k :
  map_lookup (m1 ++ m2) k = match map_lookup m2 k with Some x => Some x | None => map_lookup m1 k end.
Proof.
  induction m1 as [|[k0 v0] m1 IH]; simpl; [destruct (map_lookup m2 k); reflexivity|].
  rewrite IH. destruct (map_lookup m2 k); [reflexivity|]. reflexivity.
Qed.

Lemma map_lookup_combine_notin keys k st :
  ~ In k keys -> map_lookup (combine keys (seq st (length keys))) k = None.
Proof.
  revert st; induction keys as [|k' keys IH]; intros st Hn; cbn [combine seq length map_lookup]; [reflexivity|].
  rewrite IH by (intros H; apply Hn; simpl; auto).
  destruct (Nat.eqb_spec k' k); [subst; exfalso; apply Hn; simpl; auto|reflexivity].
Qed.

Lemma map_lookup_combine_nodup keys i d :
  NoDup keys -> i < length keys ->
  map_lookup (combine keys (seq 0 (length keys))) (nth i keys d) = Some i.
Proof.
  intros Hnd Hi.
  assert (G : forall start, map_lookup (combine keys (seq start (length keys))) (nth i keys d) = Some (start + i)).
  { revert i Hi; induction keys as [|k keys IH]; intros i Hi start; simpl in Hi; [lia|].
    inversion Hnd as [|? ? Hnotin Hnd']; subst. destruct i as [|i]; cbn [combine seq length nth map_lookup].
    - rewrite (map_lookup_combine_notin keys k (S start) Hnotin). rewrite Nat.eqb_refl. f_equal. lia.
    - rewrite (IH Hnd' i ltac:(lia) (S start)). f_equal. lia. }
  exact (G 0).
Qed.

(* with duplicate-free names and a permutation: every reordered name maps to its position, the
   map's values are exactly 0..n-1 once each (bijection), whether or not the state is reordered *)
Theorem species_map_bijection names (reorder : option (list nat)) :
  NoDup names ->
  (match reorder with Some perm => Permutation perm (seq 0 (length names)) | None => True end) ->
  let final := match reorder with Some perm => reordered_names names perm | None => names end in
  NoDup final /\ Permutation final names /\
  forall i, i < length names -> map_lookup (species_map names reorder) (nth i final 0) = Some i.
Proof.
  intros Hnd Hperm. destruct reorder as [perm|]; cbv zeta.
  - assert (Hlen : length perm = length names) by (rewrite (Permutation_length Hperm), seq_length; reflexivity).
    assert (Hfinal : Permutation (reordered_names names perm) names).
    { unfold reordered_names.
      (* map (fun i => names[perm[i]]) (seq 0 n) = map (nth . names) perm, a permutation of map (nth . names) (seq 0 n) = names *)
      assert (E1 : map (fun i => nth (nth i perm 0) names 0) (seq 0 (length names)) = map (fun j => nth j names 0) perm).
      { rewrite <- Hlen. clear. induction perm as [|a l IH] using rev_ind; [reflexivity|].
        rewrite app_length, Nat.add_comm. cbn [plus length]. rewrite seq_S, !map_app. cbn [map plus].
        rewrite app_nth2 by lia. rewrite Nat.sub_diag. cbn [nth]. f_equal.
        rewrite <- IH. apply map_ext_in. intros i Hi. rewrite in_seq in Hi. rewrite app_nth1 by lia. reflexivity. }
      rewrite E1.
      eapply Permutation_trans; [apply Permutation_map; exact Hperm|].
      clear. induction names as [|a l IH] using rev_ind; [apply Permutation_refl|].
      rewrite app_length, Nat.add_comm. cbn [plus length]. rewrite seq_S, map_app. cbn [map plus].
      rewrite app_nth2 by lia. rewrite Nat.sub_diag. cbn [nth].
      apply Permutation_app_tail.
      erewrite map_ext_in; [exact IH|]. intros i Hi. rewrite in_seq in Hi. rewrite app_nth1 by lia. reflexivity. }
    assert (Hndf : NoDup (reordered_names names perm)) by (eapply Permutation_NoDup; [apply Permutation_sym; exact Hfinal|exact Hnd]).
    split; [exact Hndf|]. split; [exact Hfinal|].
    intros i Hi. unfold species_map. rewrite map_lookup_app.
    assert (Hl : length (reordered_names names perm) = length names) by (unfold reordered_names; rewrite map_length, seq_length; reflexivity).
    rewrite <- Hl at 1.
    rewrite (map_lookup_combine_nodup (reordered_names names perm) i 0 Hndf) by lia. reflexivity.
  - split; [exact Hnd|]. split; [apply Permutation_refl|].
    intros i Hi. unfold species_map. apply map_lookup_combine_nodup; assumption.
Qed.
