(* Properties_C08.v — C08: each built-in Rosenbrock coefficient set is a consistent method of
   its documented order with an embedded estimator one order lower, its tabulated abscissae and
   row sums agree with its matrices, and its stability function vanishes at infinity to the
   precision of the tabulated coefficients.
   gen/RosParams.v is regenerated from /repo's headers on every run (tools/params2coq.py), so
   these theorems are re-checked against what the code says now.  The domain is finite (five
   tables of exact binary64 values), so vm_compute over Q is a proof. *)
From Coq Require Import QArith List.
From Model Require Import RosOrder RosParams.
Import ListNotations.

(* check_table t p rtol: conditions of order 1..p hold for b within 2^-40; for p < 4 some
   condition of order p+1 fails by more than 1e-3 (the order is exactly p); the embedded
   weights have order exactly p-1; alpha_[i] = sum_j alpha_ij and gamma_[i] = sum_j gamma_ij
   within 2^-40; |R(inf)| <= rtol; the packed a_/c_ indices stay inside the 15-slot arrays;
   estimator_of_local_order_ = p. *)
Theorem C08_two_stage_is_order_2 : check_table two_stage 2 tol40 = true.
Proof. vm_compute. reflexivity. Qed.
Theorem C08_three_stage_is_order_3 : check_table three_stage 3 tol40 = true.
Proof. vm_compute. reflexivity. Qed.
(* the four-stage set tabulates gamma to five digits: |R(inf)| <= 2e-5 *)
Theorem C08_four_stage_is_order_4 : check_table four_stage 4 (1 # 50000) = true.
Proof. vm_compute. reflexivity. Qed.
Theorem C08_four_stage_da_is_order_3 : check_table four_stage_da 3 tol40 = true.
Proof. vm_compute. reflexivity. Qed.
Theorem C08_six_stage_da_is_order_4 : check_table six_stage_da 4 tol40 = true.
Proof. vm_compute. reflexivity. Qed.
Print Assumptions C08_six_stage_da_is_order_4.

(* side conditions on the default controls used by the step-size theorems of C06/C07 *)
Definition Qltb (a b : Q) : bool := negb (Qle_bool b a).
Definition defaults_ok (d : ros_defaults) : bool :=
  Qltb 0 (rd_round_off d) && Qltb 0 (rd_factor_min d) && Qltb (rd_factor_min d) 1 &&
  Qltb 1 (rd_factor_max d) && Qltb 0 (rd_safety_factor d) && Qltb (rd_safety_factor d) 1 &&
  Qltb 0 (rd_rejection_factor_decrease d) && Qltb (rd_rejection_factor_decrease d) 1 &&
  Qle_bool 0 (rd_h_min d) && Qeq_bool (rd_h_max d) 0 && Qeq_bool (rd_h_start d) 0 && N.ltb 0 (rd_max_steps d).

Theorem C08_defaults_are_legal :
  forallb defaults_ok [two_stage_defaults; three_stage_defaults; four_stage_defaults;
                       four_stage_da_defaults; six_stage_da_defaults] = true /\
  forallb (fun r => Qltb 0 r && Qltb r 1) be_time_step_reductions = true /\
  Qltb 0 delta_min = true.
Proof. vm_compute. repeat split. Qed.
Print Assumptions C08_defaults_are_legal.
