(* Base.v — numeric structure, lists used as arrays, finite sums.
   Model files contain definitions and the small lemmas every later file needs. *)
From Coq Require Export List Arith ZArith Lia Bool.
Export ListNotations.
Local Open Scope nat_scope.

(* ------------------------------------------------------------------ *)
(* Numeric structure: the model is parametric in it.                   *)
Record Num := mkNum {
  T    : Type;
  n0   : T;
  n1   : T;
  nadd : T -> T -> T;
  nsub : T -> T -> T;
  nmul : T -> T -> T;
  ndiv : T -> T -> T;
  nopp : T -> T;
  ninv : T -> T
}.

(* ------------------------------------------------------------------ *)
(* Lists as arrays                                                     *)
Section Arr.
  Context {A : Type}.

  Fixpoint upd (i : nat) (v : A) (l : list A) : list A :=
    match l, i with
    | [], _ => []
    | _ :: t, O => v :: t
    | h :: t, S j => h :: upd j v t
    end.

  Lemma upd_length i v l : length (upd i v l) = length l.
  Proof. revert i; induction l as [|h t IH]; intros [|i]; simpl; auto. Qed.

  Lemma nth_upd_eq i v l d : i < length l -> nth i (upd i v l) d = v.
  Proof.
    revert i; induction l as [|h t IH]; intros [|i] Hi; simpl in *; try lia; auto.
    apply IH; lia.
  Qed.

  Lemma nth_upd_neq i j v l d : i <> j -> nth j (upd i v l) d = nth j l d.
  Proof.
    revert i j; induction l as [|h t IH]; intros [|i] [|j] Hij; simpl; auto; try lia.
  Qed.

  Lemma upd_oob i v l : length l <= i -> upd i v l = l.
  Proof.
    revert i; induction l as [|h t IH]; intros [|i] Hi; simpl in *; auto; try lia.
    f_equal; apply IH; lia.
  Qed.

  Lemma nth_upd i j v l d :
    nth j (upd i v l) d = if (Nat.eqb i j && Nat.ltb i (length l))%bool then v else nth j l d.
  Proof.
    destruct (Nat.eqb_spec i j) as [->|Hne]; simpl.
    - destruct (Nat.ltb_spec j (length l)) as [Hlt|Hge].
      + apply nth_upd_eq; auto.
      + rewrite upd_oob; auto.
    - apply nth_upd_neq; auto.
  Qed.

  (* modify in place: a[i] := f a[i] *)
  Definition modify (d : A) (i : nat) (f : A -> A) (l : list A) : list A :=
    upd i (f (nth i l d)) l.

  Lemma modify_length d i f l : length (modify d i f l) = length l.
  Proof. apply upd_length. Qed.

  (* slice [a, b) ; empty when b <= a *)
  Definition slice (a b : nat) (l : list A) : list A := firstn (b - a) (skipn a l).
End Arr.

(* index of first occurrence in a nat list *)
Fixpoint index_of (x : nat) (l : list nat) : option nat :=
  match l with
  | [] => None
  | h :: t => if Nat.eqb h x then Some 0
              else match index_of x t with Some k => Some (S k) | None => None end
  end.

Lemma index_of_some x l k : index_of x l = Some k -> k < length l /\ nth k l 0 = x.
Proof.
  revert k; induction l as [|h t IH]; simpl; intros k H; [discriminate|].
  destruct (Nat.eqb_spec h x) as [->|Hne].
  - inversion H; subst; simpl; split; [lia|reflexivity].
  - destruct (index_of x t) as [k'|]; [|discriminate].
    inversion H; subst. destruct (IH k' eq_refl); simpl; split; [lia|auto].
Qed.

Lemma index_of_none x l : index_of x l = None -> ~ In x l.
Proof.
  induction l as [|h t IH]; simpl; intros H; [tauto|].
  destruct (Nat.eqb_spec h x) as [->|Hne]; [discriminate|].
  destruct (index_of x t); [discriminate|].
  intros [E|E]; [congruence| apply IH; auto].
Qed.

Lemma index_of_in x l : In x l -> exists k, index_of x l = Some k.
Proof.
  induction l as [|h t IH]; simpl; intros H; [tauto|].
  destruct (Nat.eqb_spec h x) as [->|Hne]; [eauto|].
  destruct H as [E|H]; [congruence|]. destruct (IH H) as [k ->]. eauto.
Qed.

(* ------------------------------------------------------------------ *)
(* Lock-step walk over a flattened table (DESIGN A.1)                  *)
Section Walk.
  Context {A S : Type}.
  Fixpoint walk (counts : list nat) (flat : list A) (f : S -> list A -> S) (s : S) : S :=
    match counts with
    | [] => s
    | n :: cs => walk cs (skipn n flat) f (f s (firstn n flat))
    end.

  Lemma walk_concat (ls : list (list A)) f s :
    walk (map (@length A) ls) (concat ls) f s = fold_left f ls s.
  Proof.
    revert s; induction ls as [|l ls IH]; intros s; simpl; auto.
    rewrite skipn_app, skipn_all, Nat.sub_diag; simpl.
    rewrite firstn_app, firstn_all, Nat.sub_diag; simpl.
    rewrite app_nil_r. apply IH.
  Qed.
End Walk.

(* iterate f over 0..n-1 *)
Fixpoint for_n {S : Type} (n : nat) (f : nat -> S -> S) (s : S) : S :=
  match n with
  | O => s
  | S k => f k (for_n k f s)
  end.

(* sum over 0..n-1 in a Num *)
Fixpoint nsum (N : Num) (n : nat) (f : nat -> T N) : T N :=
  match n with
  | O => n0 N
  | S k => nadd N (nsum N k f) (f k)
  end.

Definition nsum_list (N : Num) (l : list (T N)) : T N := fold_left (nadd N) l (n0 N).
Definition nprod_list (N : Num) (l : list (T N)) : T N := fold_left (nmul N) l (n1 N).
