(* MarkowitzReal.v — the pivot choice DiagonalMarkowitzReorder actually makes (linear_solver.inl), as an instance of
   the heuristic parameter of Assembly.markowitz: for every candidate col in [row, n) the product
   (count_a - 1) * (count_b - 1) of the non-zeros of row col and of column col within the trailing block, in size_t
   arithmetic (the subtraction wraps when a count is 0), strictly below the running minimum that starts at (n-1)^2;
   then the partial swap of rows and columns of the working pattern and its fill-in.  Executable: this is the
   function the correspondence check runs against the real routine. *)
From Model Require Import Base LU Assembly.
From Coq Require Import ZArith List.
Import ListNotations.
Local Open Scope nat_scope.

Definition pat2 := nat -> nat -> bool.
Definition wrap64 (z : Z) : Z := (z mod 18446744073709551616)%Z.     (* std::size_t is 64 bits wide *)
Definition count_true (f : nat -> bool) (a b : nat) : Z := Z.of_nat (length (filter f (range a b))).

Definition mk_count (n row col : nat) (P : pat2) : Z :=
  let ca := count_true (fun i => P col i) row n in
  let cb := count_true (fun i => P i col) row n in
  wrap64 (wrap64 (ca - 1) * wrap64 (cb - 1)).

Definition pick_row (n row : nat) (P : pat2) : nat :=
  snd (fold_left (fun (acc : Z * nat) col =>
                    let c := mk_count n row col P in
                    if (c <? fst acc)%Z then (c, col) else acc)
                 (range row n) (Z.of_nat ((n - 1) * (n - 1)), row)).

(* for i in [row, n): swap(P[row][i], P[mr][i]); then for i in [row, n): swap(P[i][row], P[i][mr]) *)
Definition swap_pat (n row mr : nat) (P : pat2) : pat2 :=
  let P1 : pat2 := fun r c =>
    if (row <=? c) && (c <? n) then (if r =? row then P mr c else if r =? mr then P row c else P r c) else P r c in
  fun r c =>
    if (row <=? r) && (r <? n) then (if c =? row then P1 r mr else if c =? mr then P1 r row else P1 r c) else P1 r c.

(* for col in (row, n): if P[row][col] then for i in (row, n): P[i][col] = P[i][row] || P[i][col] *)
Definition fill_pat (n row : nat) (P : pat2) : pat2 :=
  fun i col =>
    if (row <? col) && (col <? n) && (row <? i) && (i <? n) && P row col then P i row || P i col else P i col.

Definition real_choose (n : nat) (P : pat2) (row : nat) (perm : list nat) : nat * pat2 :=
  let mr := pick_row n row P in
  let P' := if mr =? row then P else swap_pat n row mr P in
  (mr, fill_pat n row P').

Definition markowitz_real (n : nat) (P : pat2) : list nat := markowitz pat2 (real_choose n) n P.

(* the pattern of a list of rows of 0/1 *)
Definition pat2_of (rows : list (list bool)) : pat2 := fun r c => nth c (nth r rows []) false.
